// Package fakepg is an in-process fake of PostgreSQL that speaks the real wire
// protocol (github.com/jackc/pgproto3/v2), so that the unmodified repository code
// (pgxpool + sqlc generated query packages) can run against it. There is no SQL
// engine: every statement the repository can send has a hand-written Go handler,
// selected by the SHA-256 of the exact statement text. See README.md.
package fakepg

import (
	"context"
	"fmt"
	"net"
	"sort"
	"strings"
	"sync"

	"github.com/jackc/pgx/v4/pgxpool"
)

// Event kinds. Protocol messages (client -> server) are passed to the fault
// hook before they are processed and are logged; outcome events are only logged.
const (
	// protocol messages
	KindStartup   = "Startup"
	KindParse     = "Parse"
	KindBind      = "Bind"
	KindDescribe  = "Describe"
	KindExecute   = "Execute"
	KindSync      = "Sync"
	KindQuery     = "Query" // simple query protocol; Stmt is "begin", "commit", "rollback", a sqlc name, "script", ...
	KindClose     = "Close"
	KindFlush     = "Flush"
	KindTerminate = "Terminate"
	// outcomes
	KindExec     = "exec"     // a statement handler ran (Stmt, Rows, Err)
	KindBegin    = "begin"    // transaction opened
	KindCommit   = "commit"   // transaction installed (Tables, Conflicts)
	KindRollback = "rollback" // transaction discarded (explicit, failed commit, or connection loss)
	KindError    = "error"    // ErrorResponse sent that did not come from a handler (protocol, fault, 25P02)
	KindDrop     = "drop"     // connection closed by a fault
	KindConnEnd  = "connend"  // connection ended (client closed / terminated)
)

// Event is one entry of the server log, and the argument of the fault hook.
type Event struct {
	Seq  int    // global sequence number (over all connections), starts at 1
	Conn int    // connection id, starts at 1
	Kind string // Kind* constant
	// Stmt: sqlc query name ("InsertEon"), or "begin"/"commit"/"rollback"/"savepoint"/...,
	// "script" for DDL scripts, "" for Sync/Flush/Terminate.
	Stmt string
	// ID is "schema/Name" of the statement if it resolved to a handler.
	ID   string
	InTx bool // a transaction is open on this connection (before the message is processed)
	// outcome fields
	Rows      int      // rows returned or affected (exec)
	Err       string   // SQLSTATE if the step failed
	Msg       string   // error message / note
	Tables    []string // commit: tables the transaction changed
	Conflicts []string // commit: "Table[key]" rows changed by this transaction and concurrently by another commit (this transaction won)
}

func (e Event) String() string {
	s := fmt.Sprintf("#%d c%d %s %s", e.Seq, e.Conn, e.Kind, e.Stmt)
	if e.InTx {
		s += " [tx]"
	}
	if e.Err != "" {
		s += " err=" + e.Err
	}
	return s
}

// IsMessage reports whether the event is a client->server protocol message.
func (e Event) IsMessage() bool { return e.Kind != "" && e.Kind[0] >= 'A' && e.Kind[0] <= 'Z' }

// FaultKind selects what a Fault does.
type FaultKind int

const (
	FaultNone FaultKind = iota
	// FaultDropBefore closes the connection without processing the message.
	FaultDropBefore
	// FaultDropAfterCommit processes the message completely (for Query "commit":
	// the transaction is installed; for an autocommit Execute/Query: the statement
	// takes effect), then closes the connection without sending any reply. Inside
	// an open transaction on a message other than "commit" the work is lost with
	// the connection, exactly like FaultDropBefore.
	FaultDropAfterCommit
	// FaultSQLError does not process the message and replies with an ErrorResponse;
	// an open transaction goes into the failed state.
	FaultSQLError
)

// Fault is the decision of the fault hook.
type Fault struct {
	Kind    FaultKind
	Code    string // SQLSTATE for FaultSQLError (default "XX000")
	Message string
}

var (
	None            = Fault{}
	DropBefore      = Fault{Kind: FaultDropBefore}
	DropAfterCommit = Fault{Kind: FaultDropAfterCommit}
	SQLError        = Fault{Kind: FaultSQLError}
)

// Server is one fake database server holding one database.
type Server struct {
	mu       sync.Mutex
	db       *DB
	seq      int
	nextConn int
	log      []Event
	fault    func(Event) Fault
	hookMu   sync.RWMutex
	rowOrder func(stmt string, n int) []int
	pinBad   map[string]bool
	strict   bool
	logOff   bool

	lnMu      sync.Mutex
	listeners []net.Listener
	conns     map[net.Conn]struct{}
}

// New returns a server whose database is in the state right after all schema
// files and migrations ran (NewDB).
func New() *Server {
	return &Server{db: NewDB(), pinBad: map[string]bool{}, strict: true, conns: map[net.Conn]struct{}{}}
}

// SetStrictPins controls what happens when a statement arrives whose sqlc name
// is implemented but whose text differs from the pinned text. true (default):
// the statement fails with SQLSTATE 0A000. false: the handler registered for the
// name is used anyway (only if the name is unambiguous). Either way the
// statement is listed by PinMismatches.
func (s *Server) SetStrictPins(strict bool) {
	s.mu.Lock()
	s.strict = strict
	s.mu.Unlock()
}

// PinMismatches lists, sorted: statements received whose text differs from the
// pinned text ("changed: <name>"), statements received that have no handler
// ("unhandled: <name or text prefix>"), scripts executed that are not pinned
// ("unpinned script: ..."), and handlers registered without a pin.
func (s *Server) PinMismatches() []string {
	s.mu.Lock()
	defer s.mu.Unlock()
	out := append([]string{}, regProblems...)
	for k := range s.pinBad {
		out = append(out, k)
	}
	sort.Strings(out)
	return out
}

func (s *Server) notePin(msg string) {
	s.mu.Lock()
	s.pinBad[msg] = true
	s.mu.Unlock()
}

// SetFault installs the fault hook (nil removes it). It is called for every
// client->server protocol message before the message is processed, from the
// goroutine serving that connection, without the server lock held.
func (s *Server) SetFault(f func(ev Event) Fault) {
	s.mu.Lock()
	s.fault = f
	s.mu.Unlock()
}

// SetRowOrder installs a hook that chooses the "physical" row order for result
// sets whose order SQL leaves (partly) unspecified: it gets the statement name
// and the number of candidate rows and returns a permutation of 0..n-1 that is
// applied before any ORDER BY (stable sort). nil: insertion order.
func (s *Server) SetRowOrder(f func(stmt string, n int) []int) {
	s.hookMu.Lock()
	s.rowOrder = f
	s.hookMu.Unlock()
}

func (s *Server) rowOrderHook() func(string, int) []int {
	s.hookMu.RLock()
	defer s.hookMu.RUnlock()
	return s.rowOrder
}

// Log returns a copy of the event log.
func (s *Server) Log() []Event {
	s.mu.Lock()
	defer s.mu.Unlock()
	return append([]Event{}, s.log...)
}

// ResetLog empties the log (sequence numbers keep counting).
func (s *Server) ResetLog() {
	s.mu.Lock()
	s.log = nil
	s.mu.Unlock()
}

// SetLogging switches event recording on/off (sequence numbers and the fault
// hook keep working). Useful for long running servers (cmd/fakepgd).
func (s *Server) SetLogging(on bool) {
	s.mu.Lock()
	s.logOff = !on
	s.mu.Unlock()
}

// record assigns the sequence number and appends to the log.
func (s *Server) record(ev Event) Event {
	s.mu.Lock()
	ev = s.recordLocked(ev)
	s.mu.Unlock()
	return ev
}

func (s *Server) recordLocked(ev Event) Event {
	s.seq++
	ev.Seq = s.seq
	if !s.logOff {
		s.log = append(s.log, ev)
	}
	return ev
}

// DB returns the live shared database. Only touch it while no connection is
// executing statements, or between Lock/Unlock, or use View/Update.
func (s *Server) DB() *DB { return s.db }

// Lock / Unlock take the server lock that every statement execution takes.
func (s *Server) Lock()   { s.mu.Lock() }
func (s *Server) Unlock() { s.mu.Unlock() }

// View runs f on the shared (committed) database under the server lock.
func (s *Server) View(f func(db *DB)) {
	s.mu.Lock()
	defer s.mu.Unlock()
	f(s.db)
}

// Update is View for writers (seeding).
func (s *Server) Update(f func(db *DB)) { s.View(f) }

// Snapshot returns a deep copy of the committed database.
func (s *Server) Snapshot() *DB {
	s.mu.Lock()
	defer s.mu.Unlock()
	return s.db.Clone()
}

// Restore replaces the committed database by a deep copy of db. Open
// transactions keep their private copies (and will be merged on commit).
func (s *Server) Restore(db *DB) {
	cp := db.Clone()
	s.mu.Lock()
	*s.db = *cp
	s.mu.Unlock()
}

// PoolOption adjusts the pgxpool configuration used by Pool.
type PoolOption func(*pgxpool.Config)

// MaxConns limits the pool size (pgx default is max(4, NumCPU)).
func MaxConns(n int32) PoolOption { return func(c *pgxpool.Config) { c.MaxConns = n } }

// Pool returns a real *pgxpool.Pool whose connections are net.Pipe pairs served
// by this server. Close it with pool.Close().
func (s *Server) Pool(ctx context.Context, opts ...PoolOption) (*pgxpool.Pool, error) {
	cfg, err := pgxpool.ParseConfig("postgres://fakepg@fakepg.invalid:5432/fakepg?sslmode=disable")
	if err != nil {
		return nil, err
	}
	cfg.ConnConfig.LookupFunc = func(ctx context.Context, host string) ([]string, error) {
		return []string{"127.0.0.1"}, nil
	}
	cfg.ConnConfig.DialFunc = func(ctx context.Context, network, addr string) (net.Conn, error) {
		return s.Dial(), nil
	}
	for _, o := range opts {
		o(cfg)
	}
	return pgxpool.ConnectConfig(ctx, cfg)
}

// Dial returns the client end of a new in-memory connection to the server.
func (s *Server) Dial() net.Conn {
	client, server := net.Pipe()
	s.track(server, true)
	go s.serve(server)
	return client
}

func (s *Server) track(c net.Conn, add bool) {
	s.lnMu.Lock()
	if add {
		s.conns[c] = struct{}{}
	} else {
		delete(s.conns, c)
	}
	s.lnMu.Unlock()
}

// ListenTCP starts listening on 127.0.0.1 (random port) and returns a URL for
// pgxpool.Connect / ROLLING_SHUTTER_TESTDB_URL.
func (s *Server) ListenTCP() (url string, closeFn func(), err error) {
	return s.ListenAddr("127.0.0.1:0")
}

// ListenAddr is ListenTCP with a chosen address.
func (s *Server) ListenAddr(addr string) (url string, closeFn func(), err error) {
	ln, err := net.Listen("tcp", addr)
	if err != nil {
		return "", nil, err
	}
	s.lnMu.Lock()
	s.listeners = append(s.listeners, ln)
	s.lnMu.Unlock()
	go func() {
		for {
			c, err := ln.Accept()
			if err != nil {
				return
			}
			s.track(c, true)
			go s.serve(c)
		}
	}()
	url = fmt.Sprintf("postgres://fakepg:fakepg@%s/fakepg?sslmode=disable", ln.Addr().String())
	return url, func() { ln.Close() }, nil
}

// Close stops all listeners and closes all server-side connections.
func (s *Server) Close() {
	s.lnMu.Lock()
	for _, ln := range s.listeners {
		ln.Close()
	}
	s.listeners = nil
	var cs []net.Conn
	for c := range s.conns {
		cs = append(cs, c)
	}
	s.lnMu.Unlock()
	for _, c := range cs {
		c.Close()
	}
}

// RoundTrips counts the client round trips in a log: every Sync and every
// simple Query ends one.
func RoundTrips(log []Event) int {
	n := 0
	for _, e := range log {
		if e.Kind == KindSync || e.Kind == KindQuery {
			n++
		}
	}
	return n
}

// FormatLog renders a log, one event per line.
func FormatLog(log []Event) string {
	var sb strings.Builder
	for _, e := range log {
		sb.WriteString(e.String())
		if e.Msg != "" {
			sb.WriteString(" " + e.Msg)
		}
		if len(e.Tables) > 0 {
			sb.WriteString(" tables=" + strings.Join(e.Tables, ","))
		}
		if len(e.Conflicts) > 0 {
			sb.WriteString(" conflicts=" + strings.Join(e.Conflicts, ","))
		}
		sb.WriteByte('\n')
	}
	return sb.String()
}
