package fakepg

import (
	"flag"
	"testing"
)

// TestZZAllHandlersExercised must run last (file order): every registered
// statement went through a real pgxpool + sqlc Queries in some test above.
func TestZZAllHandlersExercised(t *testing.T) {
	if f := flag.Lookup("test.run"); f != nil && f.Value.String() != "" {
		t.Skip("only meaningful when all tests ran")
	}
	exercisedMu.Lock()
	defer exercisedMu.Unlock()
	for _, id := range Statements() {
		if !exercised[id] {
			t.Errorf("handler %s was never exercised through the wire protocol", id)
		}
	}
}
