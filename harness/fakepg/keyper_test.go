package fakepg

import (
	"bytes"
	"context"
	"database/sql"
	"errors"
	"reflect"
	"sync"
	"testing"
	"time"

	"github.com/jackc/pgconn"
	"github.com/jackc/pgx/v4"
	"github.com/jackc/pgx/v4/pgxpool"

	kprdb "github.com/shutter-network/rolling-shutter/rolling-shutter/keyper/database"
	metadb "github.com/shutter-network/rolling-shutter/rolling-shutter/medley/db"
	"github.com/shutter-network/rolling-shutter/rolling-shutter/shmsg"
)

// ---- shared test helpers ----

var (
	exercisedMu sync.Mutex
	exercised   = map[string]bool{} // statement ids that ran through the wire protocol in any test
)

func noteExercised(s *Server) {
	exercisedMu.Lock()
	defer exercisedMu.Unlock()
	for _, e := range s.Log() {
		if e.Kind == KindExec && e.ID != "" {
			exercised[e.ID] = true
		}
	}
}

func setup(t *testing.T, opts ...PoolOption) (context.Context, *Server, *pgxpool.Pool) {
	t.Helper()
	ctx, cancel := context.WithTimeout(context.Background(), 30*time.Second)
	s := New()
	pool, err := s.Pool(ctx, opts...)
	if err != nil {
		t.Fatal(err)
	}
	t.Cleanup(func() {
		noteExercised(s)
		if pm := s.PinMismatches(); len(pm) != 0 && !t.Failed() && !expectPinMismatch[t.Name()] {
			t.Errorf("pin mismatches: %v", pm)
		}
		pool.Close()
		s.Close()
		cancel()
	})
	return ctx, s, pool
}

var expectPinMismatch = map[string]bool{}

func code(err error) string {
	var pe *pgconn.PgError
	if errors.As(err, &pe) {
		return pe.Code
	}
	if err == nil {
		return "<nil>"
	}
	return "<" + err.Error() + ">"
}

func wantCode(t *testing.T, err error, c string) {
	t.Helper()
	if code(err) != c {
		t.Fatalf("want SQLSTATE %s, got %v", c, err)
	}
}

func ok(t *testing.T, err error) {
	t.Helper()
	if err != nil {
		t.Fatal(err)
	}
}

func eq(t *testing.T, got, want interface{}) {
	t.Helper()
	if !reflect.DeepEqual(got, want) {
		t.Fatalf("got  %#v\nwant %#v", got, want)
	}
}

func noRows(t *testing.T, err error) {
	t.Helper()
	if !errors.Is(err, pgx.ErrNoRows) {
		t.Fatalf("want pgx.ErrNoRows, got %v", err)
	}
}

// ---- meta ----

func TestMetaQueries(t *testing.T) {
	ctx, s, pool := setup(t)
	q := metadb.New(pool)
	_, err := q.GetMeta(ctx, "k")
	noRows(t, err)
	ok(t, q.InsertMeta(ctx, metadb.InsertMetaParams{Key: "k", Value: "v1"}))
	wantCode(t, q.InsertMeta(ctx, metadb.InsertMetaParams{Key: "k", Value: "v2"}), "23505")
	v, err := q.GetMeta(ctx, "k")
	ok(t, err)
	eq(t, v, "v1")
	ok(t, q.UpdateMeta(ctx, metadb.UpdateMetaParams{Key: "k", Value: "v3"}))
	ok(t, q.UpdateMeta(ctx, metadb.UpdateMetaParams{Key: "absent", Value: "zzz"}))
	v, _ = q.GetMeta(ctx, "k")
	eq(t, v, "v3")
	eq(t, s.Snapshot().MetaInf, []metadb.MetaInf{{Key: "k", Value: "v3"}})
}

// ---- keyper ----

func TestKeyperKeysAndShares(t *testing.T) {
	ctx, s, pool := setup(t)
	q := kprdb.New(pool)
	ep := []byte{1, 2, 3}

	tag, err := q.InsertDecryptionKey(ctx, kprdb.InsertDecryptionKeyParams{Eon: 1, EpochID: ep, DecryptionKey: []byte("key")})
	ok(t, err)
	eq(t, tag.RowsAffected(), int64(1))
	tag, err = q.InsertDecryptionKey(ctx, kprdb.InsertDecryptionKeyParams{Eon: 1, EpochID: ep, DecryptionKey: []byte("other")})
	ok(t, err)
	eq(t, tag.RowsAffected(), int64(0)) // ON CONFLICT DO NOTHING
	// NULL value in nullable column; empty (non-NULL) epoch id
	_, err = q.InsertDecryptionKey(ctx, kprdb.InsertDecryptionKeyParams{Eon: 2, EpochID: []byte{}, DecryptionKey: nil})
	ok(t, err)
	// NULL in primary key column
	_, err = q.InsertDecryptionKey(ctx, kprdb.InsertDecryptionKeyParams{Eon: 2, EpochID: nil, DecryptionKey: nil})
	wantCode(t, err, "23502")

	k, err := q.GetDecryptionKey(ctx, kprdb.GetDecryptionKeyParams{Eon: 1, EpochID: ep})
	ok(t, err)
	eq(t, k, kprdb.DecryptionKey{Eon: 1, EpochID: ep, DecryptionKey: []byte("key")})
	k, err = q.GetDecryptionKey(ctx, kprdb.GetDecryptionKeyParams{Eon: 2, EpochID: []byte{}})
	ok(t, err)
	if k.DecryptionKey != nil || k.EpochID == nil || len(k.EpochID) != 0 {
		t.Fatalf("NULL / empty bytea not preserved: %#v", k)
	}
	_, err = q.GetDecryptionKey(ctx, kprdb.GetDecryptionKeyParams{Eon: 3, EpochID: ep})
	noRows(t, err)
	ex, err := q.ExistsDecryptionKey(ctx, kprdb.ExistsDecryptionKeyParams{Eon: 1, EpochID: ep})
	ok(t, err)
	eq(t, ex, true)
	ex, _ = q.ExistsDecryptionKey(ctx, kprdb.ExistsDecryptionKeyParams{Eon: 9, EpochID: ep})
	eq(t, ex, false)

	for _, idx := range []int64{2, 0, 1, 0} { // last one is a duplicate
		ok(t, q.InsertDecryptionKeyShare(ctx, kprdb.InsertDecryptionKeyShareParams{Eon: 1, EpochID: ep, KeyperIndex: idx, DecryptionKeyShare: []byte{byte(idx)}}))
	}
	ok(t, q.InsertDecryptionKeyShare(ctx, kprdb.InsertDecryptionKeyShareParams{Eon: 1, EpochID: []byte{9}, KeyperIndex: 0, DecryptionKeyShare: []byte{7}}))
	shares, err := q.SelectDecryptionKeyShares(ctx, kprdb.SelectDecryptionKeySharesParams{Eon: 1, EpochID: ep})
	ok(t, err)
	eq(t, len(shares), 3)
	eq(t, []int64{shares[0].KeyperIndex, shares[1].KeyperIndex, shares[2].KeyperIndex}, []int64{2, 0, 1}) // insertion order
	sh, err := q.GetDecryptionKeyShare(ctx, kprdb.GetDecryptionKeyShareParams{Eon: 1, EpochID: ep, KeyperIndex: 1})
	ok(t, err)
	eq(t, sh.DecryptionKeyShare, []byte{1})
	_, err = q.GetDecryptionKeyShare(ctx, kprdb.GetDecryptionKeyShareParams{Eon: 1, EpochID: ep, KeyperIndex: 5})
	noRows(t, err)
	ex, _ = q.ExistsDecryptionKeyShare(ctx, kprdb.ExistsDecryptionKeyShareParams{Eon: 1, EpochID: ep, KeyperIndex: 2})
	eq(t, ex, true)
	ex, _ = q.ExistsDecryptionKeyShare(ctx, kprdb.ExistsDecryptionKeyShareParams{Eon: 1, EpochID: ep, KeyperIndex: 3})
	eq(t, ex, false)
	n, err := q.CountDecryptionKeyShares(ctx, kprdb.CountDecryptionKeySharesParams{Eon: 1, EpochID: ep})
	ok(t, err)
	eq(t, n, int64(3))

	// row order hook: reverse the "physical" order of unordered results
	s.SetRowOrder(func(stmt string, n int) []int {
		p := make([]int, n)
		for i := range p {
			p[i] = n - 1 - i
		}
		return p
	})
	shares, _ = q.SelectDecryptionKeyShares(ctx, kprdb.SelectDecryptionKeySharesParams{Eon: 1, EpochID: ep})
	eq(t, []int64{shares[0].KeyperIndex, shares[1].KeyperIndex, shares[2].KeyperIndex}, []int64{1, 0, 2})
	s.SetRowOrder(nil)

	// the extend.go helpers of the repository on top
	eq(t, len(s.Snapshot().DecryptionKeyShare), 4)
}

func TestKeyperBatchConfigsAndEons(t *testing.T) {
	ctx, _, pool := setup(t)
	q := kprdb.New(pool)

	_, err := q.GetLatestBatchConfig(ctx)
	noRows(t, err)
	n, err := q.CountBatchConfigs(ctx)
	ok(t, err)
	eq(t, n, int64(0))
	cfg := func(i int32, act int64, keypers ...string) kprdb.InsertBatchConfigParams {
		if keypers == nil {
			keypers = []string{} // a nil slice would be sent as NULL
		}
		return kprdb.InsertBatchConfigParams{KeyperConfigIndex: i, Height: int64(i) * 10, Keypers: keypers, Threshold: 2, Started: false, ActivationBlockNumber: act}
	}
	ok(t, q.InsertBatchConfig(ctx, cfg(2, 200, "b", "c")))
	ok(t, q.InsertBatchConfig(ctx, cfg(1, 100, "a", "b")))
	ok(t, q.InsertBatchConfig(ctx, cfg(3, 300)))
	wantCode(t, q.InsertBatchConfig(ctx, cfg(3, 999, "x")), "23505")
	bad := cfg(4, 1)
	bad.Keypers = nil // NULL into NOT NULL column
	wantCode(t, q.InsertBatchConfig(ctx, bad), "23502")

	n, _ = q.CountBatchConfigs(ctx)
	eq(t, n, int64(3))
	latest, err := q.GetLatestBatchConfig(ctx)
	ok(t, err)
	eq(t, latest, kprdb.TendermintBatchConfig{KeyperConfigIndex: 3, Height: 30, Keypers: []string{}, Threshold: 2, ActivationBlockNumber: 300})
	all, err := q.GetBatchConfigs(ctx)
	ok(t, err)
	eq(t, []int32{all[0].KeyperConfigIndex, all[1].KeyperConfigIndex, all[2].KeyperConfigIndex}, []int32{1, 2, 3})
	eq(t, all[0].Keypers, []string{"a", "b"})
	one, err := q.GetBatchConfig(ctx, 2)
	ok(t, err)
	eq(t, one.ActivationBlockNumber, int64(200))
	_, err = q.GetBatchConfig(ctx, 7)
	noRows(t, err)
	n, _ = q.CountBatchConfigsInBlockRange(ctx, kprdb.CountBatchConfigsInBlockRangeParams{StartBlock: 100, EndBlock: 300})
	eq(t, n, int64(2)) // [100, 300)
	n, _ = q.CountBatchConfigsInBlockRangeWithKeyper(ctx, kprdb.CountBatchConfigsInBlockRangeWithKeyperParams{KeyperAddress: []string{"b"}, StartBlock: 0, EndBlock: 1000})
	eq(t, n, int64(2))
	n, _ = q.CountBatchConfigsInBlockRangeWithKeyper(ctx, kprdb.CountBatchConfigsInBlockRangeWithKeyperParams{KeyperAddress: []string{"b"}, StartBlock: 150, EndBlock: 1000})
	eq(t, n, int64(1))
	n, _ = q.CountBatchConfigsInBlockRangeWithKeyper(ctx, kprdb.CountBatchConfigsInBlockRangeWithKeyperParams{KeyperAddress: []string{"zz"}, StartBlock: 0, EndBlock: 1000})
	eq(t, n, int64(0))
	ok(t, q.SetBatchConfigStarted(ctx, 2))
	one, _ = q.GetBatchConfig(ctx, 2)
	eq(t, one.Started, true)
	one, _ = q.GetBatchConfig(ctx, 1)
	eq(t, one.Started, false)

	// eons
	ins := func(eon, h, act, cfg int64) error {
		return q.InsertEon(ctx, kprdb.InsertEonParams{Eon: eon, Height: h, ActivationBlockNumber: act, KeyperConfigIndex: cfg})
	}
	ok(t, ins(3, 50, 200, 2))
	ok(t, ins(1, 10, 100, 1))
	ok(t, ins(2, 40, 200, 2)) // same activation block as eon 3, lower height
	wantCode(t, ins(2, 1, 1, 1), "23505")
	e, err := q.GetEon(ctx, 2)
	ok(t, err)
	eq(t, e, kprdb.Eon{Eon: 2, Height: 40, ActivationBlockNumber: 200, KeyperConfigIndex: 2})
	_, err = q.GetEon(ctx, 9)
	noRows(t, err)
	e, err = q.GetEonForBlockNumber(ctx, 250)
	ok(t, err)
	eq(t, e.Eon, int64(3)) // activation 200 twice: height DESC decides
	e, _ = q.GetEonForBlockNumber(ctx, 199)
	eq(t, e.Eon, int64(1))
	_, err = q.GetEonForBlockNumber(ctx, 99)
	noRows(t, err)
	eons, err := q.GetAllEons(ctx)
	ok(t, err)
	eq(t, []int64{eons[0].Eon, eons[1].Eon, eons[2].Eon}, []int64{1, 2, 3})
	e, err = q.GetLatestStartedEonByKeyperConfigIndex(ctx, 2)
	ok(t, err)
	eq(t, e.Eon, int64(3))
	_, err = q.GetLatestStartedEonByKeyperConfigIndex(ctx, 5)
	noRows(t, err)
	m, err := q.GetLatestEonForKeyperConfig(ctx, 2)
	ok(t, err)
	eq(t, m, int32(3))
	// max() over no rows is one row holding NULL: scanning it into int32 fails (it is not ErrNoRows)
	_, err = q.GetLatestEonForKeyperConfig(ctx, 5)
	if err == nil || errors.Is(err, pgx.ErrNoRows) {
		t.Fatalf("want a scan error for NULL, got %v", err)
	}
	// ::INT overflows
	ok(t, ins(1<<40, 1, 1000, 9))
	_, err = q.GetLatestEonForKeyperConfig(ctx, 9)
	wantCode(t, err, "22003")

	isK, err := q.GetKeyperStateForEon(ctx, kprdb.GetKeyperStateForEonParams{KeyperAddress: []string{"c"}, Eon: 3})
	ok(t, err)
	eq(t, isK, true)
	isK, _ = q.GetKeyperStateForEon(ctx, kprdb.GetKeyperStateForEonParams{KeyperAddress: []string{"a"}, Eon: 3})
	eq(t, isK, false)
	_, err = q.GetKeyperStateForEon(ctx, kprdb.GetKeyperStateForEonParams{KeyperAddress: []string{"a"}, Eon: 77})
	noRows(t, err)

	// dkg results
	ok(t, q.InsertDKGResult(ctx, kprdb.InsertDKGResultParams{Eon: 1, Success: true, PureResult: []byte("r1")}))
	ok(t, q.InsertDKGResult(ctx, kprdb.InsertDKGResultParams{Eon: 3, Success: false, Error: sql.NullString{String: "boom", Valid: true}}))
	wantCode(t, q.InsertDKGResult(ctx, kprdb.InsertDKGResultParams{Eon: 3, Success: true}), "23505")
	r, err := q.GetDKGResult(ctx, 3)
	ok(t, err)
	eq(t, r, kprdb.DkgResult{Eon: 3, Success: false, Error: sql.NullString{String: "boom", Valid: true}, PureResult: nil})
	r, _ = q.GetDKGResult(ctx, 1)
	eq(t, r, kprdb.DkgResult{Eon: 1, Success: true, PureResult: []byte("r1")})
	_, err = q.GetDKGResult(ctx, 2)
	noRows(t, err)
	r, err = q.GetDKGResultForBlockNumber(ctx, 250) // eon 3
	ok(t, err)
	eq(t, r.Eon, int64(3))
	r, _ = q.GetDKGResultForBlockNumber(ctx, 150) // eon 1
	eq(t, r.Eon, int64(1))
	_, err = q.GetDKGResultForBlockNumber(ctx, 5)
	noRows(t, err)
	r, err = q.GetDKGResultForKeyperConfigIndex(ctx, 2) // max eon of config 2 is 3
	ok(t, err)
	eq(t, r.Eon, int64(3))
	_, err = q.GetDKGResultForKeyperConfigIndex(ctx, 9) // eon 1<<40 has no result
	noRows(t, err)
	_, err = q.GetDKGResultForKeyperConfigIndex(ctx, 44)
	noRows(t, err)
	rs, err := q.GetAllDKGResults(ctx)
	ok(t, err)
	eq(t, []int64{rs[0].Eon, rs[1].Eon}, []int64{1, 3})

	// eon public keys: eon 1 -> config 1, eon 3 -> config 2, eon 5 unknown, eon 1<<40 -> config 9 (no batch config)
	for _, eon := range []int64{3, 1, 5, 1 << 40} {
		ok(t, q.InsertEonPublicKey(ctx, kprdb.InsertEonPublicKeyParams{EonPublicKey: []byte{byte(eon)}, Eon: eon}))
	}
	wantCode(t, q.InsertEonPublicKey(ctx, kprdb.InsertEonPublicKeyParams{EonPublicKey: []byte{0}, Eon: 5}), "23505")
	got, err := q.GetAndDeleteEonPublicKeys(ctx)
	ok(t, err)
	eq(t, got, []kprdb.GetAndDeleteEonPublicKeysRow{
		{EonPublicKey: []byte{3}, Eon: 3, ActivationBlockNumber: 200, Keypers: []string{"b", "c"}, KeyperConfigIndex: 2},
		{EonPublicKey: []byte{1}, Eon: 1, ActivationBlockNumber: 100, Keypers: []string{"a", "b"}, KeyperConfigIndex: 1},
	})
	got, err = q.GetAndDeleteEonPublicKeys(ctx) // everything was deleted, also the rows that did not join
	ok(t, err)
	eq(t, len(got), 0)
}

func TestKeyperMisc(t *testing.T) {
	ctx, s, pool := setup(t)
	q := kprdb.New(pool)

	// seed rows of the schema file
	n, err := q.GetLastBatchConfigProcessed(ctx)
	ok(t, err)
	eq(t, n, int64(0))
	n, err = q.GetLastBlockSeen(ctx)
	ok(t, err)
	eq(t, n, int64(-1))
	ok(t, q.SetLastBatchConfigProcessed(ctx, 7))
	ok(t, q.SetLastBlockSeen(ctx, 99))
	n, _ = q.GetLastBatchConfigProcessed(ctx)
	eq(t, n, int64(7))
	n, _ = q.GetLastBlockSeen(ctx)
	eq(t, n, int64(99))
	eq(t, len(s.Snapshot().LastBlockSeen), 1)
	// upsert into the emptied table inserts
	s.Update(func(db *DB) { db.LastBlockSeen = nil })
	_, err = q.GetLastBlockSeen(ctx)
	noRows(t, err)
	ok(t, q.SetLastBlockSeen(ctx, 5))
	n, _ = q.GetLastBlockSeen(ctx)
	eq(t, n, int64(5))

	// sync meta
	_, err = q.TMGetSyncMeta(ctx)
	noRows(t, err)
	_, err = q.GetLastCommittedHeight(ctx)
	noRows(t, err)
	ts := time.Date(2024, 5, 6, 7, 8, 9, 123456789, time.UTC)
	ok(t, q.TMSetSyncMeta(ctx, kprdb.TMSetSyncMetaParams{CurrentBlock: 10, LastCommittedHeight: 12, SyncTimestamp: ts}))
	ok(t, q.TMSetSyncMeta(ctx, kprdb.TMSetSyncMetaParams{CurrentBlock: 20, LastCommittedHeight: 15, SyncTimestamp: ts}))
	ok(t, q.TMSetSyncMeta(ctx, kprdb.TMSetSyncMetaParams{CurrentBlock: 20, LastCommittedHeight: 25, SyncTimestamp: ts}))
	wantCode(t, q.TMSetSyncMeta(ctx, kprdb.TMSetSyncMetaParams{CurrentBlock: 20, LastCommittedHeight: 25, SyncTimestamp: ts}), "23505")
	m, err := q.TMGetSyncMeta(ctx)
	ok(t, err)
	eq(t, m.CurrentBlock, int64(20))
	eq(t, m.LastCommittedHeight, int64(25))
	if !m.SyncTimestamp.Equal(ts.Truncate(time.Microsecond)) {
		t.Fatalf("timestamp %v != %v", m.SyncTimestamp, ts.Truncate(time.Microsecond))
	}
	h, err := q.GetLastCommittedHeight(ctx)
	ok(t, err)
	eq(t, h, int64(25))

	// puredkg
	ok(t, q.InsertPureDKG(ctx, kprdb.InsertPureDKGParams{Eon: 2, Puredkg: []byte("a")}))
	ok(t, q.InsertPureDKG(ctx, kprdb.InsertPureDKGParams{Eon: 1, Puredkg: []byte("b")}))
	ok(t, q.InsertPureDKG(ctx, kprdb.InsertPureDKGParams{Eon: 2, Puredkg: []byte("c")})) // upsert
	wantCode(t, q.InsertPureDKG(ctx, kprdb.InsertPureDKGParams{Eon: 3, Puredkg: nil}), "23502")
	ds, err := q.SelectPureDKG(ctx)
	ok(t, err)
	eq(t, ds, []kprdb.Puredkg{{Eon: 2, Puredkg: []byte("c")}, {Eon: 1, Puredkg: []byte("b")}})
	ok(t, q.DeletePureDKG(ctx, 2))
	ok(t, q.DeletePureDKG(ctx, 2))
	ds, _ = q.SelectPureDKG(ctx)
	eq(t, ds, []kprdb.Puredkg{{Eon: 1, Puredkg: []byte("b")}})

	// encryption keys (DISTINCT ON (address) ... ORDER BY address, height DESC)
	ik := func(addr string, key string, h int64) {
		ok(t, q.InsertEncryptionKey(ctx, kprdb.InsertEncryptionKeyParams{Address: addr, EncryptionPublicKey: []byte(key), Height: h}))
	}
	ik("B", "b2", 2)
	ik("A", "a1", 1)
	ik("A", "a3", 3)
	ik("A", "a2", 2)
	ik("A", "a3new", 3) // ON CONFLICT (address, height) DO UPDATE
	ks, err := q.GetEncryptionKeys(ctx)
	ok(t, err)
	eq(t, ks, []kprdb.TendermintEncryptionKey{{Address: "A", EncryptionPublicKey: []byte("a3new"), Height: 3}, {Address: "B", EncryptionPublicKey: []byte("b2"), Height: 2}})
	eq(t, len(s.Snapshot().TendermintEncryptionKey), 4)

	// poly evals joined with latest keys and eons
	ok(t, q.InsertEon(ctx, kprdb.InsertEonParams{Eon: 1, Height: 11, ActivationBlockNumber: 1, KeyperConfigIndex: 1}))
	ok(t, q.InsertEon(ctx, kprdb.InsertEonParams{Eon: 2, Height: 22, ActivationBlockNumber: 2, KeyperConfigIndex: 1}))
	pe := func(eon int64, recv, eval string) error {
		return q.InsertPolyEval(ctx, kprdb.InsertPolyEvalParams{Eon: eon, ReceiverAddress: recv, Eval: []byte(eval)})
	}
	ok(t, pe(2, "A", "e2A"))
	ok(t, pe(1, "B", "e1B"))
	ok(t, pe(1, "C", "e1C")) // C has no encryption key
	ok(t, pe(9, "A", "e9A")) // eon 9 does not exist
	wantCode(t, pe(1, "B", "dup"), "23505")
	evs, err := q.PolyEvalsWithEncryptionKeys(ctx)
	ok(t, err)
	eq(t, evs, []kprdb.PolyEvalsWithEncryptionKeysRow{
		{Eon: 1, ReceiverAddress: "B", Eval: []byte("e1B"), EncryptionPublicKey: []byte("b2"), Height: 11},
		{Eon: 2, ReceiverAddress: "A", Eval: []byte("e2A"), EncryptionPublicKey: []byte("a3new"), Height: 22},
	})
	ok(t, q.DeletePolyEval(ctx, kprdb.DeletePolyEvalParams{Eon: 1, ReceiverAddress: "B"}))
	tag, err := q.DeletePolyEvalByEon(ctx, 1)
	ok(t, err)
	eq(t, tag.RowsAffected(), int64(1))
	tag, _ = q.DeletePolyEvalByEon(ctx, 1)
	eq(t, tag.RowsAffected(), int64(0))
	eq(t, len(s.Snapshot().PolyEvals), 2)

	// outgoing messages (SERIAL id)
	_, err = q.GetNextShutterMessage(ctx)
	noRows(t, err)
	id1, err := q.ScheduleSerializedShutterMessage(ctx, kprdb.ScheduleSerializedShutterMessageParams{Description: "d1", Msg: []byte("m1")})
	ok(t, err)
	id2, _ := q.ScheduleSerializedShutterMessage(ctx, kprdb.ScheduleSerializedShutterMessageParams{Description: "d2", Msg: []byte("m2")})
	eq(t, []int32{id1, id2}, []int32{1, 2})
	// a rolled back insert burns its id (sequences are not transactional)
	err = pool.BeginFunc(ctx, func(tx pgx.Tx) error {
		id, err := kprdb.New(tx).ScheduleSerializedShutterMessage(ctx, kprdb.ScheduleSerializedShutterMessageParams{Description: "lost", Msg: []byte{}})
		ok(t, err)
		eq(t, id, int32(3))
		return errors.New("roll back")
	})
	if err == nil {
		t.Fatal("expected rollback error")
	}
	_, err = q.ScheduleSerializedShutterMessage(ctx, kprdb.ScheduleSerializedShutterMessageParams{Description: "d2", Msg: nil})
	wantCode(t, err, "23502") // burns id 4
	id5, _ := q.ScheduleSerializedShutterMessage(ctx, kprdb.ScheduleSerializedShutterMessageParams{Description: "d2", Msg: []byte("m5")})
	eq(t, id5, int32(5))
	ok(t, kprdb.New(pool).ScheduleShutterMessage(ctx, "via extend.go", &shmsg.Message{})) // empty message: empty, non-NULL bytes
	next, err := q.GetNextShutterMessage(ctx)
	ok(t, err)
	eq(t, next, kprdb.TendermintOutgoingMessage{ID: 1, Description: "d1", Msg: []byte("m1")})
	ok(t, q.DeleteShutterMessage(ctx, 1))
	next, _ = q.GetNextShutterMessage(ctx)
	eq(t, next.ID, int32(2))
	ok(t, q.DeleteShutterMessageByDesc(ctx, "d2")) // ids 2 and 5
	next, _ = q.GetNextShutterMessage(ctx)
	eq(t, next.ID, int32(6))
	if !bytes.Equal(next.Msg, []byte{}) || next.Msg == nil {
		t.Fatalf("empty message should be empty, not NULL: %#v", next.Msg)
	}
}

func TestPgErrorFields(t *testing.T) {
	ctx, _, pool := setup(t)
	q := kprdb.New(pool)
	ok(t, q.InsertEon(ctx, kprdb.InsertEonParams{Eon: 1}))
	err := q.InsertEon(ctx, kprdb.InsertEonParams{Eon: 1})
	var pe *pgconn.PgError
	if !errors.As(err, &pe) {
		t.Fatalf("not a PgError: %v", err)
	}
	eq(t, pe.Code, "23505")
	eq(t, pe.ConstraintName, "eons_pkey")
	eq(t, pe.TableName, "eons")
	eq(t, pe.Severity, "ERROR")
}
