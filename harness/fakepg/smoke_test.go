package fakepg

import (
	"context"
	"testing"
	"time"

	kprdb "github.com/shutter-network/rolling-shutter/rolling-shutter/keyper/database"
	metadb "github.com/shutter-network/rolling-shutter/rolling-shutter/medley/db"
)

func TestSmokeInitDB(t *testing.T) {
	ctx, cancel := context.WithTimeout(context.Background(), 20*time.Second)
	defer cancel()
	s := New()
	pool, err := s.Pool(ctx)
	if err != nil {
		t.Fatal(err)
	}
	defer pool.Close()
	if err := metadb.InitDB(ctx, pool, "keyper-test", kprdb.Definition); err != nil {
		t.Fatal(err)
	}
	q := kprdb.New(pool)
	n, err := q.GetLastBlockSeen(ctx)
	if err != nil || n != -1 {
		t.Fatalf("GetLastBlockSeen = %d, %v", n, err)
	}
	m, err := q.TMGetSyncMeta(ctx)
	if err != nil || m.CurrentBlock != 0 || m.LastCommittedHeight != -1 {
		t.Fatalf("TMGetSyncMeta = %+v, %v", m, err)
	}
	if err := metadb.ValidateDBVersion(ctx, pool, "keyper-test"); err != nil {
		t.Fatal(err)
	}
	if pm := s.PinMismatches(); len(pm) != 0 {
		t.Fatalf("pin mismatches: %v", pm)
	}
	t.Log("\n" + FormatLog(s.Log()))
}
