package fakepg

import (
	prvdb "github.com/shutter-network/rolling-shutter/rolling-shutter/keyperimpl/primev/database"
	snpdb "github.com/shutter-network/rolling-shutter/rolling-shutter/snapshot/database"
)

// Handlers for keyperimpl/primev/database/sql/queries/primev.sql and
// snapshot/database/sql/queries/snapshot.sql.

func init() {
	// SELECT c.tx_hashes, c.provider_address, c.commitment_signature, c.commitment_digest, c.block_number, c.received_bid_digest,
	//        c.received_bid_signature, c.bidder_node_address FROM commitment c WHERE $1 = ANY(c.tx_hashes)
	// $1 is a single text value for PostgreSQL. (sqlc generated a []string parameter for it, which pgx cannot
	// encode as text; the generated Go method therefore fails on the client side. The repository never calls it.)
	reg("primev", "GetCommitmentByTxHash", p(tText), cols("tx_hashes", tTextArr, "provider_address", tText, "commitment_signature", tText, "commitment_digest", tText,
		"block_number", tInt8, "received_bid_digest", tText, "received_bid_signature", tText, "bidder_node_address", tText), false, func(x *execCtx, a args) (*result, error) {
		var out [][]interface{}
		if !a.null(0) {
			for _, c := range heapOrder(x, x.db.Commitment) {
				if overlap([]string{a.str(0)}, c.TxHashes) {
					out = append(out, []interface{}{c.TxHashes, c.ProviderAddress, c.CommitmentSignature, c.CommitmentDigest, c.BlockNumber, c.ReceivedBidDigest, c.ReceivedBidSignature, c.BidderNodeAddress})
				}
			}
		}
		return selected(out)
	})

	// WITH inserted_transactions AS (
	//     INSERT INTO committed_transactions (eon, identity_preimage, identity_prefix, block_number, tx_hash, commitment_digest, provider_address)
	//     SELECT unnest($1::bigint[]), unnest($2::text[]), unnest($3::text[]), unnest($4::bigint[]), unnest($5::text[]), $6, $7
	//     ON CONFLICT (eon, identity_preimage, tx_hash, block_number) DO NOTHING
	//     RETURNING tx_hash as hashes
	// ), upserted_commitment AS (
	//     INSERT INTO commitment (tx_hashes, provider_address, commitment_signature, commitment_digest, block_number, received_bid_digest, received_bid_signature, bidder_node_address)
	//     SELECT ARRAY_AGG(hashes), $7, $8, $6, $9, $10, $11, $12 FROM inserted_transactions
	//     ON CONFLICT (provider_address, commitment_digest) DO UPDATE SET
	//         tx_hashes = commitment.tx_hashes || EXCLUDED.tx_hashes, received_bid_digest = EXCLUDED.received_bid_digest,
	//         received_bid_signature = EXCLUDED.received_bid_signature, bidder_node_address = EXCLUDED.bidder_node_address
	//     RETURNING tx_hashes, provider_address
	// ) SELECT tx_hashes, provider_address FROM upserted_commitment
	//
	// Semantics reproduced:
	//  * the unnest()s run in lockstep; shorter arrays are padded with NULL, which violates NOT NULL (23502);
	//  * rows that already exist (or repeat inside the statement) are skipped and not RETURNed;
	//  * ARRAY_AGG without GROUP BY always yields exactly one row; over zero inserted rows it is NULL, and NOT NULL on
	//    commitment.tx_hashes is checked before ON CONFLICT is considered: if no transaction row is new, the whole
	//    statement fails with 23502 and changes nothing;
	//  * the foreign key committed_transactions -> commitment is checked at the end of the statement, when the
	//    commitment row exists.
	reg("primev", "InsertMultipleTransactionsAndUpsertCommitment", p(tInt8Arr, tTextArr, tTextArr, tInt8Arr, tTextArr, tText, tText, tText, tInt8, tText, tText, tText),
		cols("tx_hashes", tTextArr, "provider_address", tText), true, func(x *execCtx, a args) (*result, error) {
			eons, preimages, prefixes, blocks, hashes := a.i64s(0), a.strs(1), a.strs(2), a.i64s(3), a.strs(4)
			n := 0
			for _, l := range []int{len(eons), len(preimages), len(prefixes), len(blocks), len(hashes)} {
				if l > n {
					n = l
				}
			}
			txs := append([]prvdb.CommittedTransaction{}, x.db.CommittedTransactions...)
			var inserted []string
			for i := 0; i < n; i++ {
				const t = "committed_transactions"
				switch {
				case i >= len(eons):
					return nil, errNotNull(t, "eon")
				case i >= len(prefixes):
					return nil, errNotNull(t, "identity_prefix")
				case i >= len(preimages):
					return nil, errNotNull(t, "identity_preimage")
				case i >= len(blocks):
					return nil, errNotNull(t, "block_number")
				case i >= len(hashes):
					return nil, errNotNull(t, "tx_hash")
				case a.null(5):
					return nil, errNotNull(t, "commitment_digest")
				case a.null(6):
					return nil, errNotNull(t, "provider_address")
				}
				if err := nonNeg(t, eons[i], "eon", blocks[i], "block_number"); err != nil {
					return nil, err
				}
				row := prvdb.CommittedTransaction{Eon: eons[i], IdentityPrefix: prefixes[i], IdentityPreimage: preimages[i], BlockNumber: blocks[i],
					TxHash: hashes[i], CommitmentDigest: a.str(5), ProviderAddress: a.str(6)}
				if indexOf(txs, func(r *prvdb.CommittedTransaction) bool {
					return r.Eon == row.Eon && r.IdentityPreimage == row.IdentityPreimage && r.TxHash == row.TxHash && r.BlockNumber == row.BlockNumber
				}) >= 0 {
					continue
				}
				txs = append(txs, row)
				inserted = append(inserted, row.TxHash)
			}
			// upserted_commitment: one proposed row
			const tc = "commitment"
			if inserted == nil {
				return nil, errNotNull(tc, "tx_hashes")
			}
			if err := a.required(tc, 6, "provider_address", 7, "commitment_signature", 5, "commitment_digest", 8, "block_number", 9, "received_bid_digest", 10, "received_bid_signature", 11, "bidder_node_address"); err != nil {
				return nil, err
			}
			if err := nonNeg(tc, a.i64(8), "block_number"); err != nil {
				return nil, err
			}
			cms := append([]prvdb.Commitment{}, x.db.Commitment...)
			var ret prvdb.Commitment
			if i := indexOf(cms, func(r *prvdb.Commitment) bool { return r.ProviderAddress == a.str(6) && r.CommitmentDigest == a.str(5) }); i >= 0 {
				c := cms[i]
				c.TxHashes = append(append([]string{}, c.TxHashes...), inserted...)
				c.ReceivedBidDigest, c.ReceivedBidSignature, c.BidderNodeAddress = a.str(9), a.str(10), a.str(11)
				cms[i] = c
				ret = c
			} else {
				ret = prvdb.Commitment{TxHashes: inserted, ProviderAddress: a.str(6), CommitmentSignature: a.str(7), CommitmentDigest: a.str(5),
					BlockNumber: a.i64(8), ReceivedBidDigest: a.str(9), ReceivedBidSignature: a.str(10), BidderNodeAddress: a.str(11)}
				cms = append(cms, ret)
			}
			// end of statement: the foreign key of the new committed_transactions rows holds (the commitment row exists now)
			x.db.CommittedTransactions = txs
			x.db.Commitment = cms
			return selected([][]interface{}{{ret.TxHashes, ret.ProviderAddress}})
		})

	// SELECT * FROM provider_registry_events_synced_until LIMIT 1
	reg("primev", "GetProviderRegistryEventsSyncedUntil", nil, cols("enforce_one_row", tBool, "block_hash", tBytea, "block_number", tInt8), false, func(x *execCtx, a args) (*result, error) {
		rows := heapOrder(x, x.db.ProviderRegistryEventsSyncedUntil)
		if len(rows) == 0 {
			return selected(nil)
		}
		return selected([][]interface{}{{rows[0].EnforceOneRow, rows[0].BlockHash, rows[0].BlockNumber}})
	})
	// INSERT INTO provider_registry_events_synced_until (block_hash, block_number) VALUES ($1, $2)
	// ON CONFLICT (enforce_one_row) DO UPDATE SET block_hash = $1, block_number = $2
	reg("primev", "SetProviderRegistryEventsSyncedUntil", p(tBytea, tInt8), nil, true, func(x *execCtx, a args) (*result, error) {
		const t = "provider_registry_events_synced_until"
		if err := a.required(t, 0, "block_hash", 1, "block_number"); err != nil {
			return nil, err
		}
		if err := nonNeg(t, a.i64(1), "block_number"); err != nil {
			return nil, err
		}
		row := prvdb.ProviderRegistryEventsSyncedUntil{EnforceOneRow: true, BlockHash: a.bytes(0), BlockNumber: a.i64(1)}
		if i := indexOf(x.db.ProviderRegistryEventsSyncedUntil, func(r *prvdb.ProviderRegistryEventsSyncedUntil) bool { return r.EnforceOneRow }); i >= 0 {
			x.db.ProviderRegistryEventsSyncedUntil[i] = row
			return tagInsert(1)
		}
		x.db.ProviderRegistryEventsSyncedUntil = append(x.db.ProviderRegistryEventsSyncedUntil, row)
		return tagInsert(1)
	})
	// INSERT INTO provider_registry_events (block_number, block_hash, tx_index, log_index, provider_address, bls_keys) VALUES ($1..$6)
	// ON CONFLICT (block_number, tx_index, log_index) DO UPDATE SET block_number = $1, block_hash = $2, tx_index = $3, log_index = $4, bls_keys = $6
	// (provider_address of an existing row is kept)
	reg("primev", "InsertProviderRegistryEvent", p(tInt8, tBytea, tInt8, tInt8, tText, tByteaArr), nil, true, func(x *execCtx, a args) (*result, error) {
		const t = "provider_registry_events"
		if err := a.required(t, 0, "block_number", 1, "block_hash", 2, "tx_index", 3, "log_index", 4, "provider_address", 5, "bls_keys"); err != nil {
			return nil, err
		}
		if err := nonNeg(t, a.i64(0), "block_number", a.i64(2), "tx_index", a.i64(3), "log_index"); err != nil {
			return nil, err
		}
		if i := indexOf(x.db.ProviderRegistryEvents, func(r *prvdb.ProviderRegistryEvent) bool {
			return r.BlockNumber == a.i64(0) && r.TxIndex == a.i64(2) && r.LogIndex == a.i64(3)
		}); i >= 0 {
			r := &x.db.ProviderRegistryEvents[i]
			r.BlockHash, r.BlsKeys = a.bytes(1), a.bytess(5)
			return tagInsert(1)
		}
		x.db.ProviderRegistryEvents = append(x.db.ProviderRegistryEvents, prvdb.ProviderRegistryEvent{
			BlockNumber: a.i64(0), BlockHash: a.bytes(1), TxIndex: a.i64(2), LogIndex: a.i64(3), ProviderAddress: a.str(4), BlsKeys: a.bytess(5)})
		return tagInsert(1)
	})
	// DELETE FROM provider_registry_events WHERE block_number >= $1
	reg("primev", "DeleteProviderRegistryEventsFromBlockNumber", p(tInt8), nil, true, func(x *execCtx, a args) (*result, error) {
		if a.null(0) {
			return tagDelete(0)
		}
		return tagDelete(len(deleteWhere(&x.db.ProviderRegistryEvents, func(r *prvdb.ProviderRegistryEvent) bool { return r.BlockNumber >= a.i64(0) })))
	})

	// -------------------------------------------------------------- snapshot
	// SELECT * FROM decryption_key WHERE epoch_id = $1
	reg("snapshot", "GetDecryptionKey", p(tBytea), cols("epoch_id", tBytea, "key", tBytea), false, func(x *execCtx, a args) (*result, error) {
		var out [][]interface{}
		if !a.null(0) {
			for _, r := range x.db.SnapshotDecryptionKey {
				if string(r.EpochID) == string(a.bytes(0)) {
					out = append(out, []interface{}{r.EpochID, r.Key})
				}
			}
		}
		return selected(out)
	})
	// SELECT COUNT(DISTINCT epoch_id) FROM decryption_key
	reg("snapshot", "GetDecryptionKeyCount", nil, cols("count", tInt8), false, func(x *execCtx, a args) (*result, error) {
		seen := map[string]bool{}
		for _, r := range x.db.SnapshotDecryptionKey {
			seen[string(r.EpochID)] = true
		}
		return selected([][]interface{}{{int64(len(seen))}})
	})
	// INSERT INTO decryption_key (epoch_id, key) VALUES ($1, $2) ON CONFLICT DO NOTHING
	reg("snapshot", "InsertDecryptionKey", p(tBytea, tBytea), nil, true, func(x *execCtx, a args) (*result, error) {
		if err := a.required("decryption_key", 0, "epoch_id"); err != nil {
			return nil, err
		}
		if indexOf(x.db.SnapshotDecryptionKey, func(r *snpdb.DecryptionKey) bool { return string(r.EpochID) == string(a.bytes(0)) }) >= 0 {
			return tagInsert(0)
		}
		x.db.SnapshotDecryptionKey = append(x.db.SnapshotDecryptionKey, snpdb.DecryptionKey{EpochID: a.bytes(0), Key: a.bytes(1)})
		return tagInsert(1)
	})
	// INSERT INTO eon_public_key (eon_id, eon_public_key) VALUES ($1, $2) ON CONFLICT DO NOTHING
	reg("snapshot", "InsertEonPublicKey", p(tInt8, tBytea), nil, true, func(x *execCtx, a args) (*result, error) {
		if err := a.required("eon_public_key", 0, "eon_id"); err != nil {
			return nil, err
		}
		if indexOf(x.db.SnapshotEonPublicKey, func(r *snpdb.EonPublicKey) bool { return r.EonID == a.i64(0) }) >= 0 {
			return tagInsert(0)
		}
		x.db.SnapshotEonPublicKey = append(x.db.SnapshotEonPublicKey, snpdb.EonPublicKey{EonID: a.i64(0), EonPublicKey: a.bytes(1)})
		return tagInsert(1)
	})
	// SELECT eon_public_key FROM eon_public_key WHERE eon_id = $1
	reg("snapshot", "GetEonPublicKey", p(tInt8), cols("eon_public_key", tBytea), false, func(x *execCtx, a args) (*result, error) {
		var out [][]interface{}
		if !a.null(0) {
			for _, r := range x.db.SnapshotEonPublicKey {
				if r.EonID == a.i64(0) {
					out = append(out, []interface{}{r.EonPublicKey})
				}
			}
		}
		return selected(out)
	})
	// SELECT eon_id, eon_public_key FROM eon_public_key ORDER BY eon_id DESC LIMIT 1
	reg("snapshot", "GetEonPublicKeyLatest", nil, cols("eon_id", tInt8, "eon_public_key", tBytea), false, func(x *execCtx, a args) (*result, error) {
		var best *snpdb.EonPublicKey
		for i := range x.db.SnapshotEonPublicKey {
			if r := &x.db.SnapshotEonPublicKey[i]; best == nil || r.EonID > best.EonID {
				best = r
			}
		}
		if best == nil {
			return selected(nil)
		}
		return selected([][]interface{}{{best.EonID, best.EonPublicKey}})
	})
	// SELECT COUNT(DISTINCT eon_id) FROM eon_public_key
	reg("snapshot", "GetEonCount", nil, cols("count", tInt8), false, func(x *execCtx, a args) (*result, error) {
		return selected([][]interface{}{{int64(len(x.db.SnapshotEonPublicKey))}})
	})
}
