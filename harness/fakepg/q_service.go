package fakepg

import (
	"bytes"

	svcdb "github.com/shutter-network/rolling-shutter/rolling-shutter/keyperimpl/shutterservice/database"
)

// Handlers for keyperimpl/shutterservice/database/sql/queries/shutterservice.sql
// over the schema after migrations V2 and V3:
//   event_trigger_registered_event PRIMARY KEY (eon, identity)
//   fired_triggers PRIMARY KEY (eon, identity), identity NOT NULL,
//     FOREIGN KEY (eon, identity) REFERENCES event_trigger_registered_event ON DELETE CASCADE

var (
	colsIdentityRegistered = cols("block_number", tInt8, "block_hash", tBytea, "tx_index", tInt8, "log_index", tInt8, "eon", tInt8,
		"identity_prefix", tBytea, "sender", tText, "timestamp", tInt8, "decrypted", tBool, "identity", tBytea)
	colsEventTrigger = cols("block_number", tInt8, "block_hash", tBytea, "tx_index", tInt8, "log_index", tInt8, "eon", tInt8,
		"identity_prefix", tBytea, "sender", tText, "definition", tBytea, "expiration_block_number", tInt8, "decrypted", tBool, "identity", tBytea)
)

// zipPairs implements  (eon, identity) IN (SELECT UNNEST($1::bigint[]), UNNEST($2::bytea[])):
// set returning functions in a select list run in lockstep, the shorter one is
// padded with NULLs, and a row containing NULL never matches.
func zipPairs(eons []int64, ids [][]byte) func(eon int64, identity []byte) bool {
	n := len(eons)
	if len(ids) < n {
		n = len(ids)
	}
	return func(eon int64, identity []byte) bool {
		for i := 0; i < n; i++ {
			if eons[i] == eon && bytes.Equal(ids[i], identity) {
				return true
			}
		}
		return false
	}
}

// deleteEventTriggers deletes rows of event_trigger_registered_event and cascades to fired_triggers.
func deleteEventTriggers(db *DB, pred func(r *svcdb.EventTriggerRegisteredEvent) bool) int {
	del := deleteWhere(&db.EventTriggerRegisteredEvent, pred)
	for _, d := range del {
		d := d
		deleteWhere(&db.FiredTriggers, func(f *svcdb.FiredTrigger) bool { return f.Eon == d.Eon && bytes.Equal(f.Identity, d.Identity) })
	}
	return len(del)
}

func init() {
	// SELECT * FROM identity_registered_event WHERE timestamp >= $1 AND timestamp <= $2 AND decrypted = false ORDER BY timestamp ASC
	reg("shutterservice", "GetNotDecryptedIdentityRegisteredEvents", p(tInt8, tInt8), colsIdentityRegistered, false, func(x *execCtx, a args) (*result, error) {
		if a.null(0) || a.null(1) {
			return selected(nil)
		}
		rows := filter(heapOrder(x, x.db.IdentityRegisteredEvent), func(r *svcdb.IdentityRegisteredEvent) bool {
			return r.Timestamp >= a.i64(0) && r.Timestamp <= a.i64(1) && !r.Decrypted
		})
		sortRows(rows, func(a, b *svcdb.IdentityRegisteredEvent) bool { return a.Timestamp < b.Timestamp })
		var out [][]interface{}
		for _, r := range rows {
			out = append(out, []interface{}{r.BlockNumber, r.BlockHash, r.TxIndex, r.LogIndex, r.Eon, r.IdentityPrefix, r.Sender, r.Timestamp, r.Decrypted, r.Identity})
		}
		return selected(out)
	})
	// SELECT * FROM identity_registered_events_synced_until LIMIT 1
	reg("shutterservice", "GetIdentityRegisteredEventsSyncedUntil", nil, cols("enforce_one_row", tBool, "block_hash", tBytea, "block_number", tInt8), false, func(x *execCtx, a args) (*result, error) {
		rows := heapOrder(x, x.db.IdentityRegisteredEventsSyncedUntil)
		if len(rows) == 0 {
			return selected(nil)
		}
		return selected([][]interface{}{{rows[0].EnforceOneRow, rows[0].BlockHash, rows[0].BlockNumber}})
	})
	// INSERT INTO current_decryption_trigger (eon, triggered_block_number, identities_hash) VALUES ($1, $2, $3)
	// ON CONFLICT (eon, triggered_block_number) DO UPDATE SET triggered_block_number = $2, identities_hash = $3
	reg("shutterservice", "SetCurrentDecryptionTrigger", p(tInt8, tInt8, tBytea), nil, true, func(x *execCtx, a args) (*result, error) {
		const t = "current_decryption_trigger"
		if err := a.required(t, 0, "eon", 1, "triggered_block_number", 2, "identities_hash"); err != nil {
			return nil, err
		}
		if err := nonNeg(t, a.i64(0), "eon", a.i64(1), "triggered_block_number"); err != nil {
			return nil, err
		}
		if i := indexOf(x.db.ServiceCurrentDecryptionTrigger, func(r *svcdb.CurrentDecryptionTrigger) bool {
			return r.Eon == a.i64(0) && r.TriggeredBlockNumber == a.i64(1)
		}); i >= 0 {
			x.db.ServiceCurrentDecryptionTrigger[i].IdentitiesHash = a.bytes(2)
			return tagInsert(1)
		}
		x.db.ServiceCurrentDecryptionTrigger = append(x.db.ServiceCurrentDecryptionTrigger, svcdb.CurrentDecryptionTrigger{Eon: a.i64(0), TriggeredBlockNumber: a.i64(1), IdentitiesHash: a.bytes(2)})
		return tagInsert(1)
	})
	// SELECT * FROM current_decryption_trigger WHERE eon = $1 ORDER BY triggered_block_number DESC LIMIT 1
	reg("shutterservice", "GetCurrentDecryptionTrigger", p(tInt8), cols("eon", tInt8, "triggered_block_number", tInt8, "identities_hash", tBytea), false, func(x *execCtx, a args) (*result, error) {
		if a.null(0) {
			return selected(nil)
		}
		var best *svcdb.CurrentDecryptionTrigger
		for i := range x.db.ServiceCurrentDecryptionTrigger {
			if r := &x.db.ServiceCurrentDecryptionTrigger[i]; r.Eon == a.i64(0) && (best == nil || r.TriggeredBlockNumber > best.TriggeredBlockNumber) {
				best = r
			}
		}
		if best == nil {
			return selected(nil)
		}
		return selected([][]interface{}{{best.Eon, best.TriggeredBlockNumber, best.IdentitiesHash}})
	})
	// INSERT INTO decryption_signatures (eon, keyper_index, identities_hash, signature) VALUES ($1, $2, $3, $4) ON CONFLICT DO NOTHING
	reg("shutterservice", "InsertDecryptionSignature", p(tInt8, tInt8, tBytea, tBytea), nil, true, func(x *execCtx, a args) (*result, error) {
		const t = "decryption_signatures"
		if err := a.required(t, 0, "eon", 1, "keyper_index", 2, "identities_hash", 3, "signature"); err != nil {
			return nil, err
		}
		if err := nonNeg(t, a.i64(0), "eon"); err != nil {
			return nil, err
		}
		if indexOf(x.db.DecryptionSignatures, func(r *svcdb.DecryptionSignature) bool {
			return r.Eon == a.i64(0) && r.KeyperIndex == a.i64(1) && bytes.Equal(r.IdentitiesHash, a.bytes(2))
		}) >= 0 {
			return tagInsert(0)
		}
		x.db.DecryptionSignatures = append(x.db.DecryptionSignatures, svcdb.DecryptionSignature{Eon: a.i64(0), KeyperIndex: a.i64(1), IdentitiesHash: a.bytes(2), Signature: a.bytes(3)})
		return tagInsert(1)
	})
	// SELECT * FROM decryption_signatures WHERE eon = $1 AND identities_hash = $2 ORDER BY keyper_index ASC LIMIT $3
	reg("shutterservice", "GetDecryptionSignatures", p(tInt8, tBytea, tInt8), cols("eon", tInt8, "keyper_index", tInt8, "identities_hash", tBytea, "signature", tBytea), false, func(x *execCtx, a args) (*result, error) {
		rows := []svcdb.DecryptionSignature{}
		if !a.null(0) && !a.null(1) {
			rows = filter(x.db.DecryptionSignatures, func(r *svcdb.DecryptionSignature) bool {
				return r.Eon == a.i64(0) && bytes.Equal(r.IdentitiesHash, a.bytes(1))
			})
		}
		sortRows(rows, func(a, b *svcdb.DecryptionSignature) bool { return a.KeyperIndex < b.KeyperIndex })
		rows, err := limitRows(rows, a[2])
		if err != nil {
			return nil, err
		}
		var out [][]interface{}
		for _, r := range rows {
			out = append(out, []interface{}{r.Eon, r.KeyperIndex, r.IdentitiesHash, r.Signature})
		}
		return selected(out)
	})
	// INSERT INTO event_trigger_registered_event (block_number, block_hash, tx_index, log_index, eon, identity_prefix, sender, definition, expiration_block_number, identity)
	// VALUES ($1..$10) ON CONFLICT (eon, identity) DO UPDATE SET block_number = $1, block_hash = $2, tx_index = $3, log_index = $4,
	//   definition = $8, expiration_block_number = $9, identity = $10
	reg("shutterservice", "InsertEventTriggerRegisteredEvent", p(tInt8, tBytea, tInt8, tInt8, tInt8, tBytea, tText, tBytea, tInt8, tBytea), nil, true, func(x *execCtx, a args) (*result, error) {
		const t = "event_trigger_registered_event"
		if err := a.required(t, 0, "block_number", 1, "block_hash", 2, "tx_index", 3, "log_index", 4, "eon", 5, "identity_prefix", 6, "sender", 7, "definition", 8, "expiration_block_number", 9, "identity"); err != nil {
			return nil, err
		}
		if err := nonNeg(t, a.i64(0), "block_number", a.i64(2), "tx_index", a.i64(3), "log_index", a.i64(4), "eon", a.i64(8), "expiration_block_number"); err != nil {
			return nil, err
		}
		if i := indexOf(x.db.EventTriggerRegisteredEvent, func(r *svcdb.EventTriggerRegisteredEvent) bool {
			return r.Eon == a.i64(4) && bytes.Equal(r.Identity, a.bytes(9))
		}); i >= 0 {
			r := &x.db.EventTriggerRegisteredEvent[i]
			r.BlockNumber, r.BlockHash, r.TxIndex, r.LogIndex = a.i64(0), a.bytes(1), a.i64(2), a.i64(3)
			r.Definition, r.ExpirationBlockNumber, r.Identity = a.bytes(7), a.i64(8), a.bytes(9)
			return tagInsert(1)
		}
		x.db.EventTriggerRegisteredEvent = append(x.db.EventTriggerRegisteredEvent, svcdb.EventTriggerRegisteredEvent{
			BlockNumber: a.i64(0), BlockHash: a.bytes(1), TxIndex: a.i64(2), LogIndex: a.i64(3), Eon: a.i64(4), IdentityPrefix: a.bytes(5),
			Sender: a.str(6), Definition: a.bytes(7), ExpirationBlockNumber: a.i64(8), Decrypted: false, Identity: a.bytes(9)})
		return tagInsert(1)
	})
	// UPDATE identity_registered_event SET decrypted = TRUE WHERE (eon, identity) IN (SELECT UNNEST($1::bigint[]), UNNEST($2::bytea[]))
	reg("shutterservice", "UpdateTimeBasedDecryptedFlags", p(tInt8Arr, tByteaArr), nil, true, func(x *execCtx, a args) (*result, error) {
		match := zipPairs(a.i64s(0), a.bytess(1))
		n := 0
		for i := range x.db.IdentityRegisteredEvent {
			if r := &x.db.IdentityRegisteredEvent[i]; match(r.Eon, r.Identity) {
				r.Decrypted = true
				n++
			}
		}
		return tagUpdate(n)
	})
	// UPDATE event_trigger_registered_event SET decrypted = TRUE WHERE (eon, identity) IN (SELECT UNNEST($1::bigint[]), UNNEST($2::bytea[]))
	reg("shutterservice", "UpdateEventBasedDecryptedFlags", p(tInt8Arr, tByteaArr), nil, true, func(x *execCtx, a args) (*result, error) {
		match := zipPairs(a.i64s(0), a.bytess(1))
		n := 0
		for i := range x.db.EventTriggerRegisteredEvent {
			if r := &x.db.EventTriggerRegisteredEvent[i]; match(r.Eon, r.Identity) {
				r.Decrypted = true
				n++
			}
		}
		return tagUpdate(n)
	})
	// INSERT INTO identity_registered_event (block_number, block_hash, tx_index, log_index, eon, identity_prefix, sender, timestamp, identity)
	// VALUES ($1..$9) ON CONFLICT (identity_prefix, sender) DO UPDATE SET block_number = $1, block_hash = $2, tx_index = $3, log_index = $4,
	//   sender = $7, timestamp = $8, identity = $9                      (eon and decrypted of the existing row are kept)
	reg("shutterservice", "InsertIdentityRegisteredEvent", p(tInt8, tBytea, tInt8, tInt8, tInt8, tBytea, tText, tInt8, tBytea), nil, true, func(x *execCtx, a args) (*result, error) {
		const t = "identity_registered_event"
		if err := a.required(t, 0, "block_number", 1, "block_hash", 2, "tx_index", 3, "log_index", 4, "eon", 5, "identity_prefix", 6, "sender", 7, "timestamp", 8, "identity"); err != nil {
			return nil, err
		}
		if err := nonNeg(t, a.i64(0), "block_number", a.i64(2), "tx_index", a.i64(3), "log_index", a.i64(4), "eon"); err != nil {
			return nil, err
		}
		if i := indexOf(x.db.IdentityRegisteredEvent, func(r *svcdb.IdentityRegisteredEvent) bool {
			return bytes.Equal(r.IdentityPrefix, a.bytes(5)) && r.Sender == a.str(6)
		}); i >= 0 {
			r := &x.db.IdentityRegisteredEvent[i]
			r.BlockNumber, r.BlockHash, r.TxIndex, r.LogIndex = a.i64(0), a.bytes(1), a.i64(2), a.i64(3)
			r.Sender, r.Timestamp, r.Identity = a.str(6), a.i64(7), a.bytes(8)
			return tagInsert(1)
		}
		x.db.IdentityRegisteredEvent = append(x.db.IdentityRegisteredEvent, svcdb.IdentityRegisteredEvent{
			BlockNumber: a.i64(0), BlockHash: a.bytes(1), TxIndex: a.i64(2), LogIndex: a.i64(3), Eon: a.i64(4), IdentityPrefix: a.bytes(5),
			Sender: a.str(6), Timestamp: a.i64(7), Decrypted: false, Identity: a.bytes(8)})
		return tagInsert(1)
	})
	// INSERT INTO identity_registered_events_synced_until (block_hash, block_number) VALUES ($1, $2)
	// ON CONFLICT (enforce_one_row) DO UPDATE SET block_hash = $1, block_number = $2
	reg("shutterservice", "SetIdentityRegisteredEventSyncedUntil", p(tBytea, tInt8), nil, true, func(x *execCtx, a args) (*result, error) {
		const t = "identity_registered_events_synced_until"
		if err := a.required(t, 0, "block_hash", 1, "block_number"); err != nil {
			return nil, err
		}
		if err := nonNeg(t, a.i64(1), "block_number"); err != nil {
			return nil, err
		}
		if i := indexOf(x.db.IdentityRegisteredEventsSyncedUntil, func(r *svcdb.IdentityRegisteredEventsSyncedUntil) bool { return r.EnforceOneRow }); i >= 0 {
			x.db.IdentityRegisteredEventsSyncedUntil[i].BlockHash = a.bytes(0)
			x.db.IdentityRegisteredEventsSyncedUntil[i].BlockNumber = a.i64(1)
			return tagInsert(1)
		}
		x.db.IdentityRegisteredEventsSyncedUntil = append(x.db.IdentityRegisteredEventsSyncedUntil, svcdb.IdentityRegisteredEventsSyncedUntil{EnforceOneRow: true, BlockHash: a.bytes(0), BlockNumber: a.i64(1)})
		return tagInsert(1)
	})
	// DELETE FROM identity_registered_event WHERE block_number >= $1
	reg("shutterservice", "DeleteIdentityRegisteredEventsFromBlockNumber", p(tInt8), nil, true, func(x *execCtx, a args) (*result, error) {
		if a.null(0) {
			return tagDelete(0)
		}
		return tagDelete(len(deleteWhere(&x.db.IdentityRegisteredEvent, func(r *svcdb.IdentityRegisteredEvent) bool { return r.BlockNumber >= a.i64(0) })))
	})
	// SELECT * FROM multi_event_sync_status LIMIT 1
	reg("shutterservice", "GetMultiEventSyncStatus", nil, cols("enforce_one_row", tBool, "block_number", tInt8, "block_hash", tBytea), false, func(x *execCtx, a args) (*result, error) {
		rows := heapOrder(x, x.db.MultiEventSyncStatus)
		if len(rows) == 0 {
			return selected(nil)
		}
		return selected([][]interface{}{{rows[0].EnforceOneRow, rows[0].BlockNumber, rows[0].BlockHash}})
	})
	// INSERT INTO multi_event_sync_status (block_number, block_hash) VALUES ($1, $2)
	// ON CONFLICT (enforce_one_row) DO UPDATE SET block_number = $1, block_hash = $2
	reg("shutterservice", "SetMultiEventSyncStatus", p(tInt8, tBytea), nil, true, func(x *execCtx, a args) (*result, error) {
		const t = "multi_event_sync_status"
		if err := a.required(t, 0, "block_number", 1, "block_hash"); err != nil {
			return nil, err
		}
		if err := nonNeg(t, a.i64(0), "block_number"); err != nil {
			return nil, err
		}
		if i := indexOf(x.db.MultiEventSyncStatus, func(r *svcdb.MultiEventSyncStatus) bool { return r.EnforceOneRow }); i >= 0 {
			x.db.MultiEventSyncStatus[i].BlockNumber = a.i64(0)
			x.db.MultiEventSyncStatus[i].BlockHash = a.bytes(1)
			return tagInsert(1)
		}
		x.db.MultiEventSyncStatus = append(x.db.MultiEventSyncStatus, svcdb.MultiEventSyncStatus{EnforceOneRow: true, BlockNumber: a.i64(0), BlockHash: a.bytes(1)})
		return tagInsert(1)
	})
	// DELETE FROM event_trigger_registered_event WHERE block_number >= $1          (cascades to fired_triggers)
	reg("shutterservice", "DeleteEventTriggerRegisteredEventsFromBlockNumber", p(tInt8), nil, true, func(x *execCtx, a args) (*result, error) {
		if a.null(0) {
			return tagDelete(0)
		}
		return tagDelete(deleteEventTriggers(x.db, func(r *svcdb.EventTriggerRegisteredEvent) bool { return r.BlockNumber >= a.i64(0) }))
	})
	// INSERT INTO fired_triggers (eon, identity, identity_prefix, sender, block_number, block_hash, tx_index, log_index)
	// VALUES ($1..$8) ON CONFLICT (eon, identity) DO NOTHING
	reg("shutterservice", "InsertFiredTrigger", p(tInt8, tBytea, tBytea, tText, tInt8, tBytea, tInt8, tInt8), nil, true, func(x *execCtx, a args) (*result, error) {
		const t = "fired_triggers"
		if err := a.required(t, 0, "eon", 1, "identity", 2, "identity_prefix", 3, "sender", 4, "block_number", 5, "block_hash", 6, "tx_index", 7, "log_index"); err != nil {
			return nil, err
		}
		if err := nonNeg(t, a.i64(4), "block_number", a.i64(6), "tx_index", a.i64(7), "log_index"); err != nil {
			return nil, err
		}
		if indexOf(x.db.FiredTriggers, func(r *svcdb.FiredTrigger) bool { return r.Eon == a.i64(0) && bytes.Equal(r.Identity, a.bytes(1)) }) >= 0 {
			return tagInsert(0)
		}
		if indexOf(x.db.EventTriggerRegisteredEvent, func(r *svcdb.EventTriggerRegisteredEvent) bool {
			return r.Eon == a.i64(0) && bytes.Equal(r.Identity, a.bytes(1))
		}) < 0 {
			return nil, errFK(t, "fired_triggers_eon_identity_fkey", "event_trigger_registered_event")
		}
		x.db.FiredTriggers = append(x.db.FiredTriggers, svcdb.FiredTrigger{Eon: a.i64(0), Identity: a.bytes(1), IdentityPrefix: a.bytes(2), Sender: a.str(3),
			BlockNumber: a.i64(4), BlockHash: a.bytes(5), TxIndex: a.i64(6), LogIndex: a.i64(7)})
		return tagInsert(1)
	})
	// DELETE FROM fired_triggers WHERE block_number >= $1
	reg("shutterservice", "DeleteFiredTriggersFromBlockNumber", p(tInt8), nil, true, func(x *execCtx, a args) (*result, error) {
		if a.null(0) {
			return tagDelete(0)
		}
		return tagDelete(len(deleteWhere(&x.db.FiredTriggers, func(r *svcdb.FiredTrigger) bool { return r.BlockNumber >= a.i64(0) })))
	})
	// SELECT * FROM event_trigger_registered_event e WHERE e.expiration_block_number >= $1 AND e.decrypted = false
	// AND NOT EXISTS (SELECT 1 FROM fired_triggers t WHERE t.eon = e.eon AND t.identity = e.identity)        (no ORDER BY)
	reg("shutterservice", "GetActiveEventTriggerRegisteredEvents", p(tInt8), colsEventTrigger, false, func(x *execCtx, a args) (*result, error) {
		if a.null(0) {
			return selected(nil)
		}
		rows := filter(x.db.EventTriggerRegisteredEvent, func(e *svcdb.EventTriggerRegisteredEvent) bool {
			return e.ExpirationBlockNumber >= a.i64(0) && !e.Decrypted &&
				indexOf(x.db.FiredTriggers, func(t *svcdb.FiredTrigger) bool { return t.Eon == e.Eon && bytes.Equal(t.Identity, e.Identity) }) < 0
		})
		var out [][]interface{}
		for _, r := range heapOrder(x, rows) {
			out = append(out, []interface{}{r.BlockNumber, r.BlockHash, r.TxIndex, r.LogIndex, r.Eon, r.IdentityPrefix, r.Sender, r.Definition, r.ExpirationBlockNumber, r.Decrypted, r.Identity})
		}
		return selected(out)
	})
	// SELECT f.identity_prefix, f.sender, f.block_number, f.block_hash, f.tx_index, f.log_index, e.eon, e.expiration_block_number, e.identity, e.decrypted
	// FROM fired_triggers f INNER JOIN event_trigger_registered_event e ON f.eon = e.eon AND f.identity = e.identity
	// WHERE NOT EXISTS (SELECT 1 FROM event_trigger_registered_event e WHERE e.eon = f.eon AND e.identity = f.identity AND e.decrypted = true)   (no ORDER BY)
	reg("shutterservice", "GetUndecryptedFiredTriggers", nil, cols("identity_prefix", tBytea, "sender", tText, "block_number", tInt8, "block_hash", tBytea,
		"tx_index", tInt8, "log_index", tInt8, "eon", tInt8, "expiration_block_number", tInt8, "identity", tBytea, "decrypted", tBool), false, func(x *execCtx, a args) (*result, error) {
		var out [][]interface{}
		for _, f := range heapOrder(x, x.db.FiredTriggers) {
			f := f
			if indexOf(x.db.EventTriggerRegisteredEvent, func(e *svcdb.EventTriggerRegisteredEvent) bool {
				return e.Eon == f.Eon && bytes.Equal(e.Identity, f.Identity) && e.Decrypted
			}) >= 0 {
				continue
			}
			for _, e := range x.db.EventTriggerRegisteredEvent {
				if e.Eon == f.Eon && bytes.Equal(e.Identity, f.Identity) {
					out = append(out, []interface{}{f.IdentityPrefix, f.Sender, f.BlockNumber, f.BlockHash, f.TxIndex, f.LogIndex, e.Eon, e.ExpirationBlockNumber, e.Identity, e.Decrypted})
				}
			}
		}
		return selected(out)
	})
}
