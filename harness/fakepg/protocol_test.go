package fakepg

import (
	"context"
	"errors"
	"fmt"
	"strings"
	"sync"
	"testing"
	"time"

	"github.com/jackc/pgx/v4"
	"github.com/jackc/pgx/v4/pgxpool"

	kprdb "github.com/shutter-network/rolling-shutter/rolling-shutter/keyper/database"
	gnodb "github.com/shutter-network/rolling-shutter/rolling-shutter/keyperimpl/gnosis/database"
	metadb "github.com/shutter-network/rolling-shutter/rolling-shutter/medley/db"
)

func runtimeGosched() { time.Sleep(time.Millisecond) }

func insEon(ctx context.Context, db kprdb.DBTX, eon int64) error {
	return kprdb.New(db).InsertEon(ctx, kprdb.InsertEonParams{Eon: eon, Height: eon, ActivationBlockNumber: eon, KeyperConfigIndex: 1})
}

func eonIDs(db *DB) []int64 {
	out := []int64{}
	for _, e := range db.Eons {
		out = append(out, e.Eon)
	}
	return out
}

func TestTransactions(t *testing.T) {
	ctx, s, pool := setup(t)

	// commit
	ok(t, pool.BeginFunc(ctx, func(tx pgx.Tx) error {
		ok(t, insEon(ctx, tx, 1))
		ok(t, insEon(ctx, tx, 2))
		// visible inside, invisible outside until commit
		all, err := kprdb.New(tx).GetAllEons(ctx)
		ok(t, err)
		eq(t, len(all), 2)
		eq(t, len(s.Snapshot().Eons), 0)
		return nil
	}))
	eq(t, eonIDs(s.Snapshot()), []int64{1, 2})

	// rollback
	err := pool.BeginFunc(ctx, func(tx pgx.Tx) error {
		ok(t, insEon(ctx, tx, 3))
		return errors.New("abort")
	})
	if err == nil || err.Error() != "abort" {
		t.Fatalf("want abort, got %v", err)
	}
	eq(t, eonIDs(s.Snapshot()), []int64{1, 2})

	// failed transaction state
	tx, err := pool.Begin(ctx)
	ok(t, err)
	ok(t, insEon(ctx, tx, 4))
	wantCode(t, insEon(ctx, tx, 1), "23505")
	wantCode(t, insEon(ctx, tx, 5), "25P02")
	_, err = kprdb.New(tx).GetAllEons(ctx)
	wantCode(t, err, "25P02")
	// COMMIT of a failed transaction is a ROLLBACK (pgx reports ErrTxCommitRollback)
	err = tx.Commit(ctx)
	if !errors.Is(err, pgx.ErrTxCommitRollback) {
		t.Fatalf("want ErrTxCommitRollback, got %v", err)
	}
	eq(t, eonIDs(s.Snapshot()), []int64{1, 2})

	// failed transaction, explicit rollback; the connection is usable afterwards
	tx, err = pool.Begin(ctx)
	ok(t, err)
	wantCode(t, insEon(ctx, tx, 1), "23505")
	ok(t, tx.Rollback(ctx))
	ok(t, insEon(ctx, pool, 6))
	eq(t, eonIDs(s.Snapshot()), []int64{1, 2, 6})

	// an autocommit error leaves no transaction behind
	wantCode(t, insEon(ctx, pool, 6), "23505")
	ok(t, insEon(ctx, pool, 7))

	// nested BeginFunc = savepoint; inner failure is rolled back to the savepoint, outer continues
	ok(t, pool.BeginFunc(ctx, func(tx pgx.Tx) error {
		ok(t, insEon(ctx, tx, 10))
		err := tx.BeginFunc(ctx, func(inner pgx.Tx) error {
			ok(t, insEon(ctx, inner, 11))
			wantCode(t, insEon(ctx, inner, 1), "23505")
			return errors.New("inner failed")
		})
		if err == nil {
			t.Fatal("inner should fail")
		}
		ok(t, insEon(ctx, tx, 12))
		ok(t, tx.BeginFunc(ctx, func(inner pgx.Tx) error { return insEon(ctx, inner, 13) }))
		return nil
	}))
	eq(t, eonIDs(s.Snapshot()), []int64{1, 2, 6, 7, 10, 12, 13})

	// log contents
	var begins, commits, rollbacks int
	for _, e := range s.Log() {
		switch e.Kind {
		case KindBegin:
			begins++
		case KindCommit:
			commits++
			if len(e.Conflicts) != 0 {
				t.Fatalf("unexpected conflict: %v", e)
			}
		case KindRollback:
			rollbacks++
		}
	}
	eq(t, []int{begins, commits, rollbacks}, []int{5, 2, 3})
}

func TestConnectionLossDiscardsTransaction(t *testing.T) {
	ctx, s, pool := setup(t)
	c, err := pool.Acquire(ctx)
	ok(t, err)
	tx, err := c.Begin(ctx)
	ok(t, err)
	ok(t, insEon(ctx, tx, 1))
	ok(t, c.Conn().PgConn().Conn().Close()) // cut the wire
	c.Release()
	// the server notices asynchronously
	for i := 0; i < 1000; i++ {
		found := false
		for _, e := range s.Log() {
			if e.Kind == KindRollback && strings.Contains(e.Msg, "connection closed") {
				found = true
			}
		}
		if found {
			break
		}
		if i == 999 {
			t.Fatal("no rollback logged for the lost connection")
		}
		runtimeGosched()
	}
	eq(t, len(s.Snapshot().Eons), 0)
	ok(t, insEon(ctx, pool, 2)) // pool opens a fresh connection
}

func TestFaultDropBefore(t *testing.T) {
	ctx, s, pool := setup(t)
	ok(t, insEon(ctx, pool, 1)) // warm the statement cache: next call is Bind/Describe/Execute/Sync
	var fired Event
	s.SetFault(func(ev Event) Fault {
		if ev.Kind == KindExecute && ev.Stmt == "InsertEon" && fired.Seq == 0 {
			fired = ev
			return DropBefore
		}
		return None
	})
	err := insEon(ctx, pool, 2)
	if err == nil {
		t.Fatal("expected a connection error")
	}
	if code(err) != "<"+err.Error()+">" {
		t.Fatalf("expected a non-SQL error, got %v", err)
	}
	eq(t, fired.ID, "keyper/InsertEon")
	eq(t, fired.InTx, false)
	eq(t, eonIDs(s.Snapshot()), []int64{1})
	s.SetFault(nil)
	ok(t, insEon(ctx, pool, 2))
	eq(t, eonIDs(s.Snapshot()), []int64{1, 2})
	drops := 0
	for _, e := range s.Log() {
		if e.Kind == KindDrop {
			drops++
		}
	}
	eq(t, drops, 1)
}

func TestFaultDropAfterCommit(t *testing.T) {
	ctx, s, pool := setup(t)
	// 1. on COMMIT: the transaction is durable but the client sees a broken connection
	s.SetFault(func(ev Event) Fault {
		if ev.Kind == KindQuery && ev.Stmt == "commit" {
			if !ev.InTx {
				t.Errorf("commit event should be InTx")
			}
			return DropAfterCommit
		}
		return None
	})
	err := pool.BeginFunc(ctx, func(tx pgx.Tx) error { return insEon(ctx, tx, 1) })
	if err == nil {
		t.Fatal("expected the commit to report an error")
	}
	eq(t, eonIDs(s.Snapshot()), []int64{1})
	// 2. on an autocommit statement: applied, then dropped
	s.SetFault(func(ev Event) Fault {
		if ev.Kind == KindExecute && ev.Stmt == "InsertEon" {
			return DropAfterCommit
		}
		return None
	})
	if err := insEon(ctx, pool, 2); err == nil {
		t.Fatal("expected a connection error")
	}
	eq(t, eonIDs(s.Snapshot()), []int64{1, 2})
	// 3. inside a transaction on a statement: equivalent to a drop, work is lost
	err = pool.BeginFunc(ctx, func(tx pgx.Tx) error { return insEon(ctx, tx, 3) })
	if err == nil {
		t.Fatal("expected an error")
	}
	s.SetFault(nil)
	eq(t, eonIDs(s.Snapshot()), []int64{1, 2})
	ok(t, insEon(ctx, pool, 3))
}

func TestFaultSQLError(t *testing.T) {
	ctx, s, pool := setup(t)
	n := 0
	s.SetFault(func(ev Event) Fault {
		if ev.Kind == KindExecute && ev.Stmt == "InsertEon" {
			n++
			if n == 2 {
				return Fault{Kind: FaultSQLError, Code: "40001", Message: "could not serialize access"}
			}
		}
		return None
	})
	err := pool.BeginFunc(ctx, func(tx pgx.Tx) error {
		ok(t, insEon(ctx, tx, 1))
		wantCode(t, insEon(ctx, tx, 2), "40001")
		wantCode(t, insEon(ctx, tx, 3), "25P02") // transaction is in the failed state now
		return nil
	})
	if !errors.Is(err, pgx.ErrTxCommitRollback) {
		t.Fatalf("want ErrTxCommitRollback, got %v", err)
	}
	eq(t, len(s.Snapshot().Eons), 0)
	// default code; error on a simple query ("begin")
	s.SetFault(func(ev Event) Fault {
		if ev.Kind == KindQuery && ev.Stmt == "begin" {
			return SQLError
		}
		return None
	})
	_, err = pool.Begin(ctx)
	wantCode(t, err, "XX000")
	s.SetFault(nil)
	ok(t, insEon(ctx, pool, 9)) // connection still fine
}

func TestSnapshotRestoreAndDirectAccess(t *testing.T) {
	ctx, s, pool := setup(t)
	ok(t, insEon(ctx, pool, 1))
	snap := s.Snapshot()
	ok(t, insEon(ctx, pool, 2))
	snap.Eons[0].Height = 999 // snapshot is a deep copy
	eq(t, s.Snapshot().Eons[0].Height, int64(1))
	snap.Eons[0].Height = 1
	s.Restore(snap)
	eq(t, eonIDs(s.Snapshot()), []int64{1})
	ok(t, insEon(ctx, pool, 2)) // no unique violation: eon 2 is gone
	// seeding through the typed tables
	s.Update(func(db *DB) {
		db.Eons = append(db.Eons, kprdb.Eon{Eon: 50, Height: 5, ActivationBlockNumber: 50, KeyperConfigIndex: 3})
	})
	e, err := kprdb.New(pool).GetEon(ctx, 50)
	ok(t, err)
	eq(t, e.KeyperConfigIndex, int64(3))
	s.View(func(db *DB) { eq(t, len(db.Eons), 3) })
	eq(t, s.DB().Rows()["Eons"], 3)
	if !s.Snapshot().Equal(s.Snapshot()) {
		t.Fatal("Equal")
	}
	eq(t, NewDB().Diff(s.Snapshot()), []string{"Eons"})
}

func TestConcurrentConnections(t *testing.T) {
	ctx, s, pool := setup(t, MaxConns(8))
	const workers, per = 8, 25
	var wg sync.WaitGroup
	errs := make(chan error, workers*per)
	for w := 0; w < workers; w++ {
		wg.Add(1)
		go func(w int) {
			defer wg.Done()
			for i := 0; i < per; i++ {
				eon := int64(w*1000 + i)
				var err error
				if i%2 == 0 {
					err = insEon(ctx, pool, eon)
				} else {
					// transactions touching the same table concurrently are merged row-wise at commit
					err = pool.BeginFunc(ctx, func(tx pgx.Tx) error {
						if err := insEon(ctx, tx, eon); err != nil {
							return err
						}
						return kprdb.New(tx).InsertPureDKG(ctx, kprdb.InsertPureDKGParams{Eon: eon, Puredkg: []byte{1}})
					})
				}
				if err != nil {
					errs <- err
				}
			}
		}(w)
	}
	wg.Wait()
	close(errs)
	for err := range errs {
		t.Fatal(err)
	}
	snap := s.Snapshot()
	eq(t, len(snap.Eons), workers*per)
	eq(t, len(snap.Puredkg), workers*(per/2))
	seen := map[int64]bool{}
	for _, e := range snap.Eons {
		if seen[e.Eon] {
			t.Fatalf("duplicate eon %d", e.Eon)
		}
		seen[e.Eon] = true
	}
	conns := map[int]bool{}
	for _, e := range s.Log() {
		conns[e.Conn] = true
		if len(e.Conflicts) > 0 {
			t.Fatalf("no row was written twice, but: %v", e)
		}
	}
	if len(conns) < 2 {
		t.Fatalf("expected several connections, got %d", len(conns))
	}
}

func TestCommitConflictIsLogged(t *testing.T) {
	ctx, s, pool := setup(t)
	q := kprdb.New(pool)
	ok(t, q.SetLastBlockSeen(ctx, 1))
	tx1, err := pool.Begin(ctx)
	ok(t, err)
	tx2, err := pool.Begin(ctx)
	ok(t, err)
	ok(t, kprdb.New(tx1).SetLastBlockSeen(ctx, 10))
	ok(t, kprdb.New(tx2).SetLastBlockSeen(ctx, 20))
	ok(t, insEon(ctx, tx2, 5)) // different table: no conflict
	ok(t, tx1.Commit(ctx))
	ok(t, tx2.Commit(ctx)) // last writer wins, but it is logged
	n, _ := q.GetLastBlockSeen(ctx)
	eq(t, n, int64(20))
	var conflicts []string
	for _, e := range s.Log() {
		conflicts = append(conflicts, e.Conflicts...)
	}
	eq(t, conflicts, []string{"LastBlockSeen[true]"})
	eq(t, eonIDs(s.Snapshot()), []int64{5})
}

func TestListenTCP(t *testing.T) {
	ctx, s, _ := setup(t)
	url, closeFn, err := s.ListenTCP()
	ok(t, err)
	defer closeFn()
	pool, err := pgxpool.Connect(ctx, url)
	ok(t, err)
	defer pool.Close()
	// the repository's own database initialisation over TCP, including DDL scripts
	ok(t, metadb.InitDB(ctx, pool, "gnosiskeyper-test", gnodb.Definition))
	ok(t, metadb.ValidateDBVersion(ctx, pool, "gnosiskeyper-test"))
	if err := metadb.ValidateDBVersion(ctx, pool, "other-role"); err == nil {
		t.Fatal("role mismatch not detected")
	}
	ok(t, metadb.InitDB(ctx, pool, "gnosiskeyper-test", gnodb.Definition)) // second time: already exists
	ok(t, insEon(ctx, pool, 1))
	ok(t, pool.Ping(ctx))
	// what medley/testsetup does between tests
	rs, err := ScanRepo(repoRoot())
	ok(t, err)
	_, err = pool.Exec(ctx, rs.Scripts["testsetup/dropEverything"])
	ok(t, err)
	snap := s.Snapshot()
	eq(t, len(snap.Eons)+len(snap.MetaInf)+len(snap.LastBlockSeen), 0)
}

func TestUnknownAndChangedStatements(t *testing.T) {
	expectPinMismatch[t.Name()] = true
	ctx, s, pool := setup(t)
	// no handler at all
	_, err := pool.Exec(ctx, "-- name: TotallyNew :exec\nDELETE FROM eons WHERE eon = $1", int64(1))
	wantCode(t, err, "0A000")
	if !strings.Contains(err.Error(), "TotallyNew") {
		t.Fatalf("error does not name the query: %v", err)
	}
	// known name, different text
	rs, err := ScanRepo(repoRoot())
	ok(t, err)
	changed := strings.Replace(rs.Statements["keyper/GetEon"], "eon=$1", "eon = $1", 1)
	_, err = pool.Exec(ctx, changed, int64(1))
	wantCode(t, err, "0A000")
	// ambiguous name (keyper and snapshot both have InsertEonPublicKey) is never guessed
	s.SetStrictPins(false)
	_, err = pool.Exec(ctx, "-- name: InsertEonPublicKey :exec\nINSERT INTO x VALUES ($1, $2)", []byte{1}, int64(1))
	wantCode(t, err, "0A000")
	// non strict: unambiguous name runs the handler for the pinned text anyway
	_, err = pool.Exec(ctx, changed, int64(1))
	ok(t, err)
	// raw SQL without sqlc header
	_, err = pool.Exec(ctx, "SELECT * FROM eons")
	wantCode(t, err, "0A000")
	_, err = pool.Exec(ctx, "CREATE TABLE foo (x int); CREATE INDEX i ON foo (x);") // unpinned DDL is accepted but reported
	ok(t, err)
	pm := strings.Join(s.PinMismatches(), "\n")
	for _, want := range []string{"unhandled: TotallyNew", "changed: GetEon", "changed: InsertEonPublicKey", "unhandled: SELECT * FROM eons", "unpinned script: CREATE TABLE foo"} {
		if !strings.Contains(pm, want) {
			t.Errorf("PinMismatches lacks %q:\n%s", want, pm)
		}
	}
	ok(t, insEon(ctx, pool, 1)) // connection survived all of that
}

func TestParameterFormatsAndTypes(t *testing.T) {
	expectPinMismatch[t.Name()] = true // the interpolated simple-protocol text below is (rightly) reported
	ctx, _, pool := setup(t)
	rs, err := ScanRepo(repoRoot())
	ok(t, err)
	// a string argument is sent in text format even for a bigint parameter
	_, err = pool.Exec(ctx, rs.Statements["keyper/InsertEon"], "11", "22", "33", "44")
	ok(t, err)
	e, err := kprdb.New(pool).GetEon(ctx, 11)
	ok(t, err)
	eq(t, e, kprdb.Eon{Eon: 11, Height: 22, ActivationBlockNumber: 33, KeyperConfigIndex: 44})
	_, err = pool.Exec(ctx, rs.Statements["keyper/InsertEon"], "x", "22", "33", "44")
	wantCode(t, err, "22P03")
	// simple protocol with interpolated arguments is refused with a clear message (handlers need typed parameters)
	_, err = pool.Exec(ctx, rs.Statements["keyper/InsertEon"], pgx.QuerySimpleProtocol(true), int64(1), int64(2), int64(3), int64(4))
	wantCode(t, err, "0A000")
	// wrong number of arguments is caught by pgx from the ParameterDescription
	_, err = pool.Exec(ctx, rs.Statements["keyper/InsertEon"], int64(1))
	if err == nil || !strings.Contains(err.Error(), "expected 4 arguments") {
		t.Fatalf("got %v", err)
	}
	// unnamed statements / describe-only path: pgx.Conn.Prepare + result description
	c, err := pool.Acquire(ctx)
	ok(t, err)
	defer c.Release()
	sd, err := c.Conn().Prepare(ctx, "geteon", rs.Statements["keyper/GetEon"])
	ok(t, err)
	eq(t, len(sd.ParamOIDs), 1)
	eq(t, sd.ParamOIDs[0], tInt8)
	eq(t, len(sd.Fields), 4)
	eq(t, string(sd.Fields[3].Name), "keyper_config_index")
	var eon, h int64
	ok(t, c.Conn().QueryRow(ctx, "geteon", int64(11)).Scan(&eon, &h, new(int64), new(int64)))
	eq(t, h, int64(22))
	// text result format
	rows, err := c.Conn().Query(ctx, "geteon", pgx.QueryResultFormats{pgx.TextFormatCode}, int64(11))
	ok(t, err)
	for rows.Next() {
		eq(t, string(rows.RawValues()[1]), "22")
	}
	ok(t, rows.Err())
	ok(t, c.Conn().Deallocate(ctx, "geteon"))
}

func TestEventLogAndRoundTrips(t *testing.T) {
	ctx, s, pool := setup(t, MaxConns(1))
	ok(t, insEon(ctx, pool, 1)) // Parse/Describe/Sync + Bind/Describe/Execute/Sync
	s.ResetLog()
	ok(t, insEon(ctx, pool, 2)) // cached: one round trip
	log := s.Log()
	eq(t, RoundTrips(log), 1)
	var kinds []string
	for _, e := range log {
		kinds = append(kinds, e.Kind)
		if e.Seq == 0 || e.Conn == 0 {
			t.Fatalf("bad event %+v", e)
		}
	}
	eq(t, kinds, []string{KindBind, KindDescribe, KindExecute, KindExec, KindSync})
	eq(t, log[3].Rows, 1)
	eq(t, log[3].ID, "keyper/InsertEon")
	s.ResetLog()
	ok(t, pool.BeginFunc(ctx, func(tx pgx.Tx) error { return insEon(ctx, tx, 3) }))
	eq(t, RoundTrips(s.Log()), 3) // begin, statement, commit
	for i := 1; i < len(s.Log()); i++ {
		if s.Log()[i].Seq <= s.Log()[i-1].Seq {
			t.Fatal("sequence numbers must increase")
		}
	}
	if !strings.Contains(FormatLog(s.Log()), "commit commit [tx] tables=Eons") {
		t.Fatalf("log:\n%s", FormatLog(s.Log()))
	}
}

func TestSplitSQL(t *testing.T) {
	got := splitSQL("-- c\nCREATE TABLE a (x text DEFAULT ';'); /* ; */ DO $$ BEGIN a; b; END $$;\nINSERT INTO t VALUES ($1);;")
	eq(t, len(got), 3)
	if !strings.HasPrefix(got[1], "DO $$") || !strings.HasSuffix(got[1], "$$") {
		t.Fatalf("%q", got[1])
	}
	eq(t, keyword("  Begin isolation level serializable"), "begin")
	eq(t, keyword("rollback to savepoint sp_1"), "rollback to savepoint")
	eq(t, classify("commit"), "commit")
	eq(t, classify(";"), "empty")
	eq(t, fmt.Sprint(classify("create table x (a int)")), "script")
}

// Large values must not deadlock the synchronous in-memory pipe (replies are
// buffered until Sync) and must round-trip unchanged.
func TestLargeValues(t *testing.T) {
	ctx, _, pool := setup(t)
	q := kprdb.New(pool)
	big := make([]byte, 3<<20)
	for i := range big {
		big[i] = byte(i * 7)
	}
	ok(t, q.InsertPureDKG(ctx, kprdb.InsertPureDKGParams{Eon: 1, Puredkg: big}))
	for i := int64(2); i < 200; i++ {
		ok(t, q.InsertPureDKG(ctx, kprdb.InsertPureDKGParams{Eon: i, Puredkg: big[:10000]}))
	}
	rows, err := q.SelectPureDKG(ctx)
	ok(t, err)
	eq(t, len(rows), 199)
	if string(rows[0].Puredkg) != string(big) {
		t.Fatal("large bytea corrupted")
	}
	keypers := make([]string, 5000)
	for i := range keypers {
		keypers[i] = fmt.Sprintf("0x%040x", i)
	}
	ok(t, q.InsertBatchConfig(ctx, kprdb.InsertBatchConfigParams{KeyperConfigIndex: 1, Keypers: keypers}))
	bc, err := q.GetBatchConfig(ctx, 1)
	ok(t, err)
	eq(t, bc.Keypers, keypers)
}
