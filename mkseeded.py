#!/usr/bin/env python3
"""Regenerates docs/seeded.md from seeded/*/meta.json."""
import json, glob, os
rows = []
for f in sorted(glob.glob('/verif/seeded/*/meta.json')):
    m = json.load(open(f)); name = f.split('/')[-2]
    c = m.get('confirmed', {}); k = m.get('check', {})
    ok = c.get('demo_without_patch_exit') == 0 and c.get('build_exit') == 0 and c.get('existing_tests_exit') == 0 and c.get('demo_with_patch_exit') not in (0, None)
    rows.append((name, m.get('property', ''), (m.get('summary', '') or '').replace('\n', ' ').replace('|', '/')[:220],
                 (m.get('needs_to_manifest', '') or '').replace('\n', ' ').replace('|', '/')[:200],
                 'yes' if ok else 'NO', ('detected' if k.get('detected') else ('detected by ./check '+','.join(p for p,v in m.get('cross',{}).items() if v.get('detected')) if any(v.get('detected') for v in m.get('cross',{}).values()) else ('equivalent (see EQUIVALENT.md)' if os.path.exists(os.path.dirname(f)+'/EQUIVALENT.md') else 'MISSED'))), m.get('caught_by', '') or '; '.join(v.get('caught_by','') for v in m.get('cross',{}).values() if v.get('detected'))))
with open('/verif/docs/seeded.md', 'w') as o:
    o.write('# Seeded changes and what the checks do with them\n\n')
    o.write('Each change was produced by a sub-agent that saw only the property text and its own worktree, confirmed here in a scratch worktree (builds, existing tests pass, its demonstration fails with and passes without the change), applied to /repo, checked with `./check <id> --tier quick`, and reverted.\n\n')
    o.write('| mutant | property | change | needs to manifest | confirmed | check | caught by |\n|---|---|---|---|---|---|---|\n')
    for r in rows: o.write('| ' + ' | '.join(r) + ' |\n')
print(len(rows), 'mutants')
