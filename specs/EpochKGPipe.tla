----------------------------- MODULE EpochKGPipe -----------------------------
(***************************************************************************)
(* C01, part B: the handler pipeline of                                    *)
(* keyper/epochkghandler/keyshare.go (DecryptionKeyShareHandler) over the  *)
(* tables decryption_key_share and decryption_key                          *)
(* (keyper/database/sql/queries/keyper.sql).                               *)
(*                                                                         *)
(* A share MESSAGE names its sender (keyper index) and carries 1..2 share  *)
(* items [id, kind]; the kinds are the share tokens of EpochKG.tla plus    *)
(* "swap" (the sender's valid share for the OTHER identity of the message).*)
(* libp2p runs ValidateMessage first and HandleMessage only on Accept; the *)
(* step operator Step mirrors exactly that.                                *)
(*                                                                         *)
(* Tables are JSON-shaped:                                                 *)
(*   shareTab[id] = sequence (insertion order) of rows [s, kind]           *)
(*                  (primary key eon, epoch_id, keyper_index)              *)
(*   keyTab[id]   = "none" | "good" | "bad"   (primary key eon, epoch_id)  *)
(***************************************************************************)
EXTENDS EpochKG

CONSTANT IdOrder       \* the identities in bytewise order of their preimages (bytes.Compare)

Rank(id) == CHOOSE k \in DOMAIN IdOrder : IdOrder[k] = id

ShareItems == [id : Idents, kind : ShareKinds]
(* at most one non-valid share per message, plus the two-share messages whose shares are BOTH
   "swap": the sender's valid shares of the two identities of the message attached crosswise (each
   share fails the pairing check; their sum matches the sum of the epoch ids).  A "swap" share in a
   message that names no other identity is the same object as "otherId". *)
ShareSeqs == {q \in UNION {[1..n -> ShareItems] : n \in 1..2} :
                 \/ Cardinality({i \in DOMAIN q : q[i].kind # "valid"}) <= 1
                 \/ \A i \in DOMAIN q : q[i].kind = "swap"}
(* The second input class of the pipeline: DecryptionKeys messages of peers, handled by
   DecryptionKeyHandler (keyper/epochkghandler/key.go) on the SAME tables.  A key item is
   [id, kind]: "correct" = the epoch secret key of id (byte-identical to what aggregation gives, so
   it is "known" iff keyTab[id] = "good"), "forged" = a well-formed G1 point that is not the key
   (one fixed object per identity).  1..2 keys, every identity order and every kind combination:
   [known, forged], [forged, known], [known, correct-new], [known, known], unordered ... all occur
   because whether a correct key is "known" is a matter of the table state. *)
KeyKinds == {"correct", "forged"}
KeyClass(kind) == IF kind = "correct" THEN "good" ELSE "bad"
KeyItems == [id : Idents, kind : KeyKinds]
KeySeqs == UNION {[1..n -> KeyItems] : n \in 1..2}
ShareMsgs == [t : {"shares"}, s : Senders, shares : ShareSeqs, keys : {<<>>}]
KeysMsgs == [t : {"keys"}, s : {0}, shares : {<<>>}, keys : KeySeqs]
Msgs == ShareMsgs \cup KeysMsgs

(* identity list of a message of either class *)
MsgIds(m) == IF m.t = "keys" THEN [i \in DOMAIN m.keys |-> m.keys[i].id] ELSE [i \in DOMAIN m.shares |-> m.shares[i].id]
MsgIdSet(m) == {MsgIds(m)[i] : i \in DOMAIN MsgIds(m)}

DBInit == [shareTab |-> [i \in Idents |-> <<>>], keyTab |-> [i \in Idents |-> "none"]]

----------------------------------------------------------------------------
(* ValidateMessage: instance id, eon range, membership, DKG result and the message size limits
   are constant in this domain (they belong to C04); what varies is checkKeyShares:            *)
RECURSIVE CheckKeyShares(_, _)
CheckKeyShares(m, i) ==
    IF i > Len(m.shares) THEN [verdict |-> "accept", err |-> ""]
    ELSE IF m.shares[i].kind # "valid" THEN [verdict |-> "reject", err |-> "verify"]     \* VerifyEpochSecretKeyShare
    ELSE IF i > 1 /\ Rank(m.shares[i].id) < Rank(m.shares[i - 1].id)
         THEN [verdict |-> "reject", err |-> "order"]                                    \* "keyshares not ordered"
    ELSE CheckKeyShares(m, i + 1)
Validate(m) == CheckKeyShares(m, 1)

(* InsertDecryptionKeySharesMsg: one INSERT .. ON CONFLICT DO NOTHING per share *)
RECURSIVE InsertShares(_, _, _)
InsertShares(tab, m, i) ==
    IF i > Len(m.shares) THEN tab
    ELSE LET it == m.shares[i] IN
         InsertShares(IF \E k \in DOMAIN tab[it.id] : tab[it.id][k].s = m.s
                      THEN tab
                      ELSE [tab EXCEPT ![it.id] = Append(@, [s |-> m.s, kind |-> it.kind])], m, i + 1)

(* aggregateDecryptionKeySharesFromDB: SELECT the rows of one identity, feed them to a FRESH
   EpochKG (part A operator Handle); errors of single shares are logged and skipped *)
RECURSIVE FeedRows(_, _, _, _)
FeedRows(kg, id, rows, k) ==
    IF k > Len(rows) THEN kg
    ELSE FeedRows(Handle(kg, [s |-> rows[k].s, id |-> id, kind |-> rows[k].kind]).kg, id, rows, k + 1)
Aggregate(tab, id) == FeedRows(KGInit, id, tab[id], 1)

(* the odd test in HandleMessage: numShares := len(epochKG.SecretShares) is the number of
   IDENTITIES that have pending shares in the fresh EpochKG (0 or 1), not the number of shares *)
NumSharesOdd(kg) == Cardinality({i \in Idents : kg.pending[i] # <<>>})

(* the aggregation loop over the shares of the message; returns
   [stop |-> "" | "notenough" | "error", keys |-> sequence of [id, key]] *)
RECURSIVE AggLoop(_, _, _, _)
AggLoop(tab, m, i, keys) ==
    IF i > Len(m.shares) THEN [stop |-> "", keys |-> keys]
    ELSE LET id == m.shares[i].id
             kg == Aggregate(tab, id) IN
         IF kg.key[id] = "none"
         THEN IF NumSharesOdd(kg) < T THEN [stop |-> "notenough", keys |-> <<>>]
              ELSE [stop |-> "error", keys |-> <<>>]
         ELSE AggLoop(tab, m, i + 1, Append(keys, [id |-> id, key |-> kg.key[id]]))

(* InsertDecryptionKeysMsg: INSERT .. ON CONFLICT DO NOTHING per key *)
RECURSIVE InsertKeys(_, _, _)
InsertKeys(ktab, keys, i) ==
    IF i > Len(keys) THEN ktab
    ELSE InsertKeys(IF ktab[keys[i].id] # "none" THEN ktab ELSE [ktab EXCEPT ![keys[i].id] = keys[i].key], keys, i + 1)

(* HandleMessage; returns [db, out, err]; out = sequence of emitted keys messages, each a
   sequence of [id, key] *)
HandleMsg(db, m) ==
    LET tab1 == InsertShares(db.shareTab, m, 1)
        db1 == [db EXCEPT !.shareTab = tab1] IN
    IF \A i \in DOMAIN m.shares : db.keyTab[m.shares[i].id] # "none"       \* allKeysExist
    THEN [db |-> db1, out |-> <<>>, err |-> ""]
    ELSE LET a == AggLoop(tab1, m, 1, <<>>) IN
         IF a.stop = "notenough" THEN [db |-> db1, out |-> <<>>, err |-> ""]
         ELSE IF a.stop = "error" THEN [db |-> db1, out |-> <<>>, err |-> "enough"]
         ELSE [db |-> [db1 EXCEPT !.keyTab = InsertKeys(db.keyTab, a.keys, 1)], out |-> <<a.keys>>, err |-> ""]

(* DecryptionKeyHandler.ValidateMessage / checkKeysErrors, key by key: decode, order test against
   the previous identity, then the FAST PATH (a key byte-identical to the stored one is skipped:
   `continue`), else VerifyEpochSecretKey against the eon public key *)
RECURSIVE CheckKeys(_, _, _)
CheckKeys(db, m, i) ==
    IF i > Len(m.keys) THEN [verdict |-> "accept", err |-> ""]
    ELSE IF i > 1 /\ Rank(m.keys[i].id) < Rank(m.keys[i - 1].id) THEN [verdict |-> "reject", err |-> "order"]
    ELSE IF db.keyTab[m.keys[i].id] = KeyClass(m.keys[i].kind) THEN CheckKeys(db, m, i + 1)      \* already stored
    ELSE IF m.keys[i].kind # "correct" THEN [verdict |-> "reject", err |-> "verify"]
    ELSE CheckKeys(db, m, i + 1)
ValidateKeys(db, m) == CheckKeys(db, m, 1)

(* DecryptionKeyHandler.HandleMessage: InsertDecryptionKeysMsg, nothing is emitted *)
HandleKeys(db, m) ==
    [db |-> [db EXCEPT !.keyTab = InsertKeys(@, [i \in DOMAIN m.keys |-> [id |-> m.keys[i].id, key |-> KeyClass(m.keys[i].kind)]], 1)],
     out |-> <<>>, err |-> ""]

(* one delivery as libp2p performs it: validate, handle only on accept *)
Step(db, m) ==
    IF m.t = "keys"
    THEN LET v == ValidateKeys(db, m) IN
         IF v.verdict # "accept" THEN [db |-> db, verdict |-> v.verdict, verr |-> v.err, out |-> <<>>, err |-> ""]
         ELSE LET h == HandleKeys(db, m) IN [db |-> h.db, verdict |-> "accept", verr |-> "", out |-> h.out, err |-> h.err]
    ELSE
    LET v == Validate(m) IN
    IF v.verdict # "accept" THEN [db |-> db, verdict |-> v.verdict, verr |-> v.err, out |-> <<>>, err |-> ""]
    ELSE LET h == HandleMsg(db, m) IN [db |-> h.db, verdict |-> "accept", verr |-> "", out |-> h.out, err |-> h.err]

----------------------------------------------------------------------------
(* Property layer over ONE observed delivery.
   Ground truth is taken from the inputs: a message is well formed iff all its shares are
   the sender's valid shares and the identities are in non-decreasing byte order; the ghost
   gh.pairs is the set of <<sender, id>> carried by well-formed messages delivered so far,
   gh.groups the identity lists those messages carried. *)
WellFormed(m) ==
    /\ \A i \in DOMAIN m.shares : m.shares[i].kind = "valid"
    /\ \A i \in DOMAIN m.keys : m.keys[i].kind = "correct"
    /\ \A i \in DOMAIN MsgIds(m) : i > 1 => Rank(MsgIds(m)[i]) >= Rank(MsgIds(m)[i - 1])
(* gh.got = the identities whose CORRECT key was delivered in a well-formed keys message: a keyper
   may learn a key from its peers instead of deriving it *)
PGhostInit == [pairs |-> {}, groups |-> {}, got |-> {}]
PGhostNext(gh, m) ==
    IF ~WellFormed(m) THEN gh
    ELSE IF m.t = "keys" THEN [gh EXCEPT !.got = @ \cup MsgIdSet(m)]
    ELSE [gh EXCEPT !.pairs = @ \cup {<<m.s, id>> : id \in MsgIdSet(m)}, !.groups = @ \cup {MsgIds(m)}]
Held(gh, id) == Cardinality(ValidSenders(gh.pairs, id))
SeqSet(q) == {q[i] : i \in DOMAIN q}
(* honest keypers answer one trigger: identities always travel in the same list *)
UniformGrouping(gh) == \A g1, g2 \in gh.groups : g1 = g2 \/ SeqSet(g1) \cap SeqSet(g2) = {}
Duplicate(gh, m) == m.t = "shares" /\ WellFormed(m) /\ \A id \in MsgIdSet(m) : <<m.s, id>> \in gh.pairs
(* the key of id can be known: T distinct valid shares held, or delivered by a peer *)
Knowable(gh, id) == Held(gh, id) >= T \/ id \in gh.got

(* obs = [verdict, out, err, post] *)
(* a well-formed message is never blocked *)
B_NoBlock(gh, pre, m, obs) == WellFormed(m) => obs.verdict = "accept" /\ obs.err = ""
(* an invalid message changes nothing and produces nothing *)
B_NoPoison(gh, pre, m, obs) == ~WellFormed(m) => obs.post = pre /\ obs.out = <<>>
(* the share table holds exactly the distinct valid shares delivered (once each) *)
B_Holds(gh, pre, m, obs) ==
    LET g2 == PGhostNext(gh, m) IN
    \A id \in Idents :
       /\ \A k \in DOMAIN obs.post.shareTab[id] : obs.post.shareTab[id][k].kind = "valid"
       /\ {obs.post.shareTab[id][k].s : k \in DOMAIN obs.post.shareTab[id]} = ValidSenders(g2.pairs, id)
       /\ Len(obs.post.shareTab[id]) = Held(g2, id)
(* a duplicate never changes the share table *)
B_Dup(gh, pre, m, obs) == Duplicate(gh, m) => obs.post.shareTab = pre.shareTab
(* never from fewer than T *)
B_NeverFewer(gh, pre, m, obs) ==
    LET g2 == PGhostNext(gh, m) IN \A id \in Idents : obs.post.keyTab[id] # "none" => Knowable(g2, id)
(* a well-formed keys message stores all its keys; as soon as every identity of a well-formed
   shares message is held T times, all of them have a key (the handler re-aggregates EVERY identity
   of the message from the share table, also those whose key it already learnt from a peer);
   with uniform grouping (what honest keypers send) this is: key <=> T distinct valid shares *)
B_Exact(gh, pre, m, obs) ==
    LET g2 == PGhostNext(gh, m) IN
    /\ (WellFormed(m) /\ (m.t = "keys" \/ \A id \in MsgIdSet(m) : Held(g2, id) >= T))
          => \A id \in MsgIdSet(m) : obs.post.keyTab[id] # "none"
    /\ UniformGrouping(g2) => \A id \in Idents : (obs.post.keyTab[id] # "none") <=> Knowable(g2, id)
(* every stored or emitted key is THE key *)
B_Correct(gh, pre, m, obs) ==
    /\ \A id \in Idents : obs.post.keyTab[id] \in {"none", "good"}
    /\ \A i \in DOMAIN obs.out : \A k \in DOMAIN obs.out[i] : obs.out[i][k].key = "good"
(* a stored key is never lost or replaced *)
B_Stable(gh, pre, m, obs) == \A id \in Idents : pre.keyTab[id] # "none" => obs.post.keyTab[id] = pre.keyTab[id]
(* an emitted keys message carries exactly the identities of the triggering message, and
   everything it carries is stored *)
B_Emit(gh, pre, m, obs) ==
    /\ Len(obs.out) <= 1
    /\ \A i \in DOMAIN obs.out :
          /\ [k \in DOMAIN obs.out[i] |-> obs.out[i][k].id] = MsgIds(m)
          /\ \A k \in DOMAIN obs.out[i] : obs.post.keyTab[obs.out[i][k].id] = obs.out[i][k].key

BFailed(gh, pre, m, obs) ==
    (IF B_NoBlock(gh, pre, m, obs) THEN {} ELSE {"C01_NoBlock"}) \cup
    (IF B_NoPoison(gh, pre, m, obs) THEN {} ELSE {"C01_NoPoison"}) \cup
    (IF B_Holds(gh, pre, m, obs) THEN {} ELSE {"C01_Holds"}) \cup
    (IF B_Dup(gh, pre, m, obs) THEN {} ELSE {"C01_Dup"}) \cup
    (IF B_NeverFewer(gh, pre, m, obs) THEN {} ELSE {"C01_NeverFewer"}) \cup
    (IF B_Exact(gh, pre, m, obs) THEN {} ELSE {"C01_Exact"}) \cup
    (IF B_Correct(gh, pre, m, obs) THEN {} ELSE {"C01_Correct"}) \cup
    (IF B_Stable(gh, pre, m, obs) THEN {} ELSE {"C01_Stable"}) \cup
    (IF B_Emit(gh, pre, m, obs) THEN {} ELSE {"C01_Emit"})
=============================================================================
