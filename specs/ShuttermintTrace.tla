--------------------------- MODULE ShuttermintTrace ---------------------------
(***************************************************************************)
(* Trace layer: validates ndjson traces recorded by harness/sm from the    *)
(* real app.ShutterApp.  The trace is a depth-first walk of a trie of      *)
(* behaviours: op lines push onto a stack of (observed state, ghost),      *)
(* "pop" lines return to an earlier node.  The walk is deterministic (one  *)
(* TLC state per line), every variable is logged.                          *)
(*   pass A  viol : <<line, monitor>> for every property monitor of        *)
(*                  ShuttermintProps that is false on the OBSERVED step    *)
(*   pass B  drift: lines whose observed (response, post-state) is not a   *)
(*                  result the code-shaped spec allows from the observed   *)
(*                  pre-state                                              *)
(* Both are collected, not stopped at, and printed with the RESULT tag.    *)
(***************************************************************************)
EXTENDS ShuttermintProps, Json

CONSTANT TraceFile
Trace == ndJsonDeserialize(TraceFile)

VARIABLES l, stack, viol, drift
tvars == <<l, stack, viol, drift>>

ObsR(line, o) == [kind |-> line.k, tx |-> line.tx, code |-> o.code, events |-> o.events, updates |-> o.updates]

(* a forged transaction is executed under the address its signature happens to recover to, which is
   outside the universe: the application records that address's nonce; nothing else may change *)
Known(st) == [st EXCEPT !.nonces = [a \in Addrs |-> st.nonces[a]]]

SpecAllows(pre, line, o) ==
    CASE line.k = "tx"  -> /\ \E x \in DeliverTx(pre, line.tx) :
                                /\ IF line.tx.k = "forged" THEN Known(x.st) = Known(o.st) ELSE x.st = o.st
                                /\ x.code = o.code /\ x.events = o.events
                           /\ o.updates = <<>> /\ o.begin = <<>>
      [] line.k = "chk" -> LET x == CheckTx(pre, line.tx) IN
                           x.st = o.st /\ x.code = o.code /\ o.events = <<>> /\ o.updates = <<>> /\ o.begin = <<>>
      [] line.k = "end" -> LET x == EndBlock(pre, pre.height + 1) IN
                           /\ Commit(x.st) = o.st /\ x.events = o.events /\ x.updates = o.updates
                           /\ o.begin = BeginBlock(o.st, pre.height + 2)
      [] OTHER -> FALSE

(* C10 (iii): this run is the twin run with x inserted; main is the run without x *)
C10_NI(line, o) ==
    (line.mode = "c10" /\ Len(line.main) > 0) =>
      LET m == line.main[1] IN
      /\ \/ (line.k = "tx" /\ line.tx.s = line.x.s /\ line.x.s # NoAddr)
         \/ (m.code = o.code /\ m.events = o.events /\ m.updates = o.updates /\ m.begin = o.begin)
      /\ Mask(m.st, line.x) = Mask(o.st, line.x)

(* C13: this run was restarted from its save file; main is the run that never stopped *)
C13_Same(line, o) ==
    (line.mode = "c13" /\ Len(line.main) > 0) =>
      LET m == line.main[1] IN
      m.code = o.code /\ m.events = o.events /\ m.updates = o.updates /\ m.begin = o.begin /\ m.st = o.st

StepViol(line, pre, g) ==
    LET o == line.obs[1] IN
    (IF Len(line.obs) # 1 THEN {"C09_Agree"} ELSE {}) \cup
    (IF \E i \in DOMAIN line.obs : line.obs[i].panic # "" THEN {"C10_NoPanic"} ELSE {}) \cup
    (IF o.panic = "" THEN Failed(g, pre, line.k, line.tx, ObsR(line, o), o.st) ELSE {}) \cup
    (IF C10_NI(line, o) THEN {} ELSE {"C10_NI"}) \cup
    (IF C13_Same(line, o) THEN {} ELSE {"C13_Same"})

TInit == l = 1 /\ stack = <<>> /\ viol = {} /\ drift = {}

TNext ==
    /\ l <= Len(Trace)
    /\ l' = l + 1
    /\ LET line == Trace[l] IN
       CASE line.k = "new" ->
              /\ stack' = <<[app |-> line.obs[1].st, g |-> GhostInit]>>
              /\ viol' = viol \cup (IF Len(line.obs) # 1 THEN {<<l, "C09_Agree">>} ELSE {})
              /\ drift' = drift \cup (IF line.obs[1].st = InitState /\ line.obs[1].begin = BeginBlock(InitState, 1)
                                      THEN {} ELSE {l})
         [] line.k = "pop" ->
              /\ stack' = SubSeq(stack, 1, line.d + 1)
              /\ UNCHANGED <<viol, drift>>
         [] line.k = "re" ->
              /\ viol' = viol \cup {<<l, "C09_Agree">>}
              /\ UNCHANGED <<stack, drift>>
         [] line.k = "load" ->
              (* the application was re-created from the file saved at node d *)
              /\ stack' = Append(SubSeq(stack, 1, line.d), [app |-> line.obs[1].st, g |-> stack[line.d + 1].g])
              /\ viol' = viol \cup (IF line.obs[1].panic = "" /\ line.obs[1].st = stack[line.d + 1].app
                                    THEN {} ELSE {<<l, "C13_Load">>})
              /\ UNCHANGED drift
         [] OTHER ->
              LET top == stack[Len(stack)]
                  o == line.obs[1]
              IN /\ viol' = viol \cup {<<l, m>> : m \in StepViol(line, top.app, top.g)}
                 /\ drift' = drift \cup (IF SpecAllows(top.app, line, o) THEN {} ELSE {l})
                 /\ stack' = Append(stack, [app |-> o.st,
                                            g |-> GhostNext(top.g, top.app, line.k, line.tx, ObsR(line, o), o.st)])

TSpec == TInit /\ [][TNext]_tvars

Done == l <= Len(Trace) \/
        PrintT(<<"RESULT", ToJson([lines |-> Len(Trace), viol |-> SetToSeq(viol), drift |-> SetToSeq(drift)])>>)

=============================================================================
