------------------------------ MODULE GossipCrash ------------------------------
(***************************************************************************)
(* Code-shaped specification of how every node flavour terminates on one   *)
(* delivered gossip message (property C05): for each (flavour, topic) the  *)
(* validators registered on the topic in registration order (reject        *)
(* dominates, p2p/messaging.go GetCombinedValidator), then, on accept, the  *)
(* handlers of the message type in registration order (P2PMessaging.Handle).*)
(* Each operator mirrors the checks of one Go function IN ORDER and names   *)
(* the places where the Go code indexes an attacker-controlled length:      *)
(*   keyper/epochkghandler/keyshare.go  checkKeyShares: PublicKeyShares[idx]*)
(*   keyperimpl/gnosis/handlers.go, keyperimpl/shutterservice/handlers.go   *)
(*        ValidateDecryptionKeysSignatures: signers[i] over len(Signatures) *)
(*        DecryptionKeysHandler.HandleMessage: Signatures[i] per signer     *)
(*   keyperimpl/primev/handler.go  getBidderNodeAddress: signatureBytes[64] *)
(* Other anchored functions: epochkghandler key.go / eonpublickey.go,       *)
(* keyperimpl/snapshot/trigger.go, gnosisaccessnode/decryptionkeyshandler.go*)
(* p2p/message.go, p2pmsg/messages.go.                                     *)
(*                                                                         *)
(* A CASE c = [fl, topic, m, bytes, recv, mode, ver, tp, instv, trace,      *)
(*             tracing]:                                                    *)
(*  fl     node flavour                                                    *)
(*  topic  the subscribed topic the delivery arrives on                    *)
(*  m      the structured message class (type m.ty; m.ty # topic: a        *)
(*         message of another type published on this topic)                *)
(*  bytes  byte-level class applied to the envelope bytes of m afterwards: *)
(*         none | truncate | flipBit | lengthInflate | emptyEnvelope |     *)
(*         wrongAnyType | nestedAny | randomBytes                          *)
(*  recv   receiver state (besides the ones below): "setonly" = of the     *)
(*         named set only the chain side is known (keyper_set row / keyper *)
(*         set in the Storage), "keyonly" = only the key side (core keyper *)
(*         tables with the DKG result / eon key in the Storage); in both a *)
(*         second set is fully known                                       *)
(*  recv   receiver state: "empty" (fresh database / empty storage),       *)
(*         "ready" (keyper set 1 known, receiver member, DKG succeeded,    *)
(*         collator / eon rows present), "primed" (ready + keys, one share *)
(*         and T-1 signatures stored so that handlers take their long paths)*)
(*                                                                         *)
(*  ver    class of the envelope version string: ok ("0.0.1") | empty |     *)
(*         t1 "0" | t2 "0." | t3 "0.0" | t4 "0.0." (the truncations) | one  *)
(*         "1" | dot0 ".0" | patch "0.0.2" | minor "0.1.1" | longer          *)
(*         "0.0.1.0" | long (64 KiB) | nonascii.  Unmarshal demands the exact  *)
(*         version, every other class is refused before the Any is looked at*)
(*  tp     class of the topic field of the pubsub message handed to the    *)
(*         validator registered for `topic`: ok | nil (no topic field) |   *)
(*         empty | trunc (last character missing) | upper | sibling        *)
(*         (another subscribed topic); the closure of addValidatorImpl     *)
(*         refuses everything but ok (libp2p itself only hands ok)         *)
(*  instv  the instance id carried when m.inst is FALSE: p1 (ours + 1) |   *)
(*         m1 | zero | p63 (2^63) | max (2^64 - 1); p1 when m.inst is TRUE *)
(*  trace  class of the optional Envelope.trace field (outside everything   *)
(*         signed or validated): absent | ok (16-byte trace id, 8-byte span *)
(*         id, 1 flag byte) | tid0 tid15 tid17 | sid0 sid7 sid9 | fl0 fl2   *)
(*         (lengths of the three fields) | empty (present, all fields empty)*)
(*  tracing node mode: "on" = trace.SetEnabled() as the tracing option of   *)
(*         the commands does; only then Unmarshal hands the trace context   *)
(*         on and P2PMessaging.handle (P2P # nil) calls ExtractTraceContext *)
(*  mode   how the delivery is executed (the code-shaped outcome does not   *)
(*         depend on it):                                                  *)
(*         "handle"  combined validator, then P2PMessaging.Handle          *)
(*         "send"    combined validator, then the whole P2PMessaging.handle*)
(*                   (Handle + SendMessage of every message a handler      *)
(*                   returns) on a P2PNode whose libp2p Publish FAILS:     *)
(*                   SendMessage uses retry.NumberOfRetries(0), so it      *)
(*                   returns after the single failed attempt, handle logs  *)
(*                   the error and returns; the handling loop goes on      *)
(*         "stress"  the delivery is validated by 8 goroutines at once     *)
(*                   while the node's state feeder (access node: Storage.  *)
(*                   AddEonKey / AddKeyperSet, as chain sync does) runs;   *)
(*                   the storage is mutex protected, so every validation   *)
(*                   sees one of the (equal) states: same outcome; a       *)
(*                   process that dies (Go's fatal "concurrent map read    *)
(*                   and map write") is observed as panic                  *)
(*                                                                         *)
(* Message classes (fields are class names; "valid" always means made by   *)
(* the concretiser with the real keys over exactly the message's fields):  *)
(*  shares [ty, inst, set, snd, ents, idlen, extra, slot, txp, sig]        *)
(*  keys   [ty, inst, set, ents, idlen, extra, slot, txp, signers, lastidx, *)
(*          nsigs, sigq]                                                   *)
(*  eonpk  [ty, inst, pk, sig, big]                                        *)
(*  trigger [ty, inst, block, sig, idn]                                    *)
(*  commitment [ty, inst, lens, nids, badid, bidsig, digest, block]        *)
(*   lens: eq | idsMore (one identity more than tx hashes) | txMore        *)
(*   badid: which identity is not hex: none | first | last (with idsMore   *)
(*         the one beyond the tx hash list) | all                          *)
(*   ents: one | two | none | many | unordered | invalid | badlen |        *)
(*         undecodable          (the share / key list)                     *)
(*   idlen: fit (identities have the SSZ size of the flavour) | off        *)
(*   signers: good | none | fewer | more | dup | unordered  (shape of the   *)
(*         signer index list; good = T strictly ascending in-range ones)   *)
(*   lastidx: value class of the LAST signer index (the others ascend      *)
(*         below it): in (in range) | n | n1 (= n+1) | p31 | p32 | p63m1   *)
(*         (2^63-1) | p63 (2^63: negative as int64) | p64m1 (2^64-1)       *)
(*   nsigs: eq | none | fewer | more   (number of signatures relative to   *)
(*         the number of signer indices)                                   *)
(*   sigq: valid | wrongSigner | garbage | short; sigpos: which signature  *)
(*         has that quality (the others are genuine): all | first | last   *)
(*         (with nsigs = more the one beyond the signer list)              *)
(*                                                                         *)
(* Variants (the as-found behaviour is kept as a named alternative):       *)
(*   SenderCheck  "checked" (fix C04-1) | "asfound"                        *)
(*   LenRule      "equal" (fix C06-1)   | "asfound"                        *)
(*   BidSigCheck  "checked" (fix C05-1) | "asfound"                        *)
(***************************************************************************)
EXTENDS Integers, Sequences, FiniteSets

CONSTANTS N, T, MaxN, SenderCheck, LenRule, BidSigCheck

Flavours    == {"core", "gnosis", "service", "primev", "snapshot", "access"}
ByteClasses == {"none", "truncate", "flipBit", "lengthInflate", "emptyEnvelope", "wrongAnyType", "nestedAny", "randomBytes"}
RecvStates  == {"empty", "ready", "primed", "setonly", "keyonly"}
TraceClasses == {"absent", "ok", "tid0", "tid15", "tid17", "sid0", "sid7", "sid9", "fl0", "fl2", "empty"}
EntClasses  == {"one", "two", "none", "many", "unordered", "invalid", "badlen", "undecodable"}

Topics(fl) ==
    CASE fl = "core"     -> {"shares", "keys", "eonpk"}
      [] fl = "gnosis"   -> {"shares", "keys", "eonpk"}
      [] fl = "service"  -> {"shares", "keys", "eonpk"}
      [] fl = "primev"   -> {"shares", "keys", "eonpk", "commitment"}
      [] fl = "snapshot" -> {"shares", "keys", "eonpk", "trigger"}
      [] fl = "access"   -> {"keys"}

OwnExtra(fl) == CASE fl \in {"gnosis", "access"} -> "gnosis" [] fl = "service" -> "service" [] OTHER -> "none"

----------------------------------------------------------------------------
(* class vocabulary *)
Count(e) == CASE e = "none" -> 0 [] e \in {"two", "unordered"} -> 2 [] e = "many" -> MaxN + 1 [] OTHER -> 1
AllDecode(e) == e # "undecodable"
AllValid(e)  == e \in {"one", "two", "many", "unordered", "none"}
Ordered(e)   == e # "unordered"

SignersLen(s) == CASE s = "none" -> 0 [] s = "fewer" -> T - 1 [] s = "more" -> T + 1 [] OTHER -> T
NSigs(m) ==
    CASE m.nsigs = "eq"    -> SignersLen(m.signers)
      [] m.nsigs = "none"  -> 0
      [] m.nsigs = "fewer" -> IF SignersLen(m.signers) = 0 THEN 0 ELSE SignersLen(m.signers) - 1
      [] m.nsigs = "more"  -> SignersLen(m.signers) + 1

(* the receiver knows keyper set / config / eon key of the eon the message names *)
(* what the receiver knows about the set the message names.  The two kinds of knowledge come from
   different sources and arrive at different times (the window while a key generation runs):
   KeyKnown  the key side: tendermint_batch_config / eons / dkg_result of the core keyper tables,
             the eon public key in the access node's Storage
   KSetKnown the chain side: chainobserver's keyper_set row, the keyper set in the Storage *)
KeyKnown(c)  == c.recv \in {"ready", "primed", "keyonly"} /\ c.m.set = "MemberOk"
KSetKnown(c) == c.recv \in {"ready", "primed", "setonly"} /\ c.m.set = "MemberOk"

----------------------------------------------------------------------------
(* validators: "accept" | "reject" | "panic" *)

(* epochkghandler.DecryptionKeyShareHandler.ValidateMessage + checkKeyShares *)
CoreSharesV(c) ==
    LET m == c.m IN
    IF ~m.inst THEN "reject"
    ELSE IF m.set = "Overflow" THEN "reject"
    ELSE IF ~KeyKnown(c) THEN "reject"                         \* GetBatchConfig / not a keyper / no DKG result
    ELSE IF Count(m.ents) = 0 THEN "reject"
    ELSE IF Count(m.ents) > MaxN THEN "reject"
    ELSE IF m.snd >= N THEN (IF SenderCheck = "checked" THEN "reject" ELSE "panic")
    ELSE IF ~AllValid(m.ents) THEN "reject"
    ELSE IF ~Ordered(m.ents) THEN "reject"
    ELSE "accept"

(* epochkghandler.DecryptionKeyHandler.ValidateMessage + checkKeysErrors *)
CoreKeysV(c) ==
    LET m == c.m IN
    IF ~m.inst THEN "reject"
    ELSE IF m.set = "Overflow" THEN "reject"
    ELSE IF ~KeyKnown(c) THEN "reject"
    ELSE IF Count(m.ents) = 0 THEN "reject"
    ELSE IF Count(m.ents) > MaxN THEN "reject"
    ELSE IF ~Ordered(m.ents) THEN "reject"
    ELSE IF ~AllValid(m.ents) THEN "reject"                    \* a stored key is the true key in "primed"
    ELSE "accept"

(* epochkghandler.EonPublicKeyHandler.ValidateMessage *)
CoreEonPKV(c) == IF c.m.inst THEN "accept" ELSE "reject"

(* CheckSignature of gnosisssztypes / serviceztypes on one signature of quality q over a
   message with Count identities: HashTreeRoot fails if an identity has the wrong size *)
SigOk(m, q) == (Count(m.ents) = 0 \/ m.idlen = "fit") /\ q = "valid"

(* gnosis.DecryptionKeySharesHandler.ValidateMessage *)
GnosisSharesV(c) ==
    LET m == c.m IN
    IF m.extra # "gnosis" THEN "reject"
    ELSE IF m.slot = "huge" THEN "reject"
    ELSE IF m.txp = "huge" THEN "reject"
    ELSE IF ~KSetKnown(c) THEN "reject"
    ELSE IF m.snd >= N THEN "reject"
    ELSE IF ~SigOk(m, m.sig) THEN "reject"
    ELSE "accept"

(* shutterservice.DecryptionKeySharesHandler.ValidateMessage *)
ServiceSharesV(c) ==
    LET m == c.m IN
    IF m.extra # "service" THEN "reject"
    ELSE IF ~KSetKnown(c) THEN "reject"
    ELSE IF m.snd >= N THEN "reject"
    ELSE IF ~SigOk(m, m.sig) THEN "reject"
    ELSE "accept"

(* validateSignerIndices (and KeyperSet.GetSubset): the indices are compared as uint64 with the
   size of the keyper set, so every value class other than "in" is out of range, also the ones
   whose conversion to a signed integer is negative (p63, p64m1).  A list whose last index is
   replaced by such a value ascends strictly, so the range check is what rejects it. *)
LastIdxInRange(m) == SignersLen(m.signers) = 0 \/ m.lastidx = "in"
SignerIdxOk(m) == m.signers \notin {"dup", "unordered"} /\ LastIdxInRange(m)

(* the loop `for i := 0; i < len(Signatures); i++ { signer := signers[i]; CheckSignature }`.
   FirstBad = position of the first signature CheckSignature refuses (0: none): with identities of
   the wrong size every one; otherwise the ones of quality sigq at sigpos.  Indexing signers[i]
   beyond the signer list comes before checking that signature. *)
FirstBad(m) ==
    IF NSigs(m) = 0 THEN 0
    ELSE IF Count(m.ents) > 0 /\ m.idlen # "fit" THEN 1
    ELSE IF m.sigq = "valid" THEN 0
    ELSE IF m.sigpos = "last" THEN NSigs(m) ELSE 1
SigLoop(m) ==
    LET bad == FirstBad(m)  n == SignersLen(m.signers) IN
    IF bad # 0 /\ bad <= n THEN "reject"
    ELSE IF NSigs(m) > n THEN "panic"
    ELSE IF bad # 0 THEN "reject"
    ELSE "accept"

(* gnosis.ValidateDecryptionKeysSignatures (also used by the access node) *)
GnosisKeysSigs(m) ==
    IF SignersLen(m.signers) # T THEN "reject"
    ELSE IF LenRule = "equal" /\ NSigs(m) # SignersLen(m.signers) THEN "reject"
    ELSE IF ~SignerIdxOk(m) THEN "reject"
    ELSE SigLoop(m)

(* gnosis.ValidateDecryptionKeysBasic *)
GnosisKeysBasic(m) ==
    IF m.extra # "gnosis" THEN "reject"
    ELSE IF m.slot = "huge" THEN "reject"
    ELSE IF m.txp # "ok" THEN "reject"                         \* > MaxInt32
    ELSE IF Count(m.ents) = 0 THEN "reject"
    ELSE "accept"

(* gnosis.DecryptionKeysHandler.ValidateMessage *)
GnosisKeysV(c) ==
    IF GnosisKeysBasic(c.m) # "accept" THEN "reject"
    ELSE IF ~KSetKnown(c) THEN "reject"
    ELSE GnosisKeysSigs(c.m)

(* shutterservice.ValidateDecryptionKeysSignatures + DecryptionKeysHandler.ValidateMessage *)
ServiceEmptyException(m) ==
    IF LenRule = "equal" THEN SignersLen(m.signers) = 0 /\ NSigs(m) = 0
    ELSE SignersLen(m.signers) = 0 \/ NSigs(m) = 0
ServiceKeysV(c) ==
    LET m == c.m IN
    IF m.extra # "service" THEN "reject"
    ELSE IF ~KSetKnown(c) THEN "reject"
    ELSE IF ServiceEmptyException(m) THEN "accept"
    ELSE GnosisKeysSigs(m)

(* gnosisaccessnode.DecryptionKeysHandler.ValidateMessage *)
AccessKeysV(c) ==
    LET m == c.m IN
    IF ~m.inst THEN "reject"
    ELSE IF m.set = "Overflow" THEN "reject"
    ELSE IF Count(m.ents) = 0 THEN "reject"
    ELSE IF Count(m.ents) > MaxN THEN "reject"
    ELSE IF ~KeyKnown(c) THEN "reject"                         \* storage.GetEonKey
    ELSE IF ~AllValid(m.ents) THEN "reject"
    ELSE IF ~Ordered(m.ents) THEN "reject"
    ELSE IF GnosisKeysBasic(m) # "accept" THEN "reject"
    ELSE IF ~KSetKnown(c) THEN "reject"                        \* storage.GetKeyperSet
    ELSE GnosisKeysSigs(m)

(* snapshot.DecryptionTriggerHandler.ValidateMessage *)
TriggerV(c) ==
    LET m == c.m IN
    IF ~m.inst THEN "reject"
    ELSE IF m.block = "overflow" THEN "reject"
    ELSE IF c.recv = "empty" \/ m.block = "nocollator" THEN "reject"
    ELSE IF m.sig # "valid" THEN "reject"
    ELSE "accept"

(* primev.PrimevCommitmentHandler.ValidateMessage *)
CommitmentV(c) ==
    IF c.m.lens # "eq" THEN "reject" ELSE IF ~c.m.inst THEN "reject" ELSE "accept"

----------------------------------------------------------------------------
(* handlers: "ok" | "error" | "panic" *)

(* gnosis / shutterservice DecryptionKeysHandler.HandleMessage:
   `for i, keyperIndex := range SignerIndices { ... Signatures[i] ... }` *)
FlavourKeysH(c) == IF NSigs(c.m) < SignersLen(c.m.signers) THEN "panic" ELSE "ok"

(* primev getBidderNodeAddress + PrimevCommitmentHandler.HandleMessage *)
BidSigLen(q) == CASE q \in {"valid", "v27", "garbage65"} -> 65 [] q = "long" -> 66 [] OTHER -> 0   \* short / empty / nonhex: < 65
CommitmentH(c) ==
    LET m == c.m IN
    IF BidSigLen(m.bidsig) < 65 THEN (IF BidSigCheck = "checked" THEN "error" ELSE "panic")
    ELSE IF m.bidsig \in {"garbage65", "long"} \/ m.digest # "ok" THEN "error"     \* crypto.SigToPub
    ELSE IF m.nids > 0 /\ m.badid # "none" THEN "error"                            \* hex.DecodeString
    ELSE IF c.recv \in {"empty", "setonly"} \/ m.block # "known" THEN "error"                     \* GetEonForBlockNumber
    ELSE IF m.nids = 0 THEN "error"                                                \* ARRAY_AGG over zero rows is NULL
    ELSE "ok"

----------------------------------------------------------------------------
(* registration order, as in the Start functions of the flavours *)
ValidatorsOf(fl, topic) ==
    CASE topic = "shares" ->
            (CASE fl = "gnosis" -> <<"gnosisShares", "coreShares">>
               [] fl = "service" -> <<"serviceShares", "coreShares">>
               [] OTHER -> <<"coreShares">>)
      [] topic = "keys" ->
            (CASE fl = "gnosis" -> <<"gnosisKeys", "coreKeys">>
               [] fl = "service" -> <<"serviceKeys", "coreKeys">>
               [] fl = "access" -> <<"accessKeys">>
               [] OTHER -> <<"coreKeys">>)
      [] topic = "eonpk" -> <<"coreEonPK">>
      [] topic = "trigger" -> <<"trigger">>
      [] topic = "commitment" -> <<"commitment">>

RunV(name, c) ==
    CASE name = "coreShares" -> CoreSharesV(c)   [] name = "coreKeys" -> CoreKeysV(c)
      [] name = "coreEonPK" -> CoreEonPKV(c)
      [] name = "gnosisShares" -> GnosisSharesV(c) [] name = "gnosisKeys" -> GnosisKeysV(c)
      [] name = "serviceShares" -> ServiceSharesV(c) [] name = "serviceKeys" -> ServiceKeysV(c)
      [] name = "accessKeys" -> AccessKeysV(c)
      [] name = "trigger" -> TriggerV(c) [] name = "commitment" -> CommitmentV(c)

(* GetCombinedValidator: the first validator that does not accept decides *)
RECURSIVE Combined(_, _, _)
Combined(vs, i, c) ==
    IF i > Len(vs) THEN "accept"
    ELSE LET r == RunV(vs[i], c) IN IF r # "accept" THEN r ELSE Combined(vs, i + 1, c)

(* the closure of addValidatorImpl in front of every validator: unmarshal + Validate() of the
   carried type (a share / key that does not unmarshal), type check *)
Validation(c) ==
    IF c.tp # "ok" THEN "reject"                                 \* message.GetTopic() != topic
    ELSE IF c.ver # "ok" THEN "reject"                           \* p2pmsg.Unmarshal: exact envelope version
    ELSE IF c.m.ty \in {"shares", "keys"} /\ ~AllDecode(c.m.ents) THEN "reject"
    ELSE IF c.m.ty # c.topic THEN "reject"
    ELSE Combined(ValidatorsOf(c.fl, c.topic), 1, c)

HandlersOf(fl, ty) ==
    CASE ty = "keys" /\ fl \in {"gnosis", "service"} -> <<"flavourKeys", "plain">>
      [] ty = "commitment" -> <<"commitment">>
      [] OTHER -> <<"plain">>                     \* handlers without an attacker-indexed list

(* P2PMessaging.Handle: every handler runs; an error of one is collected *)
RECURSIVE HandleAll(_, _, _, _)
HandleAll(hs, i, c, acc) ==
    IF i > Len(hs) THEN acc
    ELSE LET r == CASE hs[i] = "flavourKeys" -> FlavourKeysH(c)
                     [] hs[i] = "commitment" -> CommitmentH(c)
                     [] OTHER -> "ok" IN
         IF r = "panic" THEN "panic"
         ELSE HandleAll(hs, i + 1, c, IF r = "error" THEN "error" ELSE acc)

(* p2p.ExtractTraceContext as called by newSpanForReceive in P2PMessaging.handle: the three
   lengths are checked before anything is indexed; an error is logged and handling goes on, so the
   trace field never changes the outcome *)
TraceLens(t) ==
    CASE t = "ok" -> <<16, 8, 1>> [] t = "tid0" -> <<0, 8, 1>> [] t = "tid15" -> <<15, 8, 1>> [] t = "tid17" -> <<17, 8, 1>>
      [] t = "sid0" -> <<16, 0, 1>> [] t = "sid7" -> <<16, 7, 1>> [] t = "sid9" -> <<16, 9, 1>>
      [] t = "fl0" -> <<16, 8, 0>> [] t = "fl2" -> <<16, 8, 2>> [] OTHER -> <<0, 0, 0>>
ExtractTrace(c) ==
    IF c.tracing # "on" \/ c.mode # "send" \/ c.trace = "absent" THEN "skipped"
    ELSE IF TraceLens(c.trace) # <<16, 8, 1>> THEN "error"
    ELSE "ok"

Out(v, h) == [v |-> v, h |-> h]
Returning == {Out("reject", "none"), Out("ignore", "none"), Out("accept", "ok"), Out("accept", "error")}

(* the outcomes the code-shaped layer allows for a case.  The bytes inside a byte-level class
   are not modelled: any returning outcome is allowed for them (and none that does not return). *)
Outcomes(c) ==
    IF c.bytes # "none" THEN Returning
    ELSE LET v == Validation(c) IN
         IF v # "accept" THEN {Out(v, "none")}
         ELSE IF ExtractTrace(c) = "panic" THEN {Out("accept", "panic")}
         ELSE {Out("accept", HandleAll(HandlersOf(c.fl, c.m.ty), 1, c, "ok"))}

=============================================================================
