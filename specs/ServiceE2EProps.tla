-------------------------- MODULE ServiceE2EProps --------------------------
(***************************************************************************)
(* Property layer of the composition, over observed data only.  These are  *)
(* the statements of C02, C16 and C03 carried across the composition:      *)
(*                                                                         *)
(* E1 (C02)  no keyper emits a trigger / share for an identity before its  *)
(*     release condition holds ON THE CANONICAL CHAIN AS SYNCED BY THAT    *)
(*     KEYPER.  Ground truth is the block tree and the header the keyper   *)
(*     was given (blk, h) - not the keyper's tables:                       *)
(*       E1_Registered   the identity is registered on AncSelf(h)          *)
(*       E1_TimeStrict   registered timestamp < time of block h            *)
(*       E1_Activation   number of h >= activation block of the set        *)
(*       E1_EventInTime  a matching log after the registration block, no   *)
(*                       later than the expiry block, no later than h      *)
(*                       (EventTriggerProps!FiringLogs)                    *)
(*       E1_Member / E1_DkgOk   the registration's keyper set is one we    *)
(*                       belong to, whose key generation succeeded         *)
(*       E1_NotDecrypted the keyper's own decrypted flag of the identity   *)
(*                       was not set before the step                       *)
(*       E1_Sorted       identities strictly increasing (slots and bytes)  *)
(*       E1_Share        the share message names the same identities, the  *)
(*                       identities' keyper set, and verifies under that   *)
(*                       set's eon key                                     *)
(*       E1_Quiet        triggers only while a block is processed          *)
(* E2 (C16)  two keypers that process the same block h from the same       *)
(*     previous block (hence: the same canonical prefix in their tables    *)
(*     and the same trigger window), whatever the batching of their        *)
(*     earlier sync calls, emit the same triggers - byte-identical lists   *)
(*     when neither has decrypted flags the other lacks, and the same      *)
(*     identities modulo the other's decrypted flags otherwise.  The one   *)
(*     admitted difference is known finding D6 of C16 (a trigger           *)
(*     registered inside a multi-block sync range misses the logs later in *)
(*     that range), recognised by EventTriggerProps!KnownMiss on the       *)
(*     committed sync positions of the keyper that lacks the trigger:      *)
(*     reported as E2_Known_D6, anything else as E2_Same.                  *)
(* E3 (C03)  at quiescence, for every identity list that >= T keypers sent *)
(*     shares for: every keyper holds the correct key of every identity of *)
(*     the list (E3_AllHaveKeys; judged on the code side by byte equality  *)
(*     with the dealer's epoch secret key and trial decryption), no keyper *)
(*     ever holds a wrong key (E3_KeysGood), and every keyper that sent    *)
(*     shares for the list has the decrypted flag of each of its           *)
(*     identities set (E3_Flagged) - so that, by E1_NotDecrypted, it never *)
(*     triggers them again.  Every produced message is accepted by its     *)
(*     producer's validators and by every receiver (E3_Accepted).          *)
(* Information only (X_...): differences that are not violations of the    *)
(* three statements but that the composition makes visible.                *)
(***************************************************************************)
EXTENDS ServiceE2E

SeqSet(q) == {q[k] : k \in DOMAIN q}
AllIds(out) == UNION {SeqSet(out[k].ids) : k \in DOMAIN out}
KnownSlot(x) == x \in TimeIds \/ x \in EvIds
SetOf(u, x) == IF x \in TimeIds THEN u.idset[x] ELSE u.trset[x - NI]

(* ground truth: the block tree.  "The canonical chain as synced by that keyper" is the ancestor
   line of the block its sync position names after the step (tr for the registry syncer: time
   identities; te for the multi event syncer: event identities).  On a linear chain both are the
   header h it was given; they differ from h only right after a same-height head replacement,
   which the syncers notice one block later. *)
Tip(blk, h, sy) == IF sy.has /\ sy.hash >= 1 /\ sy.hash <= Len(blk) THEN sy.hash ELSE h
IdRegBlocks(blk, tr, x) == {b \in AncSelf(blk, tr) : TokI(x) \in blk[b].evs}
RegisteredOn(blk, tr, te, x) ==
    IF x \in TimeIds THEN IdRegBlocks(blk, tr, x) # {}
    ELSE RegBlock(blk, te, 1, blk[te].num, TKey(x - NI)) # 0
TsOn(blk, tr, x) == LET b == CHOOSE c \in IdRegBlocks(blk, tr, x) : TRUE IN blk[b].ts[x]
(* the keyper's tables moved to another branch in this step (rollback): decrypted flags of deleted
   rows are gone *)
Switched(blk, pre, post) ==
    \/ pre.r.synced.has /\ pre.r.synced.hash >= 1 /\ ~(pre.r.synced.hash \in AncSelf(blk, Tip(blk, 1, post.r.synced)))
    \/ pre.m.synced.has /\ pre.m.synced.hash >= 1 /\ ~(pre.m.synced.hash \in AncSelf(blk, Tip(blk, 1, post.m.synced)))

(* c = [u, blk, h, pre, post, tr, te] *)
Ctx(u, blk, h, pre, post) == [u |-> u, blk |-> blk, h |-> h, pre |-> pre, post |-> post,
                              tr |-> Tip(blk, h, post.r.synced), te |-> Tip(blk, h, post.m.synced)]
Reg(c, x) == KnownSlot(x) /\ RegisteredOn(c.blk, c.tr, c.te, x)

E1_Registered(c, out) == \A x \in AllIds(out) : Reg(c, x)
E1_TimeStrict(c, out) ==
    \A x \in AllIds(out) : (x \in TimeIds /\ Reg(c, x)) => TsOn(c.blk, c.tr, x) < TimeOf(c.blk[c.h].num)
E1_Activation(c, out) ==
    \A x \in AllIds(out) : Reg(c, x) => c.blk[c.h].num >= c.u.act[SetOf(c.u, x)]
E1_EventInTime(c, out) ==
    \A x \in AllIds(out) : (x \in EvIds /\ Reg(c, x)) => FiringLogs(c.blk, c.te, 1, c.blk[c.te].num, TKey(x - NI)) # {}
E1_Member(c, out) == \A x \in AllIds(out) : KnownSlot(x) => c.u.kind[SetOf(c.u, x)] # "foreign"
E1_DkgOk(c, out) == \A x \in AllIds(out) : KnownSlot(x) => c.u.kind[SetOf(c.u, x)] \in {"ok", "foreign"}
E1_NotDecrypted(c, out) ==
    \A x \in AllIds(out) : x \notin DecSlots(c.u, c.post) /\ (Switched(c.blk, c.pre, c.post) \/ x \notin DecSlots(c.u, c.pre))
E1_Sorted(c, out) ==
    \A k \in DOMAIN out : \A a, b \in DOMAIN out[k].ids : a < b => out[k].ids[a] < out[k].ids[b]
E1_Share(c, out) ==
    \A k \in DOMAIN out : out[k].msg.sent =>
        /\ out[k].msg.ids = out[k].ids
        /\ out[k].msg.set \in SetIdx
        /\ \A x \in SeqSet(out[k].ids) : KnownSlot(x) => SetOf(c.u, x) = out[k].msg.set
        /\ c.u.kind[out[k].msg.set] = "ok"
        /\ out[k].msg.key = EonNo(out[k].msg.set)
(* information: a decrypted flag was lost by a rollback and the identity is triggered again (the key
   share handler then answers "shares exist already") *)
X_ReTrigger(c, out) == \A x \in AllIds(out) : x \notin DecSlots(c.u, c.pre)

E1Failed(u, blk, h, pre, post, out) ==
    LET c == Ctx(u, blk, h, pre, post) IN
    (IF E1_Registered(c, out) THEN {} ELSE {"E1_Registered"}) \cup
    (IF E1_TimeStrict(c, out) THEN {} ELSE {"E1_TimeStrict"}) \cup
    (IF E1_Activation(c, out) THEN {} ELSE {"E1_Activation"}) \cup
    (IF E1_EventInTime(c, out) THEN {} ELSE {"E1_EventInTime"}) \cup
    (IF E1_Member(c, out) THEN {} ELSE {"E1_Member"}) \cup
    (IF E1_DkgOk(c, out) THEN {} ELSE {"E1_DkgOk"}) \cup
    (IF E1_NotDecrypted(c, out) THEN {} ELSE {"E1_NotDecrypted"}) \cup
    (IF E1_Sorted(c, out) THEN {} ELSE {"E1_Sorted"}) \cup
    (IF E1_Share(c, out) THEN {} ELSE {"E1_Share"}) \cup
    (IF X_ReTrigger(c, out) THEN {} ELSE {"X_ReTrigger"})

----------------------------------------------------------------------------
(* E2.  A "proc record" is what was observed of one keyper processing one block:
     [k, h, prev, trigs, dec, cuts]
   prev = the block it processed before (the root: none), trigs = the emitted triggers as a sequence
   of [blk, ids], dec = its decrypted slots when the triggers were computed, i.e. after the sync part
   of the step (a rollback deletes rows and with them their flags; the step itself sets no flag),
   cuts = the positions its MultiEventSyncer committed so far (after the step). *)
ProcRec(k, h, prev, out, dec, cuts) ==
    [k |-> k, h |-> h, prev |-> prev, trigs |-> [q \in DOMAIN out |-> [blk |-> out[q].blk, ids |-> out[q].ids]], dec |-> dec, cuts |-> cuts]
RecIds(a) == UNION {SeqSet(a.trigs[q].ids) : q \in DOMAIN a.trigs}

(* event identities that one of the two emitted and the other did not, the other's miss being of
   D6's shape *)
D6Miss(blk, h, a, b) ==
    {x \in EvIds : \/ x \in RecIds(a) \ RecIds(b) /\ KnownMiss(blk, h, 1, blk[h].num, b.cuts, TKey(x - NI))
                   \/ x \in RecIds(b) \ RecIds(a) /\ KnownMiss(blk, h, 1, blk[h].num, a.cuts, TKey(x - NI))}

E2Failed(blk, a, b) ==
    IF a.h # b.h \/ a.prev # b.prev \/ a.k = b.k THEN {}
    ELSE LET km == D6Miss(blk, a.h, a, b)
             ia == RecIds(a) \ (b.dec \cup km)
             ib == RecIds(b) \ (a.dec \cup km)
             plain == km = {} /\ (a.dec \cup b.dec) \cap (RecIds(a) \cup RecIds(b)) = {}
         IN (IF ia = ib /\ (plain => SeqSet(a.trigs) = SeqSet(b.trigs)) THEN {} ELSE {"E2_Same"}) \cup
            (IF km # {} THEN {"E2_Known_D6"} ELSE {})

----------------------------------------------------------------------------
(* E3.  obs = [verdict, prod] of one step as in Gossip.tla; tabs[i] = node record of keyper i (keys
   judged "none" / "good" / anything else = wrong); dec[i] = decrypted slots of keyper i;
   sent[r] = the keypers observed to have sent a shares message for list r *)
E3_Accepted(obs) == G!P_Accepted(obs)
E3_KeysGood(tabs) == G!P_KeysGood(tabs)

BigLists(sent) == {r \in DOMAIN Lists : Cardinality(sent[r]) >= T}
E3_AllHaveKeys(sent, tabs) ==
    \A r \in BigLists(sent) : \A i \in G!Nodes : \A x \in G!IdsOf(r) : tabs[i].keys[x] = "good"
E3_Flagged(sent, dec) ==
    \A r \in BigLists(sent) : \A i \in sent[r] : G!IdsOf(r) \subseteq dec[i]

StepFailed(obs, tabs) ==
    (IF E3_Accepted(obs) THEN {} ELSE {"E3_Accepted"}) \cup
    (IF E3_KeysGood(tabs) THEN {} ELSE {"E3_KeysGood"})
EndFailed(sent, tabs, dec) ==
    (IF E3_AllHaveKeys(sent, tabs) THEN {} ELSE {"E3_AllHaveKeys"}) \cup
    (IF E3_Flagged(sent, dec) THEN {} ELSE {"E3_Flagged"})

(* information: at the end every keyper has flagged every identity some keyper holds a key for and
   that it has registered itself (fails when keypers that processed different block sequences sent
   different identity lists: signatures are counted per list) *)
X_AllFlagged(tabs, dec, reg) ==
    \A i \in G!Nodes : \A x \in G!IdSet : (tabs[i].keys[x] = "good" /\ x \in reg[i]) => x \in dec[i]
(* information: an identity whose key every keyper holds was sent in no list that reached T senders *)
X_ListsAgree(sent, tabs) ==
    \A x \in G!IdSet : (\E i \in G!Nodes : tabs[i].keys[x] = "good") => \E r \in BigLists(sent) : x \in G!IdsOf(r)
InfoMonitors == {"X_AllFlagged", "X_ListsAgree", "X_Flagged", "X_ReTrigger", "E2_Known_D6"}
EndInfo(sent, tabs, dec, reg) ==
    (IF X_AllFlagged(tabs, dec, reg) THEN {} ELSE {"X_AllFlagged"}) \cup
    (IF X_ListsAgree(sent, tabs) THEN {} ELSE {"X_ListsAgree"})
=============================================================================
