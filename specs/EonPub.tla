-------------------------------- MODULE EonPub --------------------------------
(***************************************************************************)
(* C20, second stage -- code-shaped layer of eonkeypublisher/               *)
(* eonkeypublisher.go: what happens to an eon key after the keyper core's  *)
(* publication callback handed it to EonKeyPublisher.Publish (all flavours *)
(* with an on-chain publisher: gnosis, shutterservice, primev).            *)
(*                                                                         *)
(*   NewEonKeyPublisher   keys = make(chan EonPublicKey, 32)               *)
(*   Publish(key)         p.keys <- key  (blocks only when 32 are waiting) *)
(*   Start                publishOldKeys (one publish per successful       *)
(*                        dkg_result row, eon ASC), then forever:          *)
(*                        key := <-p.keys; publishIfResponsible(key)       *)
(*   publishIfResponsible keyper_set row of the key's config must exist    *)
(*                        and contain the keyper, else nothing happens     *)
(*   publish / tryPublish retry.FunctionCall (first call + NumRetries      *)
(*                        retries, 12 s apart) around one ATTEMPT: contract*)
(*                        lookups, hasKeyperVoted, eonKeyConfirmed,        *)
(*                        PublishEonKey transaction, WaitMined             *)
(* The publisher routine is sequential; while an attempt is in flight      *)
(* (arbitrarily long: RPC, mining, 12 s retry pause) Publish keeps         *)
(* appending to the channel.                                               *)
(***************************************************************************)
EXTENDS Naturals, Sequences, FiniteSets

CONSTANTS
    KeyTab,      \* sequence of [resp, old]: resp = the keyper_set row of the key's config exists and
                 \* contains the keyper; old = the key is in dkg_result when the publisher starts
                 \* (start-up pass) instead of being handed over through Publish
    OldSeq,      \* the old key ids in the order of GetAllDKGResults (ORDER BY eon ASC)
    ChanCap,     \* eonKeyChannelSize
    NumRetries   \* retries of medley/retry.FunctionCall (default 3)

KeyIds == DOMAIN KeyTab
NewKeys == {k \in KeyIds : ~KeyTab[k].old}

\* state of the publisher: channel content, program counter of the routine, key in work,
\* remaining start-up keys, calls of tryPublish made for the key in work, still in start-up pass
PInit == [chan |-> <<>>, pc |-> "loop", cur |-> 0, old |-> OldSeq, tries |-> 0, st |-> TRUE]

\* Publish: p.keys <- key
CanPublish(p) == Len(p.chan) < ChanCap
Publish(p, k) == [p EXCEPT !.chan = Append(@, k)]

\* the routine is between two keys
AtLoop(p) == p.pc = "loop"
InStartup(p) == p.st /\ p.old # <<>>

\* publishOldKeys: the next successful dkg_result row; p.publish is called without the
\* keyper_set lookup (the keyper index comes from the DKG result)
CanStartOld(p) == AtLoop(p) /\ InStartup(p)
StartOld(p) == [p EXCEPT !.cur = Head(p.old), !.old = Tail(p.old), !.pc = "attempt", !.tries = 1]

\* key := <-p.keys; publishIfResponsible: keyper_set lookup
CanTake(p) == AtLoop(p) /\ ~InStartup(p) /\ p.chan # <<>>
Take(p) ==
    LET k == Head(p.chan) IN
    IF KeyTab[k].resp THEN [p EXCEPT !.chan = Tail(@), !.cur = k, !.pc = "took", !.st = FALSE]
    ELSE [p EXCEPT !.chan = Tail(@), !.st = FALSE]   \* logged, nothing published

\* tryPublish begins (first call, or a retry after the 12 s pause)
CanStart(p) == p.pc \in {"took", "retrywait"}
Start(p) == [p EXCEPT !.pc = "attempt", !.tries = IF p.pc = "took" THEN 1 ELSE @ + 1]

\* tryPublish ends
CanEnd(p) == p.pc = "attempt"
End(p, res) ==
    IF res = "fail" /\ p.tries <= NumRetries THEN [p EXCEPT !.pc = "retrywait"]
    ELSE [p EXCEPT !.pc = "loop", !.cur = 0, !.tries = 0]

\* nothing left to do for the routine
Quiescent(p) == AtLoop(p) /\ ~InStartup(p) /\ p.chan = <<>>
=============================================================================
