------------------------------- MODULE HttpGate -------------------------------
(***************************************************************************)
(* C18 -- code-shaped layer.  The HTTP request pipeline of the keyper API  *)
(* as the Go code builds it (keyper/kprapi/kprapi.go setupRouter /         *)
(* setupAPIRouter, keyper/kproapi/middleware.go, generated oapi.gen.go):   *)
(*                                                                         *)
(*   chi outer Mux (Logger, Recoverer)                                     *)
(*     Mount("/v1") -> http.StripPrefix("/v1")                             *)
(*       chi inner Mux                                                     *)
(*         OapiRequestValidator  (kin-openapi gorillamux on EscapedPath)   *)
(*         ConfigMiddleware      (findOperation on r.URL.Path, decoded)    *)
(*         chi routing           (on rctx.RoutePath = wildcard of the      *)
(*                                outer match, i.e. the RAW path)          *)
(*         ServerInterfaceWrapper (parameter binding) -> Server handlers   *)
(*                                                                         *)
(* THREE different path matchers look at THREE different views of the      *)
(* request path; the gate (ConfigMiddleware) and the dispatcher (chi) are  *)
(* not the same code.  A request path is therefore modelled as a sequence  *)
(* of segments, each with its raw (escaped) text and the sequence of       *)
(* decoded segments it contributes to URL.Path (an encoded slash makes one *)
(* raw segment decode to two).                                             *)
(*                                                                         *)
(* One pure operator per function of the Go code; each takes the request   *)
(* record rq and returns the SET of possible continuations (Go map         *)
(* iteration in findOperation is the only nondeterminism).                 *)
(***************************************************************************)
EXTENDS Naturals, Sequences, FiniteSets, TLC

CONSTANTS
    Templates,  \* <<[name, segs]>>: every path of oapi.yaml and of the embedded document, plus "unknown";
                \*   segs = <<[k |-> "lit" | "param", s |-> text or parameter name]>>
    DocOps,     \* <<[path, method, op, marked, conc]>> operations of oapi.yaml (ground truth of "marked read-only")
    EmbOps,     \* <<[path, method, op, ro, params, body]>> operations of kproapi.GetSwagger() (what the code loads);
                \*   ro = JSON text of the x-read-only extension or "absent"
    EmbOrder,   \* embedded path names in the order gorillamux tries them
    ParamVal,   \* [parameter name -> the valid concrete value used by the concretiser]
    ParamBk,    \* [parameter name -> body key of the validator's complaint about it]
    IntParams,  \* parameters the generated wrapper binds as Go int
    Tok,        \* [extra |-> text of an extra segment]
    Variant,    \* [literal -> [upper |-> .., enc |-> ..]] other spellings of literal segments
    EffectOf,   \* [operationId -> observable effect label]
    Methods, Spellings, MaxSpell,
    DropReadOnly, \* {} = the code; see CoreReadOnly
    EmptyEnvCounts, \* FALSE = the code; see EnvValue
    UiModes,    \* subset of BOOLEAN: server built with SWAGGER_UI unset (FALSE) / set (TRUE)
    HdrCross,   \* TRUE: the header classes below are crossed with the documented spelling of every template
    Stacks      \* which handler stacks are in the domain:
                \*   "server" = kprapi.Server.setupRouter as it is (validator, ConfigMiddleware, handlers)
                \*   "gate"   = the same router without OapiRequestValidator: ConfigMiddleware + the generated
                \*              handlers on their own (the gate must not depend on the validator in front of it)

Range(f) == {f[i] : i \in DOMAIN f}
MinOf(S) == CHOOSE x \in S : \A y \in S : x <= y

Tpl(name) == CHOOSE t \in Range(Templates) : t.name = name

(***************************************************************************)
(* Request paths and their spellings                                       *)
(***************************************************************************)
Seg(raw, dec, k, s) == [raw |-> raw, dec |-> dec, k |-> k, s |-> s]
Ins(raw) == Seg(raw, <<raw>>, "ins", "")
Mut(raw, dec) == Seg(raw, dec, "mut", "")

\* the path as the API documentation says: /v1 + template with valid parameter values
BasePath(t) ==
    [segs |-> <<Seg("v1", <<"v1">>, "pre", "v1")>> \o
              [i \in DOMAIN t.segs |->
                 IF t.segs[i].k = "lit" THEN Seg(t.segs[i].s, <<t.segs[i].s>>, "lit", t.segs[i].s)
                 ELSE Seg(ParamVal[t.segs[i].s], <<ParamVal[t.segs[i].s]>>, "param", t.segs[i].s)],
     q |-> FALSE]

Has(p, k) == \E i \in DOMAIN p.segs : p.segs[i].k = k
First(p, k) == CHOOSE i \in DOMAIN p.segs : p.segs[i].k = k /\ \A j \in 1..(i - 1) : p.segs[j].k # k
Put(p, i, sg) == [p EXCEPT !.segs[i] = sg]
InsertAt(p, i, sgs) == [p EXCEPT !.segs = SubSeq(@, 1, i - 1) \o sgs \o SubSeq(@, i, Len(@))]
AfterPre(p) == IF Has(p, "pre") THEN First(p, "pre") + 1 ELSE 1

Applicable(p, sp) ==
    CASE sp \in {"encodedLetter", "upperCase"} -> Has(p, "lit")
      [] sp \in {"encodedSlashInParam", "emptyParam"} -> Has(p, "param")
      [] sp \in {"upperPrefix", "encodedPrefix", "slashBeforePrefix", "doublePrefix"} -> Has(p, "pre")
      [] sp = "noPrefix" -> Has(p, "pre") /\ Len(p.segs) >= 2
      [] sp = "query" -> ~p.q
      [] OTHER -> TRUE

Spell(p, sp) ==
    CASE sp = "exact" -> p
      [] sp = "trailingSlash" -> InsertAt(p, Len(p.segs) + 1, <<Ins("")>>)
      [] sp = "doubleSlash" -> InsertAt(p, AfterPre(p), <<Ins("")>>)
      [] sp = "encodedLetter" -> LET i == First(p, "lit") IN Put(p, i, Mut(Variant[p.segs[i].s].enc, <<p.segs[i].s>>))
      [] sp = "upperCase" -> LET i == First(p, "lit") IN
                                Put(p, i, Mut(Variant[p.segs[i].s].upper, <<Variant[p.segs[i].s].upper>>))
      [] sp = "encodedSlashInParam" -> LET i == First(p, "param") v == p.segs[i].raw IN
                                Put(p, i, Mut(v \o "%2F" \o v, <<v, v>>))
      [] sp = "encodedTrailingSlash" -> LET i == Len(p.segs) IN
                                Put(p, i, Mut(p.segs[i].raw \o "%2F", p.segs[i].dec \o <<"">>))
      [] sp = "dotSegment" -> InsertAt(p, AfterPre(p), <<Ins(".")>>)
      [] sp = "dotDotSegment" -> InsertAt(p, AfterPre(p), <<Ins(Tok.extra), Ins("..")>>)
      [] sp = "emptyParam" -> Put(p, First(p, "param"), Mut("", <<"">>))
      [] sp = "extraSegment" -> InsertAt(p, Len(p.segs) + 1, <<Ins(Tok.extra)>>)
      [] sp = "query" -> [p EXCEPT !.q = TRUE]
      [] sp = "noPrefix" -> LET i == First(p, "pre") IN
                                [p EXCEPT !.segs = SubSeq(@, 1, i - 1) \o SubSeq(@, i + 1, Len(@))]
      [] sp = "upperPrefix" -> Put(p, First(p, "pre"), Mut(Variant["v1"].upper, <<Variant["v1"].upper>>))
      [] sp = "encodedPrefix" -> Put(p, First(p, "pre"), Mut(Variant["v1"].enc, <<"v1">>))
      [] sp = "slashBeforePrefix" -> InsertAt(p, First(p, "pre"), <<Ins("")>>)
      [] sp = "doublePrefix" -> InsertAt(p, First(p, "pre"), <<Ins("v1")>>)

RECURSIVE SpellAll(_, _)
SpellAll(p, sps) == IF sps = <<>> THEN p ELSE SpellAll(Spell(p, sps[1]), Tail(sps))
RECURSIVE ApplicableAll(_, _)
ApplicableAll(p, sps) == sps = <<>> \/ (Applicable(p, sps[1]) /\ ApplicableAll(Spell(p, sps[1]), Tail(sps)))

RawSegs(p) == [i \in DOMAIN p.segs |-> p.segs[i].raw]
RECURSIVE Flat(_)
Flat(ss) == IF ss = <<>> THEN <<>> ELSE ss[1].dec \o Flat(Tail(ss))
DecSegs(p) == Flat(p.segs)
RECURSIVE JoinSlash(_)
JoinSlash(ss) == IF ss = <<>> THEN "" ELSE "/" \o ss[1] \o JoinSlash(Tail(ss))
\* the request target sent on the wire
Target(p) == JoinSlash(RawSegs(p)) \o (IF p.q THEN "?x=1" ELSE "")

(***************************************************************************)
(* SUPPLY PATH of the write setting.  The API server never sees the        *)
(* operator's configuration directly: a keyper flavour (keyperimpl/<f>)    *)
(* reads its own Config (SetDefaultValues, then the operator's file),      *)
(* NewKeyper copies fields into a kprconfig.Config for the keyper core,    *)
(* KeyperCore.getServices hands that to kprapi.NewHTTPService, and         *)
(* setupAPIRouter asks it GetEnableWriteOperations().                      *)
(* Flavours that expose the API with an operator-settable read-only flag:  *)
(* gnosis, shutterservice.  (snapshot and optimism have HTTPEnabled but no *)
(* HTTPReadOnly field: nothing to configure, the API is read-write by      *)
(* construction; primev hard-codes HTTPEnabled = false.)  "direct" = the   *)
(* harness hands kprapi its own Config (no supply path).                   *)
(* HTTPEnabled = true throughout (else there is no API).                   *)
(***************************************************************************)
Flavours == {"gnosis", "shutterservice"}
\* <flavour>.Config.SetDefaultValues: c.HTTPReadOnly = true (gnosis/config.go, shutterservice/config.go)
DefaultReadOnly(f) == TRUE

(***************************************************************************)
(* The flavour Config comes out of the configuration pipeline of the       *)
(* command (medley/configuration/command: Build -> RunE -> ParseCLI ->     *)
(* ParseViper): viper reads the TOML file named by --config, every field   *)
(* is bound to two environment variables (legacy <COMMAND>_<FIELD> and     *)
(* SHUTTER_<PATH>), SetDefaultValuesRecursive fills what the user did not  *)
(* provide, viper.Unmarshal decodes weakly (strconv.ParseBool for bools).  *)
(* src = [file, env, name]: what the operator wrote for HTTPReadOnly --    *)
(*   file \in {"absent", "true", "false"}   line in the TOML file           *)
(*   env  \in {"absent", "true", "false", "empty", "garbage"}  variable     *)
(*   name \in {"generic", "legacy", "-"}    which of the two variables      *)
(* Precedence as found in the code: environment over file over default; a  *)
(* variable that exists but is EMPTY is not set (viper's AllowEmptyEnv is  *)
(* off).  Named alternative (NOT the code) EmptyEnvCounts = TRUE: the      *)
(* empty variable is a value, "" decodes weakly to false.                  *)
(***************************************************************************)
Sources ==
    {s \in [file : {"absent", "true", "false"}, env : {"absent", "true", "false", "empty", "garbage"},
            name : {"generic", "legacy", "-"}] : (s.env = "absent") <=> (s.name = "-")}
NoSource == [file |-> "-", env |-> "-", name |-> "-"]
\* viper.Get: first bound variable that is set (and not empty)
EnvValue(src) ==
    IF src.env = "absent" THEN "unset"
    ELSE IF src.env = "empty" THEN (IF EmptyEnvCounts THEN "false" ELSE "unset")
    ELSE src.env
Resolved(src) ==
    IF EnvValue(src) # "unset" THEN EnvValue(src)
    ELSE IF src.file # "absent" THEN src.file ELSE "default"
\* viper.Unmarshal: a string that strconv.ParseBool refuses is an error, the command does not start
ParseOK(src) == Resolved(src) # "garbage"
\* the flavour Config the command hands to the keyper
ConfiguredReadOnly(f, src) ==
    CASE Resolved(src) = "true" -> TRUE
      [] Resolved(src) = "false" -> FALSE
      [] OTHER -> DefaultReadOnly(f)
\* <flavour>.NewKeyper: `HTTPReadOnly: kpr.config.HTTPReadOnly` in the kprconfig.Config literal -- the
\* identity for every flavour.  Named alternative (NOT the code): flavours in DropReadOnly lose the
\* line, the core config keeps the zero value.
CoreReadOnly(f, ro) == IF f \in DropReadOnly THEN FALSE ELSE ro
\* kprconfig.Config.GetEnableWriteOperations
GetEnableWriteOperations(httpEnabled, httpReadOnly) == httpEnabled /\ ~httpReadOnly
\* the setting the gate of a server built through flavour f works with
FlavourWrite(f, cfg) == GetEnableWriteOperations(TRUE, CoreReadOnly(f, ConfiguredReadOnly(f, cfg)))
\* (cfg below is a src record)

(***************************************************************************)
(* Request headers and body.  h = [accept, ctype, override, body]; "-" =   *)
(* header absent; body = a valid DecryptionTrigger JSON document is sent   *)
(* (on every method, also GET / HEAD).                                     *)
(* What the CODE does with them: nothing in the pipeline reads Accept or   *)
(* X-HTTP-Method-Override (chi routes on r.Method only; ConfigMiddleware   *)
(* reads r.URL.Path and r.Method only and answers refusals as plain text   *)
(* whatever the client accepts).  Content-Type and the presence of a body  *)
(* are read by the request validator only, and only for operations that    *)
(* declare a request body (openapi3filter.ValidateRequestBody: empty body  *)
(* of a required body, or a media type the operation does not list -> 400).*)
(***************************************************************************)
Absent == "-"
Accepts == {Absent, "*/*", "text/plain", "application/json", "application/json, text/plain, */*"}
Ctypes == {"application/json", Absent, "text/plain", "application/json; charset=utf-8"}
Overrides == {Absent, "POST"}
HdrClasses == [accept : Accepts, ctype : Ctypes, override : Overrides, body : BOOLEAN]
\* what every case of the spelling domain is sent with
DefaultHdr == [accept |-> Absent, ctype |-> "application/json", override |-> Absent, body |-> TRUE]
\* requestBody.Content.Get(Content-Type): the media type without parameters must be listed
JsonCtypes == {"application/json", "application/json; charset=utf-8"}

(***************************************************************************)
(* Responses                                                               *)
(*  status 0 / bk "*" = not determined by this model (handlers that read   *)
(*  the database answer according to its content)                          *)
(***************************************************************************)
Resp(st, ef, bk, sg) == [status |-> st, effect |-> ef, bk |-> bk, stage |-> sg]
NoResp == Resp(0, "None", "", "-")
NoOp == [path |-> "", method |-> "", op |-> "", ro |-> "absent", params |-> <<>>, body |-> "none"]

Cont(next, rq) == [next |-> next, rq |-> rq, r |-> NoResp]
Fin(rq, r) == [next |-> "done", rq |-> rq, r |-> r]

\* ui = the process had SWAGGER_UI set when setupRouter ran (server mode; read once at construction)
\* rq = [m, w, h, stack, ui, raw (segments of URL.EscapedPath()), dec (segments of URL.Path),
\*       rp (segments of chi's RoutePath), op]      -- all of it is local to ONE request
MkRq(m, p, w, h, stk, ui) == [m |-> m, w |-> w, h |-> h, stack |-> stk, ui |-> ui, raw |-> RawSegs(p), dec |-> DecSegs(p),
                          rp |-> RawSegs(p), op |-> NoOp]

EmbT == {Tpl(EmbOrder[i]) : i \in DOMAIN EmbOrder}
OpsAt(name, m) == {o \in Range(EmbOps) : o.path = name /\ o.method = m}
ParamIdx(t, name) == CHOOSE i \in DOMAIN t.segs : t.segs[i].k = "param" /\ t.segs[i].s = name

(***************************************************************************)
(* chi.Mux.routeHTTP of the outer router (kprapi.go setupRouter).          *)
(* routePath is URL.RawPath when set, else URL.Path: the raw segments.     *)
(* An unknown method is refused before the tree is searched.  The only     *)
(* routes that matter in the request domain are the three that Mount       *)
(* registers ("/v1", "/v1/", "/v1/*"); mountHandler sets RoutePath to "/"  *)
(* + the wildcard.  ("/api.json" and "/metrics" are not operations of the  *)
(* API document and are outside the request domain.)                       *)
(* Server mode: when SWAGGER_UI is set, setupRouter additionally mounts a  *)
(* static file server at "/ui/" -- documentation routes only: no operation *)
(* becomes reachable under any other path.                                 *)
(***************************************************************************)
ChiMethods == {"CONNECT", "DELETE", "GET", "HEAD", "OPTIONS", "PATCH", "POST", "PUT", "TRACE"}

OuterRouter(rq) ==
    IF rq.m \notin ChiMethods THEN {Fin(rq, Resp(405, "None", "", "outer"))}
    ELSE IF Len(rq.rp) >= 2 /\ rq.rp[1] = "v1" THEN {Cont("strip", [rq EXCEPT !.rp = Tail(@)])}
    ELSE IF rq.ui /\ rq.stack = "server" /\ Len(rq.rp) >= 2 /\ rq.rp[1] = "ui"
         THEN {Fin(rq, Resp(0, "None", "*", "ui"))} \* http.FileServer: whatever the directory holds
    ELSE {Fin(rq, Resp(404, "None", "404_page_not_fou", "outer"))}

(***************************************************************************)
(* http.StripPrefix("/v1"): Path and RawPath must both carry the prefix    *)
(* (segment-level: the outer router only lets "v1" through).               *)
(***************************************************************************)
StripPrefix(rq) ==
    IF Len(rq.dec) >= 1 /\ rq.dec[1] = "v1" /\ rq.raw[1] = "v1"
    THEN {Cont("validator", [rq EXCEPT !.dec = Tail(@), !.raw = Tail(@)])}
    ELSE {Fin(rq, Resp(404, "None", "404_page_not_fou", "strip"))}

(***************************************************************************)
(* chimiddleware.OapiRequestValidator: gorillamux.FindRoute over the       *)
(* embedded document (UseEncodedPath: matches URL.EscapedPath(); "{x}"     *)
(* is [^/]+; the first path that matches decides, a method it does not     *)
(* declare is "method not allowed"), then openapi3filter.ValidateRequest   *)
(* (path parameters in declaration order, then the request body of an      *)
(* operation that declares one: present and of a listed media type; the    *)
(* body the harness sends is a valid DecryptionTrigger).  Every failure is *)
(* answered 400.                                                           *)
(***************************************************************************)
GMatch(t, raw) ==
    /\ Len(raw) = Len(t.segs)
    /\ \A i \in DOMAIN raw : IF t.segs[i].k = "lit" THEN raw[i] = t.segs[i].s ELSE raw[i] # ""

Validator(rq) ==
    IF rq.stack = "gate" THEN {Cont("mw", rq)} ELSE
    LET hits == {i \in DOMAIN EmbOrder : GMatch(Tpl(EmbOrder[i]), rq.raw)} IN
    IF hits = {} THEN {Fin(rq, Resp(400, "None", "no_matching_oper", "validator"))}
    ELSE LET t == Tpl(EmbOrder[MinOf(hits)])
             ops == OpsAt(t.name, rq.m)
         IN IF ops = {} THEN {Fin(rq, Resp(400, "None", "method_not_allow", "validator"))}
            ELSE LET o == CHOOSE x \in ops : TRUE
                     bad == {j \in DOMAIN o.params : rq.raw[ParamIdx(t, o.params[j])] # ParamVal[o.params[j]]}
                 IN IF bad # {} THEN {Fin(rq, Resp(400, "None", ParamBk[o.params[MinOf(bad)]], "validator"))}
                    ELSE IF o.body # "none" /\ (~rq.h.body \/ rq.h.ctype \notin JsonCtypes)
                         THEN {Fin(rq, Resp(400, "None", "request_body_has", "validator"))}
                    ELSE {Cont("mw", rq)}

(***************************************************************************)
(* kproapi/middleware.go  (reads r.URL.Path, r.Method and the setting; no   *)
(* header; every refusal ends the request: http.Error + return)            *)
(***************************************************************************)
\* isReadOnlyEndpoint: the extension is a json.RawMessage whose text is "true" (or a Go bool true)
IsReadOnlyEndpoint(o) == o.ro = "true"
\* shouldEnableEndpoint
ShouldEnableEndpoint(o, w) == IsReadOnlyEndpoint(o) \/ w

LitText(t) == [i \in DOMAIN t.segs |-> t.segs[i].s]
IsStatic(t) == \A i \in DOMAIN t.segs : t.segs[i].k = "lit"
\* spec.Paths.Find(path): direct map access (a request path without braces can only equal a static path)
PathsFind(dec) == {t \in EmbT : IsStatic(t) /\ LitText(t) = dec}
\* fallback: range over the map, "^" + QuoteMeta(path) with {x} -> [^/]+ + "$" against r.URL.Path; first hit wins
RegexMatch(t, dec) ==
    /\ Len(dec) = Len(t.segs)
    /\ \A i \in DOMAIN dec : IF t.segs[i].k = "lit" THEN dec[i] = t.segs[i].s ELSE dec[i] # ""
\* the path items findOperation may end up with (more than one = depends on map iteration order)
FindPathItems(dec) == IF PathsFind(dec) # {} THEN PathsFind(dec) ELSE {t \in EmbT : RegexMatch(t, dec)}
\* switch method: only GET, POST, PUT, DELETE are looked at
FindOperation(t, m) == IF m \in {"GET", "POST", "PUT", "DELETE"} THEN OpsAt(t.name, m) ELSE {}

\* what `operation := findOperation(spec, r.URL.Path, r.Method)` may be (NoOp = nil); a per-request local
FindOperationResults(rq) ==
    LET items == FindPathItems(rq.dec) IN
    IF items = {} THEN {NoOp}
    ELSE UNION { IF FindOperation(t, rq.m) = {} THEN {NoOp} ELSE FindOperation(t, rq.m) : t \in items }

\* the rest of the handler func, given the looked-up operation
MwDecide(rq, o) ==
    IF o = NoOp THEN Fin(rq, Resp(404, "None", "Endpoint_not_fou", "mw"))
    ELSE IF ShouldEnableEndpoint(o, rq.w) THEN Cont("router", rq)
    ELSE Fin(rq, Resp(403, "None", "Endpoint_not_ena", "mw"))

\* The middleware keeps NO state between requests and shares none between concurrent requests:
\* spec and operation are locals of the handler func (the document is re-loaded per request).
ConfigMiddleware(rq) == {MwDecide(rq, o) : o \in FindOperationResults(rq)}

(***************************************************************************)
(* chi inner Mux: routes registered by kproapi.HandlerFromMux, one per     *)
(* operation of the document the code was generated from; matched against  *)
(* RoutePath (raw).  A chi "{x}" matches any segment, also an empty one.   *)
(***************************************************************************)
ChiMatch(t, rp) ==
    /\ Len(rp) = Len(t.segs)
    /\ \A i \in DOMAIN rp : t.segs[i].k = "lit" => rp[i] = t.segs[i].s

InnerRouter(rq) ==
    LET hits == {t \in EmbT : ChiMatch(t, rq.rp)} IN
    IF hits = {} THEN {Fin(rq, Resp(404, "None", "404_page_not_fou", "router"))}
    ELSE UNION { LET ops == OpsAt(t.name, rq.m) IN
                 IF ops = {} THEN {Fin(rq, Resp(405, "None", "", "router"))}
                 ELSE {Cont("wrapper", [rq EXCEPT !.op = o]) : o \in ops}
               : t \in hits }

(***************************************************************************)
(* ServerInterfaceWrapper.<Op>: binds path parameters (ints via            *)
(* runtime.BindStyledParameterWithLocation), 400 on failure.               *)
(***************************************************************************)
Wrapper(rq) ==
    LET t == Tpl(rq.op.path)
        bad == {j \in DOMAIN rq.op.params :
                  rq.op.params[j] \in IntParams /\ rq.rp[ParamIdx(t, rq.op.params[j])] # ParamVal[rq.op.params[j]]}
    IN IF bad # {} THEN {Fin(rq, Resp(400, "None", "Invalid_format_f", "wrapper"))}
       ELSE {Cont("handler", rq)}

(***************************************************************************)
(* kprapi/http.go: Ping writes "pong"; Shutdown sends on shutdownSig;      *)
(* SubmitDecryptionTrigger sends on trigger; GetEons / GetDecryptionKey    *)
(* read the database and answer according to what they find.               *)
(***************************************************************************)
Handler(rq) ==
    LET e == EffectOf[rq.op.op] IN
    CASE e = "Trigger" /\ ~rq.h.body -> \* only without the validator: json.Decode fails, sendError(400)
                {Fin(rq, Resp(400, "Other", "__code__400__mes", "handler"))}
      [] e = "Pong" -> {Fin(rq, Resp(200, "Pong", "pong", "handler"))}
      [] e \in {"Shutdown", "Trigger"} -> {Fin(rq, Resp(200, e, "", "handler"))}
      [] OTHER -> {Fin(rq, Resp(0, e, "*", "handler"))}

Step(stage, rq) ==
    CASE stage = "outer" -> OuterRouter(rq)
      [] stage = "strip" -> StripPrefix(rq)
      [] stage = "validator" -> Validator(rq)
      [] stage = "mw" -> ConfigMiddleware(rq)
      [] stage = "router" -> InnerRouter(rq)
      [] stage = "wrapper" -> Wrapper(rq)
      [] stage = "handler" -> Handler(rq)

RECURSIVE Run(_, _)
Run(stage, rq) == UNION { IF x.next = "done" THEN {x.r} ELSE Run(x.next, x.rq) : x \in Step(stage, rq) }

\* every response the code may give to method m, path p, headers/body h with write operations w on
\* stack stk -- a function of the request alone: not of earlier requests on the same server
\* instance (HttpGateHist) nor of requests in flight at the same time (HttpGateConc)
Serve(m, p, w, h, stk, ui) == Run("outer", MkRq(m, p, w, h, stk, ui))
ServeReq(r, w, stk, ui) == Serve(r.m, SpellAll(BasePath(Tpl(r.t)), r.sps), w, r.h, stk, ui)
TplNames == {Templates[i].name : i \in DOMAIN Templates}

(***************************************************************************)
(* Named alternative (not the code): a gate that matched the RAW path the  *)
(* way chi does would be written by replacing rq.dec with rq.rp in         *)
(* ConfigMiddleware; the two agree on every request the validator lets     *)
(* through, which is what HttpGateMC checks.                               *)
(***************************************************************************)
=============================================================================
