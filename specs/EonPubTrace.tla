------------------------------ MODULE EonPubTrace ------------------------------
(***************************************************************************)
(* C20, second stage -- trace layer.  One ndjson line per event observed   *)
(* on the REAL eonkeypublisher.EonKeyPublisher (Start / Publish, database  *)
(* fake, Ethereum node double with blocking gates): "new" starts a run,    *)
(* then the events of EonPubProps, "free" when the gates are opened, "end" *)
(* when the publisher has been idle.                                       *)
(*   pass A  viol : <<line, monitor>> for every monitor of EonPubProps     *)
(*                  false on the observed event                            *)
(*   pass B  drift: events the code-shaped spec does not allow in its      *)
(*                  current state (the spec state then stays where it is)  *)
(***************************************************************************)
EXTENDS EonPubProps, Json, TLC, SequencesExt

CONSTANT TraceFile
Trace == ndJsonDeserialize(TraceFile)

VARIABLES l, p, g, viol, drift
tvars == <<l, p, g, viol, drift>>

\* the spec state after the observed event: [ok, s]; ok = FALSE if the spec does not allow it
No(s) == [ok |-> FALSE, s |-> s]
Yes(s) == [ok |-> TRUE, s |-> s]
After(s, line) ==
    CASE line.k = "publish" ->
            IF ~KnownKey(line.key) \/ KeyTab[line.key].old THEN No(s)
            ELSE IF line.ret /\ CanPublish(s) THEN Yes(Publish(s, line.key))
            ELSE IF ~line.ret /\ ~CanPublish(s) THEN Yes(s) ELSE No(s)
      [] line.k = "takes" -> IF CanTake(s) THEN Yes(Take(s)) ELSE No(s)
      [] line.k = "astart" ->
            IF CanStartOld(s) /\ Head(s.old) = line.key THEN Yes(StartOld(s))
            ELSE IF CanStart(s) /\ s.cur = line.key THEN Yes(Start(s)) ELSE No(s)
      [] line.k = "aend" ->
            IF CanEnd(s) /\ s.cur = line.key /\ line.res \in {"ok", "fail"} THEN Yes(End(s, line.res)) ELSE No(s)
      [] line.k = "free" -> Yes(s)
      [] line.k = "end" -> IF Quiescent(s) THEN Yes(s) ELSE No(s)
      [] OTHER -> No(s)

TInit == l = 1 /\ p = PInit /\ g = GhostInit /\ viol = {} /\ drift = {}

TNext ==
    /\ l <= Len(Trace)
    /\ l' = l + 1
    /\ LET line == Trace[l] IN
       IF line.k = "new" THEN
            /\ p' = PInit /\ g' = GhostInit
            /\ viol' = viol \cup {<<l, m>> : m \in Failed(GhostInit, line)}
            /\ UNCHANGED drift
       ELSE LET a == After(p, line) IN
            /\ viol' = viol \cup {<<l, m>> : m \in Failed(g, line)}
            /\ g' = GhostNext(g, line)
            /\ p' = a.s
            /\ drift' = drift \cup (IF ~a.ok \/ line.panic # "" THEN {l} ELSE {})

TSpec == TInit /\ [][TNext]_tvars

Done == l <= Len(Trace) \/
        PrintT(<<"RESULT", ToJson([lines |-> Len(Trace), viol |-> SetToSeq(viol), drift |-> SetToSeq(drift)])>>)
=============================================================================
