---------------------------- MODULE KeyperGovTrace ----------------------------
(***************************************************************************)
(* Trace layer for the keyper side of keyper-set governance.  The ndjson   *)
(* trace is recorded by harness/gov from the REAL keyper code (KeyperCore  *)
(* loop body over a fake PostgreSQL, one real shuttermint app behind a     *)
(* fake Tendermint RPC).  A deterministic fold, one TLC state per line:    *)
(*   new   start of a run (ghost and keyper databases reset)               *)
(*   adv   the main chain advanced                                         *)
(*   set   a keyper set appeared on the main chain                         *)
(*   iter  one loop iteration of keyper a (see KeyperGovProps)             *)
(*   end   the open shuttermint block was closed                           *)
(*   fin   end of the run after the fair continuation                      *)
(* pass A  viol : <<line, monitor>> for every monitor of KeyperGovProps    *)
(*                that is false on the OBSERVED line (G1 G2 G3 G4);        *)
(*         known: <<line, name>> observations (KeyperGovProps!GObs)        *)
(* pass B  drift: <<line, what>> where the observed databases are not what *)
(*                the code-shaped spec KeyperGov computes from the         *)
(*                observed pre-state                                       *)
(* The application side of the same run (every CheckTx / DeliverTx /       *)
(* EndBlock of the real app, G5 = the C11 monitors) is recorded in the     *)
(* format of harness/sm and validated by ShuttermintTrace.                 *)
(***************************************************************************)
EXTENDS KeyperGovProps, Json

CONSTANT TraceFile
Trace == ndJsonDeserialize(TraceFile)

VARIABLES l, g, kps, viol, known, drift
tvars == <<l, g, kps, viol, known, drift>>

(* chainEv as KeyperGov!SyncApp wants it, rebuilt from the ground truth of the line *)
ChainEvOf(acc, h) ==
    [i \in 1..h |-> LET q == SelectSeq(acc, LAMBDA x : x.h = i) IN [j \in DOMAIN q |-> q[j].cfg]]

OkRes == {"ok", "seen"}

(* fx.SendShutterMessages: the messages were taken from the head of the outbox in order, every
   one answered Ok/Seen was deleted, the first other answer ended the loop *)
SendConforms(ln) ==
    LET ob == ln.s2.outbox
        sent == ln.sent
        n == Len(sent)
        k == Cardinality({i \in DOMAIN sent : sent[i].res \in OkRes})
    IN /\ n <= Len(ob)
       /\ \A i \in DOMAIN sent : sent[i].m = ob[i]
       /\ \A i \in DOMAIN sent : (sent[i].res \in OkRes) <=> (i <= k)
       /\ n <= k + 1
       /\ (n = k) => (k = Len(ob))
       /\ k <= ln.budget
       /\ (n = k + 1 /\ sent[n].res = "timeout") => (k = ln.budget)
       /\ (ln.crash /\ n > 0) => (n = 1 /\ sent[1].res \in {"lost", "chk"})
       /\ (~ln.crash) => \A i \in DOMAIN sent : sent[i].res # "lost"
       /\ ln.s3 = [ln.s2 EXCEPT !.outbox = SubSeq(ob, k + 1, Len(ob))]

IterDrift(ln, before) ==
    (IF ln.pre = before THEN {} ELSE {"continuity"}) \cup
    (IF ln.s1 = SyncApp(Observe(ln.pre, ln.gsets), ChainEvOf(ln.acc, ln.h)) THEN {} ELSE {"sync"}) \cup
    (IF ln.s2 = HandleOnChain(ln.s1, ln.a, ln.b) THEN {} ELSE {"handle"}) \cup
    (IF SendConforms(ln) THEN {} ELSE {"send"}) \cup
    (IF ln.err = "" THEN {} ELSE {"error"})

TInit == l = 1 /\ g = GGhostInit /\ kps = [a \in Addrs |-> KpInit] /\ viol = {} /\ known = {} /\ drift = {}

TNext ==
    /\ l <= Len(Trace)
    /\ l' = l + 1
    /\ LET ln == Trace[l] IN
       CASE ln.k = "new" ->
              /\ g' = GGhostInit /\ kps' = [a \in Addrs |-> KpInit]
              /\ UNCHANGED <<viol, known, drift>>
         [] ln.k = "iter" ->
              /\ viol' = viol \cup {<<l, m>> : m \in GFailed(g, ln)}
                              \cup (IF ln.panic = "" THEN {} ELSE {<<l, "G0_NoPanic">>})
              /\ known' = known \cup {<<l, m>> : m \in GObs(g, ln)}
              /\ drift' = drift \cup {<<l, d>> : d \in IterDrift(ln, kps[ln.a])}
              /\ g' = GGhostNext(g, ln)
              /\ kps' = [kps EXCEPT ![ln.a] = ln.s3]
         [] ln.k = "fin" ->
              /\ viol' = viol \cup {<<l, m>> : m \in GFailed(g, ln)}
              /\ known' = known \cup {<<l, m>> : m \in GObs(g, ln)}
              /\ drift' = drift \cup (IF \A a \in ToSet(ln.live) : ln.kps[a] = kps[a] THEN {} ELSE {<<l, "continuity">>})
              /\ UNCHANGED <<g, kps>>
         [] OTHER ->
              UNCHANGED <<g, kps, viol, known, drift>>

TSpec == TInit /\ [][TNext]_tvars

Done == l <= Len(Trace) \/
        PrintT(<<"RESULT", ToJson([lines |-> Len(Trace), viol |-> SetToSeq(viol), known |-> SetToSeq(known),
                                   drift |-> SetToSeq(drift)])>>)

=============================================================================
