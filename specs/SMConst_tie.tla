------------------------------ MODULE SMConst_tie ------------------------------
(* four genesis keypers with threshold 2: DKG result votes can tie (2 success, 2 failure);
   a second candidate with threshold 1 makes single votes decisive *)
cAddrs == {"a1", "a2", "a3", "a4"}
cKeyOrd == <<"v1", "none", "v9">>
cGenesis == [keypers |-> <<"a1", "a2", "a3", "a4">>, thr |-> 2, eon0 |-> 3,
             vals |-> [k \in {"v1", "none", "v9"} |-> IF k = "v9" THEN 10 ELSE 0],
             forkOn |-> FALSE, forkH |-> 0, dev |-> FALSE, legacy |-> FALSE]
cCands == << [keypers |-> <<"a1", "a2", "a3", "a4">>, thr |-> 2, act |-> 0, idx |-> 1],
             [keypers |-> <<"a3", "a4">>, thr |-> 1, act |-> 0, idx |-> 2] >>
cSeenBlocks == {1}
cCheckKeys == {"v1"}
cEons == {4, 5}
=============================================================================
