------------------------ MODULE ValidatorRegistryProps ------------------------
(***************************************************************************)
(* Property layer of the validator registry path (reported under C19).     *)
(* Stated over observed data only: the block tree the node serves, the     *)
(* canonical head, the projected validator tables of a keyper, the         *)
(* returned error class of a Sync call and the slot decisions.  It shares  *)
(* with the code-shaped layer only the tree helpers and the message        *)
(* alphabet; admissibility is restated from the message rules:             *)
(*   a message is ADMISSIBLE at its place in the canonical chain iff it    *)
(*   decodes, has a supported version (0; 1 only when aggregate            *)
(*   registrations are enabled, with Count >= 1), names this chain and     *)
(*   this registry, every validator index it covers is known to the        *)
(*   beacon chain, its signature is valid for the key(s) of exactly those  *)
(*   validators, and its nonce is strictly greater than the nonce of the   *)
(*   latest admissible message of EVERY validator it covers.               *)
(*  V1  the stored rows of a keyper whose position is a canonical block    *)
(*      are exactly the rows of the admissible messages of the canonical   *)
(*      chain up to that position (V1_NoExtra, V1_NoMissing, V1_Position)  *)
(*  V2  Sync never panics or hangs (V2_NoPanic); without a beacon fault it *)
(*      succeeds and reaches the offered header (V2_Progress)              *)
(*  V3  two observations (any keyper, any time) with the same canonical    *)
(*      position hold the same rows (V3_Agree)                             *)
(*  V4  a slot whose proposer is validator v and whose next block is nb is *)
(*      triggered iff the latest admissible message of v in the canonical  *)
(*      blocks below nb is a registration (V4_Trigger)                     *)
(***************************************************************************)
EXTENDS ValidatorRegistry

(* the fold over the canonical chain: ln[v] = nonce of the latest admissible message of v *)
Adm(e, ln) ==
    /\ e.c = "ok"
    /\ e.n # HugeN
    /\ \/ e.ver = 0
       \/ e.ver = 1 /\ AggOn /\ e.k >= 1 /\ e.k < BigK
    /\ \A i \in 1..Len(Indices(e)) : Known(Indices(e)[i]) /\ e.n > ln[Indices(e)[i]]

RECURSIVE RefFold(_, _, _, _)
RefFold(evs, i, ln, rows) ==
    IF i > Len(evs) THEN rows
    ELSE IF Adm(evs[i].e, ln)
         THEN LET is == {Indices(evs[i].e)[j] : j \in 1..Len(Indices(evs[i].e))} IN
              RefFold(evs, i + 1, [v \in DOMAIN ln |-> IF v \in is THEN evs[i].e.n ELSE ln[v]], rows \cup RowsOfEvent(evs[i]))
         ELSE RefFold(evs, i + 1, ln, rows)

Ref(blk, h, upto) == RefFold(EventsIn(blk, h, 0, upto), 1, [v \in 1..NV |-> -1], {})
(* the fold is in chain order, so the reference up to a block is a restriction of the full one *)
RefAll(blk, h) == Ref(blk, h, blk[h].num)
Upto(ref, n) == {r \in ref : r.num <= n}

RegisteredR(ref, v, nb) ==
    LET rs == {r \in ref : r.v = v /\ r.num < nb} IN
    IF rs = {} THEN FALSE ELSE Latest(rs).reg
RefRegistered(blk, h, v, nb) == RegisteredR(RefAll(blk, h), v, nb)

(* the position is a canonical block: its hash is the hash of the canonical block with its number *)
PosCanonical(blk, h, sy) == sy.has /\ sy.num <= blk[h].num /\ sy.bid = CanonAt(blk, h, sy.num)

V1_FailedR(blk, h, st, refall) ==
    IF ~st.synced.has THEN (IF st.rows = {} THEN {} ELSE {"V1_NoExtra"})
    ELSE IF ~PosCanonical(blk, h, st.synced) THEN {"V1_Position"}
    ELSE LET ref == Upto(refall, st.synced.num) IN
         (IF st.rows \subseteq ref THEN {} ELSE {"V1_NoExtra"}) \cup
         (IF ref \subseteq st.rows THEN {} ELSE {"V1_NoMissing"})
V1_Failed(blk, h, st) == V1_FailedR(blk, h, st, RefAll(blk, h))

(* one observed Sync call: pre and post tables, the offered header number, fault, error class *)
V2_Failed(pre, post, tgt, f, ret) ==
    (IF ret \in {"ok", "err"} THEN {} ELSE {"V2_NoPanic"}) \cup
    (IF f = "none" /\ ~(ret = "ok" /\ post.synced.has /\ post.synced.num >= tgt) THEN {"V2_Progress"} ELSE {}) \cup
    (IF post.synced.has /\ pre.synced.has /\ post.synced.num < pre.synced.num THEN {"V2_Progress"} ELSE {})

(* obs: a set of observed tables *)
V3_Failed(obs) ==
    IF \E a, b \in obs : a.synced.has /\ a.synced = b.synced /\ a.rows # b.rows THEN {"V3_Agree"} ELSE {}

(* decs: set of [v, nb, out] observed for a keyper whose table is st *)
V4_FailedR(blk, h, st, decs, refall) ==
    IF \E d \in decs : \/ d.out \notin {"trigger", "skip"}
                       \/ /\ PosCanonical(blk, h, st.synced) /\ d.nb <= st.synced.num + 1
                          /\ (d.out = "trigger") # RegisteredR(refall, d.v, d.nb)
    THEN {"V4_Trigger"} ELSE {}
V4_Failed(blk, h, st, decs) == V4_FailedR(blk, h, st, decs, RefAll(blk, h))

(* the decisions the code-shaped layer yields from a table *)
DecsOf(blk, h, st) ==
    IF ~st.synced.has THEN {}
    ELSE {[v |-> v, nb |-> blk[b].num + 1, out |-> IF Decide(st.rows, v, blk[b].num + 1) THEN "trigger" ELSE "skip"] :
            v \in 1..(NV + 1), b \in {c \in AncSelf(blk, h) : blk[c].num > 0 /\ blk[c].num <= st.synced.num}}

=============================================================================
