--------------------------- MODULE PersistFileTrace ---------------------------
(* validates what harness/sm/persist.go observed on the real PersistToDisk /
   LoadShutterAppFromFile:
     "save"  a child process saved version cur+1 with the file size limited to `limit` bytes
             (the write fails once the limit is reached); err = PersistToDisk returned an error;
             size = bytes of a complete encoding; loaded = what a fresh Load of the main path
             returned afterwards: "new" | "old" | "error" | "other"
     "crash" a process died while saving: the temp file holds the first tmplen bytes of the new
             encoding next to the main file; loaded as above
     "commit" the application committed block h while the state file on disk was at height
             `saved`; retain = the RetainHeight its Commit answered                            *)
EXTENDS Integers, Sequences, FiniteSets, SequencesExt, TLC, Json
CONSTANT TraceFile
Trace == ndJsonDeserialize(TraceFile)
VARIABLES l, viol, drift
tvars == <<l, viol, drift>>

(* pass A *)
C13_FileIntact(line) ==
    CASE line.k = "save"  -> (line.err => line.loaded = "old") /\ ((~line.err) => line.loaded = "new")
      [] line.k = "crash" -> line.loaded = "old"
      [] OTHER -> TRUE
C13_BlocksKept(line) ==
    CASE line.k = "commit" -> line.retain <= line.saved + 1
      [] OTHER -> TRUE
(* pass B: PersistFile!WriteFail happens exactly when the limit is below the encoding size *)
Conforms(line) ==
    CASE line.k = "save" -> (line.err <=> line.limit < line.size)
      [] line.k = "commit" -> line.retain = 0          \* PersistFile!RetainOf with RetainRule = "zero"
      [] OTHER -> TRUE

TInit == l = 1 /\ viol = {} /\ drift = {}
TNext == /\ l <= Len(Trace) /\ l' = l + 1
         /\ viol' = viol \cup (IF C13_FileIntact(Trace[l]) THEN {} ELSE {<<l, "C13_FileIntact">>})
                        \cup (IF C13_BlocksKept(Trace[l]) THEN {} ELSE {<<l, "C13_BlocksKept">>})
         /\ drift' = drift \cup (IF Conforms(Trace[l]) THEN {} ELSE {l})
TSpec == TInit /\ [][TNext]_tvars
Done == l <= Len(Trace) \/
        PrintT(<<"RESULT", ToJson([lines |-> Len(Trace), viol |-> SetToSeq(viol), drift |-> SetToSeq(drift)])>>)
===============================================================================
