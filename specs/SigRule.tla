------------------------------- MODULE SigRule -------------------------------
(***************************************************************************)
(* Code-shaped specification of the signature rule for released keys      *)
(* (property C06):                                                         *)
(*   keyperimpl/gnosis/handlers.go          validateSignerIndices,         *)
(*                                          ValidateDecryptionKeysSignatures,*)
(*                                          DecryptionKeysHandler.{ValidateMessage,HandleMessage}*)
(*   keyperimpl/shutterservice/handlers.go  the same four for the service  *)
(*   gnosisaccessnode/decryptionkeyshandler.go  validateGnosisFields       *)
(*   chainobserver/db/keyper/extend.go      KeyperSet.GetSubset            *)
(*   gnosisssztypes / serviceztypes         CheckSignature                 *)
(*                                                                         *)
(* Pure operators, one per Go function; each returns the SET of outcomes   *)
(* the Go function may produce ([r |-> result, w |-> reason class]).       *)
(*                                                                         *)
(* A CASE c is one keys message together with the keyper set it is judged  *)
(* against.  Cryptography is abstract: a signature is a token              *)
(*     [k |-> "ok" | "garbage" | "tampered",                               *)
(*      b |-> who made it: 0..n-1 = that member of the keyper set,         *)
(*                         n      = a key outside the keyper set,          *)
(*      o |-> the data it was made over: "" = the base tuple,              *)
(*            f = the base tuple with signed field f replaced]             *)
(* and the message carries c.mut: "" = its signed fields are the base      *)
(* tuple, f = field f is replaced (same replacement value as in o).  A     *)
(* signature is over exactly the message's data iff o = mut.  The link     *)
(* between tokens and real ECDSA signatures over real SSZ roots is the     *)
(* concretiser harness/sig/universe.go.                                    *)
(*                                                                         *)
(*   c.f        "gnosis" | "service"                                       *)
(*   c.n, c.t   size and threshold of the keyper set                       *)
(*   c.signers  sequence of naturals; a value >= c.n is out of range       *)
(*   c.sigs     sequence of signature tokens                               *)
(*   c.mut      see above; the additional value "idlen" says that the      *)
(*              message carries the base identity list with the LENGTH of  *)
(*              one preimage changed (bytes appended, truncated, trailing  *)
(*              zero bytes stripped): such a list has no SSZ hash tree     *)
(*              root (fixed size 52 / 32 bytes), so no signature over it   *)
(*              exists (o is never "idlen") and CheckSignature fails       *)
(*   c.ann      history of the keyper sets announced for the message's     *)
(*              eon, oldest first, tokens "S" = the keyper set             *)
(*              <<member 0, .., member n-1>>, "X" = another set of the     *)
(*              same size and threshold <<outsider, member 0, .., member   *)
(*              n-2>> (a re-announcement after a reorg), "O" = the set S   *)
(*              announced for ANOTHER eon.  The set of the eon is the LAST *)
(*              one announced for it; with no "S"/"X" in c.ann the eon has *)
(*              no keyper set (lookup miss: nothing synced yet, or only    *)
(*              another eon's set).                                        *)
(*   c.key      the access node's eon public key of the message's eon:     *)
(*              "before" / "after" = stored before / after the keyper set  *)
(*              announcements, "none" = not stored                         *)
(*                                                                         *)
(* LenRule names the two versions of the loops over the parallel lists:    *)
(*   "asfound"  the code before fix C06-1: the signature loop runs over    *)
(*              len(Signatures) and indexes the signer list; the service   *)
(*              exception is "either list empty"                           *)
(*   "equal"    the code after fix C06-1: the two lists must have equal    *)
(*              length (service: unless both are empty)                    *)
(***************************************************************************)
EXTENDS Integers, Sequences, FiniteSets

CONSTANTS LenRule,    \* "equal" | "asfound"
          StoreRule,  \* "last" | "first"  (access node storage, see StoreFold)
          MissRule,   \* "reject" | "accept" (access node, keyper set of the eon unknown)
          RegRule     \* "append" | "replace" (p2p validator registry, see AddValidator)

GnosisFields  == {"instance", "eon", "slot", "txptr", "ids"}
ServiceFields == {"instance", "eon", "ids"}
SignedFields(f) == IF f = "gnosis" THEN GnosisFields ELSE ServiceFields

Out(r, w) == [r |-> r, w |-> w]
Accept == Out("accept", "")

----------------------------------------------------------------------------
(* gnosisssztypes.SlotDecryptionSignatureData.CheckSignature /             *)
(* serviceztypes.DecryptionSignatureData.CheckSignature, called with the   *)
(* data of the message and the address of member `signer`.                 *)
(* The hash tree root covers every signed field, so a signature made over  *)
(* other data recovers an unrelated address (result "false").  Bytes that  *)
(* are not a signature either fail to recover ("err") or recover an        *)
(* unrelated address ("false").                                            *)
(* HashTreeRoot fails ("err") before any recovery when a preimage has the wrong size.     *)
KeyAt(set, idx) == IF set = "S" THEN idx ELSE idx - 1     \* who holds index idx: a member, or
                                                          \* -1 = the outsider (compare Who)
Who(c, b) == IF b = c.n THEN 0 - 1 ELSE b                 \* signature token b as a key: member or -1
CheckSignature(c, i, signer, set) ==
    LET s == c.sigs[i] IN
    IF c.mut = "idlen" THEN {"err"}
    ELSE IF s.k # "ok" THEN {"false", "err"}
    ELSE IF s.o = c.mut /\ Who(c, s.b) = KeyAt(set, signer) THEN {"true"}
    ELSE {"false"}

(* validateSignerIndices (identical in both flavours): first failing check of the loop *)
RECURSIVE SignerIdxLoop(_, _, _)
SignerIdxLoop(signers, n, i) ==
    IF i > Len(signers) THEN "ok"
    ELSE IF i >= 2 /\ signers[i] = signers[i - 1] THEN "dup"
    ELSE IF i >= 2 /\ signers[i] < signers[i - 1] THEN "unordered"
    ELSE IF signers[i] >= n THEN "range"
    ELSE SignerIdxLoop(signers, n, i + 1)
ValidateSignerIndices(signers, n) == SignerIdxLoop(signers, n, 1)

(* KeyperSet.GetSubset: the members at the given indices, error if one is out of range *)
GetSubsetFails(signers, n) == \E i \in DOMAIN signers : signers[i] >= n

(* the loop `for signatureIndex := 0; signatureIndex < len(Signatures); ...` with
   `signer := signers[signatureIndex]` *)
RECURSIVE SigLoop(_, _, _)
SigLoop(c, set, i) ==
    IF i > Len(c.sigs) THEN {Accept}
    ELSE IF i > Len(c.signers) THEN {Out("panic", "index")}
    ELSE UNION { IF x = "err" THEN {Out("reject", "sigerr")}
                 ELSE IF x = "false" THEN {Out("reject", "siginvalid")}
                 ELSE SigLoop(c, set, i + 1) : x \in CheckSignature(c, i, c.signers[i], set) }

(* everything after the flavour specific prologue *)
ValidateCommon(c, set) ==
    IF Len(c.signers) # c.t THEN {Out("reject", "count")}
    ELSE IF LenRule = "equal" /\ Len(c.sigs) # Len(c.signers) THEN {Out("reject", "siglen")}
    ELSE LET v == ValidateSignerIndices(c.signers, c.n) IN
         IF v # "ok" THEN {Out("reject", v)}
         ELSE IF GetSubsetFails(c.signers, c.n) THEN {Out("reject", "subset")}
         ELSE SigLoop(c, set, 1)

(* gnosis.ValidateDecryptionKeysSignatures *)
ValidateGnosis(c, set) == ValidateCommon(c, set)

(* shutterservice.ValidateDecryptionKeysSignatures *)
ServiceEmptyException(c) ==
    IF LenRule = "asfound" THEN Len(c.signers) = 0 \/ Len(c.sigs) = 0
    ELSE Len(c.signers) = 0 /\ Len(c.sigs) = 0
ValidateService(c, set) ==
    IF ServiceEmptyException(c) THEN {Accept} ELSE ValidateCommon(c, set)

ValidateWith(c, set) == IF c.f = "gnosis" THEN ValidateGnosis(c, set) ELSE ValidateService(c, set)

(* the set of the eon: the last announcement made for it ("" = none) *)
RECURSIVE LastFor(_, _)
LastFor(ann, i) == IF i = 0 THEN "" ELSE IF ann[i] # "O" THEN ann[i] ELSE LastFor(ann, i - 1)
EonSet(c) == LastFor(c.ann, Len(c.ann))

(* the bare functions are handed the keyper set of the eon by their caller (no set, no call) *)
ValidateSignatures(c) == ValidateWith(c, EonSet(c))

(* gnosisaccessnode.Storage.AddKeyperSet / GetKeyperSet and node.onNewKeyperSet: a map keyed by
   the keyper config index; every announcement overwrites the entry (StoreRule "last").  The
   named alternative "first" keeps the first entry (a stale set after a re-announcement). *)
RECURSIVE StoreFold(_, _, _)
StoreFold(ann, i, cur) ==
    IF i > Len(ann) THEN cur
    ELSE StoreFold(ann, i + 1, IF ann[i] = "O" \/ (StoreRule = "first" /\ cur # "") THEN cur ELSE ann[i])
StoredSet(c) == StoreFold(c.ann, 1, "")

(* gnosisaccessnode DecryptionKeysHandler.ValidateMessage for a message whose other fields pass
   (instance id, valid ordered decryption keys, extra present, slot/txptr in range):
   validateCommonFields looks up the eon key (miss: reject), validateGnosisFields the keyper
   set (miss: reject), then ValidateDecryptionKeysSignatures decides.  MissRule "accept" is the
   named alternative in which a missing keyper set lets the message through. *)
AccessValidateMessage(c) ==
    IF c.key = "none" THEN {Out("reject", "nokey")}
    ELSE IF StoredSet(c) = "" THEN {IF MissRule = "accept" THEN Accept ELSE Out("reject", "noset")}
    ELSE ValidateWith(c, StoredSet(c))

(* DecryptionKeysHandler.ValidateMessage of the gnosis keyper and of the service keyper, for a
   message whose other fields pass (extra present, slot/txptr in range, at least one key): the
   keyper set is read from the database row of the eon (the observer upserts it; no row: reject,
   also for the service flavour's message without signatures), the verdict is the one of
   ValidateDecryptionKeysSignatures. *)
ValidateMessage(c) ==
    IF EonSet(c) = "" THEN {Out("reject", "noset")} ELSE ValidateSignatures(c)

(* DecryptionKeysHandler.HandleMessage (both flavours):
   `for i, keyperIndex := range SignerIndices { ... Signatures[i] ... }` *)
HandleMessage(c) ==
    IF Len(c.sigs) < Len(c.signers) THEN {Out("panic", "index")} ELSE {Out("ok", "")}

(* what a node does with a keys message: validate, and handle it if accepted *)
Pipeline(c) ==
    UNION { IF v.r = "accept" THEN { IF h.r = "panic" THEN h ELSE v : h \in HandleMessage(c) } ELSE {v}
            : v \in ValidateMessage(c) }

----------------------------------------------------------------------------
(* The keyper ASSEMBLY: what "accepted by keypers" means on the wire.                      *)
(* p2p/messaging.go: AddMessageHandler -> addValidatorImpl keeps, per topic, the LIST of   *)
(* validators in registration order (RegRule "append"; the named alternative "replace"     *)
(* keeps only the one registered last); ValidatorRegistry.GetCombinedValidator is what     *)
(* P2PNode.Run registers with libp2p: the validators run in order, the first Reject (or    *)
(* panic) decides, otherwise Ignore if one ignored, otherwise Accept; errors are only      *)
(* logged, so the combined verdict carries no reason.                                      *)
(* On the decryptionKeys topic a keyper of either flavour registers the flavour's          *)
(* DecryptionKeysHandler (keyperimpl/{gnosis,shutterservice}/keyper.go Start) and then the  *)
(* core epochkghandler.DecryptionKeyHandler (keyper/keyper.go): order "code"; order "rev"  *)
(* is the other way round.  The core validator accepts every message of the domain (node   *)
(* is a member of the config, successful DKG result, genuine ordered decryption keys,      *)
(* instance id: all by construction).                                                      *)
AddValidator(reg, v) == IF RegRule = "replace" THEN <<v>> ELSE Append(reg, v)
Registry(order) ==
    IF order = "code" THEN AddValidator(AddValidator(<<>>, "flavour"), "core")
    ELSE AddValidator(AddValidator(<<>>, "core"), "flavour")
CoreValidateMessage(c) == {Accept}
ValidatorOutcomes(c, v) == IF v = "flavour" THEN ValidateMessage(c) ELSE CoreValidateMessage(c)

RECURSIVE CombineFrom(_, _, _, _)
CombineFrom(c, reg, i, ignored) ==
    IF i > Len(reg) THEN {Out(IF ignored THEN "ignore" ELSE "accept", "")}
    ELSE UNION { IF o.r = "accept" THEN CombineFrom(c, reg, i + 1, ignored)
                 ELSE IF o.r = "ignore" THEN CombineFrom(c, reg, i + 1, TRUE)
                 ELSE {Out(o.r, "")} : o \in ValidatorOutcomes(c, reg[i]) }
CombinedValidator(c, order) == CombineFrom(c, Registry(order), 1, FALSE)

=============================================================================
