--------------------------- MODULE GossipValidateMC ---------------------------
(***************************************************************************)
(* The case domain of C04 wrapped into a transition system so that TLC     *)
(* (i) checks the property layer against the code-shaped layer on every    *)
(* case (invariant Design) and (ii) prints the cases (invariant EmitInv)   *)
(* that harness/gossipval replays on the real code.  The Go side does not  *)
(* construct cases (except the class "random", see GossipValidateTrace).   *)
(*                                                                         *)
(* Domain: every message record over the field alphabets of GossipValidate *)
(* with 0..MaxN+1 entries over the world identities, crossed with every     *)
(* receiver state, restricted to at most MaxDist simultaneous deviations   *)
(* from a canonical valid message (topic, type, version, instance ok; set  *)
(* MemberOk; sender 0; the flavour's own extra (core: none); entries       *)
(* <<[1,valid]>> or                                                        *)
(* <<[1,valid],[2,valid]>>).  A deviation is one scalar field with another *)
(* value, one entry with another kind, one entry with another identity     *)
(* than the canonical one of its position, no entries, or more than MaxN    *)
(* entries.  MaxDist >= 4 + 3 + 1 + 2*(MaxN+1) is the whole domain.         *)
(* One seed state per (scalar fields, receiver state), one step to every   *)
(* entry sequence: the seeds spread the work over the TLC workers.         *)
(***************************************************************************)
EXTENDS GossipValidateProps, Json, TLC

CONSTANTS
    MCFlavours, \* subset of C04Flavours
    MCTypes,    \* subset of MsgTypes
    MaxDist,    \* cases with at most that many deviations are visited (Design is checked on them)
    EmitDist,   \* of those, the ones with at most EmitDist deviations are printed ...
    Emit        \* ... if Emit

VARIABLES c, stage
vars == <<c, stage>>

B(b) == IF b THEN 1 ELSE 0
Min2(a, b) == IF a < b THEN a ELSE b

SDev(fl, m) == B(~m.topicOk) + B(~m.typeOk) + B(~m.versionOk) + B(~m.instOk) + B(m.set # "MemberOk")
               + B(m.snd # 0) + B(m.extra # OwnExtra(fl))

RECURSIVE ESum(_, _)
ESum(q, i) == IF i > Len(q) THEN 0 ELSE B(q[i].k # "valid") + B(q[i].r # i) + ESum(q, i + 1)
EDev(q) == B(Len(q) = 0) + B(Len(q) > MaxN) + ESum(q, 1)
EDevMax == 1 + 2 * (MaxN + 1)

Dev(fl, m) == SDev(fl, m) + EDev(m.entries)

EntrySeqs(mt) == UNION {[1..len -> [r : WorldRanks, k : Kinds(mt)]] : len \in 0..(MaxN + 1)}
(* evaluated once (TLCEval forces TLC's lazy function values) *)
EntriesLE == TLCEval([mt \in MsgTypes |-> TLCEval([d \in 0..EDevMax |-> TLCEval({q \in EntrySeqs(mt) : EDev(q) <= d})])])

Senders(mt) == IF mt = "shares" THEN 0..(N + 1) ELSE {0}
ShareStates(mt) == IF mt = "shares" THEN SharesCls ELSE {"none"}

(* the flavour assemblies get the database with one config per set class, without stored
   shares, with two stored-key classes for keys messages (the verdict of the flavour validators does
   not depend on these tables) *)
RecvOk(fl, mt, lay, sto, shs) ==
    fl = "core" \/ (lay = "rich" /\ shs = "none" /\ sto \in (IF mt = "keys" THEN {"none", "wrong1"} ELSE {"none"}))
(* receiver position: "middle" with every receiver state; "first" and "last" with the receiver
   states without stored rows (both layouts, every flavour) *)
PosOk(po, sto, shs) == po = "middle" \/ (sto = "none" /\ shs = "none")

(* history family (core assembly): the set's key generation was restarted with other key
   material.  Every combination (current key material, fresh / stale handler objects) other than
   (main, fresh) is enumerated for messages of the topic that name a usable set, over the rich
   database without stored rows. *)
HistOk(fl, m, lay, sto, shs, ek, hi) ==
    (ek = "main" /\ hi = "fresh") \/
    (/\ fl = "core" /\ lay = "rich" /\ sto = "none" /\ shs = "none"
     /\ m.topicOk /\ m.typeOk /\ m.versionOk /\ m.instOk /\ m.extra = "none"
     /\ m.set \in {"MemberOk", "RestartOk"})

Opposite(ek) == IF ek = "main" THEN "other" ELSE "main"
(* the delivery that precedes a "stale" case on the same handler objects: a well-formed message
   of the same type for the same set under the opposite key material *)
Warm(x) ==
    [mt |-> x.m.mt, topicOk |-> TRUE, typeOk |-> TRUE, versionOk |-> TRUE, instOk |-> TRUE, set |-> x.m.set, snd |-> 0,
     entries |-> <<[r |-> 1, k |-> IF x.recv.eonkey = "main"
                                   THEN (IF x.m.mt = "shares" THEN "otherEon" ELSE "wrong") ELSE "valid"]>>,
     extra |-> "none"]

Init ==
    /\ stage = 0
    /\ \E fl \in MCFlavours : \E mt \in MCTypes : \E tp \in BOOLEAN : \E ty \in BOOLEAN : \E ve \in BOOLEAN : \E ins \in BOOLEAN :
       \E set \in Sets : \E snd \in Senders(mt) : \E ex \in Extras :
       \E lay \in Layouts : \E sto \in StoredCls : \E shs \in ShareStates(mt) :
       \E ek \in {"main", "other"} : \E hi \in {"fresh", "stale"} : \E po \in Positions :
          /\ RecvOk(fl, mt, lay, sto, shs)
          /\ PosOk(po, sto, shs)
          /\ c = [fl   |-> fl,
                  m    |-> [mt |-> mt, topicOk |-> tp, typeOk |-> ty, versionOk |-> ve, instOk |-> ins,
                            set |-> set, snd |-> snd, entries |-> <<>>, extra |-> ex],
                  recv |-> [layout |-> lay, stored |-> sto, shares |-> shs, eonkey |-> ek, pos |-> po],
                  hist |-> hi]
          /\ HistOk(fl, c.m, lay, sto, shs, ek, hi)
          /\ SDev(fl, c.m) <= MaxDist

Next ==
    /\ stage = 0
    /\ stage' = 1
    /\ \E q \in EntriesLE[c.m.mt][Min2(MaxDist - SDev(c.fl, c.m), EDevMax)] : c' = [c EXCEPT !.m.entries = q]

Spec == Init /\ [][Next]_vars

Complete == stage = 1

(* the property layer holds on the outcome the code-shaped layer computes *)
Design == Complete => DesignHolds(c.fl, c.m, c.recv)

EmitInv == (Emit /\ Complete /\ Dev(c.fl, c.m) <= EmitDist) =>
           PrintT(<<"CASE", ToJson(IF c.hist = "stale"
                                   THEN [fl |-> c.fl, m |-> c.m, recv |-> c.recv, hist |-> c.hist, warm |-> Warm(c)]
                                   ELSE c)>>)

=============================================================================
