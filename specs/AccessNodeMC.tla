---------------------------- MODULE AccessNodeMC ----------------------------
(***************************************************************************)
(* The access node(s) of AccessNode.tla composed with an environment:      *)
(*   ev n i    chain event EvAlpha[i] is handed to node n's handler by the *)
(*             chain-sync client (any order, late, duplicated, the eon key *)
(*             before or after the keyper set, an eon re-announced with    *)
(*             different content, eons >= 2^63 / aliasing eons)            *)
(*   msg n j   gossip message MsgAlpha[j] reaches node n's validator (at   *)
(*             any time: before anything is synced, between the events,    *)
(*             again after an earlier copy)                                *)
(* Bounds are functions of the state (per node: events taken, messages     *)
(* taken).  hist is hidden by the VIEW.  With Emit the VIEW contains the   *)
(* ghost, `last` = the operation, the Storage slot it met (PRE-state:      *)
(* one history per distinct TRANSITION, lesson d) and its response, and    *)
(* `tags` = every observation class met so far, every event that was a     *)
(* no-op (duplicate, refused key: lesson e) and every (message, verdict)   *)
(* validated so far -- validation never changes the specification's state, *)
(* so without the tag every history containing a message would be shadowed *)
(* by the one without it (lesson a).  Lookup-miss states are reached by    *)
(* construction (a message may come first).                                *)
(* Without Emit (design pass, larger bounds) only the observation classes  *)
(* are kept: TLC checks the property layer against the code-shaped layer.  *)
(***************************************************************************)
EXTENDS AccessNodeProps, Json, SequencesExt

CONSTANTS
    NN,              \* number of access nodes (2: confluence plans)
    EvSet, MsgSet,   \* names of the alphabets below
    MaxEv, MaxMsg,   \* per node
    Emit

VARIABLES st, g, obsv, tags, last, cnt, hist
vars == <<st, g, obsv, tags, last, cnt, hist>>

Nodes == 1..NN

(* ----------------------------- alphabets ------------------------------- *)
Sg(by, who, over) == [by |-> by, who |-> who, over |-> over]
Idx(k) == [i \in 1..k |-> i - 1]
(* the canonical keys message of eon e: one key generated with eon key k, T signatures of list L *)
Base(e, k, L) ==
    [e |-> e, inst |-> "ok", keys |-> <<k>>, ord |-> "asc", idl |-> "ok", ex |-> "gnosis", slot |-> "ok", txp |-> "ok",
     signers |-> Idx(T), sigs |-> [i \in 1..T |-> Sg(L, "listed", "msg")]]
LastSig(b, sg) == [b EXCEPT !.sigs[Len(b.sigs)] = sg]

(* every single deviation from the canonical message b (generated with key k, list L) *)
Deviations(b, k, L) == <<
    b,
    [b EXCEPT !.inst = "bad"],
    [b EXCEPT !.keys = <<>>],
    [b EXCEPT !.keys = <<k, k, k>>],
    [b EXCEPT !.keys = <<"forged">>],
    [b EXCEPT !.keys = <<k, "forged">>],
    [b EXCEPT !.keys = <<k, k>>],
    [b EXCEPT !.keys = <<k, k>>, !.ord = "desc"],
    [b EXCEPT !.keys = <<k, k>>, !.ord = "eq"],
    [b EXCEPT !.keys = <<"inf">>],
    [b EXCEPT !.keys = <<"garb">>],
    [b EXCEPT !.keys = <<"notg1">>],
    [b EXCEPT !.idl = "short"],
    [b EXCEPT !.ex = "none"],
    [b EXCEPT !.ex = "service"],
    [b EXCEPT !.slot = "huge"],
    [b EXCEPT !.txp = "huge"],
    [b EXCEPT !.signers = <<>>, !.sigs = <<>>],
    [b EXCEPT !.signers = Idx(T - 1), !.sigs = [i \in 1..(T - 1) |-> Sg(L, "listed", "msg")]],
    [b EXCEPT !.signers = Idx(T + 1), !.sigs = [i \in 1..(T + 1) |-> Sg(L, "listed", "msg")]],
    [b EXCEPT !.signers = [i \in 1..T |-> 0]],
    [b EXCEPT !.signers = [i \in 1..T |-> T - i]],
    [b EXCEPT !.signers[T] = N],
    [b EXCEPT !.signers[T] = HugeIdx],
    [b EXCEPT !.sigs = SubSeq(b.sigs, 1, T - 1)],
    [b EXCEPT !.sigs = Append(b.sigs, Sg(L, "listed", "msg"))],
    LastSig(b, Sg("out", "listed", "msg")),
    LastSig(b, Sg(L, "other", "msg")),
    LastSig(b, Sg("garb", "listed", "msg")),
    LastSig(b, Sg(L, "listed", "slot")),
    LastSig(b, Sg(L, "listed", "txp")),
    LastSig(b, Sg(L, "listed", "ids")),
    LastSig(b, Sg(L, "listed", "eon")),
    LastSig(b, Sg(L, "listed", "inst")),
    [b EXCEPT !.sigs[1] = Sg(L, "listed", "slot")] >>

Other(L) == IF L = "A" THEN "B" ELSE "A"
OtherK(k) == IF k = "KA" THEN "KB" ELSE "KA"
(* the four combinations of key and signer list for eon e *)
Combos(e) == << Base(e, "KA", "A"), Base(e, "KB", "B"), Base(e, "KA", "B"), Base(e, "KB", "A") >>
NoSigs(b) == [b EXCEPT !.signers = <<>>, !.sigs = <<>>]

EvAlpha ==
    CASE EvSet = "order" ->      \* eon e1 announced with either content, e2 with its own
           << KsEv("e1", "A", "t", "lo"), KsEv("e1", "B", "t", "lo"), EkEv("e1", "KA"), EkEv("e1", "KB"),
              KsEv("e2", "B", "t", "lo"), EkEv("e2", "KB") >>
      [] EvSet = "genuine" ->    \* every eon announced with its own content only
           << KsEv("e1", "A", "t", "lo"), EkEv("e1", "KA"), KsEv("e2", "B", "t", "lo"), EkEv("e2", "KB") >>
      [] EvSet = "alias" ->      \* e1 with its own content; eons whose value aliases e1 under 32 / 63 bit truncation with the other content
           << KsEv("e1", "A", "t", "lo"), EkEv("e1", "KA"),
              KsEv("hi1", "B", "t", "lo"), EkEv("hi1", "KB"), KsEv("w1", "B", "t", "lo"), EkEv("w1", "KB") >>
      [] EvSet = "odd" ->        \* integer boundary values and bytes that are not a key
           << KsEv("e1", "A", "t", "lo"), KsEv("e1", "A", "0", "lo"), KsEv("e1", "A", "w0", "lo"), KsEv("e1", "A", "wt", "lo"),
              KsEv("e1", "A", "neg", "lo"), KsEv("e1", "A", "t", "hi"), KsEv("e1", "E", "0", "lo"), KsEv("e1", "E", "t", "lo"),
              EkEv("e1", "KA"), EkEv("e1", "empty"), EkEv("e1", "short"), EkEv("e1", "badenc"), EkEv("e1", "notg2") >>
      [] EvSet = "twin" ->       \* one eon, both keyper sets, a key and bytes that are no key (confluence)
           << KsEv("e1", "A", "t", "lo"), KsEv("e1", "B", "t", "lo"), EkEv("e1", "KA"), EkEv("e1", "empty") >>
      [] EvSet = "e1only" ->
           << KsEv("e1", "A", "t", "lo"), EkEv("e1", "KA") >>
      [] EvSet = "tiny" ->
           << KsEv("e1", "A", "t", "lo"), KsEv("e1", "B", "t", "lo"), EkEv("e1", "KA") >>

MsgAlpha ==
    CASE MsgSet = "combos" -> Combos("e1") \o << Base("e2", "KB", "B"), Base("e2", "KA", "A") >>
      [] MsgSet = "classes" -> Deviations(Base("e1", "KA", "A"), "KA", "A") \o
                               << Base("e1", "KB", "B"), Base("e1", "KA", "B"), Base("e1", "KB", "A"), Base("e2", "KB", "B"), Base("e2", "KA", "A") >>
      [] MsgSet = "alias" -> << Base("e1", "KA", "A"), Base("e1", "KB", "B"), Base("hi1", "KB", "B"), Base("hi1", "KA", "A"),
                                Base("w1", "KB", "B"), Base("w1", "KA", "A") >>
      [] MsgSet = "odd" -> << Base("e1", "KA", "A"), NoSigs(Base("e1", "KA", "A")),
                              [Base("e1", "KA", "A") EXCEPT !.signers = <<0>>, !.sigs = <<Sg("A", "listed", "msg")>>],
                              [Base("e1", "KA", "A") EXCEPT !.keys = <<"inf">>], [Base("e1", "KA", "A") EXCEPT !.keys = <<"garb">>],
                              [NoSigs(Base("e1", "KA", "A")) EXCEPT !.idl = "short"] >>
      [] MsgSet = "twin" -> << Base("e1", "KA", "A"), Base("e1", "KA", "B"), [Base("e1", "KA", "A") EXCEPT !.keys = <<"inf">>] >>
      [] MsgSet = "tiny" -> << Base("e1", "KA", "A"), Base("e1", "KA", "B") >>

ASSUME \A i \in DOMAIN EvAlpha : EvAlpha[i].e \in AllEons
ASSUME \A j \in DOMAIN MsgAlpha : MsgAlpha[j].e \in AllEons

(* ------------------------------ behaviour ------------------------------ *)
Code(kind, n, i) == n * 10000 + kind * 1000 + i        \* kind 0 = ev, 1 = msg

Init ==
    /\ st = [n \in Nodes |-> Storage0]
    /\ g = [n \in Nodes |-> GN0]
    /\ obsv = {} /\ tags = {}
    /\ last = <<0, "-", "-">>
    /\ cnt = [n \in Nodes |-> [ev |-> 0, msg |-> 0]]
    /\ hist = <<>>

(* nodes are independent: node n steps only while no later node has started (sequential composition) *)
Turn(n) == \A n2 \in Nodes : n2 > n => (cnt[n2].ev = 0 /\ cnt[n2].msg = 0)

Ev(n, i) ==
    /\ cnt[n].ev < MaxEv /\ Turn(n)
    /\ LET ev == EvAlpha[i]
           x  == Apply(st[n], ev)
           g1 == [g EXCEPT ![n] = GhostEv(g[n], ev)]
           s1 == [st EXCEPT ![n] = x.st]
           obs == EvObs(g[n], ev, st[n], x.st) \cup (IF NN > 1 THEN TwinStoreObs(g1, s1) ELSE {}) IN
       /\ st' = s1
       /\ g' = g1
       /\ obsv' = obsv \cup obs
       /\ tags' = tags \cup
                  (IF Emit /\ x.st = st[n] THEN {"t:noop:" \o ToString(n) \o ":" \o ToString(i) \o ":" \o x.out} ELSE {})
       /\ last' = IF Emit THEN <<Code(0, n, i), st[n][ev.e], x.out>> ELSE last
       /\ cnt' = [cnt EXCEPT ![n].ev = @ + 1]
       /\ hist' = IF Emit THEN Append(hist, Code(0, n, i)) ELSE hist

Msg(n, j) ==
    /\ cnt[n].msg < MaxMsg /\ Turn(n)
    /\ LET m == MsgAlpha[j]
           r == CombinedValidate(st[n], m)
           obs == MsgObs(g[n], m, r.v, st[n], st[n]) \cup (IF NN > 1 THEN TwinMsgObs(g, n, m, r.v) ELSE {}) IN
       /\ st' = st
       /\ g' = [g EXCEPT ![n] = GhostMsg(g[n], m, r.v)]
       /\ obsv' = obsv \cup obs
       /\ tags' = tags \cup
                  (IF Emit THEN {"t:m:" \o ToString(n) \o ":" \o ToString(j) \o ":" \o r.v} ELSE {})
       /\ last' = IF Emit THEN <<Code(1, n, j), r.v, r.w>> ELSE last
       /\ cnt' = [cnt EXCEPT ![n].msg = @ + 1]
       /\ hist' = IF Emit THEN Append(hist, Code(1, n, j)) ELSE hist

Next == \E n \in Nodes : (\E i \in DOMAIN EvAlpha : Ev(n, i)) \/ (\E j \in DOMAIN MsgAlpha : Msg(n, j))

Spec == Init /\ [][Next]_vars

(* Design: on the as-found alternatives only these observation classes may appear; with the
   repaired alternatives fewer (the Go side passes the set to allow) *)
CONSTANT Allowed
Design == obsv \subseteq Allowed \cup Facts
DesignCex == Design \/ (PrintT(<<"CEX", ToJson([h |-> hist, obs |-> SetToSeq(obsv \ (Allowed \cup Facts))])>>) /\ FALSE)

EmitInv == (~Emit) \/ hist = <<>> \/ PrintT(<<"B", ToJson([h |-> hist, o |-> SetToSeq(obsv)])>>)
Alphabets == PrintT(<<"ALPHA", ToJson([ev |-> EvAlpha, msg |-> MsgAlpha])>>)
ASSUME Alphabets

View == <<st, g, obsv, tags, last, cnt>>
=============================================================================
