----------------------------- MODULE HttpGateTrace -----------------------------
(***************************************************************************)
(* C18 -- trace layer.  One ndjson line per case served by the REAL router *)
(* (kprapi.Server.setupRouter, hooked), with the observations of each      *)
(* repetition of the request:                                              *)
(*   {k:"case", stack, ui, flavour, cfg, m, t, sps, w, h, target,          *)
(*    obs: [{status, bk,                                                   *)
(*    effect, panic}, ...]}  (+ order, inst: construction order of the     *)
(*    servers of the child process the line comes from)                    *)
(*   {k:"hist", stack, w, reqs: [{m,t,sps,h,target}..], obs: [o1, o2, ..], *)
(*    ref: [decision of each request on a fresh instance]}                 *)
(*   {k:"conc", stack, w, reqs: [ra, rb], obs: [[answers of ra], [of rb]], *)
(*    eff: [effects seen on the instance]}                                 *)
(*   pass A  viol : <<line, monitor>> for every monitor of HttpGateProps   *)
(*                  that is false on the observed case                     *)
(*   pass B  drift: lines whose target is not the one the spec builds for  *)
(*                  the case, or with an observation that is not a         *)
(*                  response the code-shaped spec allows                   *)
(***************************************************************************)
EXTENDS HttpGateProps, Json, SequencesExt

CONSTANT TraceFile
Trace == ndJsonDeserialize(TraceFile)

VARIABLES l, viol, drift
tvars == <<l, viol, drift>>

Allowed(o, r) ==
    /\ ObsEffect(o) = r.effect
    /\ r.status = 0 \/ (o.status = r.status /\ o.bk = r.bk)

HdrOK(h) == h.accept \in Accepts /\ h.ctype \in Ctypes /\ h.override \in Overrides /\ h.body \in BOOLEAN
ReqOK(r) ==
    /\ ApplicableAll(BasePath(Tpl(r.t)), r.sps)
    /\ r.target = Target(SpellAll(BasePath(Tpl(r.t)), r.sps))
    /\ HdrOK(r.h)

\* supply path: a line of a server obtained through a flavour constructor is JUDGED with what the
\* operator configured and must CONFORM to the setting the code-shaped supply path yields
LineJudgedW(line) == IF line.flavour = "direct" THEN line.w ELSE ConfiguredWrite(line.flavour, line.cfg)
LineEffectiveW(line) == IF line.flavour = "direct" THEN line.w ELSE FlavourWrite(line.flavour, line.cfg)

\* k = "case": one request, obs = its repetitions (each on another instance)
SpecAllowsCase(line) ==
    /\ ReqOK(line)
    /\ line.flavour = "direct" \/ (line.flavour \in Flavours /\ line.cfg \in Sources /\ ParseOK(line.cfg) /\ line.w = LineJudgedW(line))
    /\ \A i \in DOMAIN line.obs : \E r \in ServeReq(line, LineEffectiveW(line), line.stack, line.ui) : Allowed(line.obs[i], r)

\* k = "hist": reqs served one after the other by one instance; the spec is stateless, so each
\* observation must be a response the request gets alone
SpecAllowsHist(line) ==
    /\ Len(line.obs) = Len(line.reqs) /\ Len(line.ref) = Len(line.reqs)
    /\ \A i \in DOMAIN line.reqs :
         /\ ReqOK(line.reqs[i])
         /\ \E r \in ServeReq(line.reqs[i], line.w, line.stack, FALSE) : Allowed(line.obs[i], r)
         /\ \E r \in ServeReq(line.reqs[i], line.w, line.stack, FALSE) : Allowed(line.ref[i], r)

\* k = "conc": status / body of every answer is one the request gets alone; the effects seen
\* on the instance are effects of responses of the two requests
SpecAllowsConc(line) ==
    /\ \A i \in DOMAIN line.reqs :
         /\ ReqOK(line.reqs[i])
         /\ \A j \in DOMAIN line.obs[i] :
              \E r \in ServeReq(line.reqs[i], line.w, line.stack, FALSE) :
                 r.status = 0 \/ (line.obs[i][j].status = r.status /\ line.obs[i][j].bk = r.bk)
    /\ \A k \in DOMAIN line.eff :
         \E i \in DOMAIN line.reqs : \E r \in ServeReq(line.reqs[i], line.w, line.stack, FALSE) : r.effect = line.eff[k]

\* k = "cfg": outcome of the real command's configuration parsing for (flavour, source)
SpecAllowsCfg(line) ==
    /\ line.flavour \in Flavours /\ line.cfg \in Sources
    /\ line.parsed = (IF ParseOK(line.cfg) THEN "ok" ELSE "error")
    /\ line.parsed = "ok" => line.ro = ConfiguredReadOnly(line.flavour, line.cfg)

LineViol(line) ==
    CASE line.k = "cfg" -> (IF C18_Config(line.flavour, line.cfg, line.parsed, line.ro) THEN {} ELSE {"C18_Config"})
      [] line.k = "case" -> Failed(line.m, line.t, line.sps, LineJudgedW(line), line.obs)
      [] line.k = "hist" -> FailedHist(line.w, line.reqs, line.obs, line.ref)
      [] line.k = "conc" -> FailedConc(line.w, line.reqs, line.obs, line.eff)

LineAllowed(line) ==
    CASE line.k = "cfg" -> SpecAllowsCfg(line)
      [] line.k = "case" -> SpecAllowsCase(line)
      [] line.k = "hist" -> SpecAllowsHist(line)
      [] line.k = "conc" -> SpecAllowsConc(line)
      [] OTHER -> FALSE

TInit == l = 1 /\ viol = {} /\ drift = {}

TNext ==
    /\ l <= Len(Trace)
    /\ l' = l + 1
    /\ LET line == Trace[l] IN
       /\ viol' = viol \cup {<<l, mon>> : mon \in LineViol(line)}
       /\ drift' = drift \cup (IF LineAllowed(line) THEN {} ELSE {l})

TSpec == TInit /\ [][TNext]_tvars

Done == l <= Len(Trace) \/
        PrintT(<<"RESULT", ToJson([lines |-> Len(Trace), viol |-> SetToSeq(viol), drift |-> SetToSeq(drift)])>>)
=============================================================================
