----------------------------- MODULE HttpGateTrace -----------------------------
(***************************************************************************)
(* C18 -- trace layer.  One ndjson line per case served by the REAL router *)
(* (kprapi.Server.setupRouter, hooked), with the observations of each      *)
(* repetition of the request:                                              *)
(*   {m, t, sps, w, h, target, obs: [{status, bk, effect, panic}, ...]}    *)
(*   pass A  viol : <<line, monitor>> for every monitor of HttpGateProps   *)
(*                  that is false on the observed case                     *)
(*   pass B  drift: lines whose target is not the one the spec builds for  *)
(*                  the case, or with an observation that is not a         *)
(*                  response the code-shaped spec allows                   *)
(***************************************************************************)
EXTENDS HttpGateProps, Json, SequencesExt

CONSTANT TraceFile
Trace == ndJsonDeserialize(TraceFile)

VARIABLES l, viol, drift
tvars == <<l, viol, drift>>

Allowed(o, r) ==
    /\ ObsEffect(o) = r.effect
    /\ r.status = 0 \/ (o.status = r.status /\ o.bk = r.bk)

SpecAllows(line) ==
    LET p == SpellAll(BasePath(Tpl(line.t)), line.sps) IN
    /\ ApplicableAll(BasePath(Tpl(line.t)), line.sps)
    /\ line.target = Target(p)
    /\ line.h.accept \in Accepts /\ line.h.ctype \in Ctypes /\ line.h.override \in Overrides /\ line.h.body \in BOOLEAN
    /\ \A i \in DOMAIN line.obs : \E r \in Serve(line.m, p, line.w, line.h) : Allowed(line.obs[i], r)

TInit == l = 1 /\ viol = {} /\ drift = {}

TNext ==
    /\ l <= Len(Trace)
    /\ l' = l + 1
    /\ LET line == Trace[l] IN
       /\ viol' = viol \cup {<<l, mon>> : mon \in Failed(line.m, line.t, line.sps, line.w, line.obs)}
       /\ drift' = drift \cup (IF SpecAllows(line) THEN {} ELSE {l})

TSpec == TInit /\ [][TNext]_tvars

Done == l <= Len(Trace) \/
        PrintT(<<"RESULT", ToJson([lines |-> Len(Trace), viol |-> SetToSeq(viol), drift |-> SetToSeq(drift)])>>)
=============================================================================
