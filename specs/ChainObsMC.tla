----------------------------- MODULE ChainObsMC -----------------------------
(***************************************************************************)
(* The chain observer of ChainObs.tla composed with an environment.        *)
(*   Mine(p, c)    a new head on top of the canonical block p (the tip:    *)
(*                 extension; else a fork) holding the NewConfig events c  *)
(*                 (at most MaxPerBlock, drawn from the plan's alphabet    *)
(*                 EvKinds at log positions PosSet)                        *)
(*   Extend(p, k)  a RUN of k eventless blocks in one step, k from GapSet  *)
(*                 = the boundaries of the code's constants (finality      *)
(*                 offset 3, page size 3): the observer only ever sees     *)
(*                 blocks FinOff below the head                            *)
(*   Switch(b)     the head becomes another leaf (reorg / another node     *)
(*                 behind a load balancer)                                 *)
(* Observer 1 is driven step by step:                                      *)
(*   Start1(f)     ChainObserver.Start (f = "db": the progress row cannot  *)
(*                 be read)                                                *)
(*   Poll1(f)      one iteration of the sync loop + handling of its items, *)
(*                 under any fault of the plan at any item / statement     *)
(*   Stop1         the process stops between two pages (a crash inside a   *)
(*                 page is a fault of Poll1)                               *)
(* Observer 2 (own database, same chain) only catches up without faults    *)
(* (Catch2 = start if needed, poll until idle) at any time, so that it     *)
(* batches differently: the reference for K3.                              *)
(* All bounds are functions of the state (tree shape, counters in cnt).    *)
(* hist is hidden by the VIEW.  The VIEW contains the RESPONSE of the last *)
(* step (last: result class, per-item outcome classes, fault, the step     *)
(* monitors that fail: one history per distinct transition) and tags (the  *)
(* fault / ignored-input classes met so far).  The property layer is an    *)
(* invariant (PropInv) for plans with CheckProps (the repaired             *)
(* alternatives on chains without reorgs); for the tree as found every     *)
(* printed history carries the monitors the code-shaped spec itself fails  *)
(* at its end (pv), which the harness compares with what the real code     *)
(* shows.                                                                  *)
(***************************************************************************)
EXTENDS ChainObsProps, Json, SequencesExt

CONSTANTS
    EvKinds,      \* sequence of events (pos ignored): the alphabet
    RootEvs,      \* sequence of <<kind, pos>>: the events of block 0 (the constructors' NewConfig(0,0,0[,0]))
    OnceKinds,    \* kinds used at most once per tree
    MaxOnce,      \* at most this many OnceKinds events per tree
    PosSet,       \* log positions of a single event
    EmptyMine,    \* may a single block without events be mined (FALSE: eventless blocks only as runs)
    MaxPerBlock, MaxBlocks, MaxEvents, MaxLeaves,
    GapSet, MaxRuns, MaxSwitches,
    Faults,       \* set of <<k, w>>: the faults of Poll1
    StartFaults,  \* BOOLEAN
    MaxFaults, MaxStops, MaxIdle, MaxCatch,
    Halting,      \* the environment may halt (liveness plans)
    CheckProps, KeepHist, Emit

VARIABLES blk, canon, ob, cnt, tags, last, hist
vars == <<blk, canon, ob, cnt, tags, last, hist>>

FK == <<"none", "rpcB", "rpcL", "rpcM", "rpc1", "err", "drop", "dropc", "crash", "crashc">>
FW == <<"-", "begin", "ins", "upd", "commit">>
IdxOf(s, x) == CHOOSE i \in DOMAIN s : s[i] = x

At(i, p) == [EvKinds[i] EXCEPT !.pos = p]
EvsOf(c) == [j \in 1..Len(c) |-> At(c[j][1], c[j][2])]

Obs(up, mem, db) == [up |-> up, mem |-> mem, db |-> db]
Cnt0 == [faults |-> 0, stops |-> 0, idle |-> 0, catch |-> 0, sw |-> 0, halt |-> 0]
Lst(op, o, ret, outs, f, v) == [op |-> op, o |-> o, ret |-> ret, outs |-> outs, f |-> f, v |-> v]

Init ==
    /\ blk = << [num |-> 0, par |-> -1, evs |-> EvsOf(RootEvs), len |-> 1] >>
    /\ canon = 1
    /\ ob = [o \in {1, 2} |-> Obs(FALSE, NoMem, DB0)]
    /\ cnt = Cnt0 /\ tags = {}
    /\ last = Lst("init", 0, "ok", <<>>, "-", {})
    /\ hist = <<>>

H(e) == IF KeepHist THEN Append(hist, e) ELSE hist
Free == cnt.halt = 0

Leaves(b) == {x \in DOMAIN b : \A y \in DOMAIN b : b[y].par # x}
NumEvents(b) == LET n[x \in 0..Len(b)] == IF x = 0 THEN 0 ELSE n[x - 1] + Len(b[x].evs) IN n[Len(b)] - Len(RootEvs)
KindOf(e) == CHOOSE i \in DOMAIN EvKinds : [EvKinds[i] EXCEPT !.pos = e.pos] = e
UsedKinds(b) == UNION {{KindOf(b[x].evs[j]) : j \in 1..Len(b[x].evs)} : x \in 2..Len(b)}
OnceUsed(b) == UsedKinds(b) \cap OnceKinds

(* the kinds of the root block (the constructors' events) are not mined again *)
MineKinds == DOMAIN EvKinds \ {RootEvs[i][1] : i \in DOMAIN RootEvs}
Contents ==
    (IF EmptyMine THEN {<<>>} ELSE {}) \cup {<< <<i, p>> >> : i \in MineKinds, p \in PosSet}
    \cup (IF MaxPerBlock >= 2 THEN {<< <<i, 0>>, <<j, 1>> >> : i \in MineKinds, j \in MineKinds} ELSE {})

DeployOf(t) == IF t = "ks" THEN DeployKs ELSE DeployCo

(* the state monitors that fail (both observers; K3 between them) *)
StateViol(b, c, q) ==
    LET all == AllItems(b, c)
        fin == Final(b, c)
    IN K1_FailedA(all, q[1].db) \cup K5_LostA(all, fin, q[1].db) \cup
       (IF MaxCatch > 0 THEN K1_FailedA(all, q[2].db) \cup K5_LostA(all, fin, q[2].db) \cup K3_Failed(q[1].db, q[2].db) ELSE {})

Env(b, c, op, e) ==
    /\ blk' = b /\ canon' = c
    /\ last' = Lst(op, 0, "ok", <<>>, "-", {})
    /\ hist' = H(e)
    /\ UNCHANGED <<ob, tags>>

Mine(p, c, used) ==
    /\ Free
    /\ Len(blk) < MaxBlocks
    /\ NumEvents(blk) + Len(c) <= MaxEvents
    /\ \A j \in 1..Len(c) : blk[p].num + 1 >= DeployOf(EvKinds[c[j][1]].t)
    /\ LET ks == {c[j][1] : j \in 1..Len(c)} IN
       /\ ks \cap used = {}
       /\ (Len(c) = 2 /\ c[1][1] \in OnceKinds) => c[1][1] # c[2][1]
       /\ Cardinality(used) + Cardinality({j \in 1..Len(c) : c[j][1] \in OnceKinds}) <= MaxOnce
    /\ LET nb == Append(blk, [num |-> blk[p].num + 1, par |-> p, evs |-> EvsOf(c), len |-> 1]) IN
       /\ Cardinality(Leaves(nb)) <= MaxLeaves
       /\ Env(nb, Len(blk) + 1, "mine",
              <<0, p>> \o (IF Len(c) >= 1 THEN c[1] ELSE <<0, 0>>) \o (IF Len(c) >= 2 THEN c[2] ELSE <<0, 0>>))
    /\ UNCHANGED cnt

Extend(p, k) ==
    /\ Free
    /\ Len(blk) < MaxBlocks
    /\ Cardinality({x \in DOMAIN blk : blk[x].len > 1}) < MaxRuns
    /\ LET nb == Append(blk, [num |-> blk[p].num + k, par |-> p, evs |-> <<>>, len |-> k]) IN
       /\ Cardinality(Leaves(nb)) <= MaxLeaves
       /\ Env(nb, Len(blk) + 1, "ext", <<1, p, k>>)
    /\ UNCHANGED cnt

Switch(b) ==
    /\ Free
    /\ cnt.sw < MaxSwitches
    /\ b \in Leaves(blk) /\ b # canon
    /\ Env(blk, b, "switch", <<2, b>>)
    /\ cnt' = [cnt EXCEPT !.sw = @ + 1]

----------------------------------------------------------------------------
(* observer steps *)
FTag(f) == f.k \o ":" \o f.w
Faulty(f) == f.k # "none"

DoObs(o, nob, op, ret, outs, f, tg, viol, e) ==
    /\ ob' = [ob EXCEPT ![o] = nob]
    /\ tags' = tags \cup tg
    /\ last' = Lst(op, o, ret, outs, f, viol)
    /\ hist' = H(e)
    /\ UNCHANGED <<blk, canon>>

Start1(f) ==
    /\ ~ob[1].up
    /\ f = "db" => (StartFaults /\ Free /\ cnt.faults < MaxFaults)
    /\ IF f = "none"
       THEN DoObs(1, Obs(TRUE, StartMem(ob[1].db), ob[1].db), "start", "ok", <<>>, "-", {}, {}, <<3, 1, 1>>)
       ELSE DoObs(1, ob[1], "start", "fail", <<>>, "db", {"startfail"}, {}, <<3, 1, 2>>)
    /\ cnt' = IF f = "none" THEN cnt ELSE [cnt EXCEPT !.faults = @ + 1]

PollStep(f, its, idle) ==
    LET o1 == ob[1] IN
    /\ f.k # "none" => (Free /\ cnt.faults < MaxFaults)
    /\ idle => (f.k \in {"none", "rpcB"} /\ cnt.idle < MaxIdle)
    /\ ~idle => FaultFits(o1.db, its, f)
    /\ LET r == Poll(blk, canon, o1.db, o1.mem, f)
           up2 == r.ret \in {"ok", "idle"}
           states == <<o1.db>> \o r.seq
           viol == K2_Seq(AllItems(blk, canon), states, 1) \cup K4_Failed(r.ret, Faulty(f))
                   \cup (IF f.k = "none" THEN K5_Stuck(blk, canon, r.db, r.ret) ELSE {})
       IN /\ DoObs(1, Obs(up2, IF up2 THEN r.mem ELSE NoMem, r.db), "poll", r.ret, r.outs, FTag(f),
                   (IF Faulty(f) THEN {FTag(f)} ELSE {}) \cup (IF r.ret = "idle" THEN {"idle"} ELSE {}), viol,
                   <<4, 1, IdxOf(FK, f.k), f.at, IdxOf(FW, f.w)>>)
          /\ cnt' = [cnt EXCEPT !.faults = IF f.k = "none" THEN @ ELSE @ + 1,
                                !.idle = IF r.ret = "idle" THEN @ + 1 ELSE @,
                                !.stops = IF r.ret = "crash" THEN @ + 1 ELSE @]

Poll1 ==
    /\ ob[1].up
    /\ LET its  == PageItems(blk, canon, ob[1].mem)
           idle == PageIdle(blk, canon, ob[1].mem)
           fs == {NoFault}
                 \cup {[k |-> x[1], at |-> 0, w |-> "-"] : x \in {y \in Faults : y[1] \in {"rpcB", "rpcL", "rpc1"}}}
                 \cup {[k |-> x[1], at |-> i, w |-> x[2]] : x \in {y \in Faults : y[1] \notin {"rpcB", "rpcL", "rpc1"}}, i \in 1..(Len(its) + 1)}
       IN \E f \in fs : PollStep(f, its, idle)

Stop1 ==
    /\ Free
    /\ ob[1].up /\ cnt.stops < MaxStops
    /\ DoObs(1, Obs(FALSE, NoMem, ob[1].db), "stop", "ok", <<>>, "-", {"stop"}, {}, <<5, 1>>)
    /\ cnt' = [cnt EXCEPT !.stops = @ + 1]

(* observer 2: start if it is down, then poll until idle (or until the service ends) *)
RECURSIVE CatchUp(_, _, _, _, _, _)
CatchUp(b, c, all, q, acc, fuel) ==
    LET r == Poll(b, c, q.db, q.mem, NoFault)
        v == K2_Seq(all, <<q.db>> \o r.seq, 1) \cup K4_Failed(r.ret, FALSE) \cup K5_Stuck(b, c, r.db, r.ret)
    IN IF r.ret = "ok" /\ fuel > 0 THEN CatchUp(b, c, all, Obs(TRUE, r.mem, r.db), acc \cup v, fuel - 1)
       ELSE [ob |-> Obs(r.ret \in {"ok", "idle"}, IF r.ret \in {"ok", "idle"} THEN r.mem ELSE NoMem, r.db), ret |-> r.ret, viol |-> acc \cup v]

Catch2 ==
    /\ Free
    /\ cnt.catch < MaxCatch
    /\ LET q0 == IF ob[2].up THEN ob[2] ELSE Obs(TRUE, StartMem(ob[2].db), ob[2].db)
           r  == CatchUp(blk, canon, AllItems(blk, canon), q0, {}, 40)
       IN /\ r.ob.db # ob[2].db \/ r.ret # "idle"     \* something happens
          /\ DoObs(2, r.ob, "catch", r.ret, <<>>, "-", {}, r.viol, <<6, 2>>)
    /\ cnt' = [cnt EXCEPT !.catch = @ + 1]

Halt == Halting /\ Free /\ cnt' = [cnt EXCEPT !.halt = 1] /\ UNCHANGED <<blk, canon, ob, tags, last, hist>>

Next ==
    \/ /\ Len(blk) < MaxBlocks
       /\ LET used == OnceUsed(blk)
              anc == CS!AncSelf(blk, canon)
          IN \/ \E p \in anc, c \in Contents : Mine(p, c, used)
             \/ \E p \in anc, k \in GapSet : Extend(p, k)
    \/ \E b \in DOMAIN blk : Switch(b)
    \/ \E f \in {"none", "db"} : Start1(f)
    \/ Poll1
    \/ Stop1
    \/ Catch2
    \/ Halt

Spec == Init /\ [][Next]_vars

----------------------------------------------------------------------------
(* the property layer on the code-shaped layer *)
ViolNow == last.v \cup StateViol(blk, canon, ob)
PropInv == (~CheckProps) \/ ViolNow = {} \/
           (PrintT(<<"CEX", ToJson([h |-> hist, tags |-> SetToSeq(tags), pv |-> SetToSeq(ViolNow)])>>) /\ FALSE)

(* bounded liveness.  Once the environment has halted (no more blocks, faults, stops), the fair
   steps are the fault-free ones of observer 1: a supervisor restarts it, a running observer
   polls while a page is due. *)
FairPoll == ob[1].up /\ ~PageIdle(blk, canon, ob[1].mem) /\ PollStep(NoFault, PageItems(blk, canon, ob[1].mem), FALSE)
FairStep == cnt.halt = 1 /\ (Start1("none") \/ FairPoll)
FairSpec == Spec /\ WF_vars(FairStep)
Quiet == ob[1].up /\ PageIdle(blk, canon, ob[1].mem)
LostNow == K5_Lost(blk, canon, ob[1].db) # {} \/ ~CaughtUp(blk, canon, ob[1].db)
Live == [](cnt.halt = 1 => <>(Quiet /\ ~LostNow))
(* state form: a halted state without a fair step left in which something is lost for good *)
Stuck == cnt.halt = 1 /\ Quiet
LiveInv == ~(Stuck /\ LostNow)
LiveInvCex == LiveInv \/ (PrintT(<<"CEX", ToJson([h |-> hist, tags |-> SetToSeq(tags), pv |-> SetToSeq(ViolNow)])>>) /\ FALSE)

EmitInv == (~Emit) \/ last.op \notin {"poll", "catch", "start"} \/
           PrintT(<<"B", ToJson([h |-> hist, tags |-> SetToSeq(tags), pv |-> SetToSeq(ViolNow)])>>)

ASSUME PrintT(<<"CONST", ToJson([kinds |-> EvKinds, root |-> RootEvs, sets |-> Sets, finoff |-> FinOff, page |-> Page])>>)

View == <<blk, canon, ob, cnt, tags, last>>

=============================================================================
