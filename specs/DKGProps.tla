----------------------------- MODULE DKGProps -----------------------------
(***************************************************************************)
(* Property layer of C07, over OBSERVED data only:                         *)
(*   fin = what was read at the end of a run from the honest keypers'      *)
(*         databases, from shuttermint and from trial cryptography:        *)
(*     fin.res[i] = [done, ok     dkg_result row of keyper i               *)
(*                   pk, pks      its eon public key / public key share    *)
(*                                vector (any comparable value)            *)
(*                   share        its secret share verifies against its    *)
(*                                public share                             *)
(*                   vote         its DKGResult vote in shuttermint        *)
(*                                ("none" "ok" "fail")]                    *)
(*     fin.dec    = sequence of [set, ok]: keys built from the shares of   *)
(*                  the keypers in set decrypt a message encrypted to the  *)
(*                  eon key                                                *)
(*   g   = ghost folded from the observed ops and shuttermint's answers:   *)
(*         which honest commitments / evaluation messages were included    *)
(*         in a block of the dealing phase                                 *)
(***************************************************************************)
EXTENDS DKG

GhostInit == [cin |-> [i \in K |-> FALSE], ein |-> [i \in K |-> FALSE]]

FullEval(m) == \A r \in K : m.vals[r] = IF r = m.s THEN Blank ELSE "ok"

(* pre = state before the op, out = observed answer *)
GhostNext(g, pre, o, out) ==
    IF o.op = "post" /\ out.code = CodeOk /\ PhaseAt(pre.h) = Dealing
    THEN CASE out.msg.k = "commit" /\ out.msg.vals[o.s] = "good" -> [g EXCEPT !.cin[o.s] = TRUE]
           [] out.msg.k = "eval" /\ FullEval(out.msg)             -> [g EXCEPT !.ein[o.s] = TRUE]
           [] OTHER -> g
    ELSE g

Succ(fin) == {i \in Honest : fin.res[i].done /\ fin.res[i].ok}

C07_SameKey(fin) == \A i, j \in Succ(fin) : fin.res[i].pk = fin.res[j].pk /\ fin.res[i].pks = fin.res[j].pks
C07_Share(fin)   == \A i \in Succ(fin) : fin.res[i].share
C07_Decrypt(fin) == \A S \in SUBSET Succ(fin) : Cardinality(S) = T =>
                        \E n \in DOMAIN fin.dec : {fin.dec[n].set[x] : x \in DOMAIN fin.dec[n].set} = S /\ fin.dec[n].ok
C07_Report(fin)  == \A i \in Honest : fin.res[i].done =>
                        fin.res[i].vote \in {"none", IF fin.res[i].ok THEN "ok" ELSE "fail"}
(* evaluated at the end of a run: every keyper has a result row by then *)
C07_Live(fin, g) == (Byz = {} /\ \A i \in K : g.cin[i] /\ g.ein[i]) => Succ(fin) = K

Failed(fin, g) ==
    (IF C07_SameKey(fin) THEN {} ELSE {"C07_SameKey"}) \cup
    (IF C07_Share(fin)   THEN {} ELSE {"C07_Share"}) \cup
    (IF C07_Decrypt(fin) THEN {} ELSE {"C07_Decrypt"}) \cup
    (IF C07_Report(fin)  THEN {} ELSE {"C07_Report"}) \cup
    (IF C07_Live(fin, g) THEN {} ELSE {"C07_Live"})

----------------------------------------------------------------------------
(* what the code-shaped spec predicts will be observed, assuming the library cryptography is
   sound: keys are determined by the set of summed dealers; a share matches iff every summed
   evaluation is "ok"; T shares of one key decrypt *)
SetSeq(S) == LET RECURSIVE F(_, _) F(n, acc) == IF n > N THEN acc ELSE F(n + 1, IF n \in S THEN Append(acc, n) ELSE acc) IN F(1, <<>>)

SpecDec(s) ==
    LET good == {i \in Honest : s.kp[i].done /\ s.kp[i].ok}
        subs == {S \in SUBSET good : Cardinality(S) = T}
        RECURSIVE Enum(_)
        Enum(R) == IF R = {} THEN <<>>
                   ELSE LET S == CHOOSE x \in R : TRUE IN
                        <<[set |-> SetSeq(S), ok |-> \A i, j \in S : s.kp[i].qual = s.kp[j].qual]>> \o Enum(R \ {S})
    IN Enum(subs)

SpecFin(s) ==
    [res |-> [i \in K |-> [done |-> s.kp[i].done, ok |-> s.kp[i].ok,
                           pk |-> s.kp[i].qual, pks |-> s.kp[i].qual, share |-> s.kp[i].ok,
                           vote |-> s.app.vote[i]]],
     dec |-> SpecDec(s)]

=============================================================================
