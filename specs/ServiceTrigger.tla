--------------------------- MODULE ServiceTrigger ---------------------------
(***************************************************************************)
(* C02: the shutter-service keyper never triggers decryption before the    *)
(* release condition.                                                      *)
(*                                                                         *)
(* Code-shaped layer, one operator per Go function (read line by line):    *)
(*   keyperimpl/shutterservice/newblock.go                                 *)
(*     processNewBlock            NewBlock                                 *)
(*     prepareTimeBasedTriggers   TimeBased  (early return t <= latest,    *)
(*                                closed query window [latest, t])         *)
(*     shouldTriggerDecryption    ShouldTrigger                            *)
(*     resolveDecryptableEon      Resolve                                  *)
(*     createTriggersFrom...      grouping per keyper set inside TimeBased *)
(*     prepareEventBasedTriggers  EventBased                               *)
(*     sortIdentityPreimages      SortIds                                  *)
(*   keyperimpl/shutterservice/multieventsyncer.go + triggerprocessor.go   *)
(*     Sync / syncRange / FetchEvents / ProcessEvents   Sync               *)
(*   keyper/epochkghandler/service.go + sendkeyshare.go                    *)
(*     handleEvent / getEonForBlockNumber / ConstructDecryptionKeyShares   *)
(*                                HandleTrigger                            *)
(*   keyperimpl/shutterservice/handlers.go + messagingmiddleware.go        *)
(*     DecryptionKeysHandler.HandleMessage / updateEventFlag   Release     *)
(*                                                                         *)
(* Abstraction.  Keyper sets are the keyper config indices 1 and 2.  An    *)
(* identity is a slot number: time-registered identities are 1..NI, event  *)
(* trigger identities NI+1..NI+NT; the concretiser builds identity bytes   *)
(* whose bytewise order is the order of the slot numbers.  The static part *)
(* of a scenario is a universe record u:                                   *)
(*   u.member[s]  this keyper is in the keyper list of config s            *)
(*   u.act[s]     activation block number of config s                      *)
(*   u.ids[i]     [set, ts]  registration data of time identity i          *)
(*   u.trg[j]     [set, exp, log]  event trigger j: expiry block and the   *)
(*                block of the (single) matching log on the chain, Nil=none*)
(*   u.gen[s]     how many key generations set s may go through (0: its    *)
(*                eon never starts, 1: no restart, 2: one restart)         *)
(*   u.http, u.ro the operator's config file: HTTPEnabled, and the          *)
(*                HTTPReadOnly key: "absent" | "true" | "false"            *)
(*   u.wd         OBSERVED only: write operations are enabled in the       *)
(*                config parsed from a file with HTTPEnabled = true and no *)
(*                HTTPReadOnly key (the spec's value is WriteEnabledByDefault) *)
(* A slot with set = 0 is unused in that universe (never registered).      *)
(* Tables are the projected database tables (see harness/service Abs).     *)
(* Eon numbers are static: generation g of set s is eon 2*(g-1)+s with     *)
(* height 10*eon (start order across sets is irrelevant to every query     *)
(* used here as long as activation blocks differ).                         *)
(***************************************************************************)
EXTENDS Integers, Sequences, FiniteSets, SequencesExt, FiniteSetsExt, TLC

CONSTANTS NI, NT           \* identity slots / event trigger slots

Nil == -1
Sets == {1, 2}
TimeIds == 1..NI
EvIds == (NI + 1)..(NI + NT)
SyncStartBlockNumber == 0

SortIds(S) == SetToSortSeq(S, LAMBDA a, b : a < b)         \* sortIdentityPreimages (bytes.Compare)
SeqToSet(q) == {q[k] : k \in DOMAIN q}

EonNo(s, g) == 2 * (g - 1) + s
GenOf(eon) == ((eon - 1) \div 2) + 1

InitSt == [latest |-> Nil, synced |-> Nil,
           ids |-> [i \in 1..NI |-> [reg |-> FALSE, set |-> 0, ts |-> 0, dec |-> FALSE]],
           trg |-> [j \in 1..NT |-> [reg |-> FALSE, set |-> 0, exp |-> 0, dec |-> FALSE, fired |-> Nil]],
           eons |-> {}, dkg |-> {}, shared |-> {}]

----------------------------------------------------------------------------
(* keyper/database queries *)

EonsOf(st, s) == {e \in st.eons : e.set = s}
(* GetLatestStartedEonByKeyperConfigIndex: ORDER BY eon DESC LIMIT 1 *)
LatestEon(st, s) == CHOOSE e \in EonsOf(st, s) : \A f \in EonsOf(st, s) : f.eon <= e.eon
(* GetDKGResult(eon) / GetDKGResultForKeyperConfigIndex (eon = max(eon) of the config) *)
DkgRows(st, eon) == {d \in st.dkg : d.eon = eon}
(* GetEonForBlockNumber: activation_block_number <= b ORDER BY activation_block_number DESC, height DESC LIMIT 1 *)
EonsUpTo(st, b) == {e \in st.eons : e.act <= b}
EonForBlock(st, b) ==
    CHOOSE e \in EonsUpTo(st, b) : \A f \in EonsUpTo(st, b) : f.act < e.act \/ (f.act = e.act /\ f.h <= e.h)

(* resolveDecryptableEon(keyperConfigIndex): [ok, act, eon] *)
NotDecryptable == [ok |-> FALSE, act |-> 0, eon |-> 0]
Resolve(u, st, s) ==
    IF EonsOf(st, s) = {} THEN NotDecryptable                     \* no started eon (pgx.ErrNoRows)
    ELSE LET e == LatestEon(st, s) IN
         IF ~u.member[s] THEN NotDecryptable                      \* GetKeyperIndex: not part of keyper set
         ELSE LET d == DkgRows(st, e.eon) IN
              IF d = {} THEN NotDecryptable                       \* no DKG result
              ELSE IF ~(CHOOSE x \in d : TRUE).ok THEN NotDecryptable     \* !dkgResult.Success
              ELSE [ok |-> TRUE, act |-> e.act, eon |-> e.eon]

(* The eon tables do not change while one block is processed: rs[s] = Resolve(u, st, s) is computed
   once per block and stands for every call of resolveDecryptableEon(s) made during that block. *)
ResolveAll(u, st) == [s \in Sets |-> Resolve(u, st, s)]

(* shouldTriggerDecryption(event, block) *)
ShouldTrigger(rs, st, i, n, t) ==
    LET r == rs[st.ids[i].set] IN
    /\ r.ok
    /\ ~(r.act > n)                                               \* eon.ActivationBlockNumber > block number
    /\ ~(st.ids[i].ts >= t)                                       \* event.Timestamp >= block time

(* prepareTimeBasedTriggers: [latest, trigs]; trigs is a set (Go ranges over a map) *)
TimeBased(rs, st, n, t) ==
    IF st.latest # Nil /\ t <= st.latest THEN [latest |-> st.latest, trigs |-> {}]
    ELSE LET last == IF st.latest = Nil THEN 0 ELSE st.latest
             (* GetNotDecryptedIdentityRegisteredEvents: timestamp >= $1 AND timestamp <= $2 AND decrypted = false *)
             rows == {i \in 1..NI : st.ids[i].reg /\ ~st.ids[i].dec /\ st.ids[i].ts >= last /\ st.ids[i].ts <= t}
             sel == {i \in rows : ShouldTrigger(rs, st, i, n, t)}
             (* createTriggersFromIdentityRegisteredEvents: resolve again, group by event.Eon *)
             keep == {i \in sel : rs[st.ids[i].set].ok}
             groups == {st.ids[i].set : i \in keep}
         IN [latest |-> t,
             trigs |-> {[blk |-> rs[s].act, ids |-> SortIds({i \in keep : st.ids[i].set = s})] : s \in groups}]

(* prepareEventBasedTriggers: GetUndecryptedFiredTriggers joined with the registration, grouped by eon *)
EventBased(rs, st) ==
    LET fired == {j \in 1..NT : st.trg[j].reg /\ st.trg[j].fired # Nil /\ ~st.trg[j].dec}
        groups == {s \in {st.trg[j].set : j \in fired} : rs[s].ok}
    IN {[blk |-> rs[s].act, ids |-> SortIds({NI + j : j \in {k \in fired : st.trg[k].set = s}})] : s \in groups}

(* MultiEventSyncer.Sync(header) with the TriggerProcessor as only processor, one range *)
Sync(u, st, n) ==
    LET syncedUntil == IF st.synced = Nil THEN SyncStartBlockNumber ELSE st.synced
        start == syncedUntil + 1
    IN IF start > n THEN st                                       \* already synced up to target block
       ELSE LET (* GetActiveEventTriggerRegisteredEvents(start): not expired at start, not decrypted, not fired *)
                active == {j \in 1..NT : st.trg[j].reg /\ st.trg[j].exp >= start /\ ~st.trg[j].dec /\ st.trg[j].fired = Nil}
                (* FilterLogs(start..n); skip logs with BlockNumber > ExpirationBlockNumber *)
                hits == {j \in active : /\ u.trg[j].log # Nil /\ start <= u.trg[j].log /\ u.trg[j].log <= n
                                        /\ ~(u.trg[j].log > st.trg[j].exp)}
            IN [st EXCEPT !.synced = n,
                          !.trg = [j \in 1..NT |-> IF j \in hits THEN [st.trg[j] EXCEPT !.fired = u.trg[j].log]
                                                               ELSE st.trg[j]]]

(* KeyShareHandler.handleEvent(trigger): [st, msg] *)
NoMsg == [sent |-> FALSE, set |-> 0, ids |-> <<>>, key |-> 0]
HandleTrigger(u, st, tr) ==
    IF EonsUpTo(st, tr.blk) = {} THEN [st |-> st, msg |-> NoMsg]          \* error retrieving eon for blocknumber
    ELSE LET e == EonForBlock(st, tr.blk)
             s == e.set
         IN IF Len(tr.ids) = 0 THEN [st |-> st, msg |-> NoMsg]
            ELSE IF ~u.member[s] THEN [st |-> st, msg |-> NoMsg]          \* ErrNotAKeyper
            ELSE IF \A k \in DOMAIN tr.ids : <<s, tr.ids[k]>> \in st.shared
                 THEN [st |-> st, msg |-> NoMsg]                          \* ErrSharesAlreadySent
            ELSE LET d == DkgRows(st, e.eon) IN
                 IF d = {} THEN [st |-> st, msg |-> NoMsg]                \* failed to get dkg result
                 ELSE IF ~(CHOOSE x \in d : TRUE).ok THEN [st |-> st, msg |-> NoMsg]   \* ErrEonDKGFailed
                 ELSE [st |-> [st EXCEPT !.shared = @ \cup {<<s, tr.ids[k]>> : k \in DOMAIN tr.ids}],
                       msg |-> [sent |-> TRUE, set |-> s, ids |-> tr.ids, key |-> e.eon]]

(* Third trigger source: keyper/kprapi POST /v1/decryptionTrigger.  KeyperCore.getServices fans the
   API's trigger channel into the same KeyShareHandler when HTTPEnabled; the endpoint is a write
   operation, refused (403) by kproapi.ConfigMiddleware unless GetEnableWriteOperations().
   shutterservice.Config.SetDefaultValues: HTTPReadOnly = true; a key present in the file wins. *)
ReadOnlyDefault == TRUE
HTTPReadOnly(u) == IF u.ro = "absent" THEN ReadOnlyDefault ELSE u.ro = "true"
WriteEnabled(u) == u.http /\ ~HTTPReadOnly(u)                     \* kprconfig.Config.GetEnableWriteOperations
WriteEnabledByDefault == TRUE /\ ~ReadOnlyDefault                 \* HTTPEnabled = true, key absent
USlotSet(u, x) == IF x \in TimeIds THEN u.ids[x].set ELSE u.trg[x - NI].set

(* the triggers of one block in a canonical order (time-based first, as sendTriggers is called;
   inside each part Go's map order is arbitrary - irrelevant because the sets differ) *)
OrderTrigs(S) == SetToSortSeq(S, LAMBDA a, b : a.blk < b.blk \/ (a.blk = b.blk /\ a.ids[1] < b.ids[1]))

RECURSIVE HandleAll(_, _, _, _)
HandleAll(u, st, trs, acc) ==
    IF trs = <<>> THEN [st |-> st, out |-> acc]
    ELSE LET r == HandleTrigger(u, st, Head(trs)) IN
         HandleAll(u, r.st, Tail(trs), Append(acc, [blk |-> Head(trs).blk, ids |-> Head(trs).ids, msg |-> r.msg]))

(* processNewBlock(block n, time t) followed by the key share handler consuming the trigger channel *)
NewBlock(u, st, n, t) ==
    LET st1 == Sync(u, st, n)
        rs == ResolveAll(u, st1)
        tb == TimeBased(rs, st1, n, t)
        st2 == [st1 EXCEPT !.latest = tb.latest]
        eb == EventBased(rs, st2)
    IN HandleAll(u, st2, OrderTrigs(tb.trigs) \o OrderTrigs(eb), <<>>)

----------------------------------------------------------------------------
(* environment actions *)

DkgOk(st, s) == EonsOf(st, s) # {} /\ [eon |-> LatestEon(st, s).eon, ok |-> TRUE] \in st.dkg

SlotReg(st, x) == IF x \in TimeIds THEN st.ids[x].reg ELSE st.trg[x - NI].reg
SlotSet(st, x) == IF x \in TimeIds THEN st.ids[x].set ELSE st.trg[x - NI].set
SlotDec(st, x) == IF x \in TimeIds THEN st.ids[x].dec ELSE st.trg[x - NI].dec

(* op = [k, a, b, ids] *)
Enabled(u, st, op) ==
    CASE op.k = "block" -> TRUE
      [] op.k = "regi" -> ~st.ids[op.a].reg /\ u.ids[op.a].set # 0
      [] op.k = "regt" -> ~st.trg[op.a].reg /\ u.trg[op.a].set # 0
      [] op.k = "eon" ->  \* shuttermint starts the first eon of a config, or restarts it after a failed DKG
            \/ EonsOf(st, op.a) = {} /\ u.gen[op.a] >= 1
            \/ /\ EonsOf(st, op.a) # {}
               /\ GenOf(LatestEon(st, op.a).eon) < u.gen[op.a]
               /\ [eon |-> LatestEon(st, op.a).eon, ok |-> FALSE] \in st.dkg
      [] op.k = "dkg" -> EonsOf(st, op.a) # {} /\ DkgRows(st, LatestEon(st, op.a).eon) = {}
      [] op.k = "release" ->
            /\ \A k \in DOMAIN op.ids : SlotReg(st, op.ids[k])
            /\ \A k \in DOMAIN op.ids : SlotSet(st, op.ids[k]) = SlotSet(st, op.ids[1])
            /\ \E k \in DOMAIN op.ids : ~SlotDec(st, op.ids[k])
            /\ DkgOk(st, SlotSet(st, op.ids[1]))
      [] op.k = "restart" -> st.latest # Nil
      [] op.k = "manual" -> u.http /\ USlotSet(u, op.a) # 0        \* somebody POSTs an identity of this universe
      [] OTHER -> FALSE

(* [st, out] *)
Apply(u, st, op) ==
    CASE op.k = "block" -> NewBlock(u, st, op.a, op.b)
      [] op.k = "regi" ->   \* InsertIdentityRegisteredEvent
            [st |-> [st EXCEPT !.ids[op.a] = [reg |-> TRUE, set |-> u.ids[op.a].set, ts |-> u.ids[op.a].ts, dec |-> FALSE]],
             out |-> <<>>]
      [] op.k = "regt" ->   \* InsertEventTriggerRegisteredEvent
            [st |-> [st EXCEPT !.trg[op.a] = [reg |-> TRUE, set |-> u.trg[op.a].set, exp |-> u.trg[op.a].exp,
                                              dec |-> FALSE, fired |-> Nil]],
             out |-> <<>>]
      [] op.k = "eon" ->    \* InsertEon
            LET g == IF EonsOf(st, op.a) = {} THEN 1 ELSE GenOf(LatestEon(st, op.a).eon) + 1 IN
            [st |-> [st EXCEPT !.eons = @ \cup {[eon |-> EonNo(op.a, g), set |-> op.a, act |-> u.act[op.a], h |-> 10 * EonNo(op.a, g)]}],
             out |-> <<>>]
      [] op.k = "dkg" ->    \* InsertDKGResult
            [st |-> [st EXCEPT !.dkg = @ \cup {[eon |-> LatestEon(st, op.a).eon, ok |-> (op.b = 1)]}], out |-> <<>>]
      [] op.k = "release" -> \* DecryptionKeysHandler.HandleMessage -> updateEventFlag: both tables, keyed (eon, identity)
            LET S == SeqToSet(op.ids) IN
            [st |-> [st EXCEPT !.ids = [i \in 1..NI |-> IF i \in S THEN [st.ids[i] EXCEPT !.dec = TRUE] ELSE st.ids[i]],
                               !.trg = [j \in 1..NT |-> IF (NI + j) \in S THEN [st.trg[j] EXCEPT !.dec = TRUE] ELSE st.trg[j]]],
             out |-> <<>>]
      [] op.k = "restart" -> \* Keyper.Start: latestTriggeredTime = nil; the database survives
            [st |-> [st EXCEPT !.latest = Nil], out |-> <<>>]
      [] op.k = "manual" ->  \* POST {epoch_id: identity op.a, block_number: activation block of its set}
            IF ~WriteEnabled(u) THEN [st |-> st, out |-> <<>>]     \* ConfigMiddleware: 403
            ELSE HandleAll(u, st, <<[blk |-> u.act[USlotSet(u, op.a)], ids |-> <<op.a>>]>>, <<>>)

----------------------------------------------------------------------------
(* Property layer: evaluated on ONE observed step.                          *)
(*   u    the static scenario (what the concretiser put on the chain / into *)
(*        the keyper set tables: ground truth, not the keyper's bookkeeping)*)
(*   gh   ghost folded from the ops only: highest block number delivered    *)
(*   pre  projected tables before the step, op, out = emitted triggers with *)
(*        the share message sent for each                                   *)

GhostInit == [maxn |-> Nil]
GhostNext(gh, op) == IF op.k = "block" /\ op.a > gh.maxn THEN [maxn |-> op.a] ELSE gh

Known(x) == x \in TimeIds \/ x \in EvIds
AllIds(out) == UNION {SeqToSet(out[k].ids) : k \in DOMAIN out}

(* nothing is triggered outside the processing of a block *)
C02_Quiet(u, gh, pre, op, out) == op.k \notin {"block", "manual"} => out = <<>>

(* the HTTP trigger path: with the DEFAULT configuration (HTTPReadOnly not mentioned by the operator)
   nothing is triggered on request - release conditions are only checked on the block path, so an
   accepted request contributes a key share for an identity whatever its release condition.  An
   operator who explicitly sets HTTPReadOnly = false has asked for it; that is outside C02. *)
C02_ManualGated(u, gh, pre, op, out) == (op.k = "manual" /\ u.ro # "false") => out = <<>>

(* every triggered identity is a registered one *)
C02_Registered(u, gh, pre, op, out) == \A x \in AllIds(out) : Known(x) /\ SlotReg(pre, x)

(* time-registered: only after a block with a strictly later timestamp ... *)
C02_TimeStrict(u, gh, pre, op, out) ==
    \A x \in AllIds(out) : (x \in TimeIds /\ pre.ids[x].reg) => pre.ids[x].ts < op.b
(* ... whose number has reached the keyper set's activation block *)
C02_Activation(u, gh, pre, op, out) ==
    \A x \in AllIds(out) : (x \in TimeIds /\ pre.ids[x].reg) => op.a >= u.act[pre.ids[x].set]

(* event-triggered: only after a matching log was included no later than the expiry block *)
C02_EventInTime(u, gh, pre, op, out) ==
    \A x \in AllIds(out) : (x \in EvIds /\ pre.trg[x - NI].reg) =>
        LET lg == u.trg[x - NI].log IN
        lg # Nil /\ lg <= pre.trg[x - NI].exp /\ lg <= GhostNext(gh, op).maxn

(* only for a keyper set it belongs to whose key generation succeeded *)
C02_Member(u, gh, pre, op, out) ==
    \A x \in AllIds(out) : (Known(x) /\ SlotReg(pre, x)) => u.member[SlotSet(pre, x)]
C02_DkgOk(u, gh, pre, op, out) ==
    \A x \in AllIds(out) : (Known(x) /\ SlotReg(pre, x)) => DkgOk(pre, SlotSet(pre, x))

(* an identity already marked decrypted is never triggered again *)
C02_NotDecrypted(u, gh, pre, op, out) ==
    \A x \in AllIds(out) : (Known(x) /\ SlotReg(pre, x)) => ~SlotDec(pre, x)

(* the identities inside one trigger are sorted and distinct *)
C02_Sorted(u, gh, pre, op, out) ==
    \A k \in DOMAIN out : \A a, b \in DOMAIN out[k].ids : a < b => out[k].ids[a] < out[k].ids[b]

(* the key share sent for a trigger names the same identities and the keyper set the identities are
   registered for; it is made with the key of that set's successful (latest) key generation, by a member *)
ShareSetMatches(pre, o) ==
    \A x \in SeqToSet(o.ids) : (Known(x) /\ SlotReg(pre, x)) => SlotSet(pre, x) = o.msg.set
C02_Share(u, gh, pre, op, out) ==
    \A k \in DOMAIN out : out[k].msg.sent =>
        /\ out[k].msg.ids = out[k].ids
        /\ out[k].msg.set \in Sets
        /\ (u.act[1] # u.act[2]) => ShareSetMatches(pre, out[k])
        /\ u.member[out[k].msg.set]
        /\ DkgOk(pre, out[k].msg.set)
        /\ out[k].msg.key = LatestEon(pre, out[k].msg.set).eon

(* Extension, information only (DESIGN 4/C02 "Limits"): two keyper sets sharing one activation
   block.  The trigger carries only the activation block; KeyShareHandler resolves it with
   GetEonForBlockNumber (activation DESC, height DESC) and may pick the other set.  The share
   then still comes from a member of a set whose key generation succeeded (C02_Share above), but
   it is not a share of the set the identities were registered for.  Reported as INFO, not under C02. *)
X_ShareSet(u, gh, pre, op, out) ==
    \A k \in DOMAIN out : (out[k].msg.sent /\ out[k].msg.set \in Sets /\ u.act[1] = u.act[2]) => ShareSetMatches(pre, out[k])
InfoMonitors == {"X_ShareSet"}

Failed(u, gh, pre, op, out) ==
  IF op.k = "manual" THEN (IF C02_ManualGated(u, gh, pre, op, out) THEN {} ELSE {"C02_ManualGated"})
  ELSE
    (IF C02_Quiet(u, gh, pre, op, out) THEN {} ELSE {"C02_Quiet"}) \cup
    (IF C02_Registered(u, gh, pre, op, out) THEN {} ELSE {"C02_Registered"}) \cup
    (IF C02_TimeStrict(u, gh, pre, op, out) THEN {} ELSE {"C02_TimeStrict"}) \cup
    (IF C02_Activation(u, gh, pre, op, out) THEN {} ELSE {"C02_Activation"}) \cup
    (IF C02_EventInTime(u, gh, pre, op, out) THEN {} ELSE {"C02_EventInTime"}) \cup
    (IF C02_Member(u, gh, pre, op, out) THEN {} ELSE {"C02_Member"}) \cup
    (IF C02_DkgOk(u, gh, pre, op, out) THEN {} ELSE {"C02_DkgOk"}) \cup
    (IF C02_NotDecrypted(u, gh, pre, op, out) THEN {} ELSE {"C02_NotDecrypted"}) \cup
    (IF C02_Sorted(u, gh, pre, op, out) THEN {} ELSE {"C02_Sorted"}) \cup
    (IF C02_Share(u, gh, pre, op, out) THEN {} ELSE {"C02_Share"}) \cup
    (IF X_ShareSet(u, gh, pre, op, out) THEN {} ELSE {"X_ShareSet"})
=============================================================================
