------------------------------ MODULE SMConst_gov ------------------------------
(* governance universe: 3 genesis keypers + 1 outsider that can join by vote *)
cAddrs == {"a1", "a2", "a3", "a4"}
cKeyOrd == <<"v1", "v2", "none", "v3", "v4", "v9">>
cGenesis == [keypers |-> <<"a1", "a2", "a3">>, thr |-> 2, eon0 |-> 0,
             vals |-> [k \in {"v1", "v2", "none", "v3", "v4", "v9"} |-> IF k = "v9" THEN 10 ELSE 0],
             forkOn |-> FALSE, forkH |-> 0, dev |-> FALSE, legacy |-> FALSE]
(* candidates 1 and 2 differ ONLY in the threshold: votes for them must not be merged *)
cCands == << [keypers |-> <<"a1", "a2", "a3", "a4">>, thr |-> 2, act |-> 5, idx |-> 1],
             [keypers |-> <<"a1", "a2", "a3", "a4">>, thr |-> 1, act |-> 5, idx |-> 1],
             [keypers |-> <<"a2", "a4">>, thr |-> 1, act |-> 5, idx |-> 2],
             [keypers |-> <<"a1", "a2", "a3">>, thr |-> 3, act |-> 3, idx |-> 1] >>
cSeenBlocks == {5}
cCheckKeys == {"v1"}
cEons == {1, 2}
=============================================================================
