----------------------------- MODULE HttpGateProps -----------------------------
(***************************************************************************)
(* C18 -- property layer.  Everything here talks about ONE observed case:  *)
(* the request (method, template, spellings, write setting) and what was   *)
(* observed when it was served (status, body key, effect seen on the       *)
(* shutdown / trigger channels, on the database connection, "pong").       *)
(* "Marked read-only" is what oapi.yaml says (DocOps), not what the code   *)
(* loaded.                                                                 *)
(***************************************************************************)
EXTENDS HttpGate

\* (status, body key) pairs by which the stages in front of the handlers refuse a request
RejectSigs ==
    {<<405, "">>, <<404, "404_page_not_fou">>, <<400, "no_matching_oper">>, <<400, "method_not_allow">>,
     <<400, "request_body_has">>, <<404, "Endpoint_not_fou">>, <<403, "Endpoint_not_ena">>,
     <<400, "Invalid_format_f">>} \cup {<<400, ParamBk[n]>> : n \in DOMAIN ParamBk}

\* an answer that no stage in front of the handlers gives was produced by a handler
ObsEffect(o) ==
    IF o.effect # "None" THEN o.effect
    ELSE IF <<o.status, o.bk>> \in RejectSigs THEN "None" ELSE "Other"

(***************************************************************************)
(* What an operator who reads the documentation MEANS by what he wrote     *)
(* for HTTPReadOnly (src, see HttpGate): an explicit true / false in the   *)
(* environment wins over the file, the file over the default; a variable   *)
(* that is absent or empty says nothing; a value that is not a boolean is  *)
(* a mistake that must stop the keyper, never "write operations enabled".  *)
(* Written down independently of the code-shaped Resolved / EnvValue.      *)
(***************************************************************************)
MeantValid(src) == src.env # "garbage"
MeantReadOnly(f, src) ==
    IF src.env \in {"true", "false"} THEN src.env = "true"
    ELSE IF src.file \in {"true", "false"} THEN src.file = "true"
    ELSE TRUE \* documented default of every flavour: read-only
\* the setting the property is judged with; a configuration that is a mistake enables nothing
ConfiguredWrite(f, src) == MeantValid(src) /\ ~MeantReadOnly(f, src)
\* configuration outcome observed from the real command: parsed ("ok" | "error") and the flag it produced
C18_Config(f, src, parsed, ro) ==
    IF MeantValid(src) THEN parsed = "ok" /\ ro = MeantReadOnly(f, src) ELSE parsed = "error"

OwnerOps(e) == {o \in Range(DocOps) : EffectOf[o.op] = e}

\* with write operations disabled nothing reaches shutdown, the decryption trigger or any
\* operation that is not marked read-only.  e is the OBSERVED effect (channels, database,
\* pong): a request that was answered 403 and whose handler ran all the same is a violation.
C18_Gate(w, e) ==
    e # "None" => \/ w
                  \/ /\ e \notin {"Shutdown", "Trigger"}
                     /\ OwnerOps(e) # {}
                     /\ \A o \in OwnerOps(e) : o.marked

\* read-only operations stay reachable (documented spelling) with both settings
C18_Live(m, t, sps, e) ==
    \A o \in Range(DocOps) :
        (o.marked /\ o.conc /\ sps = <<"exact">> /\ t = o.path /\ m = o.method) => e = EffectOf[o.op]

\* the same request gets the same decision every time
Same(a, b) == a.status = b.status /\ a.bk = b.bk /\ ObsEffect(a) = ObsEffect(b)
C18_Det(obs) == \A i, j \in DOMAIN obs : Same(obs[i], obs[j])

\* monitors that fail on the observed case
Failed(m, t, sps, w, obs) ==
    (IF \A i \in DOMAIN obs : C18_Gate(w, ObsEffect(obs[i])) THEN {} ELSE {"C18_Gate"}) \cup
    (IF \A i \in DOMAIN obs : C18_Live(m, t, sps, ObsEffect(obs[i])) THEN {} ELSE {"C18_Live"}) \cup
    (IF C18_Det(obs) THEN {} ELSE {"C18_Det"}) \cup
    (IF \A i \in DOMAIN obs : obs[i].panic = "" THEN {} ELSE {"C18_Crash"})

(***************************************************************************)
(* Histories: several requests served one after the other by ONE server    *)
(* instance.  Each request is judged exactly as a single request, and      *)
(* "the decision for a given method and path is deterministic" means: it   *)
(* is the decision the same request gets as the first request of a fresh   *)
(* instance (ref[i]), whatever was served before.                          *)
(***************************************************************************)
FailedHist(w, reqs, obs, ref) ==
    (IF \A i \in DOMAIN obs : C18_Gate(w, ObsEffect(obs[i])) THEN {} ELSE {"C18_Gate"}) \cup
    (IF \A i \in DOMAIN obs : C18_Live(reqs[i].m, reqs[i].t, reqs[i].sps, ObsEffect(obs[i])) THEN {} ELSE {"C18_Live"}) \cup
    (IF \A i \in DOMAIN obs : Same(obs[i], ref[i]) THEN {} ELSE {"C18_Det"}) \cup
    (IF \A i \in DOMAIN obs : obs[i].panic = "" THEN {} ELSE {"C18_Crash"})

(***************************************************************************)
(* Concurrency: two kinds of request hammered at ONE server instance at    *)
(* the same time.  obs[i] = the distinct (status, body key, pong) answers  *)
(* request kind i got; eff = the effects seen on the instance's shutdown / *)
(* trigger channels and database connection meanwhile (they cannot be      *)
(* attributed to one request, and need not be: with write operations       *)
(* disabled no request may cause them).  "Reached" for a read-only kind =  *)
(* never an answer of a stage in front of the handlers.                    *)
(***************************************************************************)
FailedConc(w, reqs, obs, eff) ==
    (IF /\ \A k \in DOMAIN eff : C18_Gate(w, eff[k])
        /\ \A i \in DOMAIN obs : \A j \in DOMAIN obs[i] : obs[i][j].effect # "None" => C18_Gate(w, obs[i][j].effect)
     THEN {} ELSE {"C18_Gate"}) \cup
    (IF \A i \in DOMAIN obs : \A o \in Range(DocOps) :
            (o.marked /\ o.conc /\ reqs[i].sps = <<"exact">> /\ reqs[i].t = o.path /\ reqs[i].m = o.method)
              => \A j \in DOMAIN obs[i] : <<obs[i][j].status, obs[i][j].bk>> \notin RejectSigs
     THEN {} ELSE {"C18_Live"}) \cup
    (IF \A i \in DOMAIN obs : \A j, k \in DOMAIN obs[i] :
            obs[i][j].status = obs[i][k].status /\ obs[i][j].bk = obs[i][k].bk
     THEN {} ELSE {"C18_Det"}) \cup
    (IF \A i \in DOMAIN obs : \A j \in DOMAIN obs[i] : obs[i][j].panic = "" THEN {} ELSE {"C18_Crash"})
=============================================================================
