---------------------------- MODULE GnosisSlotProps ----------------------------
(***************************************************************************)
(* Property layer for C19, written over ONE OBSERVED step of one keyper:   *)
(*   the synced state (queue, slot), what the keyper was asked to do, what *)
(*   it answered (identities of the decryption trigger, keys message that  *)
(*   was processed) and the tx_pointer row afterwards, plus a ghost that   *)
(*   is folded from the observed answers only (never from the keyper's own *)
(*   tx_pointer bookkeeping):                                              *)
(*     gp[e]  the pointer the keypers last agreed on: p+k-1 of the last    *)
(*            processed keys message of eon e, 0 from the first request of *)
(*            an eon on, None before                                       *)
(*     ga[e]  requests made for eon e since then; Null = unknown (restart) *)
(* The selection is stated declaratively (longest gas-bounded prefix, at   *)
(* least one, sorted, slot identity first) and shares no operator with the *)
(* loop of the code-shaped layer except the gas table and the byte order.  *)
(***************************************************************************)
EXTENDS GnosisSlot

None == -1

(* Round 4: a slot attempt may FAIL (database error) after the keyper aged its pointer, and every
   slot is offered to the keyper twice (new block, slot ticker).  The age is "proposer slots since
   the last keys message": a slot for which a request was made counts exactly once, a slot whose
   only attempt(s) failed counts 0 or 1 times ("being off by one doesn't matter", newslot.go), no
   slot ever counts twice; the row of a new eon is initialised (value 0, age 0) by the first
   attempt that gets that far, and that slot does not count.  After a failed attempt an observer
   cannot tell how far it got, so the ghost keeps, per eon, the SET of pointer states that are
   possible:  W[e] = set of worlds [a, c]:  a = NoRowAge (no row yet), Null (age unknown) or the
   age;  c = 1 iff the slot of the last failed attempt, fs[e], is already accounted for in a.
   Without faults W is a singleton.  ga[e] is a summary kept for modules that read it (Null if a
   world is unknown, else the least age). *)
NoRowAge == -2
World(a, c) == [a |-> a, c |-> c]
GhostInit == [gp |-> [e \in EonSet |-> None], ga |-> [e \in EonSet |-> 0],
              W |-> [e \in EonSet |-> {World(NoRowAge, 0)}], fs |-> [e \in EonSet |-> 0], ls |-> [e \in EonSet |-> 0]]

MinOf(S) == CHOOSE x \in S : \A y \in S : x <= y
SyncGa(g, e) ==
    LET ages == {IF w.a = NoRowAge THEN 0 ELSE w.a : w \in g.W[e]} IN
    [g EXCEPT !.ga[e] = IF Null \in ages THEN Null ELSE MinOf(ages),
              !.gp[e] = IF @ = None /\ \E w \in g.W[e] : w.a # NoRowAge THEN 0 ELSE @]

(* a request (decryption trigger) for eon e and slot s was observed *)
GhostRequestAt(g, e, s) ==
    LET again == (s = g.fs[e] /\ s # 0)             \* the slot of the last failed attempt is requested after all
        twice == (s = g.ls[e] /\ s # 0)             \* a second request for the slot requested last: counts no second time
        step(w) == IF twice /\ w.a # NoRowAge THEN w
                   ELSE IF w.a = NoRowAge THEN World(0, IF again THEN 1 ELSE 0)      \* initialised now; does not count
                   ELSE IF w.a = Null THEN World(Null, IF again THEN 1 ELSE 0)
                   ELSE IF again THEN World(w.a + (1 - w.c), 1)                 \* counts exactly once in total
                   ELSE World(w.a + 1, 0)
    IN SyncGa([g EXCEPT !.W[e] = {step(w) : w \in @}, !.fs[e] = IF again THEN @ ELSE 0, !.ls[e] = s], e)
GhostRequest(g, e) == GhostRequestAt(g, e, 0)

(* an attempt for slot s failed with a database error: no request was made; it may have stopped
   before or after ageing / initialising the pointer *)
GhostFailedAt(g, e, s) ==
    LET again == (s = g.fs[e] /\ s # 0)
        more(w) == IF w.a = NoRowAge THEN {World(NoRowAge, 0), World(0, 1)}
                   ELSE IF w.a = Null THEN {World(Null, 0)}
                   ELSE IF again THEN (IF w.c = 0 THEN {w, World(w.a + 1, 1)} ELSE {w})
                   ELSE {World(w.a, 0), World(w.a + 1, 1)}
    IN SyncGa([g EXCEPT !.W[e] = UNION {more(w) : w \in @}, !.fs[e] = s], e)

(* a keys message of eon e with pointer p and k keys was observed to be processed *)
GhostKeys(g, e, p, k) == [g EXCEPT !.gp[e] = p + k - 1, !.ga[e] = 0, !.W[e] = {World(0, 0)}, !.fs[e] = 0, !.ls[e] = 0]

(* a restart was observed: the age of every pointer that is in the table is unknown *)
RECURSIVE RestartEons(_, _)
RestartEons(g, e) ==
    IF e > NEons THEN g
    ELSE RestartEons(SyncGa([g EXCEPT !.W[e] = {IF w.a = NoRowAge THEN w ELSE World(Null, w.c) : w \in @}], e), e + 1)
GhostRestart(g) == RestartEons(g, 1)

(* where the request may start, g = ghost after GhostRequestAt *)
Starts(g, e, q) == {IF w.a = Null \/ w.a > MaxAge THEN Len(q) ELSE g.gp[e] : w \in g.W[e]}
StartOf(g, e, q) == IF g.ga[e] = Null \/ g.ga[e] > MaxAge THEN Len(q) ELSE g.gp[e]
Exact(g, e) == Cardinality(g.W[e]) = 1

RECURSIVE GasSum(_, _, _)
GasSum(q, a, b) == IF a > b THEN GasZero ELSE GasAdd(GasOf(q[a].g), GasSum(q, a + 1, b))

(* number of queued transactions to take from index `start`: as many as stay within the gas
   limit cumulatively, but at least one when one is queued *)
Taken(q, start) ==
    LET avail == Len(q) - start IN
    IF start < 0 \/ avail <= 0 THEN 0
    ELSE LET fits == {j \in 0..avail : ~GasExceeds(GasSum(q, start + 1, start + j), GasLimit)}
             k == CHOOSE j \in fits : \A i \in fits : i <= j
         IN Max2(k, 1)

Count(seq, x) == Cardinality({i \in DOMAIN seq : seq[i] = x})

(* ids is the slot identity followed by the identities of queue[start+1 .. start+Taken],
   sorted bytewise with the slot identity first *)
SelectionOK(ids, q, e, s, start) ==
    LET t == Taken(q, start)
        want == [i \in 1..t |-> TxId(e, q[start + i])]
    IN /\ Len(ids) = t + 1
       /\ ids[1] = SlotId(s)
       /\ \A i \in 1..t : Count(ids, want[i]) = Count(want, want[i])
       /\ Count(ids, SlotId(s)) = 1
       /\ \A i \in 1..Len(ids) - 1 : ~IdLess(ids[i + 1], ids[i])

(* monitors of a request step: set of failed monitor names.
   gAfter = GhostRequest(ghost before, e) *)
RequestFailed(gAfter, q, e, s, ids) ==
    (IF Len(ids) >= 1 /\ ids[1] = SlotId(s) THEN {} ELSE {"C19_SlotFirst"}) \cup
    (IF \E start \in Starts(gAfter, e, q) : SelectionOK(ids, q, e, s, start) THEN {} ELSE
        IF \E w \in gAfter.W[e] : w.a = Null \/ w.a > MaxAge THEN {"C19_Fallback"} ELSE {"C19_Select"})

(* monitor of a processed keys message: the tx_pointer row afterwards *)
KeysFailed(rowAfter, p, k) ==
    IF rowAfter.row /\ rowAfter.value = p + k - 1 /\ rowAfter.age = 0 THEN {} ELSE {"C19_PointerArith"}

(* ghost after an observed step of one keyper: o = operation, en = synced state before it,
   r = what the keyper answered *)
GhostStep(g, en, o, r) ==
    CASE r.out = "emit"    -> GhostRequestAt(g, en.active, o.s)
      [] r.out = "err" /\ o.op = "slotf" -> GhostFailedAt(g, en.active, o.s)
      [] r.out = "keys"    -> IF r.msg.ok THEN GhostKeys(g, o.e, r.msg.p, r.msg.n) ELSE g
      [] r.out = "restart" -> GhostRestart(g)
      [] OTHER -> g

(* monitors of one observed step of one keyper: g2 = ghost after the step, rowAfter = its
   tx_pointer rows after the step *)
ObsFailed(en, o, g2, r, ptrAfter) ==
    (IF r.out = "emit" THEN RequestFailed(g2, en.q[en.active], en.active, o.s, r.trig.ids) ELSE {}) \cup
    (IF r.out = "keys" /\ r.msg.ok THEN KeysFailed(ptrAfter[o.e], r.msg.p, r.msg.n) ELSE {})

(* two requests made from the same synced state (queue, tx_pointer row, slot, eon) *)
SameSynced(r1, r2) == r1.slot = r2.slot /\ r1.e = r2.e /\ r1.q = r2.q /\ r1.row = r2.row
AgreeOK(r1, r2) == SameSynced(r1, r2) => (r1.ids = r2.ids /\ r1.hash = r2.hash)

(* ... or from the same queue, eon and slot by keypers for which the same pointer was agreed and
   exactly the same number of slots counts since (records with the ghost fields gp, gw = the set
   of possible ages: both must be singletons) *)
SameAgreed(r1, r2) == /\ r1.slot = r2.slot /\ r1.e = r2.e /\ r1.q = r2.q
                      /\ r1.gp = r2.gp /\ r1.gw = r2.gw /\ Cardinality(r1.gw) = 1
AgreeOK2(r1, r2) == (SameSynced(r1, r2) \/ SameAgreed(r1, r2)) => (r1.ids = r2.ids /\ r1.hash = r2.hash)

=============================================================================
