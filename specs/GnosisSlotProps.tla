---------------------------- MODULE GnosisSlotProps ----------------------------
(***************************************************************************)
(* Property layer for C19, written over ONE OBSERVED step of one keyper:   *)
(*   the synced state (queue, slot), what the keyper was asked to do, what *)
(*   it answered (identities of the decryption trigger, keys message that  *)
(*   was processed) and the tx_pointer row afterwards, plus a ghost that   *)
(*   is folded from the observed answers only (never from the keyper's own *)
(*   tx_pointer bookkeeping):                                              *)
(*     gp[e]  the pointer the keypers last agreed on: p+k-1 of the last    *)
(*            processed keys message of eon e, 0 from the first request of *)
(*            an eon on, None before                                       *)
(*     ga[e]  requests made for eon e since then; Null = unknown (restart) *)
(* The selection is stated declaratively (longest gas-bounded prefix, at   *)
(* least one, sorted, slot identity first) and shares no operator with the *)
(* loop of the code-shaped layer except the gas table and the byte order.  *)
(***************************************************************************)
EXTENDS GnosisSlot

None == -1

(* Round 4: a slot attempt may FAIL (database error) after the keyper aged its pointer and the
   slot is offered to the keyper twice (new block, slot ticker).  The age is "proposer slots since
   the last keys message": a slot for which a request was made counts exactly once, a slot whose
   only attempt(s) failed counts 0 or 1 times ("being off by one doesn't matter", newslot.go), no
   slot ever counts twice.  The ghost therefore keeps an interval glo..ghi (ga = max(glo, 0), kept
   for modules that read it) and the set of slots already tallied since the last keys message. *)
GhostInit == [gp |-> [e \in EonSet |-> None], ga |-> [e \in EonSet |-> 0],
              glo |-> [e \in EonSet |-> 0], ghi |-> [e \in EonSet |-> 0], seen |-> [e \in EonSet |-> {}]]

SyncGa(g, e) == [g EXCEPT !.ga[e] = IF @ = Null THEN Null ELSE Max2(g.glo[e], 0)]

(* a request (decryption trigger) for eon e and slot s was observed *)
GhostRequestAt(g, e, s) ==
    IF g.gp[e] = None                                   \* a new eon starts at 0; that slot does not count
    THEN [g EXCEPT !.gp[e] = 0, !.ga[e] = 0, !.glo[e] = 0, !.ghi[e] = 0, !.seen[e] = {s}]
    ELSE IF g.ga[e] = Null THEN g
    ELSE IF s \in g.seen[e]
         THEN SyncGa([g EXCEPT !.glo[e] = @ + 1], e)     \* tallied as 0..1 by a failed attempt: now exactly once
         ELSE SyncGa([g EXCEPT !.glo[e] = @ + 1, !.ghi[e] = @ + 1, !.seen[e] = @ \cup {s}], e)
GhostRequest(g, e) == GhostRequestAt(g, e, 0)

(* an attempt for slot s failed with a database error: no request was made *)
GhostFailedAt(g, e, s) ==
    IF g.gp[e] = None                                   \* the row may or may not have been initialised
    THEN [g EXCEPT !.gp[e] = 0, !.ga[e] = 0, !.glo[e] = -1, !.ghi[e] = 0, !.seen[e] = {s}]
    ELSE IF g.ga[e] = Null \/ s \in g.seen[e] THEN g
    ELSE [g EXCEPT !.ghi[e] = @ + 1, !.seen[e] = @ \cup {s}]

(* a keys message of eon e with pointer p and k keys was observed to be processed *)
GhostKeys(g, e, p, k) == [g EXCEPT !.gp[e] = p + k - 1, !.ga[e] = 0, !.glo[e] = 0, !.ghi[e] = 0, !.seen[e] = {}]

(* a restart was observed: the age of every known pointer is unknown *)
GhostRestart(g) == [g EXCEPT !.ga = [e \in EonSet |-> IF g.gp[e] # None THEN Null ELSE g.ga[e]]]

(* where the request may start, g = ghost after GhostRequestAt *)
Starts(g, e, q) ==
    IF g.ga[e] = Null THEN {Len(q)}
    ELSE {IF a > MaxAge THEN Len(q) ELSE g.gp[e] : a \in Max2(g.glo[e], 0)..g.ghi[e]}
StartOf(g, e, q) == IF g.ga[e] = Null \/ g.ga[e] > MaxAge THEN Len(q) ELSE g.gp[e]

RECURSIVE GasSum(_, _, _)
GasSum(q, a, b) == IF a > b THEN GasZero ELSE GasAdd(GasOf(q[a].g), GasSum(q, a + 1, b))

(* number of queued transactions to take from index `start`: as many as stay within the gas
   limit cumulatively, but at least one when one is queued *)
Taken(q, start) ==
    LET avail == Len(q) - start IN
    IF start < 0 \/ avail <= 0 THEN 0
    ELSE LET fits == {j \in 0..avail : ~GasExceeds(GasSum(q, start + 1, start + j), GasLimit)}
             k == CHOOSE j \in fits : \A i \in fits : i <= j
         IN Max2(k, 1)

Count(seq, x) == Cardinality({i \in DOMAIN seq : seq[i] = x})

(* ids is the slot identity followed by the identities of queue[start+1 .. start+Taken],
   sorted bytewise with the slot identity first *)
SelectionOK(ids, q, e, s, start) ==
    LET t == Taken(q, start)
        want == [i \in 1..t |-> TxId(e, q[start + i])]
    IN /\ Len(ids) = t + 1
       /\ ids[1] = SlotId(s)
       /\ \A i \in 1..t : Count(ids, want[i]) = Count(want, want[i])
       /\ Count(ids, SlotId(s)) = 1
       /\ \A i \in 1..Len(ids) - 1 : ~IdLess(ids[i + 1], ids[i])

(* monitors of a request step: set of failed monitor names.
   gAfter = GhostRequest(ghost before, e) *)
RequestFailed(gAfter, q, e, s, ids) ==
    (IF Len(ids) >= 1 /\ ids[1] = SlotId(s) THEN {} ELSE {"C19_SlotFirst"}) \cup
    (IF \E start \in Starts(gAfter, e, q) : SelectionOK(ids, q, e, s, start) THEN {} ELSE
        IF gAfter.ga[e] = Null \/ gAfter.ga[e] > MaxAge THEN {"C19_Fallback"} ELSE {"C19_Select"})

(* monitor of a processed keys message: the tx_pointer row afterwards *)
KeysFailed(rowAfter, p, k) ==
    IF rowAfter.row /\ rowAfter.value = p + k - 1 /\ rowAfter.age = 0 THEN {} ELSE {"C19_PointerArith"}

(* ghost after an observed step of one keyper: o = operation, en = synced state before it,
   r = what the keyper answered *)
GhostStep(g, en, o, r) ==
    CASE r.out = "emit"    -> GhostRequestAt(g, en.active, o.s)
      [] r.out = "err" /\ o.op = "slotf" -> GhostFailedAt(g, en.active, o.s)
      [] r.out = "keys"    -> IF r.msg.ok THEN GhostKeys(g, o.e, r.msg.p, r.msg.n) ELSE g
      [] r.out = "restart" -> GhostRestart(g)
      [] OTHER -> g

(* monitors of one observed step of one keyper: g2 = ghost after the step, rowAfter = its
   tx_pointer rows after the step *)
ObsFailed(en, o, g2, r, ptrAfter) ==
    (IF r.out = "emit" THEN RequestFailed(g2, en.q[en.active], en.active, o.s, r.trig.ids) ELSE {}) \cup
    (IF r.out = "keys" /\ r.msg.ok THEN KeysFailed(ptrAfter[o.e], r.msg.p, r.msg.n) ELSE {})

(* two requests made from the same synced state (queue, tx_pointer row, slot, eon) *)
SameSynced(r1, r2) == r1.slot = r2.slot /\ r1.e = r2.e /\ r1.q = r2.q /\ r1.row = r2.row
AgreeOK(r1, r2) == SameSynced(r1, r2) => (r1.ids = r2.ids /\ r1.hash = r2.hash)

(* ... or from the same queue, eon and slot by keypers for which the same pointer was agreed and
   exactly the same number of slots counts since (records with the ghost fields gp, glo, ghi, unk) *)
SameAgreed(r1, r2) == /\ r1.slot = r2.slot /\ r1.e = r2.e /\ r1.q = r2.q
                      /\ r1.gp = r2.gp /\ r1.unk = r2.unk
                      /\ (r1.unk \/ (r1.glo = r1.ghi /\ r2.glo = r2.ghi /\ r1.glo = r2.glo))
AgreeOK2(r1, r2) == (SameSynced(r1, r2) \/ SameAgreed(r1, r2)) => (r1.ids = r2.ids /\ r1.hash = r2.hash)

=============================================================================
