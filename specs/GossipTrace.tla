----------------------------- MODULE GossipTrace -----------------------------
(* Validation of traces recorded from N real node assemblies joined by the simulated network.
   One line per step (trigger / delivery / duplication / loss) with the receiver's verdict, the
   messages produced (producer's own verdict, access node's verdict) and the projected tables
   of ALL nodes; "new" starts a schedule, "end" closes it at quiescence.
   Pass A (viol): the property layer of Gossip.tla on observed data only.
   Pass B (drift): the observed step is the step of the code-shaped layer, applied to the
   previously OBSERVED tables. *)
EXTENDS Gossip, Json
CONSTANT TraceFile
Trace == ndJsonDeserialize(TraceFile)
VARIABLES l, st, viol, drift
tvars == <<l, st, viol, drift>>

ObsNode(o) == [shares |-> [id \in IdSet |-> ToSet(o.shares[id])], keys |-> [id \in IdSet |-> o.keys[id]],
               sigs |-> [r \in RoundIdx |-> ToSet(o.sigs[r])], cur |-> o.cur, ptr |-> o.ptr]
ObsTabs(line) == [i \in Nodes |-> ObsNode(line.tabs[i + 1])]
RECURSIVE PacketsOf(_, _, _)
PacketsOf(i, prod, k) ==
    IF k > Len(prod) THEN EmptyBag
    ELSE (IF prod[k].own = "accept" THEN SetToBag({[m |-> prod[k].m, d |-> j] : j \in Nodes \ {i}}) ELSE EmptyBag)
         (+) PacketsOf(i, prod, k + 1)

TInit == l = 1 /\ st = [node |-> [i \in Nodes |-> NodeInit], net |-> EmptyBag] /\ viol = {} /\ drift = {}

Mon(line) ==
    (IF line.panic # "" THEN {"C03_NoPanic"} ELSE {}) \cup
    (IF P_Accepted([verdict |-> line.verdict, prod |-> line.prod]) THEN {} ELSE {"C03_Accepted"}) \cup
    (IF P_KeysGood(ObsTabs(line)) THEN {} ELSE {"C03_KeysGood"})

TNext ==
    /\ l <= Len(Trace) /\ l' = l + 1
    /\ LET line == Trace[l] IN
       CASE line.k = "new" ->
              /\ st' = [node |-> ObsTabs(line), net |-> EmptyBag]
              /\ drift' = drift \cup (IF ObsTabs(line) = [i \in Nodes |-> NodeInit] THEN {} ELSE {l})
              /\ UNCHANGED viol
         [] line.k = "end" ->
              /\ viol' = viol \cup {<<l, m>> : m \in
                    (IF line.pending = 0 /\ P_AllHaveKeys(ObsTabs(line)) THEN {} ELSE {"C03_AllHaveKeys"})}
              /\ drift' = drift \cup (IF st.net = EmptyBag THEN {} ELSE {l})
              /\ UNCHANGED st
         [] OTHER ->
              LET pk == [m |-> line.m, d |-> line.n]
                  obsTabs == ObsTabs(line) IN
              /\ viol' = viol \cup {<<l, m>> : m \in Mon(line)}
              /\ CASE line.a = "trig" ->
                        LET r == TriggerNode(st.node[line.n], line.n, line.m.r)
                            p == Publish(r.nd, line.n, r.out, 1) IN
                        /\ drift' = drift \cup (IF [st.node EXCEPT ![line.n] = r.nd] = obsTabs /\ p.prod = line.prod /\ line.err = r.err
                                                THEN {} ELSE {l})
                        /\ st' = [node |-> obsTabs, net |-> st.net (+) PacketsOf(line.n, line.prod, 1)]
                   [] line.a = "dlv" ->
                        IF line.missing
                        THEN /\ drift' = drift \cup {l}
                             /\ st' = [st EXCEPT !.net = IF pk \in DOMAIN st.net THEN @ (-) SetToBag({pk}) ELSE @]
                        ELSE LET j == line.n
                                 v == Validate(st.node[j], line.m)
                                 h == IF v = "accept" THEN HandleAll(st.node[j], j, line.m) ELSE [nd |-> st.node[j], out |-> <<>>]
                                 p == Publish(h.nd, j, h.out, 1) IN
                             /\ drift' = drift \cup (IF pk \in DOMAIN st.net /\ v = line.verdict /\ [st.node EXCEPT ![j] = h.nd] = obsTabs
                                                        /\ p.prod = line.prod /\ line.err = "" THEN {} ELSE {l})
                             /\ st' = [node |-> obsTabs,
                                       net |-> (IF pk \in DOMAIN st.net THEN st.net (-) SetToBag({pk}) ELSE st.net) (+) PacketsOf(j, line.prod, 1)]
                   [] line.a = "dup" ->
                        /\ drift' = drift \cup (IF ~line.missing /\ pk \in DOMAIN st.net /\ st.node = obsTabs THEN {} ELSE {l})
                        /\ st' = [node |-> obsTabs, net |-> IF line.missing THEN st.net ELSE st.net (+) SetToBag({pk})]
                   [] line.a = "drop" ->
                        /\ drift' = drift \cup (IF ~line.missing /\ pk \in DOMAIN st.net /\ st.node = obsTabs THEN {} ELSE {l})
                        /\ st' = [node |-> obsTabs, net |-> [q \in (DOMAIN st.net) \ {pk} |-> st.net[q]]]
TSpec == TInit /\ [][TNext]_tvars
Done == l <= Len(Trace) \/
        PrintT(<<"RESULT", ToJson([lines |-> Len(Trace), viol |-> SetToSeq(viol), drift |-> SetToSeq(drift)])>>)
===============================================================================
