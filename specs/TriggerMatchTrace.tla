-------------------------- MODULE TriggerMatchTrace --------------------------
(***************************************************************************)
(* Trace layer of C17.  One ndjson line per case executed on the real      *)
(* EventTriggerDefinition code by harness/trig:                            *)
(*   {"k":"hdr","rnd":{r1,r2,addr,addr2}}            the seeded fillers    *)
(*   {"k":"def"|"match"|"dec","n":i,"desc":{case descriptor printed by     *)
(*    TriggerMatchMC},"def":{..},"log":{..},"in":[..],"out":{..}}          *)
(* def/log/in are the projections (Abs) of the real inputs that were used, *)
(* out is what the real code returned.  The fold is deterministic (one TLC *)
(* state per line).                                                        *)
(*   pass A  viol : <<line, monitor>> for each C17 monitor of the property *)
(*                  layer that is false on the OBSERVED case               *)
(*   pass B  drift: <<line, what>> where the observation is not what the   *)
(*                  code-shaped layer computes from the observed inputs,   *)
(*                  or the inputs are not the concretisation of the        *)
(*                  descriptor (binding of the concretiser)                *)
(***************************************************************************)
EXTENDS TriggerMatchDomain, Json, TLC, SequencesExt

CONSTANT TraceFile
Trace == ndJsonDeserialize(TraceFile)

VARIABLES l, rnd, viol, drift, cnt
tvars == <<l, rnd, viol, drift, cnt>>

Mon(ok, name) == IF ok THEN {} ELSE {name}

(* pass A *)
LineViol(line) ==
    LET o == line.out IN
    CASE line.k = "def" ->
            Mon(C17_RoundTrip(line.def, o), "C17_RoundTrip")
            \cup Mon(C17_DecodeValid(o), "C17_DecodeValid")
            \cup Mon(C17_FilterExists(o), "C17_FilterExists")
      [] line.k = "match" ->
            Mon(C17_Total(o), "C17_Total")
            \cup Mon(C17_Bounded(line.log, o), "C17_Bounded")
            \cup Mon(C17_Semantics(line.def, line.log, o), "C17_Semantics")
            \cup Mon(C17_FilterSound(line.log, o), "C17_FilterSound")
      [] line.k = "dec" ->
            Mon(C17_DecodeValid(o), "C17_DecodeValid")
      [] line.k = "fetch" ->
            Mon(C17_FetchNotHidden(line.defs, line.logs, o), "C17_FetchNotHidden")
            \cup Mon(C17_FetchOnlyMatching(line.defs, line.logs, o), "C17_FetchOnlyMatching")
      [] OTHER -> {"C17_UnknownLine"}

(* pass B *)
EncodableDef(def) == \A i \in DOMAIN def.preds : \A j \in DOMAIN def.preds[i].iargs : def.preds[i].iargs[j].s # "neg"
FilterAgrees(def, o) == LET f == CToFilterQuery(def) IN o.fok = f.ok /\ o.filt = f.filt
LineDrift(line, R) ==
    LET o == line.out
        d == line.def
    IN
    (IF line.k = "fetch" THEN {} ELSE Mon(d = ConcDef(line.desc.preds, R), "conc-def"))
    \cup
    CASE line.k = "fetch" ->
            Mon(line.defs = [i \in DOMAIN line.desc.sets |-> ConcDef(line.desc.sets[i], R)], "conc-defs")
            \cup Mon(line.logs = [j \in DOMAIN line.desc.logs |-> ConcLog(line.desc.logs[j], R)], "conc-logs")
            \cup Mon(o.err = "" /\ o.fired = CFetchFired(line.defs, line.logs), "FetchEvents")
            \cup Mon(\A i \in DOMAIN line.defs : \A j \in DOMAIN line.logs :
                        LET m == IF CValid(line.defs[i]) THEN CMatch(line.defs[i], line.logs[j]) ELSE "skip" IN
                        m = "blow" \/ o.pm[i][j] = m, "Match")
      [] line.k = "def" ->
            Mon(o.valid = CValid(d), "Validate")
            \cup (IF EncodableDef(d)
                  THEN Mon(o.menc = "ok" /\ o.enc = CMarshal(d), "MarshalBytes")
                       \cup (IF o.menc = "ok"
                             THEN LET u == CUnmarshal(o.enc) IN Mon(o.uok = u.ok /\ o.udef = u.def, "UnmarshalBytes")
                             ELSE {})
                  ELSE Mon(o.menc = "panic", "MarshalBytes"))
            \cup (IF o.valid /\ CValid(d) THEN Mon(FilterAgrees(d, o), "ToFilterQuery") ELSE {})
      [] line.k = "match" ->
            Mon(line.log = ConcLog(line.desc.log, R), "conc-log")
            \cup Mon(o.valid = CValid(d), "Validate")
            \cup (IF o.valid /\ CValid(d)
                  THEN LET m == CMatch(d, line.log) IN
                       Mon(m = "blow" \/ o.match = m, "Match") \cup Mon(FilterAgrees(d, o), "ToFilterQuery")
                  ELSE {})
      [] line.k = "dec" ->
            (IF line.desc.mut.m # "rnd" /\ EncodableDef(d)
             THEN Mon(line.in = ApplyMut(CMarshal(d), line.desc.mut), "conc-in") ELSE {})
            \cup LET u == CUnmarshal(line.in) IN Mon(o.uok = u.ok /\ o.udef = u.def, "UnmarshalBytes")
      [] OTHER -> {}

(* vacuity counters: how often the monitors had something to decide *)
Cnt0 == [semT |-> 0, semF |-> 0, semU |-> 0, filt |-> 0, rt |-> 0, decok |-> 0, decrej |-> 0, skipped |-> 0, fetch |-> 0, fired |-> 0]
RECURSIVE SumSeq(_, _)
SumSeq(sq, i) == IF i > Len(sq) THEN 0 ELSE sq[i] + SumSeq(sq, i + 1)
FiredCount(o) == SumSeq([i \in DOMAIN o.fired |-> Cardinality({j \in DOMAIN o.fired[i] : o.fired[i][j]})], 1)
Count(line, k) ==
    LET o == line.out IN
    CASE line.k = "def" -> IF o.valid THEN [k EXCEPT !.rt = @ + 1] ELSE k
      [] line.k = "dec" -> IF o.uok THEN [k EXCEPT !.decok = @ + 1] ELSE [k EXCEPT !.decrej = @ + 1]
      [] line.k = "match" ->
            IF ~(o.valid /\ DocShapeOK(line.def) /\ o.match \in {"true", "false"}) THEN [k EXCEPT !.skipped = @ + 1]
            ELSE LET d == DocDecided(line.def, line.log)
                     k1 == IF d = "T" THEN [k EXCEPT !.semT = @ + 1]
                           ELSE IF d = "F" THEN [k EXCEPT !.semF = @ + 1] ELSE [k EXCEPT !.semU = @ + 1]
                 IN IF o.match = "true" THEN [k1 EXCEPT !.filt = @ + 1] ELSE k1
      [] line.k = "fetch" -> [k EXCEPT !.fetch = @ + 1, !.fired = @ + FiredCount(o)]
      [] OTHER -> k

TInit == l = 1 /\ rnd = DefaultR /\ viol = {} /\ drift = {} /\ cnt = Cnt0

TNext ==
    /\ l <= Len(Trace)
    /\ l' = l + 1
    /\ LET line == Trace[l] IN
       IF line.k = "hdr" THEN rnd' = line.rnd /\ UNCHANGED <<viol, drift, cnt>>
       ELSE /\ viol' = viol \cup {<<l, m>> : m \in LineViol(line)}
            /\ drift' = drift \cup {<<l, w>> : w \in LineDrift(line, rnd)}
            /\ cnt' = Count(line, cnt)
            /\ UNCHANGED rnd

TSpec == TInit /\ [][TNext]_tvars

Done == l <= Len(Trace) \/
        PrintT(<<"RESULT", ToJson([lines |-> Len(Trace), viol |-> SetToSeq(viol), drift |-> SetToSeq(drift), cnt |-> cnt])>>)
=============================================================================
