--------------------------- MODULE GnosisE2EProps ---------------------------
(***************************************************************************)
(* Property layer of the Gnosis end-to-end composition, over OBSERVED data *)
(* only.  It carries the statements of C19 (slot identities, tx pointer),  *)
(* C03 (every produced message accepted, everybody obtains the keys) and   *)
(* C06 (signature rule) ACROSS the borders of the composed families.       *)
(*                                                                         *)
(* One observed step:                                                      *)
(*   w0, w1   the projected tables of all keypers before / after the step  *)
(*            (w.kp[k+1] = [s, sy, sh, ky, sg]), the chain the harness     *)
(*            built (an input) and the current slot                        *)
(*   a        the action [a, n, g, m]                                      *)
(*   o        [verdict, r]: the receiver's verdict of a delivered message, *)
(*            the answer of a slot tick r = [out, trig, err]               *)
(*   prod     the messages the acting keyper handed to the network in the  *)
(*            step, each with the verdict of its own validators and of the *)
(*            access node: [m, own, an]                                    *)
(*   hash     keccak of the identity BYTES of an emitted trigger           *)
(* and a GHOST folded from the observed steps only (never from a keyper's  *)
(* own bookkeeping):                                                       *)
(*   gh[k]    the C19 ghost of keyper k (GnosisSlotProps: pointer of the   *)
(*            last processed keys message, requests since then / unknown)  *)
(*   req[k]   contents [slot, p, ids] keyper k requested in the current    *)
(*            slot (observed triggers + the tx pointer it stored)          *)
(*   recs     the requests of the current slot with the synced state they  *)
(*            were made from (queue, tx_pointer row)                       *)
(*   fin[k]   contents of the keys messages of the current slot keyper k   *)
(*            accepted from the network or released itself                 *)
(*   ann[k]   contents of keys messages keyper k only ANNOUNCED again: made *)
(*            of keys it held already (gnosis key share handler)           *)
(*   an       contents of keys messages the access node accepted (slot)    *)
(*   lost[k]  share messages lost on the way to keyper k in the slot       *)
(*   rst      keypers restarted in the slot                                *)
(*   tags     which code paths the behaviour has exercised so far          *)
(*            (observational; part of the model checker's VIEW so that a   *)
(*            behaviour is printed per (state, set of paths)); tags: of    *)
(*            the current slot, atags: of the whole behaviour (not in the  *)
(*            VIEW, printed with the behaviour)                            *)
(*                                                                         *)
(* X1  keypers whose synced queue and pointer state are equal request      *)
(*     byte-identical lists for a slot (C19_Agree); a keys message is      *)
(*     accepted only if each of its signers requested exactly its content  *)
(*     (X1_SignersRequested): shares of keypers with different synced      *)
(*     prefixes never yield an accepted keys message with another list     *)
(* X2  every accepted keys message (keyper or access node) satisfies the   *)
(*     rule of C06 (SR!Admissible: exactly T distinct members, strictly    *)
(*     increasing, one genuine signature each over exactly its instance,   *)
(*     eon, slot, tx pointer, identities) and its keys are the correct     *)
(*     epoch keys (X2_KeysCorrect); every produced message is accepted by  *)
(*     its producer, every receiver and the access node (C03_Accepted)     *)
(* X3  the C19 monitors along every keyper's history: C19_Select /         *)
(*     C19_Fallback / C19_SlotFirst on every request with the ghost        *)
(*     pointer (the next request starts at p+k-1 of the last processed     *)
(*     keys message: nothing skipped, nothing released twice, unless the   *)
(*     documented age fallback applies), C19_PointerArith after every      *)
(*     processed (accepted or self-released) keys message                  *)
(*     (C15 carried over the first border: after every call of the syncer  *)
(*     whose position is a canonical block, the keyper's queue is exactly  *)
(*     the canonical chain's transactions up to it: C15_Exact)             *)
(* X4  at the end of a slot: if at least T keypers requested the same      *)
(*     content c and still hold it as their current trigger, nobody        *)
(*     restarted and nobody lost more than |W| - T share messages, then    *)
(*     every keyper holds the keys of all identities of c, has accepted,   *)
(*     released or announced a keys message with content c, its pointer is *)
(*     p+k-1 (except finding GNO-1: a keyper that only announced keys it   *)
(*     held already), and the access node accepted one (X4_AllRelease);    *)
(*     the key judgement                                                   *)
(*     (byte equality across keypers, trial decryption of a ciphertext     *)
(*     made for the eon key) is X4_SameKey / X4_Decrypt on the final line  *)
(***************************************************************************)
EXTENDS GnosisE2E

KSeq == 1..NK

(* the composition's OWN summary of a keyper's agreed pointer, folded from the same observations as
   gh (nothing of the C19 ghost's record is read here; only GhostInit, GhostRequestAt, GhostKeys,
   GhostRestart, RequestFailed, KeysFailed, AgreeOK2 of GnosisSlotProps are used):
     ap[k]  p+k-1 of the last keys message keyper k processed, 0 from its first request on, None before
     ac[k]  requests since then (the first request of the eon does not count), Null after a restart
   There are no failed slot attempts in this composition, so the summary is exact. *)
GW0 == [gh   |-> [k \in KSeq |-> GhostInit],
        ap   |-> [k \in KSeq |-> None],
        ac   |-> [k \in KSeq |-> 0],
        req  |-> [k \in KSeq |-> {}],
        recs |-> {},
        fin  |-> [k \in KSeq |-> {}],
        ann  |-> [k \in KSeq |-> {}],
        an   |-> {},
        lost |-> [k \in KSeq |-> 0],
        rst  |-> {},
        tags |-> {},
        atags |-> {}]

RowOf(w, k) == w.kp[k].s.ptr[TheEon]
QueueObs(w, k) == QueueOf(w.ch, w.kp[k].sy.stored)

(* keys messages of the step that somebody accepted: the delivered one, the produced ones *)
AcceptedKeys(a, o, prod) ==
    (IF a.a = "dlv" /\ a.m.t = "keys" /\ o.verdict = "accept" THEN {a.m} ELSE {}) \cup
    {prod[i].m : i \in {j \in DOMAIN prod : prod[j].m.t = "keys" /\ (prod[j].own = "accept" \/ prod[j].an = "accept")}}

(* keys messages keyper k RELEASED in this step by deriving the keys itself (core handler behind
   the middleware: the tx pointer moves); a keys message made of keys that were all there before
   comes from the gnosis key share handler on the raw messaging and moves nothing *)
Released(w0, k, prod) ==
    {prod[i].m : i \in {j \in DOMAIN prod : prod[j].m.t = "keys" /\ ~(IdsOf(prod[j].m.c) \subseteq w0.kp[k].ky)}}

(* contents keyper k announced in this step with keys it held already *)
Announced(w0, k, prod) ==
    {prod[i].m.c : i \in {j \in DOMAIN prod : prod[j].m.t = "keys" /\ IdsOf(prod[j].m.c) \subseteq w0.kp[k].ky}}

(* the processed keys message of the step for keyper k (C19: "after a keys message releasing k
   identities at pointer p is processed"): set of contents (0 or 1 in every observed step) *)
Processed(w0, a, o, prod) ==
    LET k == a.n + 1 IN
    IF a.a # "dlv" THEN {}
    ELSE (IF a.m.t = "keys" /\ o.verdict = "accept" THEN {a.m.c} ELSE {}) \cup {m.c : m \in Released(w0, k, prod)}

----------------------------------------------------------------------------
(* the request keyper k made in a tick step that emitted a trigger: the identities are those of
   the trigger found on the channel, slot and tx pointer those of the current_decryption_trigger
   row it wrote *)
ReqContent(o, w1, k) == Ct(CurOf(w1.kp[k]).slot, CurOf(w1.kp[k]).ptr, o.r.trig.ids)
(* ap, ac = the summary after the request (AgreeOK2 also compares requests made from the same
   agreed pointer gp and the same, exactly known, number gw = {ac} of slots counted since) *)
ReqRec(w0, k, o, hash, ap, ac) ==
    [k |-> k, slot |-> w0.slot, e |-> TheEon, q |-> QueueObs(w0, k), row |-> RowOf(w0, k), ids |-> o.r.trig.ids, hash |-> hash,
     gp |-> ap, gw |-> {ac}]
ApAfterRequest(g, k) == IF g.ap[k] = None THEN 0 ELSE g.ap[k]
AcAfterRequest(g, k) == IF g.ap[k] = None THEN 0 ELSE IF g.ac[k] = Null THEN Null ELSE g.ac[k] + 1
Outdated(ac) == ac = Null \/ ac > MaxAge

(* observational tags: which paths of the code the step took *)
TagsOf(g0, g1, w0, a, o, prod, w1) ==
    LET k == a.n + 1 IN
    CASE a.a = "tick" ->
           {"tick-" \o o.r.out} \cup
           (IF o.r.err # "" THEN {"tick-" \o o.r.err} ELSE {}) \cup
           (IF o.r.out = "emit" /\ Outdated(g1.ac[k]) THEN {"fallback"} ELSE {}) \cup
           (IF o.r.out = "emit" /\ Len(o.r.trig.ids) > 1 THEN {"tx-requested"} ELSE {}) \cup
           (IF o.r.out = "emit" /\ \E r \in g0.recs : r.k # k /\ r.ids # o.r.trig.ids THEN {"lists-differ"} ELSE {})
      [] a.a = "dlv" /\ a.m.t = "shares" ->
           (IF o.verdict # "accept" THEN {"shares-" \o o.verdict} ELSE {}) \cup
           (IF Released(w0, k, prod) # {} THEN {"released"} ELSE {}) \cup
           (IF Announced(w0, k, prod) # {} THEN {"keys-again"} ELSE {}) \cup
           (IF \E c \in Announced(w0, k, prod) : RowOf(w1, k).value # c.p + Len(c.ids) - 1 THEN {"announced-unadvanced"} ELSE {}) \cup
           (IF prod = <<>> /\ w1.kp[k].ky # w0.kp[k].ky THEN {"derived-dropped"} ELSE {}) \cup
           (IF a.m.c # CurContent(w0.kp[k]) /\ CurOf(w0.kp[k]).row /\ CurOf(w0.kp[k]).slot = a.m.c.slot THEN {"foreign-list"} ELSE {})
      [] a.a = "dlv" /\ a.m.t = "keys" ->
           (IF o.verdict # "accept" THEN {"keys-" \o o.verdict} ELSE {}) \cup
           (IF o.verdict = "accept" /\ w1.kp[k].ky # w0.kp[k].ky THEN {"keys-new"} ELSE {}) \cup
           (IF o.verdict = "accept" /\ RowOf(w0, k).row /\ RowOf(w1, k).value < RowOf(w0, k).value THEN {"ptr-back"} ELSE {}) \cup
           (IF o.verdict = "accept" /\ Len(a.m.c.ids) > 1 THEN {"tx-released"} ELSE {})
      [] a.a = "sync" ->
           (IF w1.kp[k].sy.synced.num - w0.kp[k].sy.synced.num > 1 THEN {"sync-lag"} ELSE {}) \cup
           (IF \E r \in w0.kp[k].sy.stored : r \notin w1.kp[k].sy.stored THEN {"sync-rollback"} ELSE {})
      [] a.a \in {"drop", "restart", "reorg"} -> {a.a}
      [] OTHER -> {}

(* ghost after the step *)
GhostNextE(g, w0, a, o, prod, w1, hash) ==
    LET k == a.n + 1
        g1 == CASE a.a = "tick" /\ o.r.out = "emit" ->
                     [g EXCEPT !.gh[k] = GhostRequestAt(@, TheEon, w0.slot),
                               !.ap[k] = ApAfterRequest(g, k), !.ac[k] = AcAfterRequest(g, k),
                               !.req[k] = @ \cup {ReqContent(o, w1, k)},
                               !.recs = @ \cup {ReqRec(w0, k, o, hash, ApAfterRequest(g, k), AcAfterRequest(g, k))}]
                [] a.a = "dlv" ->
                     LET pr == Processed(w0, a, o, prod)
                         acc == {prod[i].m.c : i \in {j \in DOMAIN prod : prod[j].m.t = "keys" /\ prod[j].an = "accept"}} IN
                     [g EXCEPT !.gh[k] = IF pr = {} THEN @
                                         ELSE LET c == CHOOSE x \in pr : TRUE IN GhostKeys(@, TheEon, c.p, Len(c.ids)),
                               !.ap[k] = IF pr = {} THEN @ ELSE LET c == CHOOSE x \in pr : TRUE IN c.p + Len(c.ids) - 1,
                               !.ac[k] = IF pr = {} THEN @ ELSE 0,
                               !.fin[k] = @ \cup {c \in pr : c.slot = w0.slot},
                               !.ann[k] = @ \cup {c \in Announced(w0, k, prod) : c.slot = w0.slot},
                               !.an = @ \cup {c \in acc : c.slot = w0.slot}]
                [] a.a = "drop" -> [g EXCEPT !.lost[k] = @ + 1]
                [] a.a = "restart" -> [g EXCEPT !.gh[k] = GhostRestart(@), !.ac[k] = IF g.ap[k] = None THEN @ ELSE Null,
                                                 !.rst = @ \cup {k}]
                [] a.a = "slot" ->
                     [g EXCEPT !.req = [x \in KSeq |-> {}], !.recs = {}, !.fin = [x \in KSeq |-> {}], !.ann = [x \in KSeq |-> {}], !.an = {},
                               !.lost = [x \in KSeq |-> 0], !.rst = {}, !.tags = {}]
                [] OTHER -> g
        tg == TagsOf(g, g1, w0, a, o, prod, w1)
    IN [g1 EXCEPT !.tags = @ \cup tg, !.atags = @ \cup tg]

----------------------------------------------------------------------------
(* monitors of one observed step; g1 = ghost after the step *)

(* slotnow = the current slot: req holds the requests of the current slot only, a keys message of
   an earlier slot that is still in flight is not judged by X1_SignersRequested *)
X2_Rule(m, g1, slotnow) ==
    (IF SR!Admissible(SigCase(m)) THEN {} ELSE {"C06_OnlyIf"}) \cup
    (IF m.ok THEN {} ELSE {"X2_KeysCorrect"}) \cup
    (IF m.c.slot # slotnow \/ \A i \in DOMAIN m.signers : (m.signers[i] \in KeyperIdx) => m.c \in g1.req[m.signers[i] + 1]
     THEN {} ELSE {"X1_SignersRequested"})

StepViol(g0, g1, w0, a, o, prod, w1) ==
    LET k == a.n + 1 IN
    (IF G!P_Accepted([verdict |-> o.verdict, prod |-> prod]) THEN {} ELSE {"C03_Accepted"}) \cup
    UNION {X2_Rule(m, g1, w0.slot) : m \in AcceptedKeys(a, o, prod)} \cup
    (IF a.a = "dlv" /\ a.m.t = "shares" /\ o.verdict = "accept" /\ ~(a.m.sigs = <<"ok">> /\ a.m.ok) THEN {"X2_ShareGenuine"} ELSE {}) \cup
    (IF a.a = "tick" /\ o.r.out = "emit"
     THEN RequestFailed(g1.gh[k], QueueObs(w0, k), TheEon, w0.slot, o.r.trig.ids) \cup
          (IF \A r1 \in g1.recs \ g0.recs : \A r2 \in g1.recs : r1.k # r2.k => AgreeOK2(r1, r2) THEN {} ELSE {"C19_Agree"}) \cup
          (IF CurOf(w1.kp[k]).row /\ CurOf(w1.kp[k]).slot = w0.slot /\ CurOf(w1.kp[k]).ids = o.r.trig.ids THEN {} ELSE {"X1_TriggerStored"})
     ELSE {}) \cup
    UNION {KeysFailed(RowOf(w1, k), c.p, Len(c.ids)) : c \in Processed(w0, a, o, prod)} \cup
    (IF a.a = "sync" /\ ~CS!C15_Exact(w1.ch.blk, w1.ch.head, 0, w1.kp[k].sy) THEN {"C15_Exact"} ELSE {}) \cup
    (IF a.a = "tick" /\ o.r.out \in {"panic", "hang"} THEN {"X_NoPanic"} ELSE {})

----------------------------------------------------------------------------
(* X4: the end of a slot (before the next slot begins / at the end of the behaviour), nothing in
   flight.  g = ghost, w = tables at that moment *)
SlotContents(g) == UNION {g.req[k] : k \in KSeq}
Holders(g, w, c) == {k \in KSeq : c \in g.req[k] /\ CurContent(w.kp[k]) = c}

X4_Premise(g, w, c) ==
    LET n == Cardinality(Holders(g, w, c)) IN
    /\ n >= T
    /\ g.rst = {}
    /\ \A k \in KSeq : g.lost[k] <= n - T

(* GNO-1 (the code as found): a keyper that only ANNOUNCED the keys of c (gnosis key share
   handler: it held all of them before it had a threshold of signatures) and neither accepted nor
   released a keys message of c has not moved its own tx pointer *)
AnnouncedOnly(g, k, c) == c \in g.ann[k] /\ c \notin g.fin[k]
Advanced(w, k, c) == RowOf(w, k).row /\ RowOf(w, k).value = c.p + Len(c.ids) - 1

X4_Conclusion(g, w, c) ==
    /\ c \in g.an
    /\ \A k \in KSeq :
         /\ IdsOf(c) \subseteq w.kp[k].ky
         /\ c \in g.fin[k] \/ c \in g.ann[k]
         /\ Advanced(w, k, c) \/ AnnouncedOnly(g, k, c)

EndViol(g, w) ==
    IF \A c \in SlotContents(g) : X4_Premise(g, w, c) => X4_Conclusion(g, w, c) THEN {} ELSE {"X4_AllRelease"}

(* observations (not verdicts of C19): where the exception above was needed *)
EndObsv(g, w) ==
    IF \E c \in SlotContents(g) : X4_Premise(g, w, c) /\ \E k \in KSeq : AnnouncedOnly(g, k, c) /\ ~Advanced(w, k, c)
    THEN {"GNO1_AnnouncerPointerNotAdvanced"} ELSE {}

(* the final key judgement: judge = sequence of [id, per |-> sequence over keypers of [has, fp, dec]] *)
JudgeViol(judge) ==
    (IF \A x \in DOMAIN judge : \A i, j \in DOMAIN judge[x].per :
          (judge[x].per[i].has /\ judge[x].per[j].has) => judge[x].per[i].fp = judge[x].per[j].fp
     THEN {} ELSE {"X4_SameKey"}) \cup
    (IF \A x \in DOMAIN judge : \A i \in DOMAIN judge[x].per : judge[x].per[i].has => judge[x].per[i].dec
     THEN {} ELSE {"X4_Decrypt"})

=============================================================================
