--------------------------- MODULE GossipCrashTrace ---------------------------
(***************************************************************************)
(* Trace layer of C05.  One line per delivery executed on a real node      *)
(* assembly: c = the case (GossipCrash), o = the observed outcome          *)
(* (GossipCrashProps).  Pass A: the monitors (viol).  Pass B: the observed *)
(* (verdict, handling) is one the code-shaped layer allows (drift).        *)
(***************************************************************************)
EXTENDS GossipCrashProps, Json, TLC, SequencesExt

CONSTANT TraceFile
Trace == ndJsonDeserialize(TraceFile)

VARIABLES l, viol, drift
tvars == <<l, viol, drift>>

TInit == l = 1 /\ viol = {} /\ drift = {}
TNext ==
    /\ l <= Len(Trace)
    /\ l' = l + 1
    /\ LET c == Trace[l].c  o == Trace[l].o IN
       /\ viol' = viol \cup {<<l, mon>> : mon \in Failed(o)}
       /\ drift' = drift \cup (IF [v |-> o.v, h |-> o.h] \in Outcomes(c) THEN {} ELSE {l})
TSpec == TInit /\ [][TNext]_tvars

Done == l <= Len(Trace) \/
        PrintT(<<"RESULT", ToJson([lines |-> Len(Trace), viol |-> SetToSeq(viol), drift |-> SetToSeq(drift)])>>)
=============================================================================
