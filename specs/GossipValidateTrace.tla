-------------------------- MODULE GossipValidateTrace --------------------------
(***************************************************************************)
(* Trace layer of C04.  One line per case executed on the real code:       *)
(*   c   the case: flavour, message record, receiver state, history        *)
(*       (GossipValidate); the warm-up delivery of a "stale" case is a     *)
(*       line of its own (judged like every other delivery)               *)
(*   o   the observed outcome:                                             *)
(*        v     verdict of the real combined topic validator               *)
(*              ("accept" | "reject" | "ignore" | "panic" | "timeout")     *)
(*        why   class of the error the handler's validator / the envelope  *)
(*              decoder reported ("" on accept)                            *)
(*        h     Handle was called (the driver does so only on accept)      *)
(*        herr  "" | class of the error / "panic" / "timeout" of Handle    *)
(*        out   messages returned by Handle: [mt, n = number of keys,      *)
(*              good = every key is the dealer's key for its identity]     *)
(*        d     rows added: decryption_key_share, decryption_key, any      *)
(*              other table changed                                        *)
(*        nv    number of validators registered on the topic               *)
(* Cases of class "random" (arbitrary decodable protobufs from the seeded  *)
(* generator, classified syntactically into the record) are judged by the  *)
(* same operators.                                                         *)
(* Pass A: the monitors of GossipValidateProps (viol).  Pass B: the        *)
(* outcome equals the one the code-shaped layer computes (drift).          *)
(***************************************************************************)
EXTENDS GossipValidateProps, Json, TLC, SequencesExt

CONSTANT TraceFile
Trace == ndJsonDeserialize(TraceFile)

VARIABLES l, viol, drift
tvars == <<l, viol, drift>>

TInit == l = 1 /\ viol = {} /\ drift = {}
TNext ==
    /\ l <= Len(Trace)
    /\ l' = l + 1
    /\ LET fl == Trace[l].c.fl  m == Trace[l].c.m  recv == Trace[l].c.recv  o == Trace[l].o IN
       /\ viol' = viol \cup {<<l, mon>> : mon \in Failed(fl, m, recv, o)}
       /\ drift' = drift \cup (IF Conforms(fl, m, recv, o) THEN {} ELSE {l})
TSpec == TInit /\ [][TNext]_tvars

Done == l <= Len(Trace) \/
        PrintT(<<"RESULT", ToJson([lines |-> Len(Trace), viol |-> SetToSeq(viol), drift |-> SetToSeq(drift)])>>)
=============================================================================
