------------------------------ MODULE SMConst_val6 ------------------------------
(* six genesis keypers, threshold 2: the check-in quorum is max(2, 6 - 2 + 1) = 5; fork disabled *)
cAddrs == {"a1", "a2", "a3", "a4", "a5", "a6"}
cKeyOrd == <<"v1", "v2", "v3", "none", "v4", "v5", "v6", "v9">>
cGenesis == [keypers |-> <<"a1", "a2", "a3", "a4", "a5", "a6">>, thr |-> 2, eon0 |-> 0,
             vals |-> [k \in {"v1", "v2", "v3", "none", "v4", "v5", "v6", "v9"} |-> IF k = "v9" THEN 10 ELSE 0],
             forkOn |-> FALSE, forkH |-> 0, dev |-> FALSE, legacy |-> FALSE]
cCands == << [keypers |-> <<"a1", "a2">>, thr |-> 2, act |-> 1, idx |-> 1] >>
cSeenBlocks == {1}
cCheckKeys == {"v1", "v4"}
cEons == {1}
=============================================================================
