--------------------------- MODULE KeyperGovProps ---------------------------
(***************************************************************************)
(* Property layer of the keyper half of keyper-set governance (reported    *)
(* under C11).  Every monitor is an operator over ONE OBSERVED LINE of a   *)
(* run and a ghost that is folded from earlier lines only:                 *)
(*   iter line  a keyper ran one loop iteration: projected database before *)
(*              (pre), after SyncAppWithDB (s1), after handleOnChain-      *)
(*              Changes (s2), after SendShutterMessages (s3); the messages *)
(*              it broadcast with shuttermint's answers (sent); and GROUND *)
(*              TRUTH read from the chain itself, not from the keyper's    *)
(*              tables: acc = configs shuttermint accepted, with the block *)
(*              height of the BatchConfig event                            *)
(*   fin line   end of a run that was continued with a fair schedule       *)
(* "Scheduled in this iteration" = the messages handleOnChainChanges       *)
(* appended to the outbox (s2.outbox minus its prefix s1.outbox).          *)
(* The same operators are action properties of the composed model          *)
(* (KeyperGovMC) and pass-A monitors over traces of the real code          *)
(* (KeyperGovTrace).                                                       *)
(***************************************************************************)
EXTENDS KeyperGov, ShuttermintProps

GGhostInit == [voted |-> [a \in Addrs |-> {}],      \* config indices a has scheduled a vote for
               rep   |-> [a \in Addrs |-> -1]]      \* last block a has scheduled a report for

NewMsgs(ln) ==
    IF IsPrefix(ln.s1.outbox, ln.s2.outbox)
    THEN SubSeq(ln.s2.outbox, Len(ln.s1.outbox) + 1, Len(ln.s2.outbox))
    ELSE ln.s2.outbox
NewVotes(ln) == SelectSeq(NewMsgs(ln), LAMBDA m : m.k = "vote")
NewSeens(ln) == SelectSeq(NewMsgs(ln), LAMBDA m : m.k = "seen")

(* configs accepted by shuttermint in blocks the keyper has synced (ground truth) *)
AccAt(ln) == SelectSeq(ln.acc, LAMBDA x : x.h <= ln.s1.synced)
KnownCfgs(ln) == [i \in DOMAIN AccAt(ln) |-> AccAt(ln)[i].cfg]
MaxIdx(cfgs) == IF cfgs = <<>> THEN -1 ELSE Max({cfgs[i].idx : i \in DOMAIN cfgs})
NewestOf(cfgs) == CHOOSE c \in ToSet(cfgs) : c.idx = MaxIdx(cfgs)

(* G1: at most one vote per keyper-config index, never for an index <= the latest accepted *)
G1_OneVotePerIndex(g, ln) ==
    ln.k = "iter" =>
      LET v == NewVotes(ln) IN
      /\ \A i, j \in DOMAIN v : v[i].cfg.idx = v[j].cfg.idx => i = j
      /\ \A i \in DOMAIN v : v[i].cfg.idx \notin g.voted[ln.a]
G1_AboveAccepted(g, ln) ==
    ln.k = "iter" =>
      LET v == NewVotes(ln) IN
      \A i \in DOMAIN v : KnownCfgs(ln) # <<>> /\ v[i].cfg.idx > MaxIdx(KnownCfgs(ln))

(* G2: a scheduled vote passes shuttermint's structural checks (BatchConfigFromMessage,
   EnsureValid, checkConfig) against what shuttermint had accepted when it was scheduled;
   and the real app never answers a vote with a malformed/invalid-config error *)
StructOk(c, newest) ==
    /\ \A i \in DOMAIN c.keypers : c.keypers[i] \in Addrs     \* 20-byte addresses of the universe
    /\ NoDup(c.keypers)
    /\ EnsureValid(c)
    /\ c.act >= newest.act
    /\ c.idx > newest.idx
G2_Structural(g, ln) ==
    ln.k = "iter" =>
      LET v == NewVotes(ln) IN
      \A i \in DOMAIN v : KnownCfgs(ln) # <<>> /\ StructOk(v[i].cfg, NewestOf(KnownCfgs(ln)))
G2_NoStructError(g, ln) ==
    ln.k = "iter" =>
      \A i \in DOMAIN ln.sent :
        (ln.sent[i].m.k = "vote" /\ ln.sent[i].res = "err") => ln.sent[i].why \notin {"malformed", "invalid"}

(* G3: BlockSeen(b) only if an accepted config with activation in [last reported, b] names the
   keyper as a member; reports never decrease.  (Shuttermint counts a report r for a config iff
   r >= activation.  The window is closed at its lower end because the code's own window is
   last_block_seen <= activation < b: a config that activates exactly AT the last reported block
   is reported once more.  That second report cannot start anything; it is returned as the
   OBSERVATION "G3_DuplicateReport", not as a failure.)
   Returns [bad, obs]. *)
RECURSIVE G3Fold(_, _, _, _)
G3Fold(a, cfgs, rep, seens) ==
    IF seens = <<>> THEN [bad |-> {}, obs |-> {}]
    ELSE LET b == Head(seens).b
             just == \E i \in DOMAIN cfgs : IsMember(cfgs[i], a) /\ rep <= cfgs[i].act /\ cfgs[i].act <= b
             news == \E i \in DOMAIN cfgs : IsMember(cfgs[i], a) /\ rep < cfgs[i].act /\ cfgs[i].act <= b
             rest == G3Fold(a, cfgs, IF b > rep THEN b ELSE rep, Tail(seens))
         IN [bad |-> rest.bad \cup (IF b >= rep THEN {} ELSE {"G3_Monotone"})
                              \cup (IF just THEN {} ELSE {"G3_Justified"}),
             obs |-> rest.obs \cup (IF just /\ ~news THEN {"G3_DuplicateReport"} ELSE {})]
G3(g, ln) == IF ln.k = "iter" THEN G3Fold(ln.a, KnownCfgs(ln), g.rep[ln.a], NewSeens(ln))
             ELSE [bad |-> {}, obs |-> {}]

(* G4 (bounded liveness, observed): the run was continued with a fair schedule (every keyper of
   ln.live iterates with an unlimited budget, blocks are closed, the main chain is at ln.mc);
   then no valid next keyper set is still waiting and no accepted config is still unstarted.
   ENVIRONMENT ASSUMPTION: activation blocks of successive on-chain keyper sets are
   non-decreasing (the contract enforces it).  Outside the assumption the clauses are not
   asserted; what happens there is returned as an observation:
   "HeadOfLineBlocked": a keyper whose outbox HEAD is a vote shuttermint can never accept
   (activation below / index not above the newest accepted config) -- isRetrieable is constant
   TRUE, so the vote is retried for ever and nothing behind it is ever sent: the keyper is mute. *)
LiveQuorum(c, live) == Cardinality({i \in DOMAIN c.keypers : c.keypers[i] \in live}) >= c.thr

EnvMonotone(sets) == \A i, j \in DOMAIN sets : sets[i].idx < sets[j].idx => sets[i].act <= sets[j].act

StuckHead(ob, last) ==
    ob # <<>> /\ ob[1].k = "vote" /\ ob[1].cfg # Bare(last) /\
    (ob[1].cfg.act < last.act \/ ob[1].cfg.idx <= last.idx)
FinLast(ln) == ln.configs[Len(ln.configs)]
FinStuck(ln) == {a \in ToSet(ln.live) : StuckHead(ln.kps[a].outbox, FinLast(ln))}

G4Waiting(ln, live) ==
    \E i \in DOMAIN ln.gsets :
       LET s == ln.gsets[i] IN
       /\ s.idx = FinLast(ln).idx + 1
       /\ ValidSet(Bare(FinLast(ln)), s)
       /\ ~NotYet(s, ln.mc)
       /\ LiveQuorum(FinLast(ln), live)
G4Unstarted(ln, live) ==
    \E i \in DOMAIN ln.configs :
       i > 1 /\ ln.mc > ln.configs[i].act /\ LiveQuorum(ln.configs[i - 1], live) /\ ~ln.configs[i].started

G4(g, ln) ==
    IF ln.k # "fin" THEN [bad |-> {}, obs |-> {}]
    ELSE LET live == ToSet(ln.live)
             env  == EnvMonotone(ln.gsets)
             w    == G4Waiting(ln, live)
             u    == G4Unstarted(ln, live)
         IN [bad |-> (IF env /\ w THEN {"G4_Accepted"} ELSE {}) \cup (IF env /\ u THEN {"G4_Started"} ELSE {}),
             obs |-> (IF ~env /\ w THEN {"G4_Accepted_OutsideEnv"} ELSE {}) \cup
                     (IF ~env /\ u THEN {"G4_Started_OutsideEnv"} ELSE {}) \cup
                     (IF FinStuck(ln) # {} THEN {"HeadOfLineBlocked"} ELSE {})]

GGhostNext(g, ln) ==
    IF ln.k = "iter"
    THEN [g EXCEPT
            !.voted[ln.a] = @ \cup {NewVotes(ln)[i].cfg.idx : i \in DOMAIN NewVotes(ln)},
            !.rep[ln.a] = LET bs == {NewSeens(ln)[i].b : i \in DOMAIN NewSeens(ln)} \cup {@} IN Max(bs)]
    ELSE g

GMonitorNames == {"G1_OneVotePerIndex", "G1_AboveAccepted", "G2_Structural", "G2_NoStructError"}
GHolds(name, g, ln) ==
    CASE name = "G1_OneVotePerIndex" -> G1_OneVotePerIndex(g, ln)
      [] name = "G1_AboveAccepted"   -> G1_AboveAccepted(g, ln)
      [] name = "G2_Structural"      -> G2_Structural(g, ln)
      [] name = "G2_NoStructError"   -> G2_NoStructError(g, ln)

(* monitors that are false on the observed line *)
GFailed(g, ln) == {m \in GMonitorNames : ~GHolds(m, g, ln)} \cup G3(g, ln).bad \cup G4(g, ln).bad
(* observations: things worth reporting that are not failures of G1-G4 as stated *)
GObs(g, ln) == G3(g, ln).obs \cup G4(g, ln).obs

----------------------------------------------------------------------------
(* G5 on the composed MODEL: the C11 monitors of ShuttermintProps on every application call an
   iteration or a block end makes (on the real code they are evaluated by ShuttermintTrace on
   the application side of the run).  C11_NonceOnce is not meaningful here because the model
   abstracts nonces; it is checked on the code. *)
C11Model == {"C11_Accept", "C11_ConfigsStable", "C11_OneVote", "C11_EonFresh", "C11_Restart", "C11_Started"}

StepR(st) == [kind |-> st.kind, tx |-> st.tx, code |-> st.code, events |-> st.events, updates |-> st.updates]

RECURSIVE FoldSteps(_, _)
(* returns [g, bad]: the sm ghost after the steps and the C11 monitors that failed on one of them *)
FoldSteps(acc, steps) ==
    IF steps = <<>> THEN acc
    ELSE LET st == Head(steps)
             r  == StepR(st)
             bad == {m \in C11Model : ~Holds(m, acc.g, st.pre, st.kind, st.tx, r, st.post)}
             g1 == GhostNext(acc.g, st.pre, st.kind, st.tx, r, st.post)
         IN FoldSteps([g |-> [g1 EXCEPT !.nonces = {}], bad |-> acc.bad \cup bad], Tail(steps))

=============================================================================
