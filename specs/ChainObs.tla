------------------------------ MODULE ChainObs ------------------------------
(***************************************************************************)
(* Code-shaped layer of the CHAIN OBSERVER (growth stage of C15), written  *)
(* from the tree AS FOUND:                                                 *)
(*   chainobserver/observer.go   New, AddListenEvent, Start (cursor from   *)
(*                               event_sync_progress and the deployment    *)
(*                               blocks), handleSyncLoop                   *)
(*   chainobserver/eventsync.go  handleEventSyncUpdate (ONE transaction:   *)
(*                               handler + UpdateEventSyncProgress)        *)
(*   chainobserver/handler.go    handleEvent                               *)
(*   chainobserver/addrseq.go    RetryGetAddrs (eth_call at LATEST)        *)
(*   chainobserver/db/keyper/handler.go    PutDB (KeypersConfigsList       *)
(*                               NewConfig -> keyper_set)                  *)
(*   chainobserver/db/collator/handler.go  PutDB (CollatorConfigsList      *)
(*                               NewConfig -> chain_collator)              *)
(*   chainobserver/db/*/sql/queries/*.sql  InsertKeyperSet (ON CONFLICT DO *)
(*                               NOTHING), InsertChainCollator (no ON      *)
(*                               CONFLICT), Get/UpdateEventSyncProgress    *)
(*   medley/eventsyncer/eventsyncer.go     sync (pages of pageSizeBlocks   *)
(*                               blocks, finalityOffset blocks behind the  *)
(*                               head), syncAllInRange, sendLogItemsTo-    *)
(*                               Channel (cursor filter), Next (UnpackLog) *)
(*   contract/extend.go          AddrsSeqCaller.GetAddrs (countNth + at)   *)
(*   keyperimpl/snapshot/keyper.go, contract/deployment  how it is built   *)
(*                                                                         *)
(* The main chain is the block TREE of ChainSync.tla (records [num, par,   *)
(* evs, len]; len = k > 1 is a RUN of k eventless blocks).  Here evs is    *)
(* the SEQUENCE of NewConfig events in the block, ordered by their log     *)
(* position.  An event is a record                                         *)
(*   t    "ks" KeypersConfigsList.NewConfig(activationBlockNumber,         *)
(*        keyperSetIndex, keyperConfigIndex, threshold)                    *)
(*        "co" CollatorConfigsList.NewConfig(activationBlockNumber,        *)
(*        collatorSetIndex, collatorConfigIndex)                           *)
(*   idx  config index; act activation block; thr threshold: small         *)
(*        numbers or the boundary tokens below                             *)
(*   set  index into Sets, the state of the AddrsSeq contract(s):          *)
(*        Sets[s] = [mem |-> sequence of member ids, ans |-> what the      *)
(*        node answers to countNth / at:  "ok" | "revert" (n out of range) *)
(*        | "empty" (undecodable answer) | "huge" (countNth = 2^40)]       *)
(*   c    log data: "ok" | "long" (trailing bytes: decodes) | "short"      *)
(*        (truncated) | "wide" (a uint64 word >= 2^64): UnpackLog fails |  *)
(*        "nodata" (no data at all): bind.UnpackLog skips the decoding of  *)
(*        empty data, every field of the event is 0;  "xtopic" (a second   *)
(*        topic although the event has no indexed field): UnpackLog fails  *)
(*   pos  log index in the block                                           *)
(*                                                                         *)
(* Database of one observer: db = [nb, li, ks, co]: event_sync_progress    *)
(* (next_block_number, next_log_index: int32 columns), keyper_set rows     *)
(* [idx, act, mem, thr], chain_collator rows [act, col].  In-memory state  *)
(* of a running observer: mem = [from, fb, fl] (the sync loop's fromBlock, *)
(* EventSyncer.FromBlock / FromLogIndex).                                  *)
(*                                                                         *)
(* There is NO reorg handling: the observer trails FinOff blocks behind    *)
(* the head and never looks back.  There is no check of index order,       *)
(* gaps, activation order, threshold or members: what the event says is    *)
(* stored; the first row for an index wins (ON CONFLICT DO NOTHING).       *)
(*                                                                         *)
(* Named alternatives (the code AS FOUND first):                           *)
(*   ErrMode  "skip":  handleSyncLoop logs ANY error of the handler or of  *)
(*            the transaction ("error in handler function, skipping        *)
(*            event") and goes on; the next item moves the progress past   *)
(*            the event.  errors.Is(err, ErrDBUpdateFail) never holds:     *)
(*            errors.Wrap(err, ErrDBUpdateFail.Error()) only copies the    *)
(*            TEXT.                                                        *)
(*            "fatal": errors other than a deliberately refused event      *)
(*            (activation block > MaxInt64, several collators, a collator  *)
(*            activation block that is stored already: 23505) end the      *)
(*            service; the event is retried after the restart              *)
(*            (docs/fixes-proposed/CHAINOBS-1.diff)                        *)
(*   CountCap 0: GetAddrs loops countNth times, one eth_call each, and     *)
(*            appends: an answer of 2^40 never ends;  c > 0: refused       *)
(*            (CHAINOBS-2.diff)                                            *)
(*   WrapAt   abstract block number from which int32(nextBlockNumber) is   *)
(*            negative (real 2^31); 0 = never (CHAINOBS-3: bigint)         *)
(*   CursorRule "gt": Start uses the saved (block, log index) only when    *)
(*            the saved block is GREATER than the first deployment block;  *)
(*            with the saved block equal to it the log index is dropped,   *)
(*            the events of that block are handled again and the progress  *)
(*            moves backwards;  "ge": greater or equal (CHAINOBS-4.diff)   *)
(***************************************************************************)
EXTENDS Integers, Sequences, FiniteSets, TLC

CONSTANTS
    FinOff,      \* finalityOffset (const 3)
    Page,        \* pageSizeBlocks (const 3)
    DeployKs,    \* FromBlockNumber of KeypersConfigsList.NewConfig (receipt.blockNumber of the deployment)
    DeployCo,    \* ... of CollatorConfigsList.NewConfig
    Sets,        \* the AddrsSeq state (see above)
    BaseZero,    \* TRUE: abstract block 0 is the real block 0 (FALSE: the chain starts just below 2^31)
    InitNb,      \* abstract value of next_block_number in a fresh database (0; Low when ~BaseZero)
    ErrMode, CountCap, WrapAt, CursorRule

CS == INSTANCE ChainSync

(* boundary tokens (TLC integers are 32 bit) *)
M63 == 900000     \* 2^63 - 1   (fits an int64)
P63 == 900001     \* 2^63
U64 == 900002     \* 2^64 - 1
T31 == 900003     \* 2^31       (does not fit an int32)
T32 == 900004     \* 2^32 + 1   (low 32 bits = 1)
Low == -500000    \* a real number far below the chain (the seed row (0,0) when the chain starts near 2^31)
WrapBig == 1000000  \* stands for 2^32: a wrapped block number n is stored as n - WrapBig
Huge == 2000000   \* uint64 of a negative int32

(* int64(uint64), int32(uint64) of the handler *)
Conv64(x) == CASE x = P63 -> -P63 [] x = U64 -> -1 [] OTHER -> x
Conv32(x) == CASE x = T31 -> -T31 [] x = T32 -> 1 [] x = P63 -> 0 [] x = U64 -> -1 [] x = M63 -> -1 [] OTHER -> x
(* int32(nextBlockNumber) in handleEventSyncUpdate; uint64(int32) in Start *)
I32P(n) == IF WrapAt > 0 /\ n >= WrapAt THEN n - WrapBig ELSE n
Wrapped(n) == n < -700000
U64P(n) == IF Wrapped(n) THEN Huge ELSE n

Min2(a, b) == IF a < b THEN a ELSE b
MinDeploy == Min2(DeployKs, DeployCo)

DB(nb, li, ks, co) == [nb |-> nb, li |-> li, ks |-> ks, co |-> co]
DB0 == DB(InitNb, 0, {}, {})
NoMem == [from |-> 0, fb |-> 0, fl |-> 0]

----------------------------------------------------------------------------
(* the records on the canonical chain ending in the record h (heads are record ends), root first *)
RECURSIVE PathTo(_, _)
PathTo(blk, b) == IF b < 1 \/ b > Len(blk) THEN <<>> ELSE Append(PathTo(blk, blk[b].par), b)

(* the events of the canonical chain ending in h with block numbers lo..hi, in chain order, as
   items [e, num, li] (what FilterLogs of both event types returns, sorted by syncAllInRange);
   events sit in the last block of their record, runs carry none *)
RECURSIVE ItemsOf(_, _, _, _, _)
ItemsOf(blk, path, i, lo, hi) ==
    IF i > Len(path) THEN <<>>
    ELSE LET b == path[i] IN
         (IF blk[b].num >= lo /\ blk[b].num <= hi
          THEN [j \in 1..Len(blk[b].evs) |-> [e |-> blk[b].evs[j], num |-> blk[b].num, li |-> blk[b].evs[j].pos]]
          ELSE <<>>) \o ItemsOf(blk, path, i + 1, lo, hi)
ItemsIn(blk, h, lo, hi) == IF lo > hi THEN <<>> ELSE ItemsOf(blk, PathTo(blk, h), 1, lo, hi)

HeadNum(blk, h) == blk[h].num

----------------------------------------------------------------------------
(* ChainObserver.Start: the cursor *)
StartMem(db) ==
    LET pb == U64P(db.nb) IN
    IF pb > MinDeploy \/ (CursorRule = "ge" /\ pb = MinDeploy) THEN [from |-> pb, fb |-> pb, fl |-> db.li]
    ELSE [from |-> MinDeploy, fb |-> MinDeploy, fl |-> 0]      \* the saved log index is used only with the saved block

(* EventSyncer.sync: upper end of the next page while the head has number cur *)
PageTo(from, cur) ==
    LET maxTo == IF BaseZero THEN (IF cur >= FinOff THEN cur - FinOff ELSE 0) ELSE cur - FinOff IN
    Min2(from + Page - 1, maxTo)

(* sendLogItemsToChannel: logs older than (FromBlock, FromLogIndex) are ignored *)
Keep(x, mem) == x.num > mem.fb \/ (x.num = mem.fb /\ x.li >= mem.fl)

(* contract.AddrsSeqCaller.GetAddrs through RetryGetAddrs (3 retries) *)
GetAddrs(s) ==
    IF s \notin DOMAIN Sets THEN [r |-> "fail", mem |-> <<>>]
    ELSE CASE Sets[s].ans = "ok"   -> [r |-> "ok", mem |-> Sets[s].mem]
           [] Sets[s].ans = "huge" -> [r |-> IF CountCap = 0 THEN "hang" ELSE "fail", mem |-> <<>>]
           [] OTHER                -> [r |-> "fail", mem |-> <<>>]

BadData == {"short", "wide", "xtopic"}
(* what Next hands to the handler *)
Decode(e) == IF e.c = "nodata" THEN [e EXCEPT !.idx = 0, !.act = 0, !.set = 1, !.thr = 0] ELSE e

(* faults: f = [k, at, w]
     k   "none"
         "rpcB" / "rpcL"  eth_blockNumber / eth_getLogs keep failing (retry gives up): sync returns
         "rpc1"           eth_blockNumber fails once (the retry succeeds)
         "rpcM"           the eth_calls of GetAddrs keep failing while item at is handled
         "err" / "drop"   the SQL statement w of item at gets an SQL error / the connection is lost
         "dropc"          the commit of item at is installed, the connection lost before the reply
         "crash"          the process stops when item at is about to be handled
         "crashc"         the process stops right after the commit of item at
     at  index of the item in the page (the end marker is item n+1)
     w   "begin" | "ins" | "upd" | "commit" | "-"                                               *)
NoFault == [k |-> "none", at |-> 0, w |-> "-"]
SqlHit(f, w) == f.k \in {"err", "drop"} /\ f.w = w

(* PutDB of both handlers up to (and including) the INSERT, without SQL faults:
   res "ok" | "err" | "hang";  cls what happened;  ins: the INSERT statement is reached *)
Handler(db, e0, f) ==
    LET e == Decode(e0)
        ga == IF f.k = "rpcM" THEN [r |-> "fail", mem |-> <<>>] ELSE GetAddrs(e.set) IN
    IF ga.r = "hang" THEN [res |-> "hang", db |-> db, cls |-> "hang", ins |-> FALSE]
    ELSE IF ga.r = "fail" THEN [res |-> "err", db |-> db, cls |-> "mem", ins |-> FALSE]
    ELSE IF e.act \in {P63, U64} THEN [res |-> "err", db |-> db, cls |-> "act", ins |-> FALSE]
    ELSE IF e.t = "ks" THEN
         LET row == [idx |-> Conv64(e.idx), act |-> e.act, mem |-> ga.mem, thr |-> Conv32(e.thr)] IN
         IF \E r \in db.ks : r.idx = row.idx
         THEN [res |-> "ok", db |-> db, cls |-> "conf", ins |-> TRUE]                        \* ON CONFLICT DO NOTHING
         ELSE [res |-> "ok", db |-> [db EXCEPT !.ks = @ \cup {row}], cls |-> "stored", ins |-> TRUE]
    ELSE IF Len(ga.mem) > 1 THEN [res |-> "err", db |-> db, cls |-> "multi", ins |-> FALSE]
    ELSE IF Len(ga.mem) = 0 THEN [res |-> "ok", db |-> db, cls |-> "noins", ins |-> FALSE]
    ELSE IF \E r \in db.co : r.act = e.act
         THEN [res |-> "err", db |-> db, cls |-> "dupco", ins |-> TRUE]                      \* 23505: no ON CONFLICT
         ELSE [res |-> "ok", db |-> [db EXCEPT !.co = @ \cup {[act |-> e.act, col |-> ga.mem[1]]}], cls |-> "stored", ins |-> TRUE]

(* is statement w of the transaction of event item x reached? *)
Reaches(db, x, w) ==
    LET h == Handler(db, x.e, NoFault) IN
    CASE w = "begin"  -> TRUE
      [] w = "ins"    -> h.ins
      [] w = "upd"    -> h.res = "ok"
      [] w = "commit" -> h.res = "ok"
      [] w = "mem"    -> GetAddrs(Decode(x.e).set).r = "ok"
      [] OTHER        -> FALSE

(* handleEventSyncUpdate for an event item: [db, com (committed), err "none" | "refused" | "fail", cls] *)
EventTx(db, x, f) ==
    LET h == Handler(db, x.e, f)
        rb(c, e) == [db |-> db, com |-> FALSE, err |-> e, cls |-> c]
    IN IF SqlHit(f, "begin") THEN rb("sql", "fail")
       ELSE IF h.res = "hang" THEN rb("hang", "hang")
       ELSE IF h.ins /\ SqlHit(f, "ins") THEN rb("sql", "fail")
       ELSE IF h.res = "err" THEN rb(h.cls, IF h.cls \in {"act", "multi", "dupco"} THEN "refused" ELSE "fail")
       ELSE IF SqlHit(f, "upd") \/ SqlHit(f, "commit") THEN rb("sql", "fail")
       ELSE LET db2 == [h.db EXCEPT !.nb = I32P(x.num), !.li = x.li + 1] IN
            IF f.k = "dropc" THEN [db |-> db2, com |-> TRUE, err |-> "fail", cls |-> "cc"]
            ELSE [db |-> db2, com |-> TRUE, err |-> "none", cls |-> h.cls]

(* ... for the end marker of a page [.., to] *)
EndTx(db, to, f) ==
    IF SqlHit(f, "begin") \/ SqlHit(f, "upd") \/ SqlHit(f, "commit") THEN [db |-> db, com |-> FALSE, err |-> "fail", cls |-> "endsql"]
    ELSE LET db2 == [db EXCEPT !.nb = I32P(to + 1), !.li = 0] IN
         IF f.k = "dropc" THEN [db |-> db2, com |-> TRUE, err |-> "fail", cls |-> "endcc"]
         ELSE [db |-> db2, com |-> TRUE, err |-> "none", cls |-> "end"]

(* handleSyncLoop over the items of one page; result [seq (committed states), ret, outs] with
   ret "ok" (the loop waits for the next page) | "dead" (the service returned an error) | "crash" |
   "hang" *)
RECURSIVE Fold(_, _, _, _, _)
Fold(db, its, i, f, to) ==
    LET hit == f.at = i
        fi  == IF hit THEN f ELSE NoFault
        isEnd == i > Len(its)
    IN IF ~isEnd /\ its[i].e.c \in BadData THEN [seq |-> <<>>, ret |-> "dead", outs |-> <<"unpack">>]      \* Next: UnpackLog fails
       ELSE IF hit /\ f.k = "crash" THEN [seq |-> <<>>, ret |-> "crash", outs |-> <<"crash">>]
       ELSE LET r == IF isEnd THEN EndTx(db, to, fi) ELSE EventTx(db, its[i], fi)
                cs == IF r.com THEN <<r.db>> ELSE <<>>
            IN IF r.err = "hang" THEN [seq |-> <<>>, ret |-> "hang", outs |-> <<"hang">>]
               ELSE IF hit /\ f.k = "crashc" THEN [seq |-> cs, ret |-> "crash", outs |-> <<r.cls, "crash">>]
               ELSE IF r.err = "fail" /\ ErrMode = "fatal" THEN [seq |-> cs, ret |-> "dead", outs |-> <<r.cls>>]
               ELSE IF isEnd THEN [seq |-> cs, ret |-> "ok", outs |-> <<r.cls>>]
               ELSE LET rest == Fold(r.db, its, i + 1, f, to) IN
                    [seq |-> cs \o rest.seq, ret |-> rest.ret, outs |-> <<r.cls>> \o rest.outs]

LastOf(db, seq) == IF Len(seq) = 0 THEN db ELSE seq[Len(seq)]

(* one iteration of EventSyncer.sync together with the handling of everything it puts on the
   channel, while the node's canonical head is h:
   [seq, db, ret ("ok" | "idle" | "dead" | "crash" | "hang"), outs, mem, rng (blocks fetched)] *)
Poll(blk, h, db, mem, f) ==
    LET cur == HeadNum(blk, h)
        to  == PageTo(mem.from, cur)
        res(seq, ret, outs, m, rng) == [seq |-> seq, db |-> LastOf(db, seq), ret |-> ret, outs |-> outs, mem |-> m, rng |-> rng]
    IN IF f.k = "rpcB" THEN res(<<>>, "dead", <<>>, mem, <<>>)
       ELSE IF to < mem.from THEN res(<<>>, "idle", <<>>, mem, <<>>)
       ELSE IF f.k = "rpcL" THEN res(<<>>, "dead", <<>>, mem, <<mem.from, to>>)
       ELSE LET its == SelectSeq(ItemsIn(blk, h, mem.from, to), LAMBDA x : Keep(x, mem))
                r   == Fold(db, its, 1, f, to)
            IN res(r.seq, r.ret, r.outs, [mem EXCEPT !.from = to + 1], <<mem.from, to>>)

(* the items of the next page (for enumerating fault positions) *)
PageItems(blk, h, mem) ==
    LET to == PageTo(mem.from, HeadNum(blk, h)) IN
    IF to < mem.from THEN <<>> ELSE SelectSeq(ItemsIn(blk, h, mem.from, to), LAMBDA x : Keep(x, mem))
PageIdle(blk, h, mem) == PageTo(mem.from, HeadNum(blk, h)) < mem.from

(* the database state in which item i of the page is handled when no fault occurs before it *)
RECURSIVE DbAt(_, _, _)
DbAt(db, its, i) == IF i <= 1 THEN db ELSE LET d == DbAt(db, its, i - 1) IN EventTx(d, its[i - 1], NoFault).db

(* is fault f meaningful for the page its handled from db?  (a fault on a statement that is never
   sent cannot be injected) *)
FaultFits(db, its, f) ==
    LET n == Len(its)
        \* no fault behind an item at which the loop ends anyway
        alive(i) == \A j \in 1..(i - 1) : j <= n => (its[j].e.c \notin BadData /\ Handler(DbAt(db, its, j), its[j].e, NoFault).res # "hang")
    IN CASE f.k \in {"none", "rpcB", "rpc1"} -> f.at = 0
         [] f.k = "rpcL" -> f.at = 0
         [] f.at < 1 \/ f.at > n + 1 -> FALSE
         [] ~alive(f.at) -> FALSE
         [] f.at = n + 1 -> f.k \in {"crash", "crashc", "dropc"} \/ (f.k \in {"err", "drop"} /\ f.w \in {"begin", "upd", "commit"})
         [] its[f.at].e.c \in BadData -> FALSE
         [] f.k = "rpcM" -> Reaches(DbAt(db, its, f.at), its[f.at], "mem")
         [] f.k \in {"err", "drop"} -> Reaches(DbAt(db, its, f.at), its[f.at], f.w)
         [] f.k \in {"dropc", "crashc"} -> Reaches(DbAt(db, its, f.at), its[f.at], "commit")
         [] f.k = "crash" -> TRUE
         [] OTHER -> FALSE

=============================================================================
