------------------------------ MODULE E2EProps ------------------------------
(***************************************************************************)
(* Property layer of the composition, over OBSERVED data only.  It carries *)
(* the last clause of C07 ("any t of their shares yield keys that decrypt  *)
(* messages encrypted to that eon key") and C03 / C01 across the boundary  *)
(* between key generation and key release:                                 *)
(*                                                                         *)
(*   fin   the observed outcome of phase 1 (DKGProps: dkg_result rows,     *)
(*         votes, key fingerprints, trial cryptography)                    *)
(*   x     the observed handover:                                          *)
(*           x.succ   keypers (1..N) whose node was started on a database  *)
(*                    with a successful dkg_result row                     *)
(*           x.pk     fingerprint of the eon public key the test messages  *)
(*                    of phase 2 are encrypted to (read from a dkg_result) *)
(*   o     one observed step of phase 2: [a, n, verdict, prod, panic]      *)
(*   tabs  the tables of all nodes after the step (keys judged by trial    *)
(*         decryption of a message encrypted to x.pk)                      *)
(*   e     the end of a schedule: [wt, pending, judge]; wt[r] = nodes      *)
(*         triggered for round r; judge[id][i] =                           *)
(*         [has, fp, dec] for identity id and keyper i: a decryption       *)
(*         key row exists, its fingerprint, it decrypts the message that   *)
(*         was encrypted to the DKG's eon key for that identity            *)
(***************************************************************************)
EXTENDS E2E

SeqSet(q) == {q[k] : k \in DOMAIN q}

(* the nodes of phase 2 run on exactly the databases phase 1 left behind *)
X_Succ(fin, x) == SeqSet(x.succ) = Succ(fin)
(* the key the messages are encrypted to is the eon key of every keyper that reported success *)
X_Key(fin, x)  == \A i \in Succ(fin) : fin.res[i].pk = x.pk

SuccNodes(x) == {i - 1 : i \in SeqSet(x.succ)}

(* every message a successful keyper produced is accepted by its own validators and by every
   other successful keyper *)
S_Accepted(x, o) ==
    (o.n \in SuccNodes(x)) => G!P_Accepted([verdict |-> o.verdict, prod |-> o.prod])
(* a keyper whose key generation failed never emits anything and rejects what it receives *)
S_FailedSilent(x, o) ==
    (o.n \notin SuccNodes(x)) => (o.prod = <<>> /\ o.verdict = IF o.a = "dlv" THEN "reject" ELSE "-")
(* no node ever stores a key that does not decrypt *)
S_KeysGood(tabs) == G!P_KeysGood(tabs)
(* a keyper whose key generation failed stores neither shares nor keys of that eon *)
S_FailedEmpty(x, tabs) == \A j \in Part \ SuccNodes(x) : tabs[j] = G!NodeInit

StepFailed(x, o, tabs) ==
    (IF o.panic = ""         THEN {} ELSE {"C07E_NoPanic"}) \cup
    (IF S_Accepted(x, o)     THEN {} ELSE {"C07E_Accepted"}) \cup
    (IF S_FailedSilent(x, o) THEN {} ELSE {"C07E_FailedSilent"}) \cup
    (IF S_FailedEmpty(x, tabs) THEN {} ELSE {"C07E_FailedSilent"}) \cup
    (IF S_KeysGood(tabs)     THEN {} ELSE {"C07E_KeysGood"})

(* e.wt[r] = the nodes triggered for round r *)
WtOf(e, r) == SeqSet(e.wt[r])
Enough(x, S) == Cardinality(S \cap SuccNodes(x)) >= T
RoundsWith(id) == {r \in G!RoundIdx : id \in G!IdsOf(r)}
(* the keypers that ever make a share for id *)
ShareHolders(x, e, id) == UNION {WtOf(e, r) \cap SuccNodes(x) : r \in RoundsWith(id)}

(* whenever at least T keypers that reported success are triggered for an identity list, every such
   keyper ends with the key of every identity of the list *)
E_AllHaveKeys(x, e, tabs) ==
    e.pending = 0 =>
        \A r \in G!RoundIdx : Enough(x, WtOf(e, r)) =>
            \A j \in SuccNodes(x) : \A id \in G!IdsOf(r) : tabs[j].keys[id] = "good"
(* fewer than T share holders of an identity (over all rounds that carry it): nobody has its key *)
E_NeverFewer(x, e, tabs) ==
    \A id \in G!IdSet : Cardinality(ShareHolders(x, e, id)) < T =>
        \A j \in G!Nodes : tabs[j].keys[id] = "none"
(* the same key, byte for byte, on every keyper that holds one *)
E_SameKey(e) ==
    \A id \in DOMAIN e.judge : \A i, j \in DOMAIN e.judge[id] :
        (e.judge[id][i].has /\ e.judge[id][j].has) => e.judge[id][i].fp = e.judge[id][j].fp
(* and it decrypts what was encrypted to the eon key the DKG produced *)
E_Decrypt(e) ==
    \A id \in DOMAIN e.judge : \A i \in DOMAIN e.judge[id] : e.judge[id][i].has => e.judge[id][i].dec

EndFailed(x, e, tabs) ==
    (IF E_AllHaveKeys(x, e, tabs) THEN {} ELSE {"C07E_AllHaveKeys"}) \cup
    (IF E_NeverFewer(x, e, tabs)  THEN {} ELSE {"C07E_NeverFewer"}) \cup
    (IF S_FailedEmpty(x, tabs)    THEN {} ELSE {"C07E_FailedSilent"}) \cup
    (IF E_SameKey(e)              THEN {} ELSE {"C07E_SameKey"}) \cup
    (IF E_Decrypt(e)              THEN {} ELSE {"C07E_Decrypt"})

HandoverFailed(fin, x) ==
    (IF X_Succ(fin, x) THEN {} ELSE {"C07E_Handover"}) \cup
    (IF X_Key(fin, x)  THEN {} ELSE {"C07E_EonKey"})

----------------------------------------------------------------------------
(* what the composed code-shaped spec predicts will be observed (library cryptography sound: a key
   is determined by the key material = set of summed dealers; it decrypts iff that is the material
   of the eon key the message was encrypted to) *)

SpecX(s) ==
    LET sk == SuccKeypers(s) IN
    [succ |-> SetSeq(sk), pk |-> IF sk = {} THEN NoMat ELSE s.kp[MinOf(sk)].qual]

SpecJudge(hv, x, node) ==
    [id \in G!IdSet |->
        [i \in K |-> [has |-> node[i - 1].keys[id] # "none", fp |-> hv.mat[i - 1], dec |-> hv.mat[i - 1] = x.pk]]]

=============================================================================
