------------------------- MODULE TriggerMatchDomain -------------------------
(***************************************************************************)
(* The abstract case domain of C17 and its concretisation.                 *)
(* A case descriptor names bytes by tokens; Concrete* expand a descriptor  *)
(* to the byte-level def / log / decoder input of TriggerMatch, given the  *)
(* record R of seeded random fillers (R.r1, R.r2: words, R.addr, R.addr2:  *)
(* addresses).  The Go concretiser (harness/trig/conc.go) does the same    *)
(* expansion on real objects; the trace layer checks that both agree.      *)
(*                                                                         *)
(*   pd  = [dyn, off: offset token, op, ia: Seq([s, t]), ba: Seq(token)]    *)
(*   ld  = [same: BOOLEAN, topics: Seq(token), words: Seq(token), cut: Nat] *)
(*   mut = [m: kind, pos, val]  (decoder input = mutation of the encoding)  *)
(***************************************************************************)
EXTENDS TriggerMatch

Rep(n, x) == [i \in 1..n |-> x]
WordOf(bytes) == Zeros(WORD - Len(bytes)) \o bytes

DefaultR == [r1 |-> [i \in 1..32 |-> (i * 7 + 158) % 256],
             r2 |-> [i \in 1..32 |-> (i * 11 + 101) % 256],
             addr |-> [i \in 1..20 |-> 16 + i],
             addr2 |-> [i \in 1..20 |-> 64 + i]]

(* byte tokens *)
Tok(t, R) ==
    CASE t = "Z"        -> Zeros(32)
      [] t = "W1"       -> WordOf(<<1>>)
      [] t = "W32"      -> WordOf(<<32>>)
      [] t = "W64"      -> WordOf(<<64>>)
      [] t = "W96"      -> WordOf(<<96>>)
      [] t = "W33"      -> WordOf(<<33>>)
      [] t = "W65"      -> WordOf(<<65>>)
      [] t = "WTOP"     -> <<1>> \o Zeros(31)                    \* 2^248: only the most significant byte set
      [] t = "B32"      -> <<32>> \o Zeros(31)                   \* first byte 32
      [] t = "WMEGA"    -> WordOf(<<16, 0, 0>>)                 \* 2^20
      [] t = "WU64"     -> WordOf(Rep(8, 255))                  \* 2^64-1
      [] t = "WNEG32"   -> WordOf(Rep(7, 255) \o <<224>>)       \* 2^64-32: offset+32 wraps to 0
      [] t = "W2P63"    -> WordOf(<<128>> \o Zeros(7))          \* 2^63
      [] t = "W2P64"    -> WordOf(<<1>> \o Zeros(8))            \* 2^64: low 64 bits are 0
      [] t = "W2P64P32" -> WordOf(<<1>> \o Zeros(7) \o <<32>>)  \* 2^64+32: low 64 bits are 32
      [] t = "WFF"      -> Rep(32, 255)                         \* 2^256-1
      [] t = "R1"       -> R.r1
      [] t = "R2"       -> R.r2
      \* integer magnitudes (minimal big endian)
      [] t = "i0"       -> <<>>
      [] t = "i1"       -> <<1>>
      [] t = "i32"      -> <<32>>
      [] t = "i64"      -> <<64>>
      [] t = "i127"     -> <<127>>
      [] t = "i128"     -> <<128>>
      [] t = "iU64"     -> Rep(8, 255)
      [] t = "i2P64"    -> <<1>> \o Zeros(8)
      [] t = "iFF"      -> Rep(32, 255)
      [] t = "iR1"      -> Strip(R.r1)
      \* byte strings that are not words
      [] t = "b0"       -> <<>>
      [] t = "b1"       -> <<5>>
      [] t = "b1h"      -> <<200>>
      [] t = "b31"      -> SubSeq(R.r1, 1, 31)
      [] t = "b33"      -> R.r1 \o <<7>>
      [] t = "b64"      -> R.r1 \o R.r2
      [] t = "bZ64"     -> Zeros(64)

OffTok(t) ==
    CASE t = "o0" -> Zeros(7) \o <<0>>
      [] t = "o1" -> Zeros(7) \o <<1>>
      [] t = "o2" -> Zeros(7) \o <<2>>
      [] t = "o3" -> Zeros(7) \o <<3>>
      [] t = "o4" -> Zeros(7) \o <<4>>
      [] t = "o5" -> Zeros(7) \o <<5>>
      [] t = "o6" -> Zeros(7) \o <<6>>
      [] t = "o7" -> Zeros(7) \o <<7>>
      [] t = "o8" -> Zeros(7) \o <<8>>
      [] t = "o260" -> Zeros(6) \o <<1, 4>>
      [] t = "oU32" -> Zeros(4) \o Rep(4, 255)                 \* math.MaxUint32
      [] t = "oU32p1" -> Zeros(3) \o <<1>> \o Zeros(4)         \* MaxUint32+1 (invalid)
      [] t = "o2P59p4" -> <<8>> \o Zeros(6) \o <<4>>           \* 2^59+4: (off-4)*32 wraps to 0 (invalid)
      [] t = "oMax" -> Rep(8, 255)                             \* 2^64-1 (invalid)

ConcPred(pd, R) ==
    [dyn |-> pd.dyn, off |-> OffTok(pd.off), op |-> pd.op,
     iargs |-> [j \in DOMAIN pd.ia |-> [s |-> pd.ia[j].s, m |-> Tok(pd.ia[j].t, R)]],
     bargs |-> [j \in DOMAIN pd.ba |-> Tok(pd.ba[j], R)]]
ConcDef(preds, R) == [contract |-> R.addr, preds |-> [i \in DOMAIN preds |-> ConcPred(preds[i], R)]]

ConcLog(ld, R) ==
    LET full == Concat([i \in DOMAIN ld.words |-> Tok(ld.words[i], R)]) IN
    [addr |-> IF ld.same THEN R.addr ELSE R.addr2,
     topics |-> [i \in DOMAIN ld.topics |-> Tok(ld.topics[i], R)],
     data |-> SubSeq(full, 1, Len(full) - ld.cut)]

(* decoder input: a mutation of the encoding of the (encodable) definition *)
ApplyMut(enc, mut) ==
    CASE mut.m = "none"  -> enc
      [] mut.m = "trunc" -> SubSeq(enc, 1, Len(enc) - mut.pos)             \* drop the last pos bytes
      [] mut.m = "app"   -> Append(enc, mut.val)
      [] mut.m = "set"   -> [enc EXCEPT ![mut.pos] = mut.val]
      [] mut.m = "del"   -> SubSeq(enc, 1, mut.pos - 1) \o SubSeq(enc, mut.pos + 1, Len(enc))
      [] mut.m = "ins"   -> SubSeq(enc, 1, mut.pos - 1) \o <<mut.val>> \o SubSeq(enc, mut.pos, Len(enc))
      [] mut.m = "empty" -> <<>>
NoMut == [m |-> "none", pos |-> 0, val |-> 0]
NoLog == [same |-> TRUE, topics |-> <<>>, words |-> <<>>, cut |-> 0]

----------------------------------------------------------------------------
(* predicate descriptors                                                    *)
PD(dyn, off, op, ia, ba) == [dyn |-> dyn, off |-> off, op |-> op, ia |-> ia, ba |-> ba]
IA(t) == [s |-> "pos", t |-> t]
UintP(dyn, off, op, t) == PD(dyn, off, op, <<IA(t)>>, <<>>)
EqP(dyn, off, t) == PD(dyn, off, 5, <<>>, <<t>>)

=============================================================================
