-------------------------- MODULE KeyperCrashTrace --------------------------
(***************************************************************************)
(* Trace layer of C08: validates ndjson traces recorded by harness/dkg     *)
(* (crash.go) from the real keyper code while fakepg / faketm kill the     *)
(* keyper under test at chosen protocol messages.  A trace is a            *)
(* concatenation of runs of the same schedule:                             *)
(*   {"k":"new",  "st": O, "twin": O}                                      *)
(*   {"k":"step", "what": "sync"|"post"|"close", "h": block,               *)
(*    "crashes": n, "mids": [O after each crash, before the restart],      *)
(*    "st": O after the step was completed, "twin": O of the crash-free    *)
(*    run after the same step, "panic": ..}                                *)
(*   {"k":"fin",  "st": O, "twin": O, "keys": outcome of every keyper}     *)
(* O = [db, sent] as in KeyperCrashProps.                                  *)
(*   pass A  viol : monitors of KeyperCrashProps false on observed data    *)
(*   pass B  drift: the observed step is not the step KeyperCrash yields   *)
(*                  from the observed pre-state (crash outcomes: a set)    *)
(***************************************************************************)
EXTENDS KeyperCrashProps, Json

CONSTANT TraceFile
Trace == ndJsonDeserialize(TraceFile)

VARIABLES l, w, viol, drift
tvars == <<l, w, viol, drift>>

(* first occurrences only *)
RECURSIVE Strip(_, _)
Strip(q, acc) ==
    IF q = <<>> THEN acc
    ELSE Strip(Tail(q), IF \E i \in DOMAIN acc : acc[i].k = Head(q).k /\ acc[i].p = Head(q).p THEN acc ELSE Append(acc, Head(q)))

(* one SendShutterMessages call: until the outbox is empty or shuttermint refuses the head *)
RECURSIVE PostAll(_)
PostAll(x) == IF x.db.outbox = <<>> THEN x
              ELSE LET y == DoSendHead(x) IN IF y.stuck THEN y ELSE PostAll(DoDeleteHead(y))

KnownKinds == {"vote", "bseen", "checkin", "commit", "eval", "eval2", "old", "acc", "apol", "result"}
Evaluable(x, what, h) ==
    CASE what = "sync"  -> x.db.sync < h /\ h = x.head /\ Len(x.blocks) >= h + 1
      [] what = "post"  -> \A i \in DOMAIN x.db.outbox : x.db.outbox[i].k \in KnownKinds
      [] what = "close" -> x.head + 1 = h
      [] what = "gov"   -> Gov /\ x.pc = "gov"
      [] what = "closedown" -> x.pc = "down" /\ x.head + 1 = h
      [] what = "up"    -> x.pc = "down" /\ x.head + 1 = h /\ h = DownUntil
      [] OTHER -> FALSE

(* one SyncAppWithDB call: one transaction per closed block that is not applied yet; the memory of
   the keyper is re-created from the database before each (equivalent to keeping it, with LoadMode
   "nilsafe" and handlers that mark what they change: invariant MemMatchesDb of KeyperCrashMC) *)
RECURSIVE SyncAll(_)
SyncAll(x) == IF x.db.sync >= x.head THEN x
              ELSE SyncAll(DoTxCommit(DoTxBody([x EXCEPT !.mem = MemFresh, !.pc = "sync"])))
(* the databases a crash inside that call can leave behind: any number of its transactions committed *)
RECURSIVE SyncDbs(_)
SyncDbs(x) == IF x.db.sync >= x.head THEN {x.db}
              ELSE {x.db} \cup SyncDbs(DoTxCommit(DoTxBody([x EXCEPT !.mem = MemFresh, !.pc = "sync"])))

(* the crash-free outcome of a step *)
SpecStep(x, what) ==
    CASE what = "sync"  -> DoSyncDone(SyncAll(x))
      [] what = "post"  -> PostAll([x EXCEPT !.pc = "post"])
      [] what = "close" -> DoClose([x EXCEPT !.pc = "post"])
      [] what = "gov"   -> DoGovTx(x)
      [] what = "closedown" -> DoCloseDown(x)
      [] what = "up"    -> DoUp(x)

IsSuffix(a, b) == Len(a) <= Len(b) /\ a = SubSeq(b, Len(b) - Len(a) + 1, Len(b))

(* what the database may look like right after a crash inside the step *)
MidAllowed(pre, e, what, mid) ==
    CASE what = "sync" -> mid.db \in SyncDbs(pre)
      [] what = "gov"  -> mid.db = pre.db \/ mid.db = e.db
      [] what = "up"   -> mid.db = pre.db
      [] what = "post" -> mid.db = [pre.db EXCEPT !.outbox = mid.db.outbox] /\ IsSuffix(mid.db.outbox, pre.db.outbox)
      [] OTHER -> FALSE

StepAllowed(pre, line) ==
    /\ Evaluable(pre, line.what, line.h)
    /\ LET e == SpecStep(pre, line.what) IN
       /\ line.st.db = e.db
       /\ Strip(line.st.sent, <<>>) = e.sent
       /\ \A i \in DOMAIN line.mids : MidAllowed(pre, e, line.what, line.mids[i])

Resync(pre, line) ==
    LET base == IF Evaluable(pre, line.what, line.h) THEN SpecStep(pre, line.what) ELSE pre IN
    [base EXCEPT !.db = line.st.db, !.sent = Strip(line.st.sent, <<>>)]

C08_SameKey(keys) == \A i, j \in DOMAIN keys : (keys[i].done /\ keys[j].done) =>
                        (keys[i].ok /\ keys[j].ok /\ keys[i].pk = keys[j].pk)

TInit == l = 1 /\ w = InitState /\ viol = {} /\ drift = {}

TNext ==
    /\ l <= Len(Trace)
    /\ l' = l + 1
    /\ LET line == Trace[l] IN
       CASE line.k = "new" ->
              /\ w' = InitState
              /\ viol' = viol \cup {<<l, m>> : m \in StepFailed(line.st, line.twin)}
              /\ drift' = drift \cup (IF line.st.db = InitState.db /\ line.st.sent = <<>> THEN {} ELSE {l})
         [] line.k = "step" ->
              /\ viol' = viol \cup {<<l, m>> : m \in StepFailed(line.st, line.twin)}
                              \cup UNION {{<<l, m>> : m \in MidFailed(line.mids[i])} : i \in DOMAIN line.mids}
                              \cup (IF line.panic = "" THEN {} ELSE {<<l, "C08_NoPanic">>})
              /\ drift' = drift \cup (IF StepAllowed(w, line) THEN {} ELSE {l})
              /\ w' = Resync(w, line)
         [] line.k = "fin" ->
              /\ viol' = viol \cup (IF C08_Final(line.st, line.twin) THEN {} ELSE {<<l, "C08_Final">>})
                              \cup (IF C08_Delivered(line.st) THEN {} ELSE {<<l, "C08_Delivered">>})
                              \cup (IF C08_SameKey(line.keys) THEN {} ELSE {<<l, "C08_SameKey">>})
              /\ UNCHANGED <<w, drift>>
         [] OTHER -> UNCHANGED <<w, viol, drift>>

TSpec == TInit /\ [][TNext]_tvars

SetToSeq2(S) == LET RECURSIVE F(_) F(R) == IF R = {} THEN <<>> ELSE LET x == CHOOSE y \in R : TRUE IN <<x>> \o F(R \ {x}) IN F(S)

Done == l <= Len(Trace) \/
        PrintT(<<"RESULT", ToJson([lines |-> Len(Trace), viol |-> SetToSeq2(viol), drift |-> SetToSeq2(drift)])>>)

=============================================================================
