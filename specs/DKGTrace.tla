------------------------------ MODULE DKGTrace ------------------------------
(***************************************************************************)
(* Trace layer of C07: validates ndjson traces recorded by harness/dkg     *)
(* from the real keyper code (smobserver + fx on fakepg, one real          *)
(* shuttermint app behind faketm).  A trace is a concatenation of runs:    *)
(*   {"k":"new", "st": Abs(world)}                 start of a run          *)
(*   {"k":"op",  "op":.., "out":.., "st":.., "panic":..}   one op          *)
(*   {"k":"fin", "fin": observed outcome, "panic":..}      end of the run  *)
(* Deterministic fold, one TLC state per line, every variable is logged.   *)
(*   pass A  viol : <<line, monitor>> for every monitor of DKGProps that   *)
(*                  is false on the OBSERVED outcome (ghost folded from    *)
(*                  the observed ops and answers)                          *)
(*   pass B  drift: lines whose observed (answer, post-state) is not what  *)
(*                  the code-shaped spec yields from the observed pre-state*)
(***************************************************************************)
EXTENDS DKGProps, Json

CONSTANT TraceFile
Trace == ndJsonDeserialize(TraceFile)

VARIABLES l, pre, g, viol, drift
tvars == <<l, pre, g, viol, drift>>

KnownKinds == {"commit", "eval", "acc", "apol", "result", "checkin", "old"}

(* the op can be evaluated by the spec on the observed pre-state *)
Evaluable(s, o) ==
    /\ o.op \in {"bcommit", "beval", "bacc", "bapol", "post", "reload", "lag", "end"}
    /\ o.op \in {"reload", "lag"} => o.s \in Honest
    /\ o.op = "post" => (o.s \in Honest /\ Len(s.kp[o.s].outbox) > 0 /\ Head(s.kp[o.s].outbox).k \in KnownKinds)
    /\ o.op \in {"bcommit", "beval", "bacc", "bapol"} => o.s \in K

(* map-iteration order of shiftPhases: an accusation queued in the same call as the previous eon's
   vote may come before or after it *)
RECURSIVE OldFirst(_)
OldFirst(q) == IF Len(q) < 2 THEN q
               ELSE IF q[1].k = "acc" /\ q[2].k = "old" THEN <<q[2], q[1]>> \o OldFirst(SubSeq(q, 3, Len(q)))
               ELSE <<q[1]>> \o OldFirst(Tail(q))
NormSt(st) == [st EXCEPT !.kp = [i \in K |-> [@[i] EXCEPT !.outbox = OldFirst(@)]]]

SpecAllows(s, line) ==
    /\ Evaluable(s, line.op)
    /\ LET x == ApplyOp(s, line.op) IN NormSt(x.st) = NormSt(line.st) /\ x.out = line.out

(* pass B on the outcome: what the spec predicts from the last observed state *)
FinAllowed(s, fin) ==
    LET sf == SpecFin(s) IN
    /\ \A i \in K : /\ fin.res[i].done = sf.res[i].done /\ fin.res[i].ok = sf.res[i].ok
                    /\ fin.res[i].vote = sf.res[i].vote
                    /\ (fin.res[i].done /\ fin.res[i].ok) => fin.res[i].share
    /\ \A i, j \in Succ(fin) : (fin.res[i].pk = fin.res[j].pk) = (sf.res[i].pk = sf.res[j].pk)
    /\ Len(fin.dec) = Len(sf.dec)
    /\ \A n \in DOMAIN fin.dec : fin.dec[n].ok

TInit == l = 1 /\ pre = InitState /\ g = GhostInit /\ viol = {} /\ drift = {}

TNext ==
    /\ l <= Len(Trace)
    /\ l' = l + 1
    /\ LET line == Trace[l] IN
       CASE line.k = "new" ->
              /\ pre' = line.st /\ g' = GhostInit
              /\ drift' = drift \cup (IF [line.st EXCEPT !.ov = 0] = InitState THEN {} ELSE {l})
              /\ UNCHANGED viol
         [] line.k = "op" ->
              /\ pre' = line.st
              /\ g' = GhostNext(g, pre, line.op, line.out)
              /\ viol' = viol \cup (IF line.panic = "" THEN {} ELSE {<<l, "C07_NoPanic">>})
              /\ drift' = drift \cup (IF SpecAllows(pre, line) THEN {} ELSE {l})
         [] line.k = "fin" ->
              /\ viol' = viol \cup {<<l, m>> : m \in Failed(line.fin, g)}
                              \cup (IF line.panic = "" THEN {} ELSE {<<l, "C07_NoPanic">>})
              /\ drift' = drift \cup (IF FinAllowed(pre, line.fin) THEN {} ELSE {l})
              /\ UNCHANGED <<pre, g>>
         [] OTHER -> UNCHANGED <<pre, g, viol, drift>>

TSpec == TInit /\ [][TNext]_tvars

SetToSeq2(S) == LET RECURSIVE F(_) F(R) == IF R = {} THEN <<>> ELSE LET x == CHOOSE y \in R : TRUE IN <<x>> \o F(R \ {x}) IN F(S)

Done == l <= Len(Trace) \/
        PrintT(<<"RESULT", ToJson([lines |-> Len(Trace), viol |-> SetToSeq2(viol), drift |-> SetToSeq2(drift)])>>)

=============================================================================
