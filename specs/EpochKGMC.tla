------------------------------ MODULE EpochKGMC ------------------------------
(* all delivery sequences: the effect of a token depends only on the state, so BFS over
   (state, last token) with the hidden history covers every (reachable state, token) pair;
   pending is a SEQUENCE, so different arrival orders are different states *)
EXTENDS EpochKG, Json
CONSTANT Emit
VARIABLES kg, gh, last, err, hist
vars == <<kg, gh, last, err, hist>>

Alphabet == SetToSeq(Tokens)
ASSUME PrintT(<<"ALPHABET", ToJson(Alphabet)>>)
ASSUME PrintT(<<"CONST", ToJson([n |-> N, t |-> T, idents |-> SetToSeq(Idents)])>>)

Init == kg = KGInit /\ gh = {} /\ last = 0 /\ err = "" /\ hist = <<>>
Step(i) ==
    LET r == Handle(kg, Alphabet[i]) IN
    /\ kg' = r.kg /\ err' = r.err
    /\ gh' = GhostNext(gh, Alphabet[i])
    /\ last' = i /\ hist' = Append(hist, i)
Next == \E i \in DOMAIN Alphabet : Step(i)
Spec == Init /\ [][Next]_vars

StepProps == [][Failed(gh, kg, Alphabet[last'], kg') = {}]_vars
EmitInv == (~Emit) \/ PrintT(<<"B", hist>>)
View == <<kg, gh, last>>
==============================================================================
