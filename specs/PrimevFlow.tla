------------------------------ MODULE PrimevFlow ------------------------------
(***************************************************************************)
(* Growth stage of C05: the PRIMEV keyper flavour (keyperimpl/primev).     *)
(*                                                                         *)
(*   provider registry contract --Sync--> provider_registry_events         *)
(*   commitment gossip message --ValidateMessage--> --HandleMessage-->     *)
(*        committed_transactions / commitment rows --> decryption trigger  *)
(*        --> KeyShareHandler --> key shares over gossip --> keys          *)
(*                                                                         *)
(* Code-shaped layer, one operator per function of                         *)
(*   keyperimpl/primev/handler.go   ValidateMessage        ValidateCmt     *)
(*                                  getBidderNodeAddress   Bidder          *)
(*                                  computeIdentity        IdOf            *)
(*                                  HandleMessage          HandleCmt       *)
(*   keyperimpl/primev/database/sql/queries/primev.sql                     *)
(*        InsertMultipleTransactionsAndUpsertCommitment    InsRows/UpsertCm*)
(*   keyper/database GetEonForBlockNumber                  EonFor          *)
(*   keyper/epochkghandler/service.go  handleEvent +                       *)
(*        sendkeyshare.go ConstructDecryptionKeyShares     KshHandle       *)
(*   keyper/epochkghandler/keyshare.go checkKeyShares ("keyshares not      *)
(*        ordered") as the node's OWN topic validator on publish  OwnVerdict*)
(*   keyperimpl/primev/providerregistrysyncer.go  Sync, handlePotential-   *)
(*        Reorg, resetSyncStatus, syncRange, filterEvents  PRun ...        *)
(*   keyperimpl/primev/newblock.go processNewBlock = Sync                  *)
(* and, not copied but INSTANCEd / EXTENDed from the families that own     *)
(* them: Gossip (core flavour: TriggerNode, Validate, HandleAll, Publish)  *)
(* for shares -> keys, ChainSync (block tree, GetSyncRanges, NumReorged)   *)
(* for the registry syncer, which has the shape of the shutter-service     *)
(* RegistrySyncer BEFORE its repairs (errm "logged", reorg "next").        *)
(*                                                                         *)
(* AS FOUND (each one is what the code does; the property layer names the  *)
(* consequence, docs/notes/C05-primev.md has the failing inputs):          *)
(*  F1 ValidateMessage checks only: message type, len(identities) =        *)
(*     len(tx_hashes), instance id ("TODO: more validations need to be     *)
(*     done here").  The provider registry table is never read: a          *)
(*     commitment of an unregistered provider is admitted and triggered;   *)
(*     commitment_signature / commitment_digest are never verified; the    *)
(*     bidder address is whatever (digest, signature) of the MESSAGE       *)
(*     recover to.                                                         *)
(*  F2 HandleMessage puts the identities into the trigger in MESSAGE order *)
(*     (gnosis and shutter-service sort them).  The core validators demand *)
(*     ascending identity preimages: a keyper's own shares message for a   *)
(*     descending list is rejected by its own topic validator, the shares  *)
(*     are stored ("shares exist already" from then on) and no key is ever *)
(*     produced.  SortMode = "sorted" is the named alternative             *)
(*     (docs/fixes-proposed/PRIMEV-1.diff).                                *)
(*  F3 the rows are inserted BEFORE the trigger is sent, and a message     *)
(*     none of whose rows is new fails with 23502 (ARRAY_AGG over zero rows*)
(*     is NULL): a duplicate never re-triggers.  So a trigger that is lost *)
(*     after the insert (connection lost after COMMIT, context cancelled,  *)
(*     KeyShareHandler error) is lost for good.                            *)
(*  F4 the eon of a row / trigger is the eon whose activation block is the *)
(*     latest one <= block_number AMONG THE EONS KNOWN NOW: a commitment   *)
(*     for a far-future block is bound to different eons by keypers that   *)
(*     learn of the next eon at different times.                           *)
(*  F5 registry syncer: the error of a range's transaction is logged and   *)
(*     the next range moves the position on (D10 shape); the reorg check   *)
(*     looks only at head = synced + 1 (D11 shape); an RPC error inside    *)
(*     filterEvents discards the event like an invalid provider; ON        *)
(*     CONFLICT (block_number, tx_index, log_index) DO UPDATE does not     *)
(*     update provider_address.                                            *)
(*                                                                         *)
(* Abstraction.  A commitment is a record                                  *)
(*   [inst, pfx, txs, blk, bsig, dig, prov, cd, cs]                        *)
(*   inst  "ok" | "bad"                 instance id                        *)
(*   pfx   sequence of identity-prefix tokens as on the wire:              *)
(*         "a" "b" "c" lower-case hex of three 32-byte prefixes, "A" the   *)
(*         upper-case spelling of a (same bytes), "e" the empty string     *)
(*         (decodes to zero bytes), "zz" not hex, "odd" odd length,        *)
(*         "0x" with 0x prefix (hex.DecodeString refuses all three)        *)
(*   txs   sequence of tx-hash tokens                                      *)
(*   blk   block-number token (BlkVal)                                     *)
(*   bsig  received_bid_signature: "ok" by bidder 1 over the digest, "v27" *)
(*         the same with V+27, "other" by bidder 2, "wdig" by bidder 1     *)
(*         over ANOTHER digest (recovers a third address, bidder 9),       *)
(*         "norec" 65 bytes that do not recover, "recid" V = 29, "short"   *)
(*         64 bytes, "long" 66 bytes, "empty", "nonhex"                    *)
(*   dig   received_bid_digest: "ok" 32 bytes | "short" 31 bytes | "empty" *)
(*   prov  provider token ("p1" "p2" appear in registry events, "q" never) *)
(*   cd    commitment digest token;  cs commitment signature class         *)
(* An identity preimage keccak(prefix || bidder) is the number             *)
(* 10 * PfxId + bidder; the concretiser picks the prefix bytes so that the *)
(* bytewise order of the preimages inside every list is the numeric order. *)
(***************************************************************************)
EXTENDS ChainSyncProps, SequencesExt, FiniteSetsExt, Bags

CONSTANTS K, T,
          Lists,      \* every identity list a decryption trigger of the explored universes can carry (Gossip calls them rounds)
          SortMode,   \* "asfound" | "sorted" (named alternative, PRIMEV-1)
          RegMode     \* "asfound" | "repaired" (named alternative of the registry syncer, PRIMEV-2)

G == INSTANCE Gossip WITH N <- K, Rounds <- Lists, Flavour <- "core"

Nodes == 0..(K - 1)

----------------------------------------------------------------------------
(* eons / keyper sets.  Set 1 (eon 1): the K keypers, successful DKG, active from block Act1.
   Set 2 (eon 2), active from block Act2, is a property of the universe:
     u.kind2  "absent" | "foreign" (we are not members) | "failed" (members, DKG failed)
              | "nodkg" (members, no DKG result yet)
     u.eon2   "known" (in the eons table from the start) | "late" (learned by the op "eon") *)
Act1 == 10
Act2 == 20
BlkVal(b) == CASE b = "neg" -> -1 [] b = "zero" -> 0 [] b = "pre" -> 9 [] b = "at" -> 10 [] b = "in" -> 11
               [] b = "in2" -> 12 [] b = "e2m" -> 19 [] b = "e2" -> 20 [] b = "fut" -> 1000
               [] b = "max" -> 2000000000          \* stands for MaxInt64
BlkToks == {"neg", "zero", "pre", "at", "in", "in2", "e2m", "e2", "fut", "max"}

(* SELECT * FROM eons WHERE activation_block_number <= $1 ORDER BY activation_block_number DESC, height DESC LIMIT 1
   (0 = no row: pgx.ErrNoRows) *)
EonFor(e2, b) == IF BlkVal(b) < Act1 THEN 0 ELSE IF e2 /\ BlkVal(b) >= Act2 THEN 2 ELSE 1

----------------------------------------------------------------------------
(* the commitment handler *)

PfxId(p) == CASE p = "a" -> 1 [] p = "A" -> 1 [] p = "b" -> 2 [] p = "c" -> 3 [] p = "e" -> 4 [] OTHER -> 0

(* getBidderNodeAddress: common.FromHex of both strings, signature length = 65, V 27/28 -> 0/1,
   crypto.SigToPub (message length 32, recovery id < 4, recovery).  0 = an error is returned *)
Bidder(c) ==
    IF c.bsig \in {"short", "long", "empty", "nonhex"} THEN 0        \* invalid bid signature length
    ELSE IF c.dig # "ok" THEN 0                                       \* invalid message length, need 32 bytes
    ELSE CASE c.bsig \in {"ok", "v27"} -> 1
           [] c.bsig = "other" -> 2
           [] c.bsig = "wdig" -> 9
           [] OTHER -> 0                                              \* norec: recovery failed; recid: invalid signature recovery id

(* computeIdentity *)
IdOf(c, k) == 10 * PfxId(c.pfx[k]) + Bidder(c)
IdSeq(c) == [k \in 1..Len(c.pfx) |-> IdOf(c, k)]

(* ValidateMessage (F1) *)
ValidateCmt(c) ==
    IF Len(c.pfx) # Len(c.txs) THEN "reject"
    ELSE IF c.inst # "ok" THEN "reject"
    ELSE "accept"

(* INSERT INTO committed_transactions ... SELECT unnest(..) ... ON CONFLICT (eon, identity_preimage,
   tx_hash, block_number) DO NOTHING RETURNING tx_hash: rows in message order, existing ones (and
   repetitions inside the statement) skipped.  [rows, ins] *)
RowKeyEq(q, r) == q.eon = r.eon /\ q.id = r.id /\ q.tx = r.tx /\ q.blk = r.blk
RECURSIVE InsRows(_, _, _, _, _)
InsRows(rows, c, eon, k, acc) ==
    IF k > Len(c.pfx) THEN [rows |-> rows, ins |-> acc]
    ELSE LET r == [eon |-> eon, id |-> IdOf(c, k), tx |-> c.txs[k], blk |-> c.blk, cd |-> c.cd, prov |-> c.prov, pfx |-> c.pfx[k]] IN
         IF \E q \in rows : RowKeyEq(q, r) THEN InsRows(rows, c, eon, k + 1, acc)
         ELSE InsRows(rows \cup {r}, c, eon, k + 1, Append(acc, r.tx))

(* INSERT INTO commitment ... SELECT ARRAY_AGG(hashes), ... ON CONFLICT (provider_address,
   commitment_digest) DO UPDATE SET tx_hashes = commitment.tx_hashes || EXCLUDED.tx_hashes,
   received_bid_digest, received_bid_signature, bidder_node_address = EXCLUDED...
   (commitment_signature and block_number of an existing row stay) *)
UpsertCm(cms, c, ins) ==
    IF \E m \in cms : m.cd = c.cd /\ m.prov = c.prov
    THEN LET m == CHOOSE q \in cms : q.cd = c.cd /\ q.prov = c.prov IN
         (cms \ {m}) \cup {[m EXCEPT !.txs = @ \o ins, !.bs = c.bsig, !.bidder = Bidder(c)]}
    ELSE cms \cup {[cd |-> c.cd, prov |-> c.prov, txs |-> ins, blk |-> c.blk, cs |-> c.cs, bs |-> c.bsig, bidder |-> Bidder(c)]}

SortIds(q) == SortSeq(q, <)
TrigIds(c) == IF SortMode = "sorted" THEN SortIds(IdSeq(c)) ELSE IdSeq(c)

(* one-shot SQL faults of a delivery (P5):
     "eonq"  GetEonForBlockNumber answers with an SQL error
     "ins"   the insert statement answers with an SQL error (nothing is stored)
     "insc"  the insert statement takes effect, then the connection is lost (the client sees an error)
   a fault on a statement the call does not reach has no effect *)
CmtFaults == {"eonq", "ins", "insc"}

(* HandleMessage.  ks = [e2, rows, cms, reg];  returns [ks, res, trig]: res = "ok" or an error
   class, trig = the decryption triggers sent (0 or 1), [blk, ids] *)
HandleCmt(ks, c, f) ==
    LET no(res) == [ks |-> ks, res |-> res, trig |-> <<>>] IN
    IF Bidder(c) = 0 THEN no("err_sig")                                    \* failed to get bidder node address
    ELSE IF \E k \in DOMAIN c.pfx : PfxId(c.pfx[k]) = 0 THEN no("err_hex") \* failed to decode identity prefix
    ELSE IF f = "eonq" THEN no("err_db")
    ELSE IF EonFor(ks.e2, c.blk) = 0 THEN no("err_eon")                    \* failed to get eon for block number
    ELSE IF f = "ins" THEN no("err_db")
    ELSE LET eon == EonFor(ks.e2, c.blk)
             i   == InsRows(ks.rows, c, eon, 1, <<>>) IN
         IF i.ins = <<>> THEN no(IF f = "insc" THEN "err_db" ELSE "err_notnull")   \* tx_hashes NULL: 23502, the whole statement fails (F3)
         ELSE LET ks1 == [ks EXCEPT !.rows = i.rows, !.cms = UpsertCm(ks.cms, c, i.ins)] IN
              IF f = "insc" THEN [ks |-> ks1, res |-> "err_db", trig |-> <<>>]
              ELSE [ks |-> ks1, res |-> "ok", trig |-> <<[blk |-> c.blk, ids |-> TrigIds(c)]>>]

----------------------------------------------------------------------------
(* trigger -> KeyShareHandler.handleEvent -> ConstructDecryptionKeyShares -> SendMessage *)

ListIdx(ids) == IF \E r \in DOMAIN Lists : Lists[r] = ids THEN CHOOSE r \in DOMAIN Lists : Lists[r] = ids ELSE 0

(* bytes.Compare(share.IdentityPreimage, shares[i-1].IdentityPreimage) < 0 => "keyshares not ordered"
   (checkKeyShares), the same test for keys (checkKeysErrors) *)
Ordered(l) == \A k \in 1..(Len(l) - 1) : l[k] <= l[k + 1]

(* the topic validators of a primev node as seen by an honest member of eon 1: the commitment
   handler does not validate shares / keys; the core validators accept genuine shares / keys of an
   ASCENDING identity list and reject a descending one *)
OwnVerdict(nd, m) == IF m.r \in DOMAIN Lists /\ ~Ordered(Lists[m.r]) THEN "reject" ELSE G!Validate(nd, m)

(* P2PMessaging.SendMessage + libp2p: the node's own validators first.  [pk, prod] *)
PPublish(nd, i, out) ==
    IF out = <<>> THEN [pk |-> EmptyBag, prod |-> <<>>]
    ELSE IF OwnVerdict(nd, out[1]) = "accept" THEN G!Publish(nd, i, out, 1)
    ELSE [pk |-> EmptyBag, prod |-> <<[m |-> out[1], own |-> OwnVerdict(nd, out[1]), an |-> "-"]>>]

(* handleEvent for one trigger at keyper i.  [nd, res, out]:
     res  "sent" | "senderr" (publish refused: error while sending P2P message)
          | "ign_notkeyper" | "ign_sent" (shares exist already) | "ign_dkgfailed" | "err_nodkg"
   order of the checks as in ConstructDecryptionKeyShares: membership, own shares, DKG result *)
KshHandle(u, ks, nd, i, tr) ==
    LET eon == EonFor(ks.e2, tr.blk)
        r   == ListIdx(tr.ids) IN
    IF eon = 2 THEN
        [nd |-> nd, out |-> <<>>,
         res |-> CASE u.kind2 = "foreign" -> "ign_notkeyper"
                   [] u.kind2 = "failed" -> "ign_dkgfailed"
                   [] OTHER -> "err_nodkg"]
    ELSE LET g == G!TriggerNode(nd, i, r) IN
         IF g.out = <<>> THEN [nd |-> g.nd, out |-> <<>>, res |-> "ign_sent"]
         ELSE [nd |-> g.nd, out |-> g.out, res |-> IF OwnVerdict(g.nd, g.out[1]) = "accept" THEN "sent" ELSE "senderr"]

(* a commitment message reaches keyper i: topic validator, then (accept only) HandleMessage, then the
   KeyShareHandler consumes the trigger.  [ks, nd, v, res, out, pub]
     out = <<[blk, ids, ksh]>> the triggers with the KeyShareHandler's result, pub = what it published *)
CmtDeliver(u, ks, nd, i, c, f) ==
    LET v == ValidateCmt(c) IN
    IF v # "accept" THEN [ks |-> ks, nd |-> nd, v |-> v, res |-> "-", out |-> <<>>, pub |-> PPublish(nd, i, <<>>)]
    ELSE LET h == HandleCmt(ks, c, f) IN
         IF h.trig = <<>> THEN [ks |-> h.ks, nd |-> nd, v |-> v, res |-> h.res, out |-> <<>>, pub |-> PPublish(nd, i, <<>>)]
         ELSE LET k == KshHandle(u, h.ks, nd, i, h.trig[1]) IN
              [ks |-> h.ks, nd |-> k.nd, v |-> v, res |-> h.res,
               out |-> <<[blk |-> h.trig[1].blk, ids |-> h.trig[1].ids, ksh |-> k.res]>>,
               pub |-> PPublish(k.nd, i, k.out)]

(* a shares / keys packet reaches keyper j.  [nd, v, pub] *)
NetDeliver(nd, j, m) ==
    LET v == OwnVerdict(nd, m) IN
    IF v # "accept" THEN [nd |-> nd, v |-> v, pub |-> PPublish(nd, j, <<>>)]
    ELSE LET h == G!HandleAll(nd, j, m) IN
         [nd |-> h.nd, v |-> v, pub |-> PPublish(h.nd, j, h.out)]

----------------------------------------------------------------------------
(* ProviderRegistrySyncer.  st = [synced, stored] as in ChainSync; a stored row is [key, num, bid]
   with key = the provider token.  A block carries at most one event, so the primary key
   (block_number, tx_index, log_index) is the block number. *)
PCfg == [d |-> 10, maxr |-> 10000, start0 |-> 0,
         errm |-> IF RegMode = "repaired" THEN "returned" ELSE "logged",
         reorg |-> IF RegMode = "repaired" THEN "gap" ELSE "next"]

(* InsertProviderRegistryEvent ... ON CONFLICT (block_number, tx_index, log_index) DO UPDATE SET
   block_number, block_hash, tx_index, log_index, bls_keys: provider_address of an existing row stays *)
PUpsert(stored, rows) ==
    {r \in stored : \A n \in rows : n.num # r.num} \cup
    {IF \E r \in stored : r.num = n.num THEN [n EXCEPT !.key = (CHOOSE r \in stored : r.num = n.num).key] ELSE n : n \in rows}

(* syncRange's transaction for [lo, hi]; flt: every IsProviderValid / GetBLSKeys call of the range
   failed (RPC error), filterEvents dropped all events of the range *)
PStoreRange(blk, h, st, lo, hi, flt) ==
    St(Sy(TRUE, hi, CanonAt(blk, h, hi)), IF flt THEN st.stored ELSE PUpsert(st.stored, EventsIn(blk, h, lo, hi)))

(* faults f = [k, at]:  at = 0 preamble, at = i >= 1 the i-th range
     rpc  FilterLogs / HeaderByNumber of phase at fails: returned
     db   the transaction of phase at fails: range >= 1: LOGGED, the loop goes on (F5); preamble: returned
     flt  the eth_calls of filterEvents in range at fail: the events are dropped, the range is stored *)
PFaultKinds == {"rpc", "db", "flt"}
RECURSIVE PRunRanges(_, _, _, _, _, _)
PRunRanges(blk, h, st, rs, i, f) ==
    IF i > Len(rs) THEN [seq |-> <<>>, ret |-> "ok"]
    ELSE LET hit == f.at = i
             st2 == PStoreRange(blk, h, st, rs[i][1], rs[i][2], hit /\ f.k = "flt")
             goOn(s, committed) ==
                 LET rest == PRunRanges(blk, h, s, rs, i + 1, f) IN
                 [seq |-> (IF committed THEN <<s>> ELSE <<>>) \o rest.seq, ret |-> rest.ret]
         IN CASE hit /\ f.k = "rpc" -> [seq |-> <<>>, ret |-> "err"]
              [] hit /\ f.k = "db"  -> IF PCfg.errm = "returned" THEN [seq |-> <<>>, ret |-> "err"]
                                       ELSE goOn(st, FALSE)     \* as found: log.Warn, return nil
              [] OTHER              -> goOn(st2, TRUE)

(* Sync: [seq (committed states), ret] *)
PRun(blk, h, st, f) ==
    LET sy   == st.synced
        n    == IF sy.has THEN NumReorged(PCfg, blk, CheckBlock(PCfg, blk, h, sy), sy) ELSE 0
        st1  == IF n > 0 THEN RollbackTo(st, sy.num - n) ELSE st
        seq1 == IF n > 0 THEN <<st1>> ELSE <<>>
    IN IF f.at = 0 /\ f.k \in {"rpc", "db"} THEN [seq |-> <<>>, ret |-> "err"]
       ELSE LET start == IF st1.synced.has THEN st1.synced.num + 1 ELSE PCfg.start0
                rs    == Ranges(start, NumOf(blk, h), PCfg.maxr)
                rr    == PRunRanges(blk, h, st1, rs, 1, f)
            IN [seq |-> seq1 \o rr.seq, ret |-> rr.ret]

PNRanges(blk, h, st) ==
    LET sy == st.synced
        n  == IF sy.has THEN NumReorged(PCfg, blk, CheckBlock(PCfg, blk, h, sy), sy) ELSE 0
        s1 == IF n > 0 THEN sy.num - n + 1 ELSE IF sy.has THEN sy.num + 1 ELSE PCfg.start0
    IN Len(Ranges(s1, NumOf(blk, h), PCfg.maxr))

(* the chain script of a universe: a step e = [a, p, ev, k]
     "mine"   a new block on top of tree block p (0: the head) with at most one event becomes the head
     "ext"    a run of k eventless blocks on top of the head (one record, see ChainSync)
     "switch" the head becomes the existing block p *)
EnvApply(blk, canon, e) ==
    LET p == IF e.p = 0 THEN canon ELSE e.p IN
    CASE e.a = "mine" -> [blk |-> Append(blk, [num |-> blk[p].num + 1, par |-> p, evs |-> IF e.ev = "" THEN {} ELSE {e.ev}, len |-> 1]),
                          canon |-> Len(blk) + 1]
      [] e.a = "ext"  -> [blk |-> Append(blk, [num |-> blk[canon].num + e.k, par |-> canon, evs |-> {}, len |-> e.k]), canon |-> Len(blk) + 1]
      [] OTHER        -> [blk |-> blk, canon |-> e.p]
RootBlk == [num |-> 0, par |-> -1, evs |-> {}, len |-> 1]

----------------------------------------------------------------------------
KsInit(u) == [e2 |-> u.kind2 # "absent" /\ u.eon2 = "known", rows |-> {}, cms |-> {}, reg |-> St(NoRow, {})]

(* processNewEon (keyper core, smobserver): eon 2 appears in the eons table *)
LearnEon(ks) == [ks EXCEPT !.e2 = TRUE]
=============================================================================
