----------------------------- MODULE ServiceE2E -----------------------------
(***************************************************************************)
(* Composition of three specification families into ONE behaviour of the   *)
(* shutter-service flavour:                                                *)
(*                                                                         *)
(*   identity / event-trigger registration on the main chain               *)
(*     -> synced into each keyper's database       (ChainSync, EventTrigger)*)
(*     -> release condition met, decryption trigger       (ServiceTrigger) *)
(*     -> key shares over gossip, keys released                   (Gossip) *)
(*     -> decrypted flags (which feed back into the triggers)              *)
(*                                                                         *)
(* Nothing of the three families is copied: this module EXTENDS            *)
(* EventTriggerProps (block tree, GetSyncRanges, reorg check, the          *)
(* MultiEventSyncer with both processors incl. the "fetch before store"    *)
(* order of known finding D6, the C16 property operators Ideal /           *)
(* FiringLogs / KnownMiss), INSTANCEs ServiceTrigger (ST: resolveDecrypt-  *)
(* ableEon, prepareTimeBasedTriggers, prepareEventBasedTriggers, Key-      *)
(* ShareHandler.handleEvent) and INSTANCEs Gossip, service flavour (G:     *)
(* TriggerNode, Validate, the flavour and core handlers, the middleware,   *)
(* Publish).  What is written here is only what lies BETWEEN them in the   *)
(* code:                                                                   *)
(*   keyperimpl/shutterservice/registrysyncer.go   RRun (same shape as     *)
(*        ChainSync!Run with the repaired reorg check; rows carry the      *)
(*        registered timestamp, keyper-set index and the decrypted flag)   *)
(*   keyperimpl/shutterservice/newblock.go processNewBlock   ProcBlock     *)
(*        = RegistrySyncer.Sync; MultiEventSyncer.Sync; maybeTrigger-      *)
(*        Decryption; every emitted trigger through KeyShareHandler and    *)
(*        the service middleware                                           *)
(*   handlers.go / messagingmiddleware.go updateEventFlag    MarkDec,      *)
(*        called by DecryptionKeysHandler.HandleMessage and by             *)
(*        interceptDecryptionKeys (SvcDeliver)                             *)
(*                                                                         *)
(* Abstraction.  K keypers (gossip nodes 0..K-1) of keyper set 1, threshold*)
(* T, successful key generation.  Identity slots: time-registered 1..NI,   *)
(* event-trigger identities NI+1..NI+NT (trigger j = key ToString(j) of    *)
(* EventTrigger.tla); the bytewise order of the concrete identities is the *)
(* slot order.  Block number n has timestamp 2n, so that a registered      *)
(* timestamp can be equal to a block time (even) or strictly between two   *)
(* block times (odd).  A block of the tree is                              *)
(*   [num, par, evs, exp, ts]   evs \subseteq {"i<x>", "r<j>", "l<j>", "o"} *)
(*   "i<x>" IdentityRegistered of slot x with timestamp ts[x],             *)
(*   "r<j>" EventTriggerRegistered of trigger j with expiry block exp,     *)
(*   "l<j>" a log matching trigger j, "o" a log matching nobody.           *)
(* The static part of a scenario is a universe u:                          *)
(*   u.idset[x], u.trset[j]  keyper-set index the registration names       *)
(*   u.kind[s]  "ok" (we are members, key generation succeeded), "foreign" *)
(*              (not members), "failed" (members, DKG failed), "nostart"   *)
(*   u.act[s]   activation block of set s                                  *)
(***************************************************************************)
EXTENDS EventTriggerProps, SequencesExt, FiniteSetsExt, Bags

CONSTANTS NI, NT, K, T,
          Fetch      \* "before": MultiEventSyncer as it is (D6); "ordered": the ideal (named alternative)

Nil == -1
TimeIds == 1..NI
EvIds == (NI + 1)..(NI + NT)
SetIdx == {1, 2}
OkSet == 1                       \* the keyper set of the K keypers; the "eon" field of every p2p message

TimeOf(n) == 2 * n
TokI(x) == "i" \o ToString(x)
TKey(j) == ToString(j)
EvSlot(key) == IF \E j \in 1..NT : TKey(j) = key THEN NI + (CHOOSE j \in 1..NT : TKey(j) = key) ELSE 0
EonNo(s) == 10 + s               \* eon numbers differ from keyper config indices so that a mix-up is visible

(* every identity list a trigger of keyper set 1 can carry: the sorted non-empty subsets of the
   time identities, then those of the event identities (time-based and event-based triggers are
   separate triggers).  Gossip.tla calls them rounds. *)
SortIds(S) == SetToSortSeq(S, <)
LexLess(a, b) == \/ Len(a) < Len(b)
                 \/ Len(a) = Len(b) /\ \E k \in 1..Len(a) : (\A m \in 1..(k - 1) : a[m] = b[m]) /\ a[k] < b[k]
Lists == SetToSortSeq({SortIds(S) : S \in (SUBSET TimeIds) \ {{}}}, LexLess) \o
         SetToSortSeq({SortIds(S) : S \in (SUBSET EvIds) \ {{}}}, LexLess)
ListIdx(ids) == IF \E r \in DOMAIN Lists : Lists[r] = ids THEN CHOOSE r \in DOMAIN Lists : Lists[r] = ids ELSE 0

ST == INSTANCE ServiceTrigger
G == INSTANCE Gossip WITH N <- K, Rounds <- Lists, Flavour <- "service"

----------------------------------------------------------------------------
(* RegistrySyncer (identity_registered_event + identity_registered_events_synced_until).
   st = [synced, rows];  rows [key, num, bid, ts, set, dec] *)

CfgR == [d |-> 10, maxr |-> 10000, start0 |-> 0]                      \* AssumedReorgDepth, maxRequestBlockRange, SyncStartBlockNumber
CfgM == [d |-> 10, maxr |-> 10000, start0 |-> 1, fetch |-> Fetch]     \* MultiEventSyncer defaults; first block = SyncStart + 1

RSt(sy, rows) == [synced |-> sy, rows |-> rows]

IdRowsIn(u, blk, h, lo, hi) ==
    UNION {{[key |-> x, num |-> blk[b].num, bid |-> b, ts |-> blk[b].ts[x], set |-> u.idset[x], dec |-> FALSE] :
                x \in {y \in TimeIds : TokI(y) \in blk[b].evs}} : b \in CanonBlocks(blk, h, lo, hi)}

(* InsertIdentityRegisteredEvent ... ON CONFLICT (identity_prefix, sender) DO UPDATE: block, timestamp,
   identity; eon and decrypted stay *)
UpsertIds(rows, new) ==
    {r \in rows : \A n \in new : n.key # r.key} \cup
    {IF \E r \in rows : r.key = n.key
     THEN LET o == CHOOSE r \in rows : r.key = n.key IN [n EXCEPT !.dec = o.dec, !.set = o.set]
     ELSE n : n \in new}

RRollbackTo(st, new) == RSt(Sy(TRUE, new, Empty), {r \in st.rows : r.num <= new})
RStoreRange(u, blk, h, st, lo, hi) ==
    RSt(Sy(TRUE, hi, CanonAt(blk, h, hi)), UpsertIds(st.rows, IdRowsIn(u, blk, h, lo, hi)))

RECURSIVE RRunRanges(_, _, _, _, _, _)
RRunRanges(u, blk, h, st, rs, i) ==
    IF i > Len(rs) THEN st ELSE RRunRanges(u, blk, h, RStoreRange(u, blk, h, st, rs[i][1], rs[i][2]), rs, i + 1)

(* one fault-free call of RegistrySyncer.Sync(header of h): the final database state *)
RRun(u, blk, h, st) ==
    LET sy  == st.synced
        rc  == [d |-> CfgR.d, reorg |-> "gap"]
        n   == IF sy.has THEN NumReorged(rc, blk, CheckBlock(rc, blk, h, sy), sy) ELSE 0
        st1 == IF n > 0 THEN RRollbackTo(st, sy.num - n) ELSE st
        start == IF st1.synced.has THEN st1.synced.num + 1 ELSE CfgR.start0
    IN RRunRanges(u, blk, h, st1, Ranges(start, blk[h].num, CfgR.maxr), 1)

----------------------------------------------------------------------------
(* one keyper's database + memory:  ks = [r, m, latest]
     r       RegistrySyncer state
     m       MultiEventSyncer state of EventTrigger.tla  [synced, regs, fired]
     latest  Keyper.latestTriggeredTime (Nil = nil)
   its key tables are the node record of Gossip.tla (nd) *)
KsInit == [r |-> RSt(NoRow, {}), m |-> TSt(NoRow, {}, {}), latest |-> Nil]

IdRow(ks, x) ==
    IF \E r \in ks.r.rows : r.key = x
    THEN LET r == CHOOSE q \in ks.r.rows : q.key = x IN [reg |-> TRUE, set |-> r.set, ts |-> r.ts, dec |-> r.dec]
    ELSE [reg |-> FALSE, set |-> 0, ts |-> 0, dec |-> FALSE]
TrgRow(u, ks, j) ==
    IF \E r \in ks.m.regs : r.key = TKey(j)
    THEN LET r == CHOOSE q \in ks.m.regs : q.key = TKey(j) IN
         [reg |-> TRUE, set |-> u.trset[j], exp |-> r.exp, dec |-> r.dec,
          fired |-> IF \E f \in ks.m.fired : f.key = TKey(j) THEN (CHOOSE f \in ks.m.fired : f.key = TKey(j)).num ELSE Nil]
    ELSE [reg |-> FALSE, set |-> 0, exp |-> 0, dec |-> FALSE, fired |-> Nil]

Eons(u) == {[eon |-> EonNo(s), set |-> s, act |-> u.act[s], h |-> 10 * EonNo(s)] : s \in {x \in SetIdx : u.kind[x] # "nostart"}}
Dkg(u) == {[eon |-> EonNo(s), ok |-> u.kind[s] = "ok"] : s \in {x \in SetIdx : u.kind[x] \in {"ok", "failed"}}}

(* the record st of ServiceTrigger.tla read off keyper i's tables *)
SView(u, ks, nd, i) ==
    [latest |-> ks.latest, synced |-> Nil,
     ids |-> [x \in 1..NI |-> IdRow(ks, x)], trg |-> [j \in 1..NT |-> TrgRow(u, ks, j)],
     eons |-> Eons(u), dkg |-> Dkg(u),
     shared |-> {<<OkSet, x>> : x \in {y \in G!IdSet : i \in nd.shares[y]}}]
(* the record u of ServiceTrigger.tla *)
SU(u) == [member |-> [s \in SetIdx |-> u.kind[s] # "foreign"], act |-> u.act]

(* the emitted triggers of one block, one after the other through KeyShareHandler.handleEvent
   (ST!HandleTrigger: eon of the trigger's block, membership, "shares exist already", DKG result) and,
   when a message results, ConstructDecryptionKeyShares + SendMessage through the service middleware
   (G!TriggerNode: own shares stored, own signature stored, extra attached) *)
RECURSIVE HandleTrigs(_, _, _, _, _, _)
HandleTrigs(u, ks, nd, i, trs, acc) ==
    IF trs = <<>> THEN [nd |-> nd, out |-> acc]
    ELSE LET tr == Head(trs)
             r  == ST!HandleTrigger(SU(u), SView(u, ks, nd, i), tr)
             g  == IF r.msg.sent /\ ListIdx(tr.ids) # 0 THEN G!TriggerNode(nd, i, ListIdx(tr.ids))
                   ELSE [nd |-> nd, out |-> <<>>]
         IN HandleTrigs(u, ks, g.nd, i, Tail(trs),
                        Append(acc, [blk |-> tr.blk, ids |-> tr.ids, msg |-> r.msg, sh |-> g.out]))

(* Keyper.processNewBlock(header of h) of keyper i, followed by the key share handler consuming the
   trigger channel.  [ks, nd, mseq, out]: mseq = the committed states of the MultiEventSyncer call
   (needed to recognise D6), out = emitted triggers [blk, ids, msg, sh] *)
ProcBlock(u, ks, nd, i, blk, h) ==
    LET r1   == RRun(u, blk, h, ks.r)
        mseq == TRun(CfgM, blk, h, ks.m)
        ks1  == [ks EXCEPT !.r = r1, !.m = TFinal(ks.m, mseq)]
        v    == SView(u, ks1, nd, i)
        rs   == ST!ResolveAll(SU(u), v)
        n    == blk[h].num
        tb   == ST!TimeBased(rs, v, n, TimeOf(n))
        ks2  == [ks1 EXCEPT !.latest = tb.latest]
        eb   == ST!EventBased(rs, [v EXCEPT !.latest = tb.latest])
        hd   == HandleTrigs(u, ks2, nd, i, ST!OrderTrigs(tb.trigs) \o ST!OrderTrigs(eb), <<>>)
    IN [ks |-> ks2, nd |-> hd.nd, mseq |-> mseq, out |-> hd.out]

RECURSIVE Flat(_, _)
Flat(out, k) == IF k > Len(out) THEN <<>> ELSE out[k].sh \o Flat(out, k + 1)

(* updateEventFlag: both registration tables, rows keyed (eon, identity) *)
MarkDec(u, ks, S) ==
    [ks EXCEPT !.r.rows = {IF r.key \in S /\ r.set = OkSet THEN [r EXCEPT !.dec = TRUE] ELSE r : r \in ks.r.rows},
               !.m.regs = {IF EvSlot(r.key) \in S /\ u.trset[EvSlot(r.key) - NI] = OkSet THEN [r EXCEPT !.dec = TRUE] ELSE r : r \in ks.m.regs}]

(* FALSE: the code as it is - the keys message DecryptionKeySharesHandler.HandleMessage builds is sent
   raw and sets no flag at its publisher.  TRUE: named alternative, after the proposed change
   /verif/out/fixes/SVC-1.diff (updateEventFlag where that message is built). *)
FlavourKeysFlag == FALSE

(* a packet reaches keyper j: the combined topic validator, then P2PMessaging.Handle (flavour
   handler, core handler).  The decrypted flags are set by the service DecryptionKeysHandler for
   every received keys message and by interceptDecryptionKeys when the core share handler's keys
   message is sent on with a threshold of signatures.  [ks, nd, out, v] *)
SvcDeliver(u, ks, nd, j, m) ==
    LET v == G!Validate(nd, m) IN
    IF v # "accept" THEN [ks |-> ks, nd |-> nd, out |-> <<>>, v |-> v]
    ELSE LET a == IF m.t = "shares" THEN G!FlavourHandleShares(nd, j, m) ELSE G!FlavourHandleKeys(nd, j, m)
             b == IF m.t = "shares" THEN G!CoreHandleShares(a.nd, j, m) ELSE G!CoreHandleKeys(a.nd, j, m)
             flag == IF m.t = "keys" THEN TRUE ELSE b.out # <<>> \/ (FlavourKeysFlag /\ a.out # <<>>)
         IN [ks |-> IF flag THEN MarkDec(u, ks, G!IdsOf(m.r)) ELSE ks, nd |-> b.nd, out |-> a.out \o b.out, v |-> "accept"]

(* who has sent shares for list r: a keyper's own signature row is written exactly when its shares
   message passes the middleware *)
Trigd(node, r) == {i \in G!Nodes : i \in node[i].sigs[r]}
DecSlots(u, ks) == {x \in TimeIds : IdRow(ks, x).dec} \cup {NI + j : j \in {q \in 1..NT : TrgRow(u, ks, q).dec}}
=============================================================================
