----------------------------- MODULE HttpGateProc -----------------------------
(***************************************************************************)
(* C18 -- server CONSTRUCTION ORDER within one process.                    *)
(* built = the write settings of the servers constructed so far in this    *)
(* process (NewHTTPService + setupRouter each), in order.  Code-shaped      *)
(* layer: setupAPIRouter calls kproapi.ConfigMiddleware(                   *)
(* srv.config.GetEnableWriteOperations()) and the returned closure         *)
(* captures THAT server's setting; no package-level variable is involved,  *)
(* so a server's gate is its own setting whatever was constructed before   *)
(* (ProcState = "perserver").                                              *)
(* Named alternative (NOT the code) ProcState = "once": the middleware is  *)
(* memoised in a package-level sync.Once, every server of the process gets *)
(* the gate of the first one -- TLC then finds PGateInv violated for the   *)
(* order <<enabled, disabled>> (and PIndepInv for <<disabled, enabled>>).  *)
(* TLC enumerates every construction order of length BuildDepth and every  *)
(* (instance, request) afterwards; each printed order is run by the        *)
(* harness in a FRESH CHILD PROCESS (package-level state cannot be reset   *)
(* otherwise), every instance judged on its own setting.                   *)
(***************************************************************************)
EXTENDS HttpGateProps, Json, SequencesExt

CONSTANTS BuildDepth, ProcState

VARIABLES built, last
pvars == <<built, last>>

ProcReqs == [m : Methods, t : TplNames, sps : {<<"exact">>}, h : {DefaultHdr}]
NoLast == [i |-> 0, r |-> CHOOSE r \in ProcReqs : TRUE, resp |-> NoResp]

\* the setting the gate of instance i works with
EffW(i) == IF ProcState = "once" THEN built[1] ELSE built[i]

PInit == built = <<>> /\ last = NoLast

PNext ==
    \/ /\ Len(built) < BuildDepth /\ last = NoLast
       /\ \E w \in BOOLEAN : built' = Append(built, w)
       /\ UNCHANGED last
    \/ /\ Len(built) = BuildDepth /\ last = NoLast
       /\ \E i \in DOMAIN built : \E r \in ProcReqs : \E resp \in ServeReq(r, EffW(i), "server", FALSE) :
             last' = [i |-> i, r |-> r, resp |-> resp]
       /\ UNCHANGED built

PSpec == PInit /\ [][PNext]_pvars

PGateInv == last.i # 0 => C18_Gate(built[last.i], last.resp.effect)
PLiveInv == last.i # 0 => C18_Live(last.r.m, last.r.t, last.r.sps, last.resp.effect)
\* what an instance answers depends on its own setting only
PIndepInv == last.i # 0 => ServeReq(last.r, built[last.i], "server", FALSE) = {last.resp}

PEmitInv ==
    (Len(built) = BuildDepth /\ last = NoLast) =>
        PrintT(<<"PROC", ToJson([order |-> built,
                                 reqs |-> SetToSeq({[m |-> r.m, t |-> r.t, sps |-> r.sps, h |-> r.h,
                                                     target |-> Target(SpellAll(BasePath(Tpl(r.t)), r.sps))] : r \in ProcReqs})])>>)
=============================================================================
