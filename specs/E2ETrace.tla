------------------------------ MODULE E2ETrace ------------------------------
(***************************************************************************)
(* Trace layer of the composition: validates ndjson traces recorded by     *)
(* harness/e2e from ONE world per run: a real DKG (harness/dkg world: real *)
(* shuttermint app, real smobserver/fx per keyper on its fakepg database)  *)
(* followed, on the SAME databases, by gossip node assemblies (real        *)
(* KeyShareHandler, DecryptionKeyShareHandler, DecryptionKeyHandler and    *)
(* combined topic validators) joined by a simulated network.               *)
(*                                                                         *)
(*   phase 1, DKGTrace format (+ strat in "new"):                          *)
(*     {"k":"new","strat":..,"st":..} {"k":"op","op":..,"out":..,"st":..,  *)
(*     "panic":..} {"k":"fin","fin":..,"panic":..}                         *)
(*   handover:                                                             *)
(*     {"k":"x","succ":[keypers],"pk":fp of the eon public key the test    *)
(*      messages are encrypted to,"mat":[fp of (eon public key, public key *)
(*      share vector) per keyper | "-"]}                                   *)
(*   phase 2, GossipTrace format (k prefixed with g), several schedules    *)
(*   (fresh identities each) on the one eon:                               *)
(*     {"k":"gnew","wt":..,"tabs":..}                                      *)
(*     {"k":"gstep","a":..,"n":..,"m":..,"verdict":..,"prod":..,"err":..,  *)
(*      "panic":..,"missing":..,"tabs":..}                                 *)
(*     {"k":"gend","wt":..,"pending":..,"tabs":..,"judge":..}              *)
(*                                                                         *)
(* Deterministic fold, one TLC state per line.                             *)
(*   pass A  viol : monitors of DKGProps (phase 1) and E2EProps (handover, *)
(*                  phase 2) that are false on the OBSERVED data           *)
(*   pass B  drift: the observed line is not what the composed code-shaped *)
(*                  spec (DKG!ApplyOp under the strategy, HandoverOf,      *)
(*                  E2ETrigger / E2EDeliver / E2EPublish over the Gossip   *)
(*                  operators) yields from the previously OBSERVED state   *)
(***************************************************************************)
EXTENDS E2EProps, DKGTrace, Bags, SequencesExt

VARIABLES sgn, pc, fin, x, gst, wtv
evars == <<l, pre, g, viol, drift, sgn, pc, fin, x, gst, wtv>>

NoFin == [res |-> [i \in K |-> [done |-> FALSE, ok |-> FALSE, pk |-> Blank, pks |-> Blank, share |-> FALSE, vote |-> "none"]], dec |-> <<>>]
NoX == [succ |-> <<>>, pk |-> Blank, mat |-> [i \in K |-> Blank]]
NoWt == [r \in G!RoundIdx |-> {}]
WtObs(line) == [r \in G!RoundIdx |-> SeqSet(line.wt[r])]
NoG == [node |-> [i \in G!Nodes |-> G!NodeInit], net |-> EmptyBag]

(* observed tables -> node records of Gossip.tla (GossipTrace!ObsNode) *)
ObsNode(o) == [shares |-> [id \in G!IdSet |-> ToSet(o.shares[id])], keys |-> [id \in G!IdSet |-> o.keys[id]],
               sigs |-> [r \in G!RoundIdx |-> ToSet(o.sigs[r])], cur |-> o.cur, ptr |-> o.ptr]
ObsTabs(line) == [i \in G!Nodes |-> ObsNode(line.tabs[i + 1])]

(* the observed handover in the shape of HandoverOf *)
ObsHv(xx) == [succ |-> SuccNodes(xx), mat |-> [j \in G!Nodes |-> xx.mat[j + 1]]]

RECURSIVE PacketsObs(_, _, _)
PacketsObs(i, prod, k) ==
    IF k > Len(prod) THEN EmptyBag
    ELSE (IF prod[k].own = "accept" THEN SetToBag({[m |-> prod[k].m, d |-> j] : j \in Part \ {i}}) ELSE EmptyBag)
         (+) PacketsObs(i, prod, k + 1)

(* pass B on the handover: the success set and the equality classes of the key material are those
   of the last observed DKG state; the messages are encrypted to a successful keyper's key *)
XAllowed(s, xx) ==
    LET sx == SpecX(s) IN
    /\ xx.succ = sx.succ
    /\ \A i, j \in SeqSet(xx.succ) : (xx.mat[i] = xx.mat[j]) = (s.kp[i].qual = s.kp[j].qual)
    /\ \A i \in K \ SeqSet(xx.succ) : xx.mat[i] = Blank
    /\ \A i \in SeqSet(xx.succ) : xx.mat[i] # Blank
    /\ (xx.succ = <<>>) => xx.pk = Blank

StepObs(line) == [a |-> line.a, n |-> line.n, verdict |-> line.verdict, prod |-> line.prod, panic |-> line.panic]

EInit == /\ l = 1 /\ pre = InitState /\ g = GhostInit /\ viol = {} /\ drift = {}
         /\ sgn = "-" /\ pc = 1 /\ fin = NoFin /\ x = NoX /\ gst = NoG /\ wtv = NoWt

ENext ==
    /\ l <= Len(Trace)
    /\ l' = l + 1
    /\ LET line == Trace[l] IN
       CASE line.k = "new" ->
              /\ pre' = line.st /\ g' = GhostInit /\ sgn' = line.strat /\ pc' = 1
              /\ fin' = NoFin /\ x' = NoX /\ gst' = NoG /\ wtv' = NoWt
              /\ drift' = drift \cup (IF line.st = InitState /\ line.strat \in StrategyNames THEN {} ELSE {l})
              /\ UNCHANGED viol
         [] line.k = "op" ->
              /\ pre' = line.st
              /\ g' = GhostNext(g, pre, line.op, line.out)
              /\ pc' = IF sgn \in StrategyNames THEN P1NextPc(StrategyNamed(sgn), pc, pre, line.op) ELSE pc
              /\ viol' = viol \cup (IF line.panic = "" THEN {} ELSE {<<l, "C07_NoPanic">>})
              /\ drift' = drift \cup (IF /\ SpecAllows(pre, line)
                                         /\ sgn \in StrategyNames
                                         /\ P1Allows(StrategyNamed(sgn), pc, pre, line.op) THEN {} ELSE {l})
              /\ UNCHANGED <<sgn, fin, x, gst, wtv>>
         [] line.k = "fin" ->
              /\ viol' = viol \cup {<<l, m>> : m \in Failed(line.fin, g)}
                              \cup (IF line.panic = "" THEN {} ELSE {<<l, "C07_NoPanic">>})
              /\ drift' = drift \cup (IF FinAllowed(pre, line.fin) /\ Final(pre) THEN {} ELSE {l})
              /\ fin' = line.fin
              /\ UNCHANGED <<pre, g, sgn, pc, x, gst, wtv>>
         [] line.k = "x" ->
              /\ viol' = viol \cup {<<l, m>> : m \in HandoverFailed(fin, line)}
              /\ drift' = drift \cup (IF XAllowed(pre, line) THEN {} ELSE {l})
              /\ x' = [succ |-> line.succ, pk |-> line.pk, mat |-> line.mat]
              /\ UNCHANGED <<pre, g, sgn, pc, fin, gst, wtv>>
         [] line.k = "gnew" ->
              /\ gst' = [node |-> ObsTabs(line), net |-> EmptyBag]
              /\ wtv' = WtObs(line)
              /\ drift' = drift \cup (IF /\ ObsTabs(line) = [i \in G!Nodes |-> G!NodeInit]
                                         /\ Len(line.wt) = Len(Rounds)
                                         /\ \A r \in G!RoundIdx : SeqSet(line.wt[r]) \subseteq Part /\ Cardinality(SeqSet(line.wt[r])) >= T
                                      THEN {} ELSE {l})
              /\ UNCHANGED <<pre, g, viol, sgn, pc, fin, x>>
         [] line.k = "gend" ->
              /\ viol' = viol \cup {<<l, m>> : m \in EndFailed(x, line, ObsTabs(line))}
              /\ drift' = drift \cup (IF gst.net = EmptyBag /\ ObsTabs(line) = gst.node /\ Len(line.wt) = Len(Rounds) /\ WtObs(line) = wtv THEN {} ELSE {l})
              /\ UNCHANGED <<pre, g, sgn, pc, fin, x, gst, wtv>>
         [] line.k = "gstep" ->
              LET pk == [m |-> line.m, d |-> line.n]
                  obsTabs == ObsTabs(line)
                  hvo == ObsHv(x)
                  j == line.n IN
              /\ viol' = viol \cup {<<l, m>> : m \in StepFailed(x, StepObs(line), obsTabs)}
              /\ CASE line.a = "trig" ->
                        LET r == E2ETrigger(hvo, gst.node[j], j, line.m.r)
                            p == E2EPublish(r.nd, j, r.out) IN
                        /\ drift' = drift \cup (IF /\ line.m.r \in G!RoundIdx /\ j \in wtv[line.m.r]
                                                   /\ [gst.node EXCEPT ![j] = r.nd] = obsTabs
                                                   /\ p.prod = line.prod /\ line.err = r.err THEN {} ELSE {l})
                        /\ gst' = [node |-> obsTabs, net |-> gst.net (+) PacketsObs(j, line.prod, 1)]
                   [] line.a = "dlv" ->
                        IF line.missing
                        THEN /\ drift' = drift \cup {l}
                             /\ gst' = [gst EXCEPT !.node = obsTabs]
                        ELSE LET r == E2EDeliver(hvo, gst.node[j], j, line.m)
                                 p == E2EPublish(r.nd, j, r.out) IN
                             /\ drift' = drift \cup (IF /\ pk \in DOMAIN gst.net /\ r.v = line.verdict
                                                        /\ [gst.node EXCEPT ![j] = r.nd] = obsTabs
                                                        /\ p.prod = line.prod /\ line.err = "" THEN {} ELSE {l})
                             /\ gst' = [node |-> obsTabs,
                                        net |-> (IF pk \in DOMAIN gst.net THEN gst.net (-) SetToBag({pk}) ELSE gst.net)
                                                (+) PacketsObs(j, line.prod, 1)]
                   [] line.a = "drop" ->
                        /\ drift' = drift \cup (IF ~line.missing /\ pk \in DOMAIN gst.net /\ gst.node = obsTabs THEN {} ELSE {l})
                        /\ gst' = [node |-> obsTabs, net |-> [q \in (DOMAIN gst.net) \ {pk} |-> gst.net[q]]]
                   [] OTHER -> /\ drift' = drift \cup {l} /\ gst' = [gst EXCEPT !.node = obsTabs]
              /\ UNCHANGED <<pre, g, sgn, pc, fin, x, wtv>>
         [] OTHER -> UNCHANGED <<pre, g, viol, drift, sgn, pc, fin, x, gst, wtv>>

ESpec == EInit /\ [][ENext]_evars

EDone == l <= Len(Trace) \/
         PrintT(<<"RESULT", ToJson([lines |-> Len(Trace), viol |-> SetToSeq2(viol), drift |-> SetToSeq2(drift)])>>)

=============================================================================
