-------------------------- MODULE GossipValidateProps --------------------------
(***************************************************************************)
(* Property layer of C04, over ONE OBSERVED case: the message as it was    *)
(* built (m), the receiver's database as it was seeded (recv) and what the *)
(* real node did (o: verdict of the combined validator, whether Handle was *)
(* called, messages Handle returned, rows added to the tables).  Nothing   *)
(* here refers to the code-shaped operators of GossipValidate (only to its *)
(* vocabulary: WorldRanks, N, MaxN, OwnExtra).                              *)
(* "accepted iff well-formed" is stated for the combined topic validator   *)
(* of every assembly that carries the core validators: the core keyper and *)
(* the gnosis and shutter-service keypers.                                 *)
(*                                                                         *)
(*  "A key-shares message is accepted iff its instance id matches, the     *)
(*   receiver is a keyper of the named keyper set and that set's key       *)
(*   generation succeeded, it carries between one and the configured       *)
(*   maximum of shares with non-decreasing identities, the claimed sender  *)
(*   index exists, and every share verifies against that sender's public   *)
(*   key share; a keys message is accepted iff the same structural rules   *)
(*   hold and every key is the valid epoch key for its identity under the  *)
(*   eon public key (or equals a key already stored).  Every other message *)
(*   is rejected, is never stored and causes no outgoing message."         *)
(***************************************************************************)
EXTENDS GossipValidate

(* the message is a message of this topic at all: delivered on the topic, current envelope
   version, of the topic's type *)
OfTopic(m) == m.topicOk /\ m.versionOk /\ m.typeOk

(* the receiver is a keyper of the named keyper set and that set's key generation succeeded
   (after a restart: the newest key generation of that set) *)
NamedSetUsable(m) == m.set \in {"MemberOk", "RestartOk"}

CountOk(m) == Len(m.entries) >= 1 /\ Len(m.entries) <= MaxN
NonDecreasing(q) == \A i \in 2..Len(q) : q[i - 1].r <= q[i].r

Structural(m) == OfTopic(m) /\ m.instOk /\ NamedSetUsable(m) /\ CountOk(m) /\ NonDecreasing(m.entries)

SenderExists(m) == m.snd >= 0 /\ m.snd < N
(* every share / key is judged on its own, against the identity it is attached to: a genuine
   token of another identity of the same message (kind "swap") is not genuine for this one *)
(* genuine = made with the key material of the newest successful key generation of the named
   set AS THE DATABASE HOLDS IT NOW (after a restart: not the superseded one) *)
ShareGenuine(e, recv) == IF recv.eonkey = "main" THEN e.k = "valid" ELSE e.k = "otherEon"

(* the key stored in the receiver's database for the identity has exactly these bytes *)
EqualsStoredKey(e, recv) ==
    /\ e.r \in WorldRanks
    /\ \/ e.k = "storedEqual" /\ (recv.stored = "wrongAll" \/ (recv.stored = "wrong1" /\ e.r = 1))
       \/ e.k = "valid" /\ recv.stored = "validAll"
KeyGenuine(e, recv) == (IF recv.eonkey = "main" THEN e.k = "valid" ELSE e.k = "wrong") \/ EqualsStoredKey(e, recv)

(* on a flavour keyper the message must also be one of that flavour (its genuine extra); the
   flavour's own signature rules are property C06, here the extra is genuine whenever present *)
OfFlavour(fl, m) == fl = "core" \/ m.extra = OwnExtra(fl)

WellFormed(fl, m, recv) ==
    /\ OfFlavour(fl, m)
    /\ Structural(m)
    /\ IF m.mt = "shares"
       THEN SenderExists(m) /\ \A i \in DOMAIN m.entries : ShareGenuine(m.entries[i], recv)
       ELSE \A i \in DOMAIN m.entries : KeyGenuine(m.entries[i], recv)

(* monitors over one observed outcome o *)
C04_Exact(fl, m, recv, o)    == (o.v = "accept") <=> WellFormed(fl, m, recv)
C04_Rejected(fl, m, recv, o) == ~WellFormed(fl, m, recv) => o.v = "reject"
C04_NoPanic(m, recv, o)   == o.v \notin {"panic", "timeout"} /\ o.herr \notin {"panic", "timeout"}
C04_NotStored(m, recv, o) == o.v # "accept" => (~o.h /\ o.d.shares = 0 /\ o.d.keys = 0 /\ ~o.d.other)
C04_NoOutgoing(m, recv, o) == o.v # "accept" => o.out = <<>>

Failed(fl, m, recv, o) ==
    (IF C04_Exact(fl, m, recv, o) THEN {} ELSE {"C04_Exact"}) \cup
    (IF C04_Rejected(fl, m, recv, o) THEN {} ELSE {"C04_Rejected"}) \cup
    (IF C04_NoPanic(m, recv, o) THEN {} ELSE {"C04_NoPanic"}) \cup
    (IF C04_NotStored(m, recv, o) THEN {} ELSE {"C04_NotStored"}) \cup
    (IF C04_NoOutgoing(m, recv, o) THEN {} ELSE {"C04_NoOutgoing"})

(* design-level statement checked by TLC on the code-shaped layer *)
DesignHolds(fl, m, recv) == Failed(fl, m, recv, Pipeline(fl, m, recv)) = {}

=============================================================================
