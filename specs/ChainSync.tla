------------------------------ MODULE ChainSync ------------------------------
(***************************************************************************)
(* Code-shaped layer for the three contract-event syncers (C15):           *)
(*   keyperimpl/shutterservice/registrysyncer.go    RegistrySyncer         *)
(*   keyperimpl/shutterservice/multieventsyncer.go  MultiEventSyncer       *)
(*   keyperimpl/gnosis/sequencersyncer.go           SequencerSyncer        *)
(*   medley/syncranges.go                           GetSyncRanges          *)
(* The chain is a TREE of blocks  blk[id] = [num, par, evs];  a block's    *)
(* hash is its id, Empty (0) is the empty hash a rollback writes.  A head  *)
(* h fixes the canonical chain = AncSelf(h).  One call Sync(h) is a pure   *)
(* function Run(cfg, blk, h, st, f) of the database state st = [synced,    *)
(* stored] and a fault f; it returns the sequence of COMMITTED database    *)
(* states the call produces (one per transaction) and the returned error   *)
(* class.  The three syncers share one shape and differ in cfg:            *)
(*   d      assumed reorg depth (const 10; a field of MultiEventSyncer)    *)
(*   maxr   max block range per request (const 10000; field of Multi..)    *)
(*   start0 first block synced when there is no sync row                   *)
(*          (SyncStartBlockNumber; MultiEventSyncer: SyncStart + 1)        *)
(*   errm   what syncRange does with the error of the event transaction:   *)
(*          "returned" (MultiEventSyncer; all three after the repair),     *)
(*          "logged" (RegistrySyncer before the repair: log.Warn, go on),  *)
(*          "dropped" (SequencerSyncer before the repair: err overwritten) *)
(*   reorg  "next": parent check only when header.num = synced.num+1       *)
(*          (original code), "gap": when blocks were skipped the header    *)
(*          of block synced.num+1 is fetched and checked instead (repair)  *)
(***************************************************************************)
EXTENDS Integers, Sequences, FiniteSets, TLC

Empty == 0
Bad   == "x"     \* an event the syncer must discard (eon / gas limit / expiry > MaxInt64, invalid definition)

(* Events with value classes: the token  k_e_g  is an event of key k whose eon has class e and whose
   second numeric field (gas limit / timestamp / expiration block) has class g:
     ok  an ordinary value     max  2^63-1 (fits)     p63  2^63     u64  2^64-1
     wrap  2^64 + ordinary (its low 64 bits look fine)     top  2^256-1                       (gas limit only)
   The plain token k is k_ok_ok.  filterEvents / ProcessEvents must discard an event unless BOTH
   fields fit into an int64; the stored row must carry the values (the projection names a row by
   key and the classes of the STORED values). *)
EonCl == {"ok", "max", "p63", "u64"}
F2Cl  == {"ok", "max", "p63", "u64", "wrap", "top"}
FitCl == {"ok", "max"}
ClassKeys == {"k1", "k2", "k3"}
ClassTok(k, e, g) == k \o "_" \o e \o "_" \o g
BadToks == {Bad} \cup {ClassTok(t[1], t[2], t[3]) : t \in {u \in ClassKeys \X EonCl \X F2Cl : u[2] \notin FitCl \/ u[3] \notin FitCl}}
Admissible(tok) == tok \notin BadToks

St(sy, so) == [synced |-> sy, stored |-> so]
Sy(has, n, hs) == [has |-> has, num |-> n, hash |-> hs]
NoRow == Sy(FALSE, 0, Empty)

----------------------------------------------------------------------------
(* the tree.  A record of blk is one block, or - with the optional field len = k > 1 - a RUN of k
   consecutive eventless blocks (numbers num-k+1 .. num) mined in one environment step; the record's
   id names the LAST block of the run, the block j places below it has the id  id + j * Big.  So a
   chain with gaps as large as the code's constants (assumed reorg depth, request range) stays a
   handful of records. *)
Big == 1000
Base(b) == b % Big
Off(b) == b \div Big
RunLen(blk, i) == IF "len" \in DOMAIN blk[i] THEN blk[i].len ELSE 1
Valid(blk, b) == b >= 1 /\ Base(b) >= 1 /\ Base(b) <= Len(blk) /\ Off(b) < RunLen(blk, Base(b))
NumOf(blk, b) == blk[Base(b)].num - Off(b)
ParOf(blk, b) == IF Off(b) + 1 < RunLen(blk, Base(b)) THEN b + Big ELSE blk[Base(b)].par

(* the RECORDS on the path from block b down to the root *)
RECURSIVE AncSelf(_, _)
AncSelf(blk, b) == IF b < 1 \/ Base(b) < 1 \/ Base(b) > Len(blk) THEN {} ELSE {Base(b)} \cup AncSelf(blk, blk[Base(b)].par)

(* block x is h or an ancestor of h *)
IsAnc(blk, x, h) ==
    Valid(blk, x) /\ Valid(blk, h) /\ Base(x) \in AncSelf(blk, h) /\ (Base(x) = Base(h) => Off(x) >= Off(h))

(* the block with number n on the chain ending in h (0: none) *)
CanonAt(blk, h, n) ==
    LET c == {i \in AncSelf(blk, h) : blk[i].num - RunLen(blk, i) < n /\ n <= blk[i].num} IN
    IF c = {} \/ ~Valid(blk, h) \/ n > NumOf(blk, h) THEN 0
    ELSE LET i == CHOOSE i \in c : TRUE IN i + (blk[i].num - n) * Big

LCA(blk, a, b) ==
    IF IsAnc(blk, a, b) THEN a
    ELSE IF IsAnc(blk, b, a) THEN b
    ELSE LET c == AncSelf(blk, a) \cap AncSelf(blk, b) IN
         IF c = {} THEN 0 ELSE CHOOSE x \in c : \A y \in c : blk[y].num <= blk[x].num

Row(blk, b, k) == [key |-> k, num |-> blk[b].num, bid |-> b]

(* what FilterLogs + filterEvents return for the block range [lo, hi] of the chain ending in h
   (events sit in the last block of their record; runs carry none) *)
EventsIn(blk, h, lo, hi) ==
    UNION {{Row(blk, b, k) : k \in {e \in blk[b].evs : Admissible(e)}} :
           b \in {c \in AncSelf(blk, h) : blk[c].num >= lo /\ blk[c].num <= hi /\ blk[c].num <= NumOf(blk, h)}}

(* INSERT ... ON CONFLICT (key) DO UPDATE *)
Upsert(stored, rows) == {r \in stored : \A n \in rows : n.key # r.key} \cup rows

----------------------------------------------------------------------------
(* medley.GetSyncRanges(start, end, maxRange) *)
RECURSIVE Ranges(_, _, _)
Ranges(s, e, m) ==
    IF s > e THEN <<>>
    ELSE IF s + m - 1 >= e THEN << <<s, e>> >>
    ELSE << <<s, s + m - 1>> >> \o Ranges(s + m, e, m)

(* getNumReorgedBlocks / calculateReorgDepth applied to the header of block c *)
NumReorged(cfg, blk, c, sy) ==
    IF c >= 1 /\ NumOf(blk, c) = sy.num + 1 /\ ParOf(blk, c) # sy.hash
    THEN IF sy.num < cfg.d THEN sy.num ELSE cfg.d
    ELSE 0

(* the header handlePotentialReorg looks at *)
CheckBlock(cfg, blk, h, sy) ==
    IF cfg.reorg = "gap" /\ NumOf(blk, h) > sy.num + 1 THEN CanonAt(blk, h, sy.num + 1) ELSE h

(* resetSyncStatus / rollback: one transaction *)
RollbackTo(st, new) == St(Sy(TRUE, new, Empty), {r \in st.stored : r.num <= new})

(* syncRange's transaction for [lo, hi]: events and position together *)
StoreRange(blk, h, st, lo, hi) ==
    St(Sy(TRUE, hi, CanonAt(blk, h, hi)), Upsert(st.stored, EventsIn(blk, h, lo, hi)))

(* Faults.  f = [k, at]; at = 0 is the preamble (reads, reorg check, rollback transaction),
   at = i >= 1 is the i-th range.
     none                      no fault
     rpc     an RPC call of phase at fails (FilterLogs / HeaderByNumber): always returned
     db      the transaction of phase at fails and is rolled back (SQL error, connection lost)
     dbc     the transaction of phase at is committed but the client sees an error
     crash   the process stops before the commit of phase at
     crashc  the process stops right after the commit of phase at                          *)
FaultKinds == {"rpc", "db", "dbc", "crash", "crashc"}
NoFault == [k |-> "none", at |-> 0]

RECURSIVE RunRanges(_, _, _, _, _, _, _)
RunRanges(cfg, blk, h, st, rs, i, f) ==
    IF i > Len(rs) THEN [seq |-> <<>>, ret |-> "ok"]
    ELSE
      LET st2  == StoreRange(blk, h, st, rs[i][1], rs[i][2])
          hit  == f.at = i
          goOn(s, committed) ==
              LET rest == RunRanges(cfg, blk, h, s, rs, i + 1, f) IN
              [seq |-> (IF committed THEN <<s>> ELSE <<>>) \o rest.seq, ret |-> rest.ret]
      IN CASE hit /\ f.k = "rpc"    -> [seq |-> <<>>, ret |-> "err"]
           [] hit /\ f.k = "crash"  -> [seq |-> <<>>, ret |-> "any"]
           [] hit /\ f.k = "crashc" -> [seq |-> <<st2>>, ret |-> "any"]
           [] hit /\ f.k = "db"     -> IF cfg.errm = "returned" THEN [seq |-> <<>>, ret |-> "err"]
                                       ELSE goOn(st, FALSE)      \* error swallowed: next range
           [] hit /\ f.k = "dbc"    -> IF cfg.errm = "returned" THEN [seq |-> <<st2>>, ret |-> "err"]
                                       ELSE goOn(st2, TRUE)
           [] OTHER                 -> goOn(st2, TRUE)

(* one call of Sync(ctx, header of h) *)
Run(cfg, blk, h, st, f) ==
    LET sy   == st.synced
        c    == IF sy.has THEN CheckBlock(cfg, blk, h, sy) ELSE h
        n    == IF sy.has THEN NumReorged(cfg, blk, c, sy) ELSE 0
        st1  == IF n > 0 THEN RollbackTo(st, sy.num - n) ELSE st
        seq1 == IF n > 0 THEN <<st1>> ELSE <<>>
    IN IF f.at = 0 /\ f.k \in {"rpc", "db"} THEN [seq |-> <<>>, ret |-> "err"]
       ELSE IF f.at = 0 /\ f.k = "crash" THEN [seq |-> <<>>, ret |-> "any"]
       ELSE IF f.at = 0 /\ f.k = "dbc" THEN [seq |-> seq1, ret |-> "err"]
       ELSE IF f.at = 0 /\ f.k = "crashc" THEN [seq |-> seq1, ret |-> "any"]
       ELSE LET start == IF st1.synced.has THEN st1.synced.num + 1 ELSE cfg.start0
                rs    == Ranges(start, NumOf(blk, h), cfg.maxr)
                rr    == RunRanges(cfg, blk, h, st1, rs, 1, f)
            IN [seq |-> seq1 \o rr.seq, ret |-> rr.ret]

(* number of ranges the call works through (fault positions 1..NRanges are meaningful) *)
NRanges(cfg, blk, h, st) ==
    LET r == Run(cfg, blk, h, st, NoFault) IN
    Len(r.seq) - (IF st.synced.has /\ NumReorged(cfg, blk, CheckBlock(cfg, blk, h, st.synced), st.synced) > 0 THEN 1 ELSE 0)

Final(st, r) == IF Len(r.seq) = 0 THEN st ELSE r.seq[Len(r.seq)]

=============================================================================
