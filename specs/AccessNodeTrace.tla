--------------------------- MODULE AccessNodeTrace ---------------------------
(***************************************************************************)
(* Trace layer of the AccessNode stage: validates ndjson traces recorded   *)
(* by harness/accessnode from REAL access nodes (gnosisaccessnode.New, the *)
(* handler registered on a real p2p.P2PMessaging as Start does, chain      *)
(* events through the real onNewKeyperSet / onNewEonKey, gossip messages   *)
(* as marshalled pubsub messages through the real combined validator of    *)
(* the decryptionKeys topic).  One run = one behaviour on fresh nodes.     *)
(*                                                                         *)
(*   {"k":"new"}                                   fresh nodes             *)
(*   {"k":"ev","n":node,"ev":{t,e,mem,thr,act,key},"out":"stored|invalid|  *)
(*    refused|error","st":{eon:{set:{mem,thr,act,idx},key}},"extra":0,     *)
(*    "panic":""}                                                          *)
(*   {"k":"msg","n":node,"m":{e,inst,keys,ord,idl,ex,slot,txp,signers,     *)
(*    sigs},"v":"accept|reject|ignore|panic|hang","w":reason,"pub":0,       *)
(*    "st":{..},"extra":0}                                                 *)
(*   {"k":"end"}     {"k":"crash","panic":..}   the replaying process died *)
(*   {"k":"chain","ch":[..],"start":[s1,s2]}  chain mode: the ev lines that  *)
(*    follow are the handler calls OBSERVED from the real chainsync.Client   *)
(*    of node n, started at block start[n] of the chain (fakeeth node with   *)
(*    the three contracts emulated); pass B also demands that they are the   *)
(*    calls ClientEvents predicts, in order                                  *)
(*   {"k":"sync"}    all clients have delivered everything: A5 over the     *)
(*    CHAIN: equal Storage (A5_ChainStorageDiverged) and, from here on,     *)
(*    equal verdicts (A5_ChainVerdictDiverged)                              *)
(* st is the projection of the node's Storage AFTER the step, extra the    *)
(* number of Storage entries for eons outside the universe, pub the number *)
(* of messages HandleMessage returned after an accept.                     *)
(*                                                                         *)
(* Deterministic fold, one TLC state per line.                             *)
(*   pass A  obsv : monitors of AccessNodeProps false on the OBSERVED data *)
(*                  (C06_* => VIOLATION of C06, the rest => OBSERVATION)   *)
(*   pass B  drift: the observed line is not what the code-shaped spec     *)
(*                  yields from the previously OBSERVED Storage            *)
(***************************************************************************)
EXTENDS AccessNodeProps, Json, SequencesExt

CONSTANTS TraceFile, NN
Trace == ndJsonDeserialize(TraceFile)
Nodes == 1..NN

VARIABLES l, so, g, obsv, drift, cs
tvars == <<l, so, g, obsv, drift, cs>>
(* cs: chain mode (plans that feed the nodes through the real chain-sync client): the chain of the
   run, per node the handler calls still expected, whether both nodes have seen the whole chain *)
Cs0 == [on |-> FALSE, pend |-> <<>>, synced |-> FALSE]

So0 == [n \in Nodes |-> Storage0]
G0 == [n \in Nodes |-> GN0]

TInit == l = 1 /\ so = So0 /\ g = G0 /\ obsv = {} /\ drift = {} /\ cs = Cs0

Extra(line) == IF line.extra # 0 THEN {"A4_ExtraEntries"} ELSE {}

TNext ==
    /\ l <= Len(Trace) /\ l' = l + 1
    /\ LET line == Trace[l] IN
       CASE line.k = "new" ->
              /\ so' = So0 /\ g' = G0 /\ cs' = Cs0
              /\ UNCHANGED <<obsv, drift>>
         [] line.k = "end" -> UNCHANGED <<so, g, obsv, drift, cs>>
         [] line.k = "crash" ->
              /\ obsv' = obsv \cup {<<l, "C05_Panic">>}
              /\ UNCHANGED <<so, g, drift, cs>>
         [] line.k = "chain" ->        \* node n was started at block line.start[n] of the chain and saw it grow to its end
              /\ cs' = [on |-> TRUE, pend |-> [n \in Nodes |-> ClientEvents(line.ch, line.start[n])], synced |-> FALSE]
              /\ UNCHANGED <<so, g, obsv, drift>>
         [] line.k = "sync" ->         \* every node has processed everything its client delivered
              /\ cs' = [cs EXCEPT !.synced = TRUE]
              /\ obsv' = obsv \cup (IF \E n1, n2 \in Nodes : so[n1] # so[n2] THEN {<<l, "A5_ChainStorageDiverged">>} ELSE {})
              /\ drift' = drift \cup (IF cs.on /\ \A n \in Nodes : cs.pend[n] = <<>> THEN {} ELSE {l})
              /\ UNCHANGED <<so, g>>
         [] line.k = "ev" ->
              LET n  == line.n
                  ev == line.ev
                  x  == Apply(so[n], ev)
                  g1 == [g EXCEPT ![n] = GhostEv(g[n], ev)]
                  s1 == [so EXCEPT ![n] = line.st]
                  ob == EvObs(g[n], ev, so[n], line.st) \cup Extra(line) \cup
                        (IF NN > 1 THEN TwinStoreObs(g1, s1) ELSE {}) \cup
                        (IF line.panic # "" THEN {"C05_Panic"} ELSE {}) IN
              /\ so' = s1
              /\ g' = g1
              /\ obsv' = obsv \cup {<<l, o>> : o \in ob}
              /\ cs' = IF cs.on /\ cs.pend[n] # <<>> THEN [cs EXCEPT !.pend[n] = Tail(@)] ELSE cs
              /\ drift' = drift \cup (IF /\ x.st = line.st /\ x.out = line.out /\ line.panic = "" /\ line.extra = 0
                                         /\ (cs.on => (cs.pend[n] # <<>> /\ Head(cs.pend[n]) = ev))
                                      THEN {} ELSE {l})
         [] line.k = "msg" ->
              LET n == line.n
                  m == line.m
                  r == CombinedValidate(so[n], m)
                  ob == MsgObs(g[n], m, line.v, so[n], line.st) \cup Extra(line) \cup
                        (IF NN > 1 THEN TwinMsgObs(g, n, m, line.v) ELSE {}) \cup
                        (IF cs.synced /\ \E n2 \in Nodes \ {n} : \E p \in g[n2].seen : p[1] = m /\ p[2] # line.v
                         THEN {"A5_ChainVerdictDiverged"} ELSE {}) \cup
                        (IF line.pub # 0 THEN {"A2_NodePublishes"} ELSE {}) IN
              /\ so' = [so EXCEPT ![n] = line.st]
              /\ g' = [g EXCEPT ![n] = GhostMsg(g[n], m, line.v)]
              /\ cs' = cs
              /\ obsv' = obsv \cup {<<l, o>> : o \in ob}
              /\ drift' = drift \cup (IF r.v = line.v /\ r.w = line.w /\ line.st = so[n] /\ line.pub = Published(so[n], m) /\ line.extra = 0
                                      THEN {} ELSE {l})

TSpec == TInit /\ [][TNext]_tvars

Done == l <= Len(Trace) \/
        PrintT(<<"RESULT", ToJson([lines |-> Len(Trace), obsv |-> SetToSeq(obsv), drift |-> SetToSeq(drift)])>>)
=============================================================================
