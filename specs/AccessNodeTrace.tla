--------------------------- MODULE AccessNodeTrace ---------------------------
(***************************************************************************)
(* Trace layer of the AccessNode stage: validates ndjson traces recorded   *)
(* by harness/accessnode from REAL access nodes (gnosisaccessnode.New, the *)
(* handler registered on a real p2p.P2PMessaging as Start does, chain      *)
(* events through the real onNewKeyperSet / onNewEonKey, gossip messages   *)
(* as marshalled pubsub messages through the real combined validator of    *)
(* the decryptionKeys topic).  One run = one behaviour on fresh nodes.     *)
(*                                                                         *)
(*   {"k":"new"}                                   fresh nodes             *)
(*   {"k":"ev","n":node,"ev":{t,e,mem,thr,act,key},"out":"stored|invalid|  *)
(*    refused|error","st":{eon:{set:{mem,thr,act,idx},key}},"extra":0,     *)
(*    "panic":""}                                                          *)
(*   {"k":"msg","n":node,"m":{e,inst,keys,ord,idl,ex,slot,txp,signers,     *)
(*    sigs},"v":"accept|reject|ignore|panic|hang","w":reason,"pub":0,       *)
(*    "st":{..},"extra":0}                                                 *)
(*   {"k":"end"}     {"k":"crash","panic":..}   the replaying process died *)
(* st is the projection of the node's Storage AFTER the step, extra the    *)
(* number of Storage entries for eons outside the universe, pub the number *)
(* of messages HandleMessage returned after an accept.                     *)
(*                                                                         *)
(* Deterministic fold, one TLC state per line.                             *)
(*   pass A  obsv : monitors of AccessNodeProps false on the OBSERVED data *)
(*                  (C06_* => VIOLATION of C06, the rest => OBSERVATION)   *)
(*   pass B  drift: the observed line is not what the code-shaped spec     *)
(*                  yields from the previously OBSERVED Storage            *)
(***************************************************************************)
EXTENDS AccessNodeProps, Json, SequencesExt

CONSTANTS TraceFile, NN
Trace == ndJsonDeserialize(TraceFile)
Nodes == 1..NN

VARIABLES l, so, g, obsv, drift
tvars == <<l, so, g, obsv, drift>>

So0 == [n \in Nodes |-> Storage0]
G0 == [n \in Nodes |-> GN0]

TInit == l = 1 /\ so = So0 /\ g = G0 /\ obsv = {} /\ drift = {}

Extra(line) == IF line.extra # 0 THEN {"A4_ExtraEntries"} ELSE {}

TNext ==
    /\ l <= Len(Trace) /\ l' = l + 1
    /\ LET line == Trace[l] IN
       CASE line.k = "new" ->
              /\ so' = So0 /\ g' = G0
              /\ UNCHANGED <<obsv, drift>>
         [] line.k = "end" -> UNCHANGED <<so, g, obsv, drift>>
         [] line.k = "crash" ->
              /\ obsv' = obsv \cup {<<l, "C05_Panic">>}
              /\ UNCHANGED <<so, g, drift>>
         [] line.k = "ev" ->
              LET n  == line.n
                  ev == line.ev
                  x  == Apply(so[n], ev)
                  g1 == [g EXCEPT ![n] = GhostEv(g[n], ev)]
                  s1 == [so EXCEPT ![n] = line.st]
                  ob == EvObs(g[n], ev, so[n], line.st) \cup Extra(line) \cup
                        (IF NN > 1 THEN TwinStoreObs(g1, s1) ELSE {}) \cup
                        (IF line.panic # "" THEN {"C05_Panic"} ELSE {}) IN
              /\ so' = s1
              /\ g' = g1
              /\ obsv' = obsv \cup {<<l, o>> : o \in ob}
              /\ drift' = drift \cup (IF x.st = line.st /\ x.out = line.out /\ line.panic = "" /\ line.extra = 0 THEN {} ELSE {l})
         [] line.k = "msg" ->
              LET n == line.n
                  m == line.m
                  r == CombinedValidate(so[n], m)
                  ob == MsgObs(g[n], m, line.v, so[n], line.st) \cup Extra(line) \cup
                        (IF NN > 1 THEN TwinMsgObs(g, n, m, line.v) ELSE {}) \cup
                        (IF line.pub # 0 THEN {"A2_NodePublishes"} ELSE {}) IN
              /\ so' = [so EXCEPT ![n] = line.st]
              /\ g' = [g EXCEPT ![n] = GhostMsg(g[n], m, line.v)]
              /\ obsv' = obsv \cup {<<l, o>> : o \in ob}
              /\ drift' = drift \cup (IF r.v = line.v /\ r.w = line.w /\ line.st = so[n] /\ line.pub = Published(so[n], m) /\ line.extra = 0
                                      THEN {} ELSE {l})

TSpec == TInit /\ [][TNext]_tvars

Done == l <= Len(Trace) \/
        PrintT(<<"RESULT", ToJson([lines |-> Len(Trace), obsv |-> SetToSeq(obsv), drift |-> SetToSeq(drift)])>>)
=============================================================================
