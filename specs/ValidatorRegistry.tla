-------------------------- MODULE ValidatorRegistry --------------------------
(***************************************************************************)
(* Code-shaped layer of the Gnosis keyper's VALIDATOR REGISTRY path        *)
(* (growth stage of C19):                                                  *)
(*   keyperimpl/gnosis/validatorsyncer.go   Sync, syncRange, fetchEvents,  *)
(*        filterEvents, insertEvents, checkStaticRegistrationMessageFields *)
(*   medley/validatorregistry/*.go          message formats, signatures    *)
(*   medley/beaconapiclient/getvalidator.go GetValidatorByIndices          *)
(*   medley/syncranges.go                   GetSyncRanges                  *)
(*   keyperimpl/gnosis/database/sql/queries/gnosiskeyper.sql               *)
(*        InsertValidatorRegistration, GetValidatorRegistrationNonceBefore,*)
(*        IsValidatorRegistered, Set/GetValidatorRegistrationsSyncedUntil  *)
(*   keyperimpl/gnosis/newslot.go           isProposerRegistered           *)
(*                                                                         *)
(* The chain is a TREE  blk[id] = [num, par, evs]; the hash of a block is  *)
(* its id; evs is the sequence of Updated(message, signature) events of    *)
(* the registry contract in the block, ordered by their position.  Blocks  *)
(* with numbers that are not in the tree are empty filler blocks (hash 0). *)
(* An event is a record                                                    *)
(*   c    "ok" or the ONE thing that is wrong with it:  "chain" (chain id),*)
(*        "addr" (registry address in the message), "idx63" (validator     *)
(*        index > MaxInt64), "bytes" (message not decodable: length, type  *)
(*        byte), "sig" (well-formed BLS signature that does not verify),   *)
(*        "sigbytes" (signature is not a G2 point)                         *)
(*   ver  version byte: 0 legacy, 1 aggregate, 2 unknown                   *)
(*   v    (first) validator index; 1..NV are known to the beacon chain,    *)
(*        NV+1 is unknown (answer 200 without data), NV+2 makes the beacon *)
(*        API answer 404, indices from NV+3 on are unknown                 *)
(*   n    nonce; HugeN stands for 2^31 (> MaxInt32)                        *)
(*   reg  IsRegistration                                                   *)
(*   k    Count of an aggregate message; BigK stands for an attacker       *)
(*        chosen huge count (up to 2^32-1)                                 *)
(*   pos  position of the log in the block (tx index = log index)          *)
(*                                                                         *)
(* Database state of one keyper:  st = [synced |-> [has, num, bid],        *)
(* rows |-> set of [bid, num, pos, v, n, reg]]  (validator_registrations   *)
(* with primary key (block, tx, log, validator) after migration V2).       *)
(*                                                                         *)
(* One call Sync(ctx, header) is the pure function Run below.  Named       *)
(* alternatives (the code AS FOUND first, the repaired behaviour second):  *)
(*   NilMode    "panic": GetValidatorByIndices returns (nil, nil) on 404   *)
(*              and filterEvents reads validators.Data  (nil dereference)  *)
(*              "skip":  a nil answer = no validator of the chunk is known *)
(*   StatusMode "panic": any other status than 200/404 also yields         *)
(*              (nil, nil) because errors.Wrap(nil, ..) is nil             *)
(*              "err":   it is returned as an error                        *)
(*   BatchMode  "db":    the nonce of an event is compared only with rows  *)
(*              already in the database; all events of a range are         *)
(*              filtered before any is inserted                            *)
(*              "batch": also with the events accepted earlier in the call *)
(*   NonceQ     "conj":  GetValidatorRegistrationNonceBefore selects rows  *)
(*              with block <= b AND tx <= t AND log <= l                   *)
(*              "lex":   rows strictly before (b, t, l) in chain order     *)
(*   CountCap   0:       no bound on Count: ValidatorIndices() allocates   *)
(*              Count entries, one beacon request per 64, one query and a  *)
(*              growing logger context per index (quadratic)               *)
(*              c > 0:   aggregate messages with Count > c are discarded   *)
(*   FlagEarly  FALSE:   the EnableAggregateValidatorRegistrationV1 flag   *)
(*              is looked at after the beacon lookups and nonce queries    *)
(*              TRUE:    version 1 is discarded at once when it is off     *)
(* There is NO reorg handling in this syncer (the position only grows).    *)
(***************************************************************************)
EXTENDS Integers, Sequences, FiniteSets, TLC

CONSTANTS NV, AggOn, MaxR, NilMode, StatusMode, BatchMode, NonceQ, CountCap, FlagEarly

HugeN == 99
BigK  == 1000

St(sy, rows) == [synced |-> sy, rows |-> rows]
Sy(has, n, b) == [has |-> has, num |-> n, bid |-> b]
NoRow == Sy(FALSE, 0, 0)

----------------------------------------------------------------------------
(* the tree *)
RECURSIVE AncSelf(_, _)
AncSelf(blk, b) == IF b < 1 \/ b > Len(blk) THEN {} ELSE {b} \cup AncSelf(blk, blk[b].par)

CanonAt(blk, h, n) ==
    LET c == {b \in AncSelf(blk, h) : blk[b].num = n} IN
    IF c = {} THEN 0 ELSE CHOOSE b \in c : TRUE

(* the canonical tree blocks with numbers in [lo, hi], ascending *)
RECURSIVE Path(_, _, _, _)
Path(blk, b, lo, hi) ==
    IF b < 1 \/ b > Len(blk) THEN <<>>
    ELSE IF blk[b].num < lo THEN <<>>
    ELSE Path(blk, blk[b].par, lo, hi) \o (IF blk[b].num <= hi THEN <<b>> ELSE <<>>)

RECURSIVE Flat(_, _, _)
Flat(blk, path, i) ==
    IF i > Len(path) THEN <<>>
    ELSE [j \in 1..Len(blk[path[i]].evs) |-> [e |-> blk[path[i]].evs[j], num |-> blk[path[i]].num, bid |-> path[i]]]
         \o Flat(blk, path, i + 1)

(* fetchEvents: FilterUpdated(start, end): the events of the canonical chain in chain order *)
EventsIn(blk, h, lo, hi) == Flat(blk, Path(blk, h, lo, hi), 1)

----------------------------------------------------------------------------
(* medley.GetSyncRanges(start, end, maxRange) *)
RECURSIVE Ranges(_, _, _)
Ranges(s, e, m) ==
    IF s > e THEN <<>>
    ELSE IF s + m - 1 >= e THEN << <<s, e>> >>
    ELSE << <<s, s + m - 1>> >> \o Ranges(s + m, e, m)

----------------------------------------------------------------------------
(* messages *)
Known(i) == i \in 1..NV
Is404(i) == i = NV + 2

(* AggregateRegistrationMessage.ValidatorIndices() *)
Indices(e) == IF e.ver = 0 THEN <<e.v>> ELSE [i \in 1..e.k |-> e.v + i - 1]

(* the named alternatives as one record, so that a single call can also be evaluated under another
   choice (the trace layer asks which single repair would have changed an observed step) *)
Modes == [nil |-> NilMode, status |-> StatusMode, batch |-> BatchMode, nonceq |-> NonceQ, cap |-> CountCap, early |-> FlagEarly]

(* msg.Unmarshal + checkStaticRegistrationMessageFields (+ the proposed bound on Count) *)
StaticOK(m, e) ==
    /\ e.c # "bytes"
    /\ e.ver \in {0, 1}
    /\ e.c \notin {"chain", "addr", "idx63"}
    /\ ~(e.ver = 1 /\ m.cap > 0 /\ (e.k > m.cap \/ e.k = 0))
    /\ ~(e.ver = 1 /\ m.early /\ ~AggOn)

RowsOfEvent(x) == {[bid |-> x.bid, num |-> x.num, pos |-> x.e.pos, v |-> Indices(x.e)[i], n |-> x.e.n, reg |-> x.e.reg] : i \in 1..Len(Indices(x.e))}
RECURSIVE RowsOf(_, _)
RowsOf(acc, i) == IF i > Len(acc) THEN {} ELSE RowsOfEvent(acc[i]) \cup RowsOf(acc, i + 1)

(* ORDER BY block_number DESC, tx_index DESC, log_index DESC LIMIT 1 *)
Later(a, b) == a.num > b.num \/ (a.num = b.num /\ a.pos > b.pos)
Latest(rs) == CHOOSE r \in rs : \A q \in rs : q = r \/ Later(r, q) \/ (q.num = r.num /\ q.pos = r.pos)

(* GetValidatorRegistrationNonceBefore(validator, block, tx, log); -1 = pgx.ErrNoRows *)
NonceBefore(m, rows, v, num, pos) ==
    LET rs == IF m.nonceq = "conj"
              THEN {r \in rows : r.v = v /\ r.num <= num /\ r.pos <= pos}
              ELSE {r \in rows : r.v = v /\ (r.num < num \/ (r.num = num /\ r.pos < pos))}
    IN IF rs = {} THEN -1 ELSE Latest(rs).n

(* one iteration of the loop of filterEvents for event x = [e, num, bid] with the rows the nonce
   query sees and the state f of the beacon API during the call ("none", "b500", "bdown"):
   "keep" | "skip" | "err" (filterEvents returns an error) | "panic" | "hang" *)
FilterEvent(m, x, seen, f) ==
    LET e == x.e
        idx == Indices(e)
        is == {idx[i] : i \in 1..Len(idx)}
    IN IF ~StaticOK(m, e) THEN "skip"
       ELSE IF e.ver = 1 /\ e.k >= BigK THEN "hang"                       \* no bound on Count here
       ELSE IF is = {} THEN "skip"     \* Count = 0: no lookup, no key; AggregateVerify of nothing is false / flag off: incompatible
       ELSE IF f = "bdown" THEN "err"
       ELSE IF f = "b500" THEN (IF m.status = "panic" THEN "panic" ELSE "err")
       ELSE IF (\E i \in is : Is404(i)) /\ m.nil = "panic" THEN "panic"
       ELSE LET nf == \E i \in is : Is404(i)                               \* nil answer: nobody known
                pass(i) == /\ e.n # HugeN
                           /\ e.n > NonceBefore(m, seen, i, x.num, e.pos)
                           /\ Known(i) /\ ~nf
            IN IF \E i \in is : ~pass(i) THEN "skip"
               ELSE IF e.c = "sigbytes" THEN "skip"
               ELSE IF e.ver = 0 THEN (IF e.c = "sig" THEN "skip" ELSE "keep")
               ELSE IF AggOn THEN (IF e.c = "sig" THEN "skip" ELSE "keep")
               ELSE "skip"

RECURSIVE FilterFold(_, _, _, _, _, _)
FilterFold(m, evs, i, db, acc, f) ==
    IF i > Len(evs) THEN [out |-> "ok", keep |-> acc]
    ELSE LET seen == IF m.batch = "batch" THEN db \cup RowsOf(acc, 1) ELSE db
             r == FilterEvent(m, evs[i], seen, f)
         IN IF r \in {"err", "panic", "hang"} THEN [out |-> r, keep |-> <<>>]
            ELSE FilterFold(m, evs, i + 1, db, IF r = "keep" THEN Append(acc, evs[i]) ELSE acc, f)

(* syncRange(start, end): fetch, filter, header of end, ONE transaction (rows + position) *)
SyncRange(m, blk, h, st, lo, hi, f) ==
    LET r == FilterFold(m, EventsIn(blk, h, lo, hi), 1, st.rows, <<>>, f) IN
    IF r.out # "ok" THEN [st |-> st, ret |-> r.out]
    ELSE [st |-> St(Sy(TRUE, hi, CanonAt(blk, h, hi)), st.rows \cup RowsOf(r.keep, 1)), ret |-> "ok"]

RECURSIVE RunRanges(_, _, _, _, _, _, _)
RunRanges(m, blk, h, st, rs, i, f) ==
    IF i > Len(rs) THEN [st |-> st, ret |-> "ok"]
    ELSE LET r == SyncRange(m, blk, h, st, rs[i][1], rs[i][2], f) IN
         IF r.ret # "ok" THEN r ELSE RunRanges(m, blk, h, r.st, rs, i + 1, f)

(* Sync(ctx, header with number tgt) while h is the node's canonical head (SyncStartBlockNumber = 0) *)
RunM(m, blk, h, st, tgt, f) ==
    LET start == IF st.synced.has THEN st.synced.num + 1 ELSE 0 IN
    RunRanges(m, blk, h, st, Ranges(start, tgt, MaxR), 1, f)
Run(blk, h, st, tgt, f) == RunM(Modes, blk, h, st, tgt, f)

(* isProposerRegistered -> IsValidatorRegistered(validator, block_number < nb); ErrNoRows = FALSE *)
Decide(rows, v, nb) ==
    LET rs == {r \in rows : r.v = v /\ r.num < nb} IN
    IF rs = {} THEN FALSE ELSE Latest(rs).reg

=============================================================================
