------------------------------ MODULE SMConst_out ------------------------------
(* outsider universe (C11): genesis set {a1,a2} with threshold 1, so ONE vote accepts the candidate
   {a1,a2} with threshold 2 and starts its eon; a3 belongs to no keyper set. Within four ops: the eon
   is started, the outsider a3 reports a DKG failure (refused), ONE keyper of the eon reports a
   failure: the DKG must not restart, because only one of the eon's keypers has reported it. *)
cAddrs == {"a1", "a2", "a3"}
cKeyOrd == <<"v1", "none", "v9">>
cGenesis == [keypers |-> <<"a1", "a2">>, thr |-> 1, eon0 |-> 0,
             vals |-> [k \in {"v1", "none", "v9"} |-> IF k = "v9" THEN 10 ELSE 0],
             forkOn |-> FALSE, forkH |-> 0, dev |-> FALSE, legacy |-> FALSE]
cCands == << [keypers |-> <<"a1", "a2">>, thr |-> 2, act |-> 1, idx |-> 1] >>
cSeenBlocks == {1}
cCheckKeys == {"v1"}
cEons == {1, 2}
=============================================================================
