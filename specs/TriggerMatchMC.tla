--------------------------- MODULE TriggerMatchMC ---------------------------
(***************************************************************************)
(* C17: enumeration of the finite (definition, log) / decoder-input domain *)
(* as a three-level state graph (root -> definition cases -> match and     *)
(* decoder cases of that definition), so that TLC's workers share the      *)
(* enumeration.  On every state TLC                                        *)
(*   - evaluates the code-shaped layer on the concretised case and checks  *)
(*     the property layer (the C17 monitors) on that outcome: a failure is *)
(*     printed as a LEAD (spec-level counterexample, replayed on the code) *)
(*   - prints the case descriptor (CASE) for replay on the real code.      *)
(***************************************************************************)
EXTENDS TriggerMatchDomain, Json, TLC, SequencesExt

CONSTANTS Tier      \* "quick" | "thorough"

VARIABLE c

Th == Tier = "thorough"
R0 == DefaultR

SeqsUpTo(S, n) == UNION {[1..k -> S] : k \in 0..n}
Case(k, fam, preds, log, mut) == [k |-> k, fam |-> fam, preds |-> preds, log |-> log, mut |-> mut, sets |-> <<>>, logs |-> <<>>]
LD(same, topics, words, cut) == [same |-> same, topics |-> topics, words |-> words, cut |-> cut]

----------------------------------------------------------------------------
(* value predicates                                                         *)
IntToks == IF Th THEN {"i0", "i1", "i32", "i127", "i128", "iU64", "i2P64", "iFF", "iR1"}
           ELSE {"i0", "i1", "iU64", "i2P64", "iR1"}
WordEqToks == IF Th THEN {"Z", "W1", "R1", "WFF", "b0", "b1", "b31", "b33"} ELSE {"Z", "R1", "b0", "b31", "b33"}
VP(op, ia, ba) == [op |-> op, ia |-> ia, ba |-> ba]
UintVPs(toks) == {VP(o, <<IA(t)>>, <<>>) : o \in 0..4, t \in toks}
EqVPs(toks) == {VP(5, <<>>, <<t>>) : t \in toks}
WordVPs == UintVPs(IntToks) \cup EqVPs(WordEqToks)
DynVPs == IF Th THEN {VP(o, <<IA(t)>>, <<>>) : o \in {0, 2, 4}, t \in {"i0", "i32", "iR1"}}
                     \cup {VP(1, <<IA("i32")>>, <<>>), VP(3, <<IA("i32")>>, <<>>), VP(3, <<IA("iU64")>>, <<>>)}
                     \cup EqVPs({"b0", "Z", "R1", "b64", "b31", "bZ64"})
          ELSE {VP(2, <<IA("i0")>>, <<>>), VP(0, <<IA("i32")>>, <<>>), VP(4, <<IA("iR1")>>, <<>>), VP(3, <<IA("i0")>>, <<>>)}
               \cup EqVPs({"b0", "R1", "b64", "Z"})
Pred(dyn, off, vp) == PD(dyn, off, vp.op, vp.ia, vp.ba)

----------------------------------------------------------------------------
(* definition cases                                                         *)
TopicOffs == {"o0", "o1", "o3"}
StaticOffs == IF Th THEN {"o4", "o5", "o7", "o260", "oU32", "oU32p1", "o2P59p4", "oMax"}
              ELSE {"o4", "o5", "oU32", "o2P59p4"}
DynOffs == IF Th THEN {"o4", "o5", "o7"} ELSE {"o4", "o5"}

TopicDefs == {<<Pred(FALSE, o, vp)>> : o \in TopicOffs, vp \in WordVPs}
             \cup {<<Pred(TRUE, o, VP(2, <<IA("i0")>>, <<>>))>> : o \in TopicOffs}     \* dynamic topic: invalid
StaticDefs == {<<Pred(FALSE, o, vp)>> : o \in StaticOffs, vp \in WordVPs}
DynDefs == {<<Pred(TRUE, o, vp)>> : o \in DynOffs, vp \in DynVPs}

(* several predicates *)
M1 == EqP(FALSE, "o0", "R1")
M2 == EqP(FALSE, "o1", "W1")
M3 == EqP(FALSE, "o0", "Z")                 \* second BytesEq on topic 0
M4 == UintP(FALSE, "o1", 4, "i1")
M5 == UintP(FALSE, "o4", 0, "i32")
M6 == EqP(TRUE, "o5", "R1")
M7 == EqP(FALSE, "o2", "b31")               \* topic BytesEq whose argument is not a word
M8 == EqP(FALSE, "o3", "WFF")
M9 == UintP(TRUE, "o4", 2, "i0")
MultiDefs ==
    {<<>>}
    \cup [1..2 -> {M1, M2, M3, M4, M5, M6, M7, M8}]
    \cup [1..3 -> (IF Th THEN {M1, M2, M4, M5, M6, M8, M9} ELSE {M1, M2, M4, M5, M6})]
    \cup [1..4 -> (IF Th THEN {M1, M2, M5, M6, M8, M9} ELSE {M1, M2, M5, M6})]

(* two (thorough: also three) predicates that interact: the same reference twice (ranges), the SAME
   data offset read as a static word and as a dynamic slice (both orders), different references whose
   values differ.  The answer must still be the AND of the per-predicate semantics.               *)
PairPreds ==
    { UintP(FALSE, "o4", 2, "i32"), UintP(FALSE, "o4", 4, "i32"), UintP(FALSE, "o4", 0, "i64"), UintP(FALSE, "o4", 3, "i32"),
      EqP(FALSE, "o4", "W32"),
      EqP(TRUE, "o4", "R1"), EqP(TRUE, "o4", "b64"), EqP(TRUE, "o4", "b0"), UintP(TRUE, "o4", 2, "iR1"),
      UintP(TRUE, "o4", 4, "i1"), UintP(TRUE, "o4", 1, "iR1"),
      UintP(FALSE, "o5", 2, "i32"), EqP(FALSE, "o5", "R1"), EqP(TRUE, "o5", "R1"), UintP(TRUE, "o5", 2, "i0"),
      UintP(FALSE, "o1", 4, "i1"), UintP(FALSE, "o1", 0, "iU64"), EqP(FALSE, "o1", "W1") }
PairCore ==       \* the flavours of offsets 4 and 5 only
    { UintP(FALSE, "o4", 2, "i32"), UintP(FALSE, "o4", 4, "i64"), EqP(TRUE, "o4", "R1"), UintP(TRUE, "o4", 4, "i1"),
      UintP(FALSE, "o5", 2, "i32"), EqP(TRUE, "o5", "R1") }
PairDefs ==
    ({<<p, q>> : p \in PairPreds, q \in PairPreds} \ {<<p, p>> : p \in PairPreds})
    \cup (IF Th THEN [1..3 -> PairCore] ELSE {<<p, q, p>> : p \in PairCore, q \in PairCore})

(* dynamic values longer than one word (33, 64, 65 bytes) whose high part is not zero while the low
   word is 0 / 32 / random: every unsigned operator against 0, 32, 2^64-1, 2^64                     *)
DynLongDefs == {<<UintP(TRUE, "o4", o, t)>> : o \in 0..4, t \in {"i0", "i32", "iU64", "i2P64"}}
               \cup {<<EqP(TRUE, "o4", "Z")>>, <<EqP(TRUE, "o4", "b64")>>}
DynLongLogs ==
    {LD(TRUE, <<>>, w, 0) : w \in { <<"W32", "W64", "WTOP", "Z">>, <<"W32", "W64", "WTOP", "W32">>, <<"W32", "W64", "R1", "W32">>,
                                    <<"W32", "W64", "R1", "Z">>, <<"W32", "W64", "R1", "R2">>, <<"W32", "W64", "Z", "W32">>,
                                    <<"W32", "W64", "Z", "Z">>, <<"W32", "W33", "WTOP", "Z">>, <<"W32", "W33", "WTOP", "B32">>,
                                    <<"W32", "W33", "Z", "B32">> }}
    \cup {LD(TRUE, <<>>, w, 31) : w \in { <<"W32", "W33", "WTOP", "B32">>, <<"W32", "W65", "WTOP", "Z", "Z">>,
                                         <<"W32", "W65", "WTOP", "Z", "B32">>, <<"W32", "W65", "Z", "R1", "B32">> }}

(* FetchEvents level: sets of two or three definitions active together on one contract.  The palette
   has one event signature with a constant at different topic positions, a wildcard gap, identical
   filters with different data predicates or predicate order, disjoint filters, filters without topic
   constants.                                                                                       *)
F1 == <<EqP(FALSE, "o0", "R1"), EqP(FALSE, "o1", "W1")>>
F2 == <<EqP(FALSE, "o0", "R1"), EqP(FALSE, "o2", "W1")>>                     \* same constants, gap at position 1
F3 == <<EqP(FALSE, "o0", "R1"), EqP(FALSE, "o1", "W1"), UintP(FALSE, "o4", 0, "i32")>>   \* filter of F1 + data predicate
F4 == <<EqP(FALSE, "o0", "R1")>>
F5 == <<EqP(FALSE, "o0", "R2"), EqP(FALSE, "o1", "W1")>>                     \* other signature
F6 == <<EqP(FALSE, "o1", "R1")>>                                             \* the constant of F4 one position later
F7 == <<EqP(FALSE, "o0", "W1"), EqP(FALSE, "o1", "R1")>>                     \* constants of F1 swapped
F8 == <<EqP(FALSE, "o1", "W1"), EqP(FALSE, "o0", "R1")>>                     \* filter of F1, predicates in the other order
F9 == <<UintP(FALSE, "o1", 4, "i1")>>                                        \* no topic constant in the filter
F10 == <<>>
F11 == <<EqP(FALSE, "o0", "R1"), EqP(TRUE, "o4", "R1")>>                     \* signature + dynamic data predicate
FetchPalette == {F1, F2, F3, F4, F5, F6, F7, F8, F9, F10, F11}
FetchCore == {F1, F2, F4, F6, F7, F9}
FetchSets ==
    ({<<a, b>> : a \in FetchPalette, b \in FetchPalette} \ {<<a, a>> : a \in FetchPalette})
    \cup {t \in FetchCore \X FetchCore \X (IF Th THEN FetchPalette ELSE FetchCore) : t[1] # t[2] /\ t[3] # t[1] /\ t[3] # t[2]}
FetchLogs ==
    << LD(TRUE, <<"R1", "W1", "R2">>, <<"W1">>, 0),      LD(TRUE, <<"R1", "R2", "W1">>, <<"W64">>, 0),
       LD(TRUE, <<"R1", "W1", "W1">>, <<"W64">>, 0),     LD(TRUE, <<"R1">>, <<>>, 0),
       LD(TRUE, <<"R2", "W1">>, <<"W1">>, 0),            LD(TRUE, <<"W1", "R1">>, <<"W1">>, 0),
       LD(TRUE, <<"R1", "R1">>, <<"W32", "W32", "R1">>, 0), LD(TRUE, <<>>, <<"W1">>, 0),
       LD(TRUE, <<"Z", "R1", "W1">>, <<>>, 0),           LD(FALSE, <<"R1", "W1", "W1">>, <<"W1">>, 0),
       LD(TRUE, <<"R1", "Z", "W1", "W1">>, <<"W32", "W32", "R1">>, 1), LD(TRUE, <<"R1", "W1">>, <<"W32", "W32", "R1">>, 0) >>
FetchCases == {[Case("fetch", "fetch", <<>>, NoLog, NoMut) EXCEPT !.sets = st, !.logs = FetchLogs] : st \in FetchSets}

(* malformed shapes: only Validate / encode / decode / filter are exercised on them *)
ShapeDefs ==
    { <<PD(FALSE, "o4", 6, <<>>, <<>>)>>,                        \* unknown operator
      <<PD(FALSE, "o4", 6, <<IA("i1")>>, <<>>)>>,
      <<PD(FALSE, "o4", 2, <<>>, <<>>)>>,                        \* missing argument
      <<PD(FALSE, "o4", 2, <<IA("i1"), IA("i1")>>, <<>>)>>,      \* too many
      <<PD(FALSE, "o4", 2, <<IA("i1")>>, <<"Z">>)>>,             \* byte argument for an integer operator
      <<PD(FALSE, "o0", 5, <<>>, <<>>)>>,
      <<PD(FALSE, "o0", 5, <<IA("i1")>>, <<"Z">>)>>,
      <<PD(FALSE, "o0", 5, <<>>, <<"Z", "Z">>)>>,
      <<PD(FALSE, "o4", 2, <<[s |-> "neg", t |-> "i1"]>>, <<>>)>>,
      <<PD(FALSE, "o4", 2, <<[s |-> "nil", t |-> "i0"]>>, <<>>)>>,
      <<M1, M5, M1>>, <<M1, M3>> }

(* definitions whose encodings are mutated into decoder inputs (all of them can be encoded) *)
DecBases ==
    { <<>>, <<M1>>, <<M5>>, <<M6>>, <<UintP(FALSE, "oU32", 3, "iFF")>>, <<M1, M2, M5, M6>>,
      <<EqP(TRUE, "o4", "b0")>>, <<EqP(TRUE, "o4", "b1")>>, <<EqP(TRUE, "o4", "b64")>>,
      \* not valid, but encodable: the decoder must refuse them
      <<M7>>, <<M1, M3>>, <<UintP(FALSE, "oU32p1", 2, "i1")>>, <<UintP(TRUE, "o1", 2, "i1")>>,
      <<PD(FALSE, "o4", 6, <<IA("i1")>>, <<>>)>>, <<PD(FALSE, "o4", 2, <<>>, <<>>)>>,
      <<PD(FALSE, "o4", 2, <<IA("i1"), IA("i1")>>, <<>>)>>, <<PD(FALSE, "o0", 5, <<IA("i1")>>, <<"Z">>)>> }
    \cup (IF Th THEN {<<M2, M4>>, <<M8>>, <<UintP(FALSE, "o4", 1, "i128")>>, <<UintP(FALSE, "o4", 1, "i127")>>,
                      <<EqP(TRUE, "o5", "b1h")>>, <<M9, M6, M5>>} ELSE {})

DefCases ==
    {Case("def", "topic", p, NoLog, NoMut) : p \in TopicDefs}
    \cup {Case("def", "static", p, NoLog, NoMut) : p \in StaticDefs}
    \cup {Case("def", "dyn", p, NoLog, NoMut) : p \in DynDefs}
    \cup {Case("def", "multi", p, NoLog, NoMut) : p \in MultiDefs}
    \cup {Case("def", "pair", p, NoLog, NoMut) : p \in PairDefs}
    \cup {Case("def", "dynlong", p, NoLog, NoMut) : p \in DynLongDefs}
    \cup FetchCases
    \cup {Case("def", "shape", p, NoLog, NoMut) : p \in ShapeDefs}
    \cup {Case("def", "dec", p, NoLog, NoMut) : p \in DecBases}

----------------------------------------------------------------------------
(* logs per definition                                                      *)
Cuts == IF Th THEN {0, 1, 31, 32} ELSE {0, 1, 31}
CutsFor(words) == IF Len(words) = 0 THEN {0} ELSE Cuts

TopicVals == IF Th THEN {"Z", "W1", "R1", "WFF", "WU64", "W2P64"} ELSE {"Z", "W1", "R1", "WFF"}
TopicLogs(i) ==        \* i = referenced topic index
    {LD(TRUE, [j \in 1..nt |-> IF j = i + 1 THEN tv ELSE "R2"], <<>>, 0) :
        nt \in 0..4, tv \in TopicVals}
    \cup {LD(FALSE, [j \in 1..4 |-> "R1"], <<>>, 0), LD(TRUE, [j \in 1..4 |-> "R1"], <<"R1">>, 1)}

StaticVals == IF Th THEN {"Z", "W1", "W32", "WU64", "W2P64", "WFF", "R1"} ELSE {"Z", "W1", "WU64", "W2P64", "R1"}
StaticLogs(k, big) ==  \* k = referenced data word (when not big)
    LET maxn == IF big THEN 1 ELSE IF k + 2 > 4 THEN 4 ELSE k + 2 IN
    ({LD(TRUE, <<>>, w, cut) :
        w \in UNION {{[j \in 1..n |-> IF (~big /\ j = k + 1) THEN v ELSE "R2"] : v \in StaticVals} : n \in 0..maxn},
        cut \in Cuts} \ {LD(TRUE, <<>>, <<>>, cut) : cut \in (Cuts \ {0})})
    \cup {LD(FALSE, <<"R1">>, <<"R1", "R1">>, 0)}

DynWords == IF Th THEN {"Z", "W1", "W32", "W64", "W96", "R1", "WU64", "WMEGA", "WNEG32", "W2P64P32"}
            ELSE {"Z", "W32", "W64", "R1", "WU64", "WMEGA"}
DynMaxWords == 3
DynWords4 == IF Th THEN {"Z", "W1", "W32", "W64", "W96", "R1", "WU64", "WMEGA"} ELSE {}   \* layouts of four words
DynCuts == {0, 1, 31}      \* cutting a whole word is the shorter layout
DynExtra ==            \* hand-picked layouts outside the quick product
    { <<"W32", "W64", "R1", "R2">>, <<"W64", "Z", "W32", "R1">>, <<"W32", "W96", "R1", "R2">>, <<"W32", "W33", "R1", "R2">>,
      <<"WNEG32">>, <<"W2P64P32", "W32", "R1">>, <<"W2P64", "Z">>, <<"W32", "W2P63">>, <<"W32", "WNEG32">>,
      <<"W32", "W2P64P32", "R1", "R2">>, <<"Z", "W32", "W32", "R1">>, <<"R1", "W64", "W32", "R1">>, <<"W1", "W64", "W64", "R1">>,
      <<"W96", "Z", "Z", "Z">>, <<"W96", "Z", "Z", "W1">> }
DynLogs ==
    ({LD(TRUE, <<>>, w, cut) : w \in (SeqsUpTo(DynWords, DynMaxWords) \cup [1..4 -> DynWords4] \cup DynExtra), cut \in DynCuts}
        \ {LD(TRUE, <<>>, <<>>, cut) : cut \in (DynCuts \ {0})})
    \cup {LD(FALSE, <<>>, <<"W32", "W32", "R1">>, 0)}

MultiTopics == {<<>>, <<"R1", "W1">>, <<"Z", "W1">>, <<"R1", "W1", "R2", "WFF">>}
               \cup (IF Th THEN {<<"R1">>, <<"R1", "Z">>} ELSE {})
MultiData == {<<>>, <<"W1", "W64", "W32", "R1">>, <<"W32", "W64", "W32", "R1">>, <<"Z", "W64", "WMEGA", "R1">>}
             \cup (IF Th THEN {<<"W1">>, <<"W1", "WU64">>} ELSE {})
MultiLogs ==
    {LD(TRUE, t, w, 0) : t \in MultiTopics, w \in MultiData}
    \cup {LD(TRUE, <<"R1", "W1", "R2", "WFF">>, <<"W1", "W64", "W32", "R1">>, cut) : cut \in {1, 32}}
    \cup {LD(FALSE, <<"R1", "W1", "R2", "WFF">>, <<"W1", "W64", "W32", "R1">>, 0)}

(* data layouts on which the static word and the dynamic slice at offsets 4 / 5 both resolve and differ *)
PairData ==
    { <<"W32", "W32", "R1">>,              \* word 4 = word 5 = 32; both slices = R1
      <<"W64", "R1", "W32", "R1">>,        \* word 4 = 64, slice 4 = R1; word 5 = R1, slice 5 unresolvable
      <<"W32", "W64", "R1", "R2">>,        \* slice 4 = R1 R2 (64 bytes); word 5 = 64
      <<"W32", "Z">>,                      \* slice 4 empty
      <<"W64", "W64", "W32", "Z">>,        \* both slices = 32 zero bytes
      <<"Z", "W32", "W32">>,               \* word 4 = 0: slice 4 is empty (length word = word 4); slice 5 = 32 bytes (32)
      <<"R1", "W32", "W32", "R1">>,        \* slice 4 unresolvable, word 4 = R1
      <<>> }
PairLogs ==
    {LD(TRUE, t, w, 0) : t \in {<<>>, <<"R1", "W1">>, <<"R1", "WU64">>}, w \in PairData}
    \cup {LD(TRUE, <<"R1", "W1">>, <<"W32", "W32", "R1">>, 1), LD(FALSE, <<"R1", "W1">>, <<"W32", "W32", "R1">>, 0)}

LogsFor(fam, preds) ==
    CASE fam = "topic" -> TopicLogs(OffN(OffTok(preds[1].off)))
      [] fam = "static" -> LET o == OffTok(preds[1].off) IN StaticLogs(IF OffBig(o) THEN 0 ELSE OffN(o) - 4, OffBig(o) \/ OffN(o) > 64)
      [] fam = "dyn" -> DynLogs
      [] fam = "multi" -> MultiLogs
      [] fam = "pair" -> PairLogs
      [] fam = "dynlong" -> DynLongLogs
      [] OTHER -> {}

(* mutations of an encoding of length n *)
SetVals == IF Th THEN {0, 1, 127, 128, 129, 148, 184, 192, 193, 248, 255} ELSE {0, 128, 193, 255}
Muts(n) ==
    {[m |-> "trunc", pos |-> k, val |-> 0] : k \in 1..n}
    \cup {[m |-> "set", pos |-> k, val |-> v] : k \in 1..n, v \in SetVals}
    \cup {[m |-> "del", pos |-> k, val |-> 0] : k \in 1..n}
    \cup {[m |-> "ins", pos |-> k, val |-> v] : k \in 1..n, v \in {0, 128, 192}}
    \cup {[m |-> "app", pos |-> 0, val |-> v] : v \in {0, 128}}
    \cup {[m |-> "empty", pos |-> 0, val |-> 0], NoMut}
    \* "rnd": pos random byte substitutions chosen by the concretiser from VERIF_SEED (val = draw number)
    \cup {[m |-> "rnd", pos |-> k, val |-> v] : k \in {1, 2, 4}, v \in 1..(IF Th THEN 40 ELSE 12)}

----------------------------------------------------------------------------
(* the code-shaped layer evaluated on a case, in the shape of an observed outcome *)
Filt(d, valid) == IF valid THEN CToFilterQuery(d) ELSE [ok |-> FALSE, filt |-> <<>>]
SpecOutDef(d) ==
    LET valid == CValid(d)
        u == CUnmarshal(CMarshal(d))
        f == Filt(d, valid)
    IN [valid |-> valid, menc |-> "ok", uok |-> u.ok, udef |-> u.def,
        uvalid |-> (u.ok /\ CValid(u.def[1])), fok |-> f.ok, filt |-> f.filt]
SpecOutMatch(d, l) ==
    LET valid == CValid(d)
        m == IF valid THEN CMatch(d, l) ELSE "skip"
        f == Filt(d, valid)
    IN [valid |-> valid, match |-> m, alloc |-> IF m = "blow" THEN 1073741824 ELSE 0, fok |-> f.ok, filt |-> f.filt]
SpecOutDec(b) ==
    LET u == CUnmarshal(b) IN [uok |-> u.ok, udef |-> u.def, uvalid |-> (u.ok /\ CValid(u.def[1]))]

Encodable(preds) == \A i \in DOMAIN preds : \A j \in DOMAIN preds[i].ia : preds[i].ia[j].s # "neg"

Failed(cs) ==
    LET d == ConcDef(cs.preds, R0) IN
    CASE cs.k = "def" ->
            IF ~Encodable(cs.preds) THEN {}
            ELSE LET o == SpecOutDef(d) IN
                 (IF C17_RoundTrip(d, o) THEN {} ELSE {"C17_RoundTrip"})
                 \cup (IF C17_DecodeValid(o) THEN {} ELSE {"C17_DecodeValid"})
                 \cup (IF C17_FilterExists(o) THEN {} ELSE {"C17_FilterExists"})
      [] cs.k = "match" ->
            LET l == ConcLog(cs.log, R0)
                o == SpecOutMatch(d, l)
            IN (IF C17_Total(o) THEN {} ELSE {"C17_Total"})
               \cup (IF C17_Bounded(l, o) THEN {} ELSE {"C17_Bounded"})
               \cup (IF C17_Semantics(d, l, o) THEN {} ELSE {"C17_Semantics"})
               \cup (IF C17_FilterSound(l, o) THEN {} ELSE {"C17_FilterSound"})
      [] cs.k = "fetch" ->
            LET ds == [i \in DOMAIN cs.sets |-> ConcDef(cs.sets[i], R0)]
                ls == [j \in DOMAIN cs.logs |-> ConcLog(cs.logs[j], R0)]
                o == [err |-> "", fired |-> CFetchFired(ds, ls),
                      pm |-> [i \in DOMAIN ds |-> [j \in DOMAIN ls |-> IF CValid(ds[i]) THEN CMatch(ds[i], ls[j]) ELSE "skip"]]]
            IN (IF C17_FetchNotHidden(ds, ls, o) THEN {} ELSE {"C17_FetchNotHidden"})
               \cup (IF C17_FetchOnlyMatching(ds, ls, o) THEN {} ELSE {"C17_FetchOnlyMatching"})
      [] cs.k = "dec" ->
            IF cs.mut.m = "rnd" THEN {}
            ELSE LET o == SpecOutDec(ApplyMut(CMarshal(d), cs.mut)) IN
                 IF C17_DecodeValid(o) THEN {} ELSE {"C17_DecodeValid"}
      [] OTHER -> {}

----------------------------------------------------------------------------
Root == Case("root", "", <<>>, NoLog, NoMut)
Init == c = Root
Next ==
    \/ /\ c.k = "root"
       /\ c' \in DefCases
    \/ /\ c.k = "def"
       /\ c.fam \in {"topic", "static", "dyn", "multi", "pair", "dynlong"}
       /\ \E l \in LogsFor(c.fam, c.preds) : c' = Case("match", c.fam, c.preds, l, NoMut)
    \/ /\ c.k = "def"
       /\ c.fam = "dec"
       /\ \E m \in Muts(Len(CMarshal(ConcDef(c.preds, R0)))) : c' = Case("dec", "dec", c.preds, NoLog, m)
Spec == Init /\ [][Next]_c

(* spec-level counterexamples are printed, not stopped at: every one is replayed on the real code *)
LeadInv == c.k = "root" \/ LET f == Failed(c) IN f = {} \/ PrintT(<<"LEAD", ToJson([monitors |-> SetToSeq(f), case |-> c])>>)
EmitInv == c.k = "root" \/ PrintT(<<"CASE", ToJson(c)>>)

ASSUME PrintT(<<"RND", ToJson(R0)>>)
=============================================================================
