-------------------------- MODULE AccessNodeChainMC --------------------------
(***************************************************************************)
(* Chain scenarios for the composition chainsync.Client -> access node:    *)
(* TLC enumerates every chain of at most MaxChain contract events that the *)
(* KeyperSetManager / KeyBroadcastContract accept (ChainAccepts) and       *)
(* prints it with the handler calls the as-found client model predicts for *)
(* node 1 (started at block 0, hears every event through its              *)
(* subscriptions: "live") and node 2 (started when the chain has its full  *)
(* length: "late", initial poll only), the Storage both end with and       *)
(* whether they differ.  The Go side runs both on real clients over        *)
(* harness/fakeeth; AccessNodeTrace validates the observed handler calls   *)
(* against ClientEvents and evaluates A5 over the CHAIN.                   *)
(***************************************************************************)
EXTENDS AccessNodeProps, Json, SequencesExt

CONSTANTS MaxChain

VARIABLE ch

(* activation blocks: 5 twice (two sets with the same activation block) and 6 *)
ChainAlpha == << ChAdd("A", "t", 5), ChAdd("B", "t", 5), ChAdd("B", "t", 6),
                 ChBc(1, "KA"), ChBc(2, "KB"), ChBc(1, "short"), ChBc(0, "KB") >>

Sg(by, who, over) == [by |-> by, who |-> who, over |-> over]
Base(e, k, L) ==
    [e |-> e, inst |-> "ok", keys |-> <<k>>, ord |-> "asc", idl |-> "ok", ex |-> "gnosis", slot |-> "ok", txp |-> "ok",
     signers |-> [i \in 1..T |-> i - 1], sigs |-> [i \in 1..T |-> Sg(L, "listed", "msg")]]
(* validated on both nodes after the chain: the genuine messages of eons 1 and 2, and forged (infinity) keys *)
ChainMsgs == << Base("e1", "KA", "A"), Base("e2", "KB", "B"), Base("e2", "KA", "A"),
                [Base("e1", "KA", "A") EXCEPT !.keys = <<"inf">>], [Base("e2", "KB", "B") EXCEPT !.keys = <<"inf">>] >>

RECURSIVE Fold(_, _)
Fold(st, evs) == IF evs = <<>> THEN st ELSE Fold(Apply(st, Head(evs)).st, Tail(evs))

Init == ch = <<>>
Next == \E c \in DOMAIN ChainAlpha : Len(ch) < MaxChain /\ ChainAccepts(ch, ChainAlpha[c]) /\ ch' = Append(ch, ChainAlpha[c])
Spec == Init /\ [][Next]_ch

EmitInv ==
    LET live == ClientEvents(ch, 0)
        late == ClientEvents(ch, Len(ch))
        s1 == Fold(Storage0, live)
        s2 == Fold(Storage0, late) IN
    PrintT(<<"S", ToJson([ch |-> ch, live |-> live, late |-> late, msgs |-> ChainMsgs, diverge |-> s1 # s2,
                          verdictDiverge |-> \E j \in DOMAIN ChainMsgs : CombinedValidate(s1, ChainMsgs[j]).v # CombinedValidate(s2, ChainMsgs[j]).v,
                          inf |-> \E e \in AllEons : s1[e].key = "INF" \/ s2[e].key = "INF"])>>)
=============================================================================
