----------------------------- MODULE GossipCrashMC -----------------------------
(***************************************************************************)
(* The class domain of C05 wrapped into a transition system: TLC checks    *)
(* the property layer on every outcome the code-shaped layer allows        *)
(* (invariant Design) and prints the cases (EmitInv) that harness/gossipval*)
(* makes concrete (bytes inside a class come from VERIF_SEED) and delivers *)
(* to the real node assemblies.                                            *)
(*                                                                         *)
(* Domain: flavour x subscribed topic x message class record x byte-level  *)
(* class x receiver state, restricted to at most MaxDev deviations from    *)
(* the canonical valid delivery of the flavour (message of the topic's     *)
(* type, every field canonical, no byte-level mutation, receiver "ready"). *)
(* A deviation is one field with a non-canonical value, a message of       *)
(* another type than the topic's, a byte-level class, a receiver state     *)
(* other than "ready".  TLC enumerates class combinations; it does not and *)
(* cannot enumerate byte strings.                                          *)
(*                                                                         *)
(* The message record is chosen in two steps (its general part, then the   *)
(* flavour-extra part) so that TLC never has to filter the full product.   *)
(***************************************************************************)
EXTENDS GossipCrashProps, Json, TLC

CONSTANTS MCFlavours, MaxDev, Emit,
          HdrCost     \* deviations a non-ok envelope version / topic class counts for (quick 2: only with an otherwise canonical delivery)

VARIABLES c, stage
vars == <<c, stage>>

B(b) == IF b THEN 1 ELSE 0
Min2(a, b) == IF a < b THEN a ELSE b

MsgTypes == {"shares", "keys", "eonpk", "trigger", "commitment"}
Sets3    == {"MemberOk", "Unknown", "Overflow"}
Extras   == {"none", "gnosis", "service", "optimism"}
SigQ     == {"valid", "wrongSigner", "garbage", "short"}

(* part A: general fields *)
PartA(ty) ==
    CASE ty = "shares" -> [inst : BOOLEAN, set : Sets3, snd : {0, N, N + 1}, ents : EntClasses, idlen : {"fit", "off"}]
      [] ty = "keys"   -> [inst : BOOLEAN, set : Sets3, ents : EntClasses, idlen : {"fit", "off"}]
      [] ty = "eonpk"  -> [inst : BOOLEAN, pk : {"valid", "garbage", "empty"}, sig : SigQ \cup {"empty"}, big : BOOLEAN]
      [] ty = "trigger" -> [inst : BOOLEAN, block : {"known", "nocollator", "overflow"}, sig : SigQ \cup {"empty"}, idn : {"normal", "empty"}]
      [] ty = "commitment" -> [inst : BOOLEAN, lens : {"eq", "idsMore", "txMore"}, nids : {0, 1, 2}, badid : {"none", "first", "last", "all"},
                               bidsig : {"valid", "v27", "garbage65", "long", "short", "empty", "nonhex"}, digest : {"ok", "short"},
                               block : {"known", "unknown", "negative"}]
DevA(ty, a) ==
    CASE ty = "shares" -> B(~a.inst) + B(a.set # "MemberOk") + B(a.snd # 0) + B(a.ents \notin {"one", "two"}) + B(a.idlen # "fit")
      [] ty = "keys"   -> B(~a.inst) + B(a.set # "MemberOk") + B(a.ents \notin {"one", "two"}) + B(a.idlen # "fit")
      [] ty = "eonpk"  -> B(~a.inst) + B(a.pk # "valid") + B(a.sig # "valid") + B(a.big)
      [] ty = "trigger" -> B(~a.inst) + B(a.block # "known") + B(a.sig # "valid") + B(a.idn # "normal")
      [] ty = "commitment" -> B(~a.inst) + B(a.lens # "eq") + B(a.nids # 1) + B(a.badid # "none") + B(a.bidsig # "valid")
                              + B(a.digest # "ok") + B(a.block # "known")

(* part B: the oneof extra and its content (shares and keys only) *)
HasB(ty) == ty \in {"shares", "keys"}
PartB(ty) ==
    CASE ty = "shares" -> [extra : Extras, slot : {"ok", "huge"}, txp : {"ok", "big", "huge"}, sig : SigQ \cup {"empty"}]
      [] ty = "keys"   -> [extra : Extras, slot : {"ok", "huge"}, txp : {"ok", "big", "huge"},
                           signers : {"good", "none", "fewer", "more", "dup", "unordered"},
                           lastidx : {"in", "n", "n1", "p31", "p32", "p63m1", "p63", "p64m1"},
                           nsigs : {"eq", "none", "fewer", "more"}, sigq : SigQ, sigpos : {"all", "first", "last"}]
DevB(ty, own, b) ==
    CASE ty = "shares" -> B(b.extra # own) + B(b.slot # "ok") + B(b.txp # "ok") + B(b.sig # "valid")
      [] ty = "keys"   -> B(b.extra # own) + B(b.slot # "ok") + B(b.txp # "ok") + B(b.signers # "good") + B(b.lastidx # "in") + B(b.nsigs # "eq") + B(b.sigq # "valid")

(* the position of the bad signature means something only if there is one *)
BOk(ty, b) == ty # "keys" \/ b.sigq # "valid" \/ b.sigpos = "all"

Merge(ty, a, b) ==
    CASE ty = "shares" -> [ty |-> ty, inst |-> a.inst, set |-> a.set, snd |-> a.snd, ents |-> a.ents, idlen |-> a.idlen,
                           extra |-> b.extra, slot |-> b.slot, txp |-> b.txp, sig |-> b.sig]
      [] ty = "keys"   -> [ty |-> ty, inst |-> a.inst, set |-> a.set, ents |-> a.ents, idlen |-> a.idlen,
                           extra |-> b.extra, slot |-> b.slot, txp |-> b.txp, signers |-> b.signers, lastidx |-> b.lastidx,
                           nsigs |-> b.nsigs, sigq |-> b.sigq, sigpos |-> b.sigpos]
Whole(ty, a) ==
    CASE ty = "eonpk" -> [ty |-> ty, inst |-> a.inst, pk |-> a.pk, sig |-> a.sig, big |-> a.big]
      [] ty = "trigger" -> [ty |-> ty, inst |-> a.inst, block |-> a.block, sig |-> a.sig, idn |-> a.idn]
      [] ty = "commitment" -> [ty |-> ty, inst |-> a.inst, lens |-> a.lens, nids |-> a.nids, badid |-> a.badid,
                               bidsig |-> a.bidsig, digest |-> a.digest, block |-> a.block]

DevCap == 4
(* evaluated once (TLCEval forces TLC's lazy function values) *)
ALE == TLCEval([ty \in MsgTypes |-> TLCEval([d \in 0..DevCap |-> TLCEval({a \in PartA(ty) : DevA(ty, a) <= d})])])
BLE == TLCEval([ty \in {"shares", "keys"} |-> TLCEval([own \in {"none", "gnosis", "service"} |->
           TLCEval([d \in 0..DevCap |-> TLCEval({b \in PartB(ty) : DevB(ty, own, b) <= d /\ BOk(ty, b)})])])])

ASSUME MaxDev <= DevCap

VerClasses   == {"ok", "empty", "t1", "t2", "t3", "t4", "one", "dot0", "patch", "minor", "longer", "long", "nonascii"}
TopicClasses == {"ok", "nil", "empty", "trunc", "upper", "sibling"}
InstVals     == {"p1", "m1", "zero", "p63", "max"}

SDev(s) == B(s.ty # s.topic) + B(s.bytes # "none") + B(s.recv # "ready")
           + HdrCost * (B(s.ver # "ok") + B(s.tp # "ok") + B(s.trace # "absent"))

(* the two small extra families:
   send    gnosis / service keypers, shares topic, receiver "primed" (threshold of signatures and
           the keys are there: the flavour handler answers with a keys message), canonical message
           and its single deviations
   stress  access node, keys topic, receiver "ready", canonical message and the unknown / overflow set *)
HdrOk(s) == s.ver = "ok" /\ s.tp = "ok" /\ s.instv = "p1"
SendShares(s) == s.fl \in {"gnosis", "service"} /\ s.topic = "shares" /\ s.trace = "absent" /\ s.tracing = "off"
ModeOk(s) ==
    CASE s.mode = "handle" -> s.tracing = "off" /\ SDev(s) <= MaxDev
      \* send: (a) gnosis / service shares, canonical message and its single deviations;
      \*       (b) every flavour and topic, canonical message, every trace class, tracing on and off
      [] s.mode = "send"   -> HdrOk(s) /\ s.ty = s.topic /\ s.bytes = "none" /\ s.recv = "primed"
      [] s.mode = "stress" -> HdrOk(s) /\ s.trace = "absent" /\ s.tracing = "off" /\ s.fl = "access" /\ s.topic = "keys" /\ s.ty = "keys"
                              /\ s.bytes = "none" /\ s.recv = "ready"
BudgetA(s) == CASE s.mode = "handle" -> MaxDev - SDev(s) [] s.mode = "send" -> (IF SendShares(s) THEN 1 ELSE 0) [] OTHER -> 1
(* the carried instance id value is a refinement of inst = FALSE *)
AOk(s, a) == /\ (a.inst => s.instv = "p1")
             /\ (IF s.ty = "commitment" THEN ~(a.lens = "idsMore" /\ a.nids = 0) ELSE TRUE)   \* no list shorter than the empty one
             /\ IF s.mode # "stress" THEN TRUE ELSE (DevA(s.ty, a) = 0 \/ a.set # "MemberOk")
BudgetB(s) == CASE s.mode = "handle" -> MaxDev - s.dev [] s.mode = "send" -> (IF SendShares(s) THEN 1 - s.dev ELSE 0) [] OTHER -> 0

Seed(fl, topic, ty, by, rs, mo, ve, tp, iv, tr, tg) ==
    [fl |-> fl, topic |-> topic, ty |-> ty, bytes |-> by, recv |-> rs, dev |-> 0, mode |-> mo, ver |-> ve, tp |-> tp, instv |-> iv,
     trace |-> tr, tracing |-> tg]

(* header class triples that fit into the deviation budget at all (evaluated once) *)
HdrTriples == TLCEval({h \in VerClasses \X TopicClasses \X TraceClasses :
                          HdrCost * (B(h[1] # "ok") + B(h[2] # "ok") + B(h[3] # "absent")) <= MaxDev})

Init ==
    /\ stage = 0
    /\ \/ \E fl \in MCFlavours : \E topic \in Topics(fl) : \E ty \in MsgTypes : \E by \in ByteClasses : \E rs \in RecvStates :
          \E h \in HdrTriples : \E iv \in InstVals :
             /\ c = Seed(fl, topic, ty, by, rs, "handle", h[1], h[2], iv, h[3], "off")
             /\ ModeOk(c)
       \/ \E fl \in MCFlavours : \E topic \in Topics(fl) : \E tr \in TraceClasses : \E tg \in {"off", "on"} :
             /\ c = Seed(fl, topic, topic, "none", "primed", "send", "ok", "ok", "p1", tr, tg)
             /\ ModeOk(c)
       \/ /\ "access" \in MCFlavours
          /\ c = Seed("access", "keys", "keys", "none", "ready", "stress", "ok", "ok", "p1", "absent", "off")
          /\ ModeOk(c)

Case(s, m) == [fl |-> s.fl, topic |-> s.topic, m |-> m, bytes |-> s.bytes, recv |-> s.recv, mode |-> s.mode,
               ver |-> s.ver, tp |-> s.tp, instv |-> s.instv, trace |-> s.trace, tracing |-> s.tracing]

Next ==
    \/ /\ stage = 0
       /\ \E a \in ALE[c.ty][BudgetA(c)] :
             /\ AOk(c, a)
             /\ IF HasB(c.ty)
                THEN /\ stage' = 1
                     /\ c' = [fl |-> c.fl, topic |-> c.topic, ty |-> c.ty, bytes |-> c.bytes, recv |-> c.recv, mode |-> c.mode,
                              ver |-> c.ver, tp |-> c.tp, instv |-> c.instv, trace |-> c.trace, tracing |-> c.tracing,
                              dev |-> (IF c.mode = "handle" THEN SDev(c) ELSE 0) + DevA(c.ty, a), a |-> a]
                ELSE /\ stage' = 2
                     /\ c' = Case(c, Whole(c.ty, a))
    \/ /\ stage = 1
       /\ stage' = 2
       /\ \E b \in BLE[c.ty][OwnExtra(c.fl)][BudgetB(c)] : c' = Case(c, Merge(c.ty, c.a, b))

Spec == Init /\ [][Next]_vars

Complete == stage = 2

Design == Complete => DesignHolds(c)

EmitInv == (Emit /\ Complete) => PrintT(<<"CASE", ToJson(c)>>)

=============================================================================
