------------------------------ MODULE GossipMC ------------------------------
(* The gossip network: a bag of packets [m, d]; any interleaving of triggers, deliveries,
   duplications and (bounded) losses of share messages.  TLC explores it exhaustively (VIEW hides
   the history and the last observation) and prints the schedule of every transition that
   reaches quiescence; with -simulate it prints random complete schedules. *)
EXTENDS Gossip, Json, Functions
CONSTANTS MaxDup, MaxDropTotal, Emit   \* MaxDropTotal bounds the losses of one schedule (state-space bound only)
VARIABLES node, net, triggered, wt, dups, dropped, obs, hist
vars == <<node, net, triggered, wt, dups, dropped, obs, hist>>

ASSUME PrintT(<<"CONST", ToJson([n |-> N, t |-> T, ids |-> Ids, flavour |-> Flavour])>>)

NoObs == [verdict |-> "-", prod |-> <<>>]
Act(a, n, m) == [a |-> a, n |-> n, m |-> m]

Init ==
    /\ wt \in {S \in SUBSET Nodes : Cardinality(S) >= T}
    /\ node = [i \in Nodes |-> NodeInit]
    /\ net = EmptyBag /\ triggered = {} /\ dups = 0 /\ dropped = [i \in Nodes |-> 0]
    /\ obs = NoObs /\ hist = <<>>

Quiescent == triggered = wt /\ net = EmptyBag

Trig(i) ==
    /\ i \in wt \ triggered
    /\ LET r == TriggerNode(node[i], i)
           p == Publish(r.nd, i, r.out, 1) IN
       /\ node' = [node EXCEPT ![i] = r.nd]
       /\ net' = net (+) p.pk
       /\ obs' = [verdict |-> "-", prod |-> p.prod]
    /\ triggered' = triggered \cup {i}
    /\ hist' = Append(hist, Act("trig", i, SharesMsg(i)))
    /\ UNCHANGED <<wt, dups, dropped>>

Dlv(pk) ==
    /\ pk \in BagToSet(net)
    /\ LET j == pk.d
           v == Validate(node[j], pk.m)
           h == IF v = "accept" THEN HandleAll(node[j], j, pk.m) ELSE [nd |-> node[j], out |-> <<>>]
           p == Publish(h.nd, j, h.out, 1) IN
       /\ node' = [node EXCEPT ![j] = h.nd]
       /\ net' = (net (-) SetToBag({pk})) (+) p.pk
       /\ obs' = [verdict |-> v, prod |-> p.prod]
    /\ hist' = Append(hist, Act("dlv", pk.d, pk.m))
    /\ UNCHANGED <<triggered, wt, dups, dropped>>

Dup(pk) ==
    /\ pk \in BagToSet(net) /\ dups < MaxDup
    /\ net' = net (+) SetToBag({pk})
    /\ dups' = dups + 1
    /\ obs' = NoObs
    /\ hist' = Append(hist, Act("dup", pk.d, pk.m))
    /\ UNCHANGED <<node, triggered, wt, dropped>>

(* loss of share messages: at most N - T per receiver, and never more than leaves the receiver T
   shares (its own included) from the nodes that are triggered *)
DropBudget == Cardinality(wt) - T
DropShare(pk) ==
    /\ pk \in BagToSet(net) /\ pk.m.t = "shares" /\ dropped[pk.d] < DropBudget
    /\ FoldFunctionOnSet(+, 0, dropped, Nodes) < MaxDropTotal
    /\ net' = [q \in (DOMAIN net) \ {pk} |-> net[q]]
    /\ dropped' = [dropped EXCEPT ![pk.d] = @ + 1]
    /\ obs' = NoObs
    /\ hist' = Append(hist, Act("drop", pk.d, pk.m))
    /\ UNCHANGED <<node, triggered, wt, dups>>

(* schedules that reach quiescence are printed: tag B when every node holds every key there, tag L
   (a lead: to be replayed on the real code) when the model says some node does not *)
EmitStep == (Emit /\ Quiescent') =>
               PrintT(<<IF P_AllHaveKeys(node') THEN "B" ELSE "L", ToJson([wt |-> SortedSeq(wt), sched |-> hist'])>>)
Next ==
    /\ \/ \E i \in Nodes : Trig(i)
       \/ \E pk \in BagToSet(net) : Dlv(pk) \/ Dup(pk) \/ DropShare(pk)
    /\ EmitStep
Spec == Init /\ [][Next]_vars

StepOK == [][P_Accepted(obs')]_vars
KeysGood == P_KeysGood(node)
QuiescentOK == Quiescent => P_AllHaveKeys(node)
View == <<node, net, triggered, wt, dups, dropped>>
==============================================================================
