------------------------------ MODULE GossipMC ------------------------------
(* The gossip network: a bag of packets [m, d]; any interleaving of triggers, deliveries,
   duplications and (bounded) losses of share messages.  TLC explores it exhaustively (VIEW hides
   the history and the last observation) and prints the schedule of every transition that
   reaches quiescence; with -simulate it prints random complete schedules. *)
EXTENDS Gossip, Json, Functions
CONSTANTS MaxDup, MaxDropTotal, Emit   \* MaxDropTotal bounds the losses of one schedule (state-space bound only)
VARIABLES node, net, triggered, wt, dups, dropped, obs, hist, flag
vars == <<node, net, triggered, wt, dups, dropped, obs, hist, flag>>

ASSUME PrintT(<<"CONST", ToJson([n |-> N, t |-> T, rounds |-> Rounds, flavour |-> Flavour])>>)

NoObs == [verdict |-> "-", prod |-> <<>>]
Act(a, n, m) == [a |-> a, n |-> n, m |-> m]

(* wt[r] = the nodes that will be triggered for round r (any subset of size >= T, per round);
   a node is triggered for its rounds in order *)
Init ==
    /\ wt \in [RoundIdx -> {S \in SUBSET Nodes : Cardinality(S) >= T}]
    /\ node = [i \in Nodes |-> NodeInit]
    /\ net = EmptyBag /\ triggered = [r \in RoundIdx |-> {}] /\ dups = 0
    /\ dropped = [i \in Nodes |-> [r \in RoundIdx |-> 0]]
    /\ obs = NoObs /\ hist = <<>> /\ flag = FALSE

Quiescent == triggered = wt /\ net = EmptyBag

Trig(i, r) ==
    /\ i \in wt[r] \ triggered[r]
    /\ \A q \in RoundIdx : (q < r /\ i \in wt[q]) => i \in triggered[q]
    /\ LET tr == TriggerNode(node[i], i, r)
           p == Publish(tr.nd, i, tr.out, 1) IN
       /\ node' = [node EXCEPT ![i] = tr.nd]
       /\ net' = net (+) p.pk
       /\ obs' = [verdict |-> "-", prod |-> p.prod]
    /\ triggered' = [triggered EXCEPT ![r] = @ \cup {i}]
    /\ hist' = Append(hist, Act("trig", i, SharesMsg(i, r)))
    /\ UNCHANGED <<wt, dups, dropped>>

Dlv(pk) ==
    /\ pk \in BagToSet(net)
    /\ LET j == pk.d
           v == Validate(node[j], pk.m)
           h == IF v = "accept" THEN HandleAll(node[j], j, pk.m) ELSE [nd |-> node[j], out |-> <<>>]
           p == Publish(h.nd, j, h.out, 1) IN
       /\ node' = [node EXCEPT ![j] = h.nd]
       /\ net' = (net (-) SetToBag({pk})) (+) p.pk
       /\ obs' = [verdict |-> v, prod |-> p.prod]
    /\ hist' = Append(hist, Act("dlv", pk.d, pk.m))
    /\ UNCHANGED <<triggered, wt, dups, dropped>>

Dup(pk) ==
    /\ pk \in BagToSet(net) /\ dups < MaxDup
    /\ net' = net (+) SetToBag({pk})
    /\ dups' = dups + 1
    /\ obs' = NoObs
    /\ hist' = Append(hist, Act("dup", pk.d, pk.m))
    /\ UNCHANGED <<node, triggered, wt, dropped>>

(* loss of share messages: per receiver and round at most N - T, and never more than leaves the
   receiver T shares (its own included) from the nodes that are triggered for the round *)
DropBudget(r) == Cardinality(wt[r]) - T
DropTotal == FoldFunctionOnSet(+, 0, [i \in Nodes |-> FoldFunctionOnSet(+, 0, dropped[i], RoundIdx)], Nodes)
DropShare(pk) ==
    /\ pk \in BagToSet(net) /\ pk.m.t = "shares" /\ dropped[pk.d][pk.m.r] < DropBudget(pk.m.r)
    /\ DropTotal < MaxDropTotal
    /\ net' = [q \in (DOMAIN net) \ {pk} |-> net[q]]
    /\ dropped' = [dropped EXCEPT ![pk.d][pk.m.r] = @ + 1]
    /\ obs' = NoObs
    /\ hist' = Append(hist, Act("drop", pk.d, pk.m))
    /\ UNCHANGED <<node, triggered, wt, dups>>

(* flag: some step so far produced a message that is not accepted everywhere (StepOK would fail);
   it is part of the VIEW so that such behaviours are not merged with clean ones *)
FlagStep == flag' = (flag \/ ~P_Accepted(obs'))
(* schedules that reach quiescence are printed: tag B when every node holds every key there and no
   step was flagged, tag L (a lead: to be replayed on the real code) when the model itself says the
   property layer fails on the schedule *)
EmitStep == (Emit /\ Quiescent') =>
               PrintT(<<IF P_AllHaveKeys(node') /\ ~flag' THEN "B" ELSE "L", ToJson([wt |-> [r \in RoundIdx |-> SortedSeq(wt[r])], sched |-> hist'])>>)
Next ==
    /\ \/ \E i \in Nodes, r \in RoundIdx : Trig(i, r)
       \/ \E pk \in BagToSet(net) : Dlv(pk) \/ Dup(pk) \/ DropShare(pk)
    /\ FlagStep
    /\ EmitStep
Spec == Init /\ [][Next]_vars

StepOK == [][P_Accepted(obs')]_vars
KeysGood == P_KeysGood(node)
QuiescentOK == Quiescent => P_AllHaveKeys(node)
View == <<node, net, triggered, wt, dups, dropped, flag>>
==============================================================================
