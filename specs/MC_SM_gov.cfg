CONSTANTS
  Addrs <- cAddrs
  KeyOrd <- cKeyOrd
  Genesis <- cGenesis
  TallyMode = "closed"
  Cands <- cCands
  Kinds = {"vote", "seen", "dkgres"}
  SeenBlocks <- cSeenBlocks
  CheckKeys <- cCheckKeys
  Eons <- cEons
  MaxDepth = 4
  Emit = FALSE
  TagMode = "none"
SPECIFICATION Spec
PROPERTY StepProps
VIEW PropView
CHECK_DEADLOCK FALSE
