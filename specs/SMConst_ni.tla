------------------------------ MODULE SMConst_ni ------------------------------
(* non-interference universe (C10): three genesis keypers and one outsider (a4) that can join by
   vote; exactly the two candidate configurations needed to reach "outsider joins, then the next
   configuration is started" within the exhaustive bound *)
cAddrs == {"a1", "a2", "a3", "a4"}
cKeyOrd == <<"v1", "none", "v9">>
cGenesis == [keypers |-> <<"a1", "a2", "a3">>, thr |-> 2, eon0 |-> 0,
             vals |-> [k \in {"v1", "none", "v9"} |-> IF k = "v9" THEN 10 ELSE 0],
             forkOn |-> FALSE, forkH |-> 0, dev |-> FALSE, legacy |-> FALSE]
cCands == << [keypers |-> <<"a1", "a2", "a3", "a4">>, thr |-> 2, act |-> 5, idx |-> 1],
             [keypers |-> <<"a2", "a4">>, thr |-> 1, act |-> 5, idx |-> 2] >>
cSeenBlocks == {5}
cCheckKeys == {"v1"}
cEons == {1, 2}
=============================================================================
