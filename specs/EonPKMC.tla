------------------------------- MODULE EonPKMC -------------------------------
(***************************************************************************)
(* C20 -- the operators of EonPK wrapped into a transition system:         *)
(*   Ins(e)            a key generation for eon e finishes successfully    *)
(*                     (finalizeDKG inserts the outgoing eon key); every   *)
(*                     eon at most once, at most MaxPending rows pending   *)
(*   DoTick(ord,q,fail) one polling tick of the handler: the database      *)
(*                     returns the rows in order ord (any permutation),    *)
(*                     the statement may fail (q), the mechanism may       *)
(*                     refuse its fail-th call                             *)
(* in every interleaving, for every option combination in Modes.  TLC      *)
(* checks the property layer on every transition (StepProps) and prints    *)
(* one history per distinct (state, last step); the harness replays the    *)
(* histories on the real handler.  hist is hidden by the VIEW.             *)
(***************************************************************************)
EXTENDS EonPKProps, Json, TLC, SequencesExt

CONSTANTS
    Modes,        \* names of option sequences (EonPK!OptSeq): Broadcast Callback CallbackRev NoBcTwice Both BothTwice Neither
    InsertKinds,  \* kinds of eons that Ins may insert: subset of {"member", "foreign", "orphan"}
    MaxPending,   \* at most that many rows pending at once (insertions per tick)
    MaxTicks,     \* number of ticks per history
    Faults,       \* subset of {"sqlerr", "refuse"}
    Emit          \* print histories?

VARIABLES mode, rows, used, g, line, nt, tags, hist
vars == <<mode, rows, used, g, line, nt, tags, hist>>
\* tags: the fault classes taken so far ("sqlerr", "refuse").  A failed statement changes nothing in
\* the spec, so without the tags in the VIEW a history that contains one would be shadowed by an
\* equivalent history without it and the real handler would never be driven past a fault.

Line(k, m, e, ord, q, fail, res, pre, calls, err, post) ==
    [k |-> k, mode |-> m, e |-> e, ord |-> ord, q |-> q, fail |-> fail, res |-> res, pre |-> pre,
     calls |-> calls, err |-> err, post |-> post, panic |-> ""]

Op(k, e, ord, q, fail) == [k |-> k, e |-> e, ord |-> ord, q |-> q, fail |-> fail]

Init ==
    /\ mode \in {ModeOf(n) : n \in Modes}
    /\ rows = <<>> /\ used = {} /\ g = GhostInit /\ nt = 0
    /\ line = Line("new", mode, 0, <<>>, "ok", 0, IF ValidateOptions(mode) THEN "ok" ELSE "invalid", <<>>, <<>>, "nil", <<>>)
    /\ tags = {}
    /\ hist = <<>>

Ins(e) ==
    /\ ValidateOptions(mode)
    /\ e \notin used /\ Kind(e) \in InsertKinds
    /\ Len(rows) < MaxPending
    /\ LET post == FinalizeDKGSuccess(rows, e)
           ln == Line("ins", mode, e, <<>>, "ok", 0, "ok", rows, <<>>, "nil", post)
       IN /\ rows' = post
          /\ line' = ln
          /\ g' = GhostNext(g, ln)
    /\ used' = used \cup {e}
    /\ hist' = Append(hist, Op("ins", e, <<>>, "ok", 0))
    /\ UNCHANGED <<mode, nt, tags>>

Perms(n) == {p \in [1..n -> 1..n] : {p[j] : j \in 1..n} = 1..n}

DoTick(ord, q, fail) ==
    /\ ValidateOptions(mode)
    /\ nt < MaxTicks
    /\ LET t == Tick(rows, ord, q, fail, mode)
           ln == Line("tick", mode, 0, ord, q, fail, "ok", rows, t.calls, t.err, t.rows)
       IN /\ rows' = t.rows
          /\ line' = ln
          /\ g' = GhostNext(g, ln)
    /\ nt' = nt + 1
    /\ tags' = tags \cup (IF q # "ok" THEN {"sqlerr"} ELSE {}) \cup (IF fail # 0 THEN {"refuse"} ELSE {})
    /\ hist' = Append(hist, Op("tick", 0, ord, q, fail))
    /\ UNCHANGED <<mode, used>>

Identity(n) == [j \in 1..n |-> j]

Next ==
    \/ \E e \in EonIds : Ins(e)
    \/ \E ord \in Perms(Len(rows)) :
          \E fail \in 0..(IF "refuse" \in Faults THEN MaxCalls(rows, mode) ELSE 0) : DoTick(ord, "ok", fail)
    \/ "sqlerr" \in Faults /\ DoTick(Identity(Len(rows)), "sqlerr", 0)

Spec == Init /\ [][Next]_vars

\* the property layer on every transition of the code-shaped spec
StepProps == [][Failed(g, line') = {}]_vars

\* at the end of a history without faults nothing is owed and nothing is pending
Drained == (nt = MaxTicks /\ line.k = "tick" /\ Clean(line)) => g.owed = {}

\* generation: one history per distinct (state, last step)
EmitInv == (~Emit) \/ PrintT(<<"B", ToJson([mode |-> mode, opts |-> OptSeq(mode.o), ops |-> hist])>>)
GenView == <<mode, rows, used, g, line, nt, tags>>

ASSUME PrintT(<<"CONST", ToJson([eons |-> EonTab, cfgs |-> CfgTab, loop |-> LoopMode])>>)
=============================================================================
