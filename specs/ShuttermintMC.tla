----------------------------- MODULE ShuttermintMC -----------------------------
(***************************************************************************)
(* The shuttermint operators wrapped into a transition system:             *)
(*   - one application instance driven over a finite transaction alphabet  *)
(*     (exhaustive check of the C10/C11/C12 step properties on the         *)
(*     code-shaped spec, and generation of behaviours for replay),         *)
(*   - Replicas: the two-replica product for C09.                          *)
(* hist is the sequence of alphabet indices taken so far; it is hidden by  *)
(* the VIEW so TLC explores each (state, last op) once and EmitInv prints  *)
(* the first history reaching it: the printed set is prefix closed and     *)
(* covers every reachable (post-state, op) pair of the bounded model.      *)
(***************************************************************************)
EXTENDS ShuttermintProps, Json

CONSTANTS
    Cands,        \* sequence of bare configs that may be voted for
    Kinds,        \* subset of op classes to include in the alphabet
    SeenBlocks,   \* block numbers reported by BlockSeen
    CheckKeys,    \* validator keys used in check-ins
    Eons,         \* eon numbers named by DKG messages
    MaxDepth,     \* bound on Len(hist)
    Emit,         \* print histories?
    TagMode       \* "set" | "refused": remember the classes of refused ops taken (see tags) | "none"

VARIABLES app, g, resp, last, hist, app2, ins, tags
vars == <<app, g, resp, last, hist, app2, ins, tags>>
(* tags = the classes <<kind, defect>> of refused-by-design ops taken so far. It is part of every VIEW:
   such ops are (nearly) no-ops of the SPEC, so without it a history containing one is shadowed by an
   equivalent history without it, and an implementation in which the refused op has an effect would
   never be driven past it. It multiplies the state space by the number of subsets of refused classes,
   so it is switched on (TagMode = "set") in the small universes; in the large ones the delayed
   effect of a refused op is covered by the non-interference product SpecNI, whose VIEW contains the
   inserted transaction. *)

BaseTx(k, s) == [k |-> k, s |-> s, n |-> 0, bad |-> "", cfg |-> NoCfg, b |-> 0, eon |-> 0,
                 ok |-> FALSE, key |-> NoKey, to |-> <<>>, gm |-> 0]
Op(o, tx, rn) == [op |-> o, tx |-> tx, rn |-> rn]
NoIns == BaseTx("none", NoAddr)

(* malformed DKG payloads name one fixed eon and one fixed peer: the parse error comes first *)
BadEon == CHOOSE e \in Eons : \A f \in Eons : e <= f
BadPeer(s) == CHOOSE r \in Addrs : r # s
TwoOthers(s) == LET r == BadPeer(s) q == CHOOSE x \in Addrs : x # s /\ x # r IN <<r, q>>

AlphabetSet ==
    (IF "vote" \in Kinds THEN
        {Op("tx", [BaseTx("vote", s) EXCEPT !.cfg = Cands[i]], "fresh") : s \in Addrs, i \in DOMAIN Cands}
     ELSE {}) \cup
    (IF "seen" \in Kinds THEN
        {Op("tx", [BaseTx("seen", s) EXCEPT !.b = b], "fresh") : s \in Addrs, b \in SeenBlocks}
     ELSE {}) \cup
    (IF "checkin" \in Kinds THEN
        {Op("tx", [BaseTx("checkin", s) EXCEPT !.key = k], "fresh") : s \in Addrs, k \in CheckKeys}
     ELSE {}) \cup
    (IF "dkgres" \in Kinds THEN
        {Op("tx", [BaseTx("dkgres", s) EXCEPT !.eon = e, !.ok = ok], "fresh") : s \in Addrs, e \in Eons, ok \in BOOLEAN}
     ELSE {}) \cup
    (IF "dkgmsg" \in Kinds THEN
        {Op("tx", [BaseTx("commit", s) EXCEPT !.eon = e, !.gm = 2], "fresh") : s \in Addrs, e \in Eons} \cup
        {Op("tx", [BaseTx(k, s) EXCEPT !.eon = e, !.to = <<r>>], "fresh") :
            k \in {"eval", "acc", "apol"}, s \in Addrs, r \in Addrs, e \in Eons} \cup
        (* two-element lists, and a list naming one address twice next to another one *)
        {Op("tx", [BaseTx("acc", s) EXCEPT !.eon = BadEon, !.to = <<r, BadPeer(r)>>], "fresh") : s \in Addrs, r \in Addrs} \cup
        {Op("tx", [BaseTx("acc", s) EXCEPT !.eon = BadEon, !.to = TwoOthers(s), !.bad = "dupAddr"], "fresh") : s \in Addrs}
     ELSE {}) \cup
    (IF "dkgone" \in Kinds THEN
        (* one well-formed DKG message of each type per eon, from one fixed keyper to one fixed peer:
           small enough to be combined exhaustively with votes and DKG results (messages that name a
           superseded eon after a restart of the key generation) *)
        LET s == Genesis.keypers[1] IN
        {Op("tx", [BaseTx("commit", s) EXCEPT !.eon = e, !.gm = 2], "fresh") : e \in Eons} \cup
        {Op("tx", [BaseTx(k, s) EXCEPT !.eon = e, !.to = <<BadPeer(s)>>], "fresh") :
            k \in {"eval", "acc", "apol"}, e \in Eons}
     ELSE {}) \cup
    (IF "bad" \in Kinds THEN
        (* gm selects one of the undecodable byte-string variants of the concretiser *)
        {Op("tx", [BaseTx("garbage", NoAddr) EXCEPT !.gm = v], "fresh") : v \in 0..13} \cup
        {Op("tx", [BaseTx("forged", s) EXCEPT !.cfg = Cands[1]], "forged") : s \in Addrs} \cup
        {Op("tx", BaseTx(k, s), "fresh") : k \in {"wrongchain", "nopayload"}, s \in Addrs} \cup
        (* every structural defect of every payload type (app/messages.go, batchconfig.go, deliverCheckIn) *)
        {Op("tx", [BaseTx("vote", s) EXCEPT !.cfg = Cands[1], !.bad = d], "fresh") : s \in Addrs, d \in {"dupAddr", "badAddrLen"}} \cup
        {Op("tx", [BaseTx("checkin", s) EXCEPT !.key = k, !.bad = d], "fresh") : s \in Addrs, k \in CheckKeys, d \in {"badValKey", "badEncKey"}} \cup
        {Op("tx", [BaseTx(k, s) EXCEPT !.eon = BadEon, !.to = <<BadPeer(s)>>, !.bad = d], "fresh") :
            k \in {"eval", "apol"}, s \in Addrs, d \in {"lenMismatch", "dupAddr", "badAddrLen"}} \cup
        {Op("tx", [BaseTx("acc", s) EXCEPT !.eon = BadEon, !.to = <<BadPeer(s)>>, !.bad = d], "fresh") :
            s \in Addrs, d \in {"dupAddr", "badAddrLen"}} \cup
        {Op("tx", [BaseTx("commit", s) EXCEPT !.eon = BadEon, !.gm = 1, !.bad = "badPoint"], "fresh") : s \in Addrs}
     ELSE {}) \cup
    (IF "dupacc" \in Kinds THEN
        {Op("tx", [BaseTx("acc", s) EXCEPT !.eon = BadEon, !.to = <<r, BadPeer(r)>>], "fresh") : s \in Addrs, r \in Addrs} \cup
        {Op("tx", [BaseTx("acc", s) EXCEPT !.eon = BadEon, !.to = TwoOthers(s), !.bad = "dupAddr"], "fresh") : s \in Addrs}
     ELSE {}) \cup
    (IF "forged" \in Kinds THEN
        {Op("tx", [BaseTx("forged", s) EXCEPT !.cfg = Cands[i]], "forged") : s \in Addrs, i \in DOMAIN Cands}
     ELSE {}) \cup
    (IF "badvote" \in Kinds THEN
        {Op("tx", [BaseTx("vote", s) EXCEPT !.cfg = Cands[1], !.bad = d], "fresh") : s \in Addrs, d \in {"dupAddr", "badAddrLen"}}
     ELSE {}) \cup
    (IF "badcheckin" \in Kinds THEN
        {Op("tx", [BaseTx("checkin", s) EXCEPT !.key = k, !.bad = d], "fresh") : s \in Addrs, k \in CheckKeys, d \in {"badValKey", "badEncKey"}}
     ELSE {}) \cup
    (IF "replay" \in Kinds THEN
        {Op("tx", [BaseTx("seen", s) EXCEPT !.b = b], "replay") : s \in Addrs, b \in SeenBlocks}
     ELSE {}) \cup
    (IF "chk" \in Kinds THEN
        {Op("chk", [BaseTx("seen", s) EXCEPT !.b = b], "fresh") : s \in Addrs, b \in SeenBlocks} \cup
        {Op("chk", [BaseTx("garbage", NoAddr) EXCEPT !.gm = v], "fresh") : v \in {0, 3}} \cup
        {Op("chk", BaseTx("wrongchain", s), "fresh") : s \in Addrs}
     ELSE {}) \cup
    {Op("end", BaseTx("none", NoAddr), "fresh")}

Alphabet == SetToSeq(AlphabetSet)

ASSUME PrintT(<<"ALPHABET", ToJson(Alphabet)>>)
ASSUME PrintT(<<"CONST", ToJson([addrs |-> SetToSeq(Addrs), keyord |-> KeyOrd, genesis |-> Genesis])>>)

WithNonce(s, o) ==
    IF o.tx.s = NoAddr THEN o.tx
    ELSE [o.tx EXCEPT !.n = IF o.rn = "replay" THEN Len(s.nonces[o.tx.s]) - 1 ELSE Len(s.nonces[o.tx.s])]

Enabled(s, o) == o.rn \in {"replay", "forged"} => Len(s.nonces[o.tx.s]) > 0

(* the exploration bound is a function of the application state (ops that were executed and
   blocks that were ended), not of the hidden history, so that the set of explored states does
   not depend on which of several histories TLC happens to keep for a VIEW-equal state *)
Size(s) == s.height + FoldSet(LAMBDA a, acc : acc + Len(s.nonces[a]) + s.ctCounts[a], 0, Addrs)
Bounded(s) == Size(s) < MaxDepth /\ Len(hist) < 2 * MaxDepth + 2

R(kind, tx, code, events, updates) ==
    [kind |-> kind, tx |-> tx, code |-> code, events |-> events, updates |-> updates]

(* the results one application instance may produce for op o in state s: set of [st, r] *)
Results(s, o) ==
    LET tx == WithNonce(s, o) IN
    CASE o.op = "tx"  -> {[st |-> x.st, r |-> R("tx", tx, x.code, x.events, <<>>)] : x \in DeliverTx(s, tx)}
      [] o.op = "chk" -> LET x == CheckTx(s, tx) IN {[st |-> x.st, r |-> R("chk", tx, x.code, <<>>, <<>>)]}
      [] o.op = "end" -> LET x == EndBlock(s, s.height + 1) IN
                         {[st |-> Commit(x.st), r |-> R("end", tx, 0, x.events, x.updates)]}

(* "set": the malformed classes taken; "refused": every transaction the spec answers with a code other
   than Ok (malformed, outsider, wrong eon, duplicate ...), with its sender and the fields that
   distinguish what an implementation could wrongly record from it *)
TagsNext(o, code) ==
    IF TagMode = "set" /\ o.op = "tx" /\ Malformed(o.tx) THEN tags \cup {<<o.tx.k, o.tx.bad>>}
    ELSE IF TagMode = "refused" /\ o.op = "tx" /\ code # CodeOk
         THEN tags \cup {<<o.tx.k, o.tx.bad, o.tx.s, o.tx.eon, o.tx.ok>>}
    ELSE tags

Init ==
    /\ app = InitState /\ app2 = InitState
    /\ g = GhostInit
    /\ resp = R("init", BaseTx("none", NoAddr), 0, <<>>, <<>>)
    /\ last = 0
    /\ hist = <<>>
    /\ ins = NoIns
    /\ tags = {}

Step(i) ==
    LET o == Alphabet[i] IN
    /\ Bounded(app)
    /\ Enabled(app, o)
    /\ \E x \in Results(app, o) :
         /\ app' = x.st
         /\ resp' = x.r
         /\ g' = GhostNext(g, app, x.r.kind, x.r.tx, x.r, x.st)
    /\ last' = i
    /\ hist' = Append(hist, i)
    /\ tags' = TagsNext(o, resp'.code)
    /\ UNCHANGED <<app2, ins>>

Next == \E i \in DOMAIN Alphabet : Step(i)
Spec == Init /\ [][Next]_vars

(* edge coverage: the same transition system, but app2 remembers the state BEFORE the last op and is
   part of the VIEW, so TLC keeps (and EmitInv prints a history for) every distinct TRANSITION
   (pre-state, op, post-state), not only every distinct (state, last op): a step whose result depends on
   how the pre-state differs from the post-state (e.g. a validator update that only removes keys) is
   otherwise shadowed by another route into the same state. Costs one state per edge: tiny universes. *)
StepE(i) ==
    LET o == Alphabet[i] IN
    /\ Bounded(app)
    /\ Enabled(app, o)
    /\ \E x \in Results(app, o) :
         /\ app' = x.st
         /\ resp' = x.r
         /\ g' = GhostNext(g, app, x.r.kind, x.r.tx, x.r, x.st)
    /\ last' = i
    /\ hist' = Append(hist, i)
    /\ tags' = TagsNext(o, resp'.code)
    /\ app2' = app
    /\ UNCHANGED ins
NextE == \E i \in DOMAIN Alphabet : StepE(i)
SpecE == Init /\ [][NextE]_vars
EdgeView == <<app, app2, g, last, tags>>

(* C10 C11 C12 step properties of the code-shaped spec *)
StepProps == [][Failed(g, app, resp'.kind, resp'.tx, resp', app') = {}]_vars

(* restart equivalence at the level of the spec: with the closed tally every op has exactly
   one result, and a save file is the whole state (C13) *)
Deterministic == \A i \in DOMAIN Alphabet : Enabled(app, Alphabet[i]) => Cardinality(Results(app, Alphabet[i])) = 1

EmitInv == (~Emit) \/ PrintT(<<"B", hist>>)
EmitEnd == (~Emit) \/ Len(hist) # MaxDepth \/ PrintT(<<"B", hist>>)
GenView == <<app, last, tags>>
PropView == <<app, g, last, tags>>

----------------------------------------------------------------------------
(* C09: two replicas fed the same ops, each resolving its own choices *)

Step2(i) ==
    LET o == Alphabet[i] IN
    /\ Bounded(app)
    /\ Enabled(app, o)
    /\ \E x \in Results(app, o), y \in Results(app2, o) :
         /\ app' = x.st /\ app2' = y.st
         /\ resp' = [x.r EXCEPT !.code = IF x.r = y.r THEN x.r.code ELSE -1]
    /\ g' = g /\ ins' = ins
    /\ last' = i
    /\ hist' = Append(hist, i)
    /\ tags' = TagsNext(o, resp'.code)

Next2 == \E i \in DOMAIN Alphabet : Step2(i)
Spec2 == Init /\ [][Next2]_vars
C09_Agree == app = app2 /\ resp.code # -1
View2 == <<app, app2, last, tags>>

----------------------------------------------------------------------------
(* C10 non-interference product: run B = run A with ONE refused transaction x inserted.
   app = A, app2 = B.  ins = the inserted tx (with nonce) or NoIns. *)
varsNI == vars

Refusable(s, o) ==
    /\ o.op = "tx"
    /\ \/ Malformed(o.tx)
       \/ o.rn = "replay"
       \/ o.tx.s \notin AllMembers(s)

InitNI == Init

Insert(i) ==
    LET o == Alphabet[i] IN
    /\ ins = NoIns
    /\ Bounded(app2)
    /\ Enabled(app2, o)
    /\ Refusable(app2, o)
    /\ \E y \in Results(app2, o) :
         /\ app2' = y.st
         /\ ins' = y.r.tx
         /\ resp' = [y.r EXCEPT !.kind = "ins"]
    /\ last' = i /\ hist' = Append(hist, i)
    /\ UNCHANGED <<app, g, tags>>

StepNI(i) ==
    LET o == Alphabet[i] IN
    /\ Bounded(app2)
    /\ Enabled(app, o) /\ Enabled(app2, o)
    /\ \E x \in Results(app, o), y \in Results(app2, o) :
         /\ app' = x.st /\ app2' = y.st
         /\ resp' = [x.r EXCEPT !.code = IF (o.tx.s = ins.s /\ ins.s # NoAddr)
                                             \/ [x.r EXCEPT !.tx = y.r.tx] = y.r THEN x.r.code ELSE -1]
    /\ last' = i /\ hist' = Append(hist, i)
    /\ UNCHANGED <<g, ins, tags>>

NextNI == \E i \in DOMAIN Alphabet : StepNI(i) \/ Insert(i)
SpecNI == InitNI /\ [][NextNI]_varsNI
C10_NI == /\ resp.code # -1
          /\ (resp.kind = "ins" => resp.code # CodeOk \/ (resp.events = <<>> /\ resp.updates = <<>>))
          /\ Mask(app, ins) = Mask(app2, ins)
(* known finding D8 (known_findings.json): a well-formed BlockSeen of an address that was outside
   every keyper set when it was inserted and has joined one since; the exhaustive run excuses
   exactly these states, the witness history is replayed on the real code by every run *)
KnownD8 == ins.k = "seen" /\ ins.bad = "" /\ ins.s \in AllMembers(app2)
C10_NI_ModuloKnown == KnownD8 \/ C10_NI
ViewNI == <<app, app2, ins, last>>

=============================================================================
