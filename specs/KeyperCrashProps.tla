-------------------------- MODULE KeyperCrashProps --------------------------
(***************************************************************************)
(* Property layer of C08 over OBSERVED data: o = [db, sent] where db is    *)
(* the projection of the keyper's database (same shape as the db record of *)
(* KeyperCrash) and sent is every broadcast of the keyper that shuttermint *)
(* executed, oldest first, as [k, p, code]; t = the same for the twin run  *)
(* that never crashed, taken after the same step of the schedule.          *)
(***************************************************************************)
EXTENDS KeyperCrash

(* every block's events are applied exactly once: the sync rows are 0,1,..,sync, no gap, no repeat *)
C08_Once(o) == /\ Len(o.db.rows) = o.db.sync + 1
               /\ \A i \in DOMAIN o.db.rows : o.db.rows[i] = i - 1

(* never two different polynomial commitments for one eon *)
CommitPolys(o) == {o.sent[i].p : i \in {j \in DOMAIN o.sent : o.sent[j].k = "commit"}}
C08_OnePoly(o) == Cardinality(CommitPolys(o) \cup {o.db.outbox[i].p : i \in {j \in DOMAIN o.db.outbox : o.db.outbox[j].k = "commit"}}) <= 1

(* everything sent or queued is consistent with the stored secret state *)
UsedPolys(o) == ({o.sent[i].p : i \in DOMAIN o.sent} \cup {o.db.outbox[i].p : i \in DOMAIN o.db.outbox}) \ {0}
C08_Consistent(o) == /\ Cardinality(UsedPolys(o)) <= 1
                     /\ (o.db.pure /\ o.db.rec.poly # 0) => UsedPolys(o) \subseteq {o.db.rec.poly}

(* messages reach shuttermint in the order they were queued: without the repeats (a message
   sent again after a crash) the broadcasts are those of the twin, in the same order *)
RECURSIVE Dedup(_, _)
Dedup(q, acc) ==
    IF q = <<>> THEN acc
    ELSE LET m == [k |-> Head(q).k, p |-> Head(q).p] IN
         Dedup(Tail(q), IF \E i \in DOMAIN acc : acc[i] = m THEN acc ELSE Append(acc, m))
KP(q) == [i \in DOMAIN q |-> [k |-> q[i].k, p |-> q[i].p]]
C08_Order(o, t) == Dedup(o.sent, <<>>) = KP(t.sent)
(* a repeat is answered "seen" (shuttermint-side de-duplication), it has no second effect *)
C08_RepeatSeen(o) == \A i, j \in DOMAIN o.sent :
    (i < j /\ o.sent[i].k = o.sent[j].k /\ o.sent[i].p = o.sent[j].p /\ o.sent[i].k # "bseen") => o.sent[j].code = CodeSeen
    (* (a repeated BlockSeen report is accepted again: shuttermint keeps the maximum, idempotent) *)

(* a restarted keyper can load what is stored: every puredkg row decodes *)
C08_Loadable(o) == o.db.loadable

(* every queued shuttermint message is delivered, in order: what was ever committed to the outbox
   (o.queued, id order) is what shuttermint received, repeats aside (evaluated at the end) *)
(* (a BatchConfig vote is exempt: once the config is registered it is moot and handleBatchConfig
   withdraws it; what must NOT happen to it is C08_NoStale) *)
NoVotes(q) == SelectSeq(q, LAMBDA m : m.k # "vote")
C08_Delivered(o) == NoVotes(Dedup(o.sent, <<>>)) = NoVotes(o.queued)

(* after the on-chain fact (the keyper config is registered: its row is in tendermint_batch_config)
   has been observed, no stale message about it remains in the outbox, where shuttermint's refusal
   would block everything queued behind it *)
C08_NoStale(o) == o.db.cfgseen => \A i \in DOMAIN o.db.outbox : o.db.outbox[i].k # "vote"

(* it resumes exactly where a keyper that never crashed would be *)
C08_Twin(o, t) == o.db = t.db

(* at the end: every queued message was delivered, the outcome is the twin's *)
C08_Final(o, t) == o.db.outbox = <<>> /\ o.db.res = t.db.res /\ t.db.res = "full"

StepFailed(o, t) ==
    (IF C08_Once(o) THEN {} ELSE {"C08_Once"}) \cup
    (IF C08_OnePoly(o) THEN {} ELSE {"C08_OnePoly"}) \cup
    (IF C08_Consistent(o) THEN {} ELSE {"C08_Consistent"}) \cup
    (IF C08_Order(o, t) THEN {} ELSE {"C08_Order"}) \cup
    (IF C08_RepeatSeen(o) THEN {} ELSE {"C08_RepeatSeen"}) \cup
    (IF C08_Twin(o, t) THEN {} ELSE {"C08_Twin"}) \cup
    (IF C08_Loadable(o) THEN {} ELSE {"C08_Loadable"}) \cup
    (IF C08_NoStale(o) THEN {} ELSE {"C08_NoStale"})

(* after a crash, before the restart: the database alone must already be sound *)
MidFailed(o) ==
    (IF C08_Once(o) THEN {} ELSE {"C08_Once"}) \cup
    (IF C08_OnePoly(o) THEN {} ELSE {"C08_OnePoly"}) \cup
    (IF C08_Consistent(o) THEN {} ELSE {"C08_Consistent"}) \cup
    (IF C08_RepeatSeen(o) THEN {} ELSE {"C08_RepeatSeen"}) \cup
    (IF C08_Loadable(o) THEN {} ELSE {"C08_Loadable"})

=============================================================================
