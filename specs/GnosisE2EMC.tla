----------------------------- MODULE GnosisE2EMC -----------------------------
(***************************************************************************)
(* The composed Gnosis system as one transition system.                    *)
(*                                                                         *)
(*   mine g / reorg g   the chain grows by a block carrying a transaction  *)
(*                      of gas class g (or none); once, the last block is  *)
(*                      replaced by a sibling (depth-1 reorg)              *)
(*   sync k             keyper k's SequencerSyncer is called with the head *)
(*   restart k          keyper k restarts (ages unknown, new Keyper object)*)
(*   slot               the next slot begins                               *)
(*   tick k             keyper k's slot ticker fires for the current slot  *)
(*   dlv pk / drop pk   a packet is delivered, in any order / a share      *)
(*                      message is lost (at most MaxLoss per receiver and  *)
(*                      slot)                                              *)
(*                                                                         *)
(* Block n carries the timestamp of slot n, so a keyper can answer slot s  *)
(* only while its syncer is at a block < s; the block of slot s may be     *)
(* mined from the beginning of slot s on (an early block makes the keypers *)
(* that synced it refuse the slot).  A keyper may be up to MaxLag blocks    *)
(* behind the head when the next block is mined (MaxLag = 1: every keyper  *)
(* syncs every block).                                                     *)
(*                                                                         *)
(* Reduction (sound modulo commuting independent steps): chain and sync    *)
(* steps are taken at the beginning of a slot, before the first tick       *)
(* (ph = "env").  A sync of keyper k only changes what k's NEXT tick       *)
(* reads, a mined block only what later syncs read, so every interleaving  *)
(* of them with the ticks and deliveries of the slot has a representative  *)
(* here; a restart is allowed at any time.  The next slot begins only when *)
(* nothing is in flight.                                                   *)
(*                                                                         *)
(* Network.  Policies = {"any"}: every delivery order, ticks at any time    *)
(* (affordable for one slot: 3 ticking keypers give ~5*10^5 states per     *)
(* slot).  Otherwise the delivery order of a slot is fixed by a POLICY     *)
(* chosen when the slot begins: the packet delivered (or lost) next is the *)
(* least one under the policy's lexicographic key                          *)
(*   sharesfirst  all share messages (receiver 0, 1, 2), then the keys     *)
(*                messages: everybody derives the keys itself              *)
(*   keysfirst    a keys message overtakes the remaining shares: receivers *)
(*                learn the keys from the network, late shares make them   *)
(*                announce the keys again                                  *)
(*   rcvmajor     receiver 0 gets everything first, then 1, then 2         *)
(*   sndmajor     the highest sender's messages first                      *)
(* and the slot tickers fire in BURSTS: a set of keypers (ascending; ticks *)
(* of different keypers commute) while nothing has been delivered since    *)
(* the last tick, or any keyper when nothing is in flight (a late keyper   *)
(* that has already received the others' shares, or the keys).             *)
(*                                                                         *)
(* All bounds are functions of the state.  hist is hidden by the VIEW; the *)
(* ghost's tag set (code paths taken so far) is part of it, so that TLC    *)
(* prints one behaviour per distinct (final state, set of paths).          *)
(***************************************************************************)
EXTENDS GnosisE2EProps, Json

CONSTANTS
    FirstSlot, MaxSlot,   \* slots FirstSlot..MaxSlot are ticked
    TxGas,                \* what a mined block may carry: subset of {"none", "Low", "AtLimit", "Above"}
    MaxTx,                \* bound on the transactions of one branch (queue length)
    MaxLag, MaxLoss, MaxRestarts, AllowReorg,
    Laggards,             \* keypers that may fall behind the head; the others sync every block at once
    EarlyBlocks,          \* may the block of slot s be mined (and synced) before the keypers tick slot s?
    LateTicks,            \* policy mode: may a keyper tick after deliveries of the slot (at quiescence)?
    Tickers,              \* keypers whose slot ticker runs (subset of KeyperIdx)
    Policies,             \* {"any"} or a set of delivery policies
    Emit

VARIABLES w, net, gw, obs, ph, cnt, pol, burst, hist
vars == <<w, net, gw, obs, ph, cnt, pol, burst, hist>>

ASSUME PrintT(<<"CONST", ToJson([nk |-> NK, t |-> T, gaslimit |-> GasLimit, mingas |-> MinGas, maxage |-> MaxAge,
                                 unreg |-> SetToSeq(Unreg), ranks |-> Ranks, first |-> FirstSlot, maxslot |-> MaxSlot])>>)

NoObsE == [a |-> Act("-", 0, "none", NoM), o |-> ObsRec("-", NoTrigR), prod |-> <<>>]

Init ==
    /\ w = WorldInit(FirstSlot)
    /\ net = EmptyBag /\ gw = GW0 /\ obs = NoObsE /\ ph = "env"
    /\ cnt = [rst |-> 0, reorg |-> FALSE]
    /\ pol \in Policies /\ burst = -1
    /\ hist = <<>>

HeadNum == w.ch.blk[w.ch.head].num
(* nothing to sync: Sync(head) returns without touching the database iff the position is not below
   the head's number (also when the head is a sibling of the synced block: ASSUME'd by SyncIdle) *)
AtHead(k) == w.kp[k + 1].sy.synced.num >= HeadNum
SyncIdle == \A k \in KeyperIdx : AtHead(k) <=> SyncStep(w.ch, w.kp[k + 1].sy) = w.kp[k + 1].sy
EagerDone == \A k \in KeyperIdx \ Laggards : AtHead(k)
SyncedNum(k) == w.kp[k + 1].sy.synced.num

(* compact form of an action in the printed history: <<a, n, g>> or, with a message,
   <<a, n, t, from, slot, p, ids, signers>> with a slot identity written -slot, a transaction
   identity by its rank (every share / signature / key of a model message is genuine) *)
Enc(a) ==
    IF a.m.t = "-" THEN <<a.a, a.n, a.g>>
    ELSE <<a.a, a.n, a.m.t, a.m.from, a.m.c.slot, a.m.c.p,
           [i \in DOMAIN a.m.c.ids |-> IF a.m.c.ids[i].k = "slot" THEN 0 - a.m.c.ids[i].r ELSE a.m.c.ids[i].r],
           a.m.signers>>

(* the step a, with the packet pk taken out of the network (NoPk: none) *)
NoPk == [m |-> NoM, d |-> 0]
Do(a, pk) ==
    LET x == ApplyAct(w, a)
        p == Publish(a.n, x.out, 1)
        hash == x.o.r.trig.ids IN
    /\ w' = x.w
    /\ net' = (IF pk = NoPk THEN net ELSE net (-) SetToBag({pk})) (+) p.pk
    /\ gw' = GhostNextE(gw, w, a, x.o, p.prod, x.w, hash)
    /\ obs' = [a |-> a, o |-> x.o, prod |-> p.prod]
    /\ hist' = Append(hist, Enc(a))

(* the policy's choice among the packets in flight *)
SignersCode(q) == IF Len(q) = 0 THEN 0 ELSE FoldLeft(LAMBDA acc, x : acc * (NK + 1) + x + 1, 0, q)
Code(pk) == <<IF pk.m.t = "shares" THEN 0 ELSE 1, pk.d, pk.m.from, pk.m.c.slot, pk.m.c.p, Len(pk.m.c.ids), SignersCode(pk.m.signers)>>
PolKey(pk) ==
    LET c == Code(pk) IN
    CASE pol = "sharesfirst" -> c
      [] pol = "keysfirst"   -> <<1 - c[1], NK - c[2], NK - c[3]>> \o SubSeq(c, 4, 7)
      [] pol = "rcvmajor"    -> <<c[2], 1 - c[1], c[3]>> \o SubSeq(c, 4, 7)
      [] pol = "sndmajor"    -> <<NK - c[3], c[1], c[2]>> \o SubSeq(c, 4, 7)
      [] OTHER -> c
RECURSIVE LexLess(_, _, _)
LexLess(s, t, i) ==
    IF i > Len(s) THEN FALSE ELSE IF s[i] < t[i] THEN TRUE ELSE IF s[i] > t[i] THEN FALSE ELSE LexLess(s, t, i + 1)
Picked(pk) == pol = "any" \/ \A q \in BagToSet(net) : ~LexLess(PolKey(q), PolKey(pk), 1)
(* two packets with the same key are told apart by CHOOSE (still one deterministic schedule) *)
PickOK(pk) == pol = "any" \/ pk = CHOOSE q \in BagToSet(net) : Picked(q)

Mine(g) ==
    /\ ph = "env" /\ HeadNum < (IF EarlyBlocks THEN w.slot ELSE w.slot - 1) /\ EagerDone
    /\ \A k \in KeyperIdx : HeadNum + 1 - SyncedNum(k) <= MaxLag
    /\ g # "none" => TxCount(w.ch, w.ch.head) < MaxTx
    /\ Do(Act("mine", 0, g, NoM), NoPk)
    /\ UNCHANGED <<ph, cnt, pol, burst>>

Reorg(g) ==
    /\ ph = "env" /\ AllowReorg /\ ~cnt.reorg /\ w.ch.head # 1 /\ EagerDone
    /\ g # "none" => TxCount(w.ch, w.ch.blk[w.ch.head].par) < MaxTx
    /\ Do(Act("reorg", 0, g, NoM), NoPk)
    /\ cnt' = [cnt EXCEPT !.reorg = TRUE]
    /\ UNCHANGED <<ph, pol, burst>>

Sync(k) ==
    /\ ph = "env"
    /\ ~AtHead(k)
    /\ Do(Act("sync", k, "none", NoM), NoPk)
    /\ UNCHANGED <<ph, cnt, pol, burst>>

RestartK(k) ==
    /\ cnt.rst < MaxRestarts /\ ~w.kp[k + 1].s.fresh
    /\ Do(Act("restart", k, "none", NoM), NoPk)
    /\ cnt' = [cnt EXCEPT !.rst = @ + 1]
    /\ UNCHANGED <<ph, pol, burst>>

NextSlot ==
    /\ w.slot < MaxSlot /\ net = EmptyBag
    /\ Do(Act("slot", 0, "none", NoM), NoPk)
    /\ ph' = "env" /\ pol' \in Policies /\ burst' = -1
    /\ UNCHANGED cnt

Tick(k) ==
    /\ k \in Tickers
    /\ w.kp[k + 1].s.fresh \/ w.kp[k + 1].s.latest < w.slot
    /\ EagerDone
    /\ pol = "any" \/ ph = "env" \/ (burst >= 0 /\ k > burst) \/ (LateTicks /\ net = EmptyBag)
    /\ Do(Act("tick", k, "none", NoM), NoPk)
    /\ ph' = "run" /\ burst' = k
    /\ UNCHANGED <<cnt, pol>>

Dlv(pk) ==
    /\ pk \in BagToSet(net) /\ PickOK(pk)
    /\ Do(Act("dlv", pk.d, "none", pk.m), pk)
    /\ burst' = -1
    /\ UNCHANGED <<ph, cnt, pol>>

Drop(pk) ==
    /\ pk \in BagToSet(net) /\ PickOK(pk) /\ pk.m.t = "shares" /\ gw.lost[pk.d + 1] < MaxLoss
    /\ Do(Act("drop", pk.d, "none", pk.m), pk)
    /\ burst' = -1
    /\ UNCHANGED <<ph, cnt, pol>>

Next ==
    \/ \E g \in TxGas : Mine(g) \/ Reorg(g)
    \/ \E k \in KeyperIdx : Sync(k) \/ RestartK(k) \/ Tick(k)
    \/ NextSlot
    \/ \E pk \in BagToSet(net) : Dlv(pk) \/ Drop(pk)

Spec == Init /\ [][Next]_vars

----------------------------------------------------------------------------
(* the property layer applied to what the composed code-shaped spec predicts to be observed *)
(* a failing monitor is named on the way out (tag MON), so that a stale use of a composed module's
   ghost / record shape can be told from a finding by its name *)
Named(viol, a) == viol = {} \/ (PrintT(<<"MON", ToJson([monitors |-> SetToSeq(viol), a |-> a.a, n |-> a.n])>>) /\ FALSE)
StepOK == [][Named(StepViol(gw, gw', w, obs'.a, obs'.o, obs'.prod, w'), obs'.a)]_vars
QuiescentOK == (net = EmptyBag) => Named(EndViol(gw, w), obs.a)

(* the assumptions the composition makes about its parts *)
QueueOK == \A k \in KSeq : Contiguous(w.kp[k].sy.stored) /\ w.kp[k].sy.synced.has
(* C15 carried over: whenever a keyper's position is a canonical block its queue is the canonical
   chain's transactions up to it *)
SyncOK == \A k \in KSeq : CS!C15_Exact(w.ch.blk, w.ch.head, 0, w.kp[k].sy)

Final == w.slot = MaxSlot /\ net = EmptyBag /\ ph = "run"
EmitInv == ~(Emit /\ Final) \/ PrintT(<<"B", ToJson([h |-> hist, tags |-> SetToSeq(gw.atags)])>>)

View == <<w, net, [gw EXCEPT !.atags = {}], ph, cnt, pol, burst>>
=============================================================================
