------------------------------- MODULE DKG -------------------------------
(***************************************************************************)
(* Code-shaped specification of one distributed key generation run over    *)
(* shuttermint, as the keyper code drives it:                              *)
(*   keyper/smobserver/smdriver.go  handleBlock   -> ProcessBlock          *)
(*   keyper/smobserver/smstate.go   shiftPhase, startPhase*, finalizeDKG,  *)
(*                                  handlePolyCommitment / PolyEval /      *)
(*                                  Accusation / Apology                   *)
(*   keyper/dkgphase/phase.go       GetPhaseAtHeight -> PhaseAt            *)
(*   shlib puredkg                  Handle*Msg, StartPhase*, isCorrupt,    *)
(*                                  polyEval, ComputeResult                *)
(*   app/dkg.go, app/app.go         Register*Msg, handle*Msg, deliverDKG-  *)
(*                                  Result (vote only) -> Deliver          *)
(*   keyper/fx/send.go              SendShutterMessages -> op "post"       *)
(*                                                                         *)
(* Pure operators on one JSON-shaped state record (finite maps over the    *)
(* keypers 1..N are sequences, sets of keypers are characteristic          *)
(* sequences) so that the state projected from the real world by           *)
(* harness/dkg can be compared with = after ndJsonDeserialize.             *)
(*                                                                         *)
(* Heights are relative to the block that carried the EonStarted event     *)
(* (block 0).  The state starts after every honest keyper processed block  *)
(* 0 (handleEonStarted -> shiftPhase -> startPhase1Dealing, then the       *)
(* BeforeSaveHook queued the evaluations: all encryption keys are known    *)
(* before the eon starts).  s.h is the block being filled.                 *)
(*                                                                         *)
(* Cryptographic objects are tokens with a validity attribute:             *)
(*   commitment  "good"   = Gammas of the degree the threshold asks for    *)
(*               "baddeg" = Gammas of another degree                       *)
(*   evaluation  "ok"     = the dealer's committed polynomial at the       *)
(*                          receiver's point; "bad" = any other in-range   *)
(*                          value                                          *)
(* The concretiser (harness/dkg/byz.go) makes real objects with exactly    *)
(* these attributes; the projection classifies real objects back.          *)
(***************************************************************************)
EXTENDS Integers, Sequences, FiniteSets, TLC

CONSTANTS
    N,          \* number of keypers; keypers are 1..N (index in the keyper set + 1)
    T,          \* threshold
    Byz,        \* Byzantine keypers, Cardinality(Byz) <= N - T
    PhaseLen    \* blocks per DKG phase (dkgphase.NewConstantPhaseLength)

K      == 1..N
Honest == K \ Byz

Off == 0   Dealing == 1   Accusing == 2   Apologizing == 3   Finalized == 4

CodeOk == 0   CodeError == 1   CodeSeen == 2   CodeNone == -1

Blank == "-"
BlankVals == [i \in K |-> Blank]

(* dkgphase.PhaseLength.GetPhaseAtHeight(height, eonStartHeight), h = height - eonStartHeight *)
PhaseAt(h) ==
    IF h < 0 THEN Off
    ELSE IF h < PhaseLen THEN Dealing
    ELSE IF h < 2 * PhaseLen THEN Accusing
    ELSE IF h < 3 * PhaseLen THEN Apologizing
    ELSE Finalized

LastBlock == 3 * PhaseLen + 1   \* the block that can carry the DKGResult votes

----------------------------------------------------------------------------
(* messages / events.  One shape for all:                                  *)
(*   k "commit": vals[s] \in {"good","baddeg"}                             *)
(*   k "eval"  : vals[r] \in {"ok","bad"} for each receiver r              *)
(*   k "acc"   : vals[d] = "x" for each accused d                          *)
(*   k "apol"  : vals[a] \in {"ok","bad","oor"} for each accuser a ("oor": not *)
(*               a valid evaluation, >= the group order: puredkg refuses   *)
(*               that ENTRY, smstate goes on with the next one)            *)
(*   k "result": vals[s] \in {"ok","fail"}                                 *)
(*   k "checkin": vals[s] = "key" (the keyper's own encryption key)        *)
(*   k "old"   : a message of the previous, failed eon (its DKGResult vote) *)
Msg(k, s, vals) == [k |-> k, s |-> s, vals |-> vals]
Named(m) == {i \in K : m.vals[i] # Blank}

----------------------------------------------------------------------------
(* shuttermint: app/dkg.go DKGInstance registers + SuccessVoting *)

AppInit ==
    [commit |-> [s \in K |-> FALSE],
     eval   |-> [s \in K |-> [r \in K |-> FALSE]],
     acc    |-> [s \in K |-> FALSE],
     apol   |-> [s \in K |-> FALSE],
     vote   |-> [s \in K |-> "none"]]

(* handlePolyCommitmentMsg / handlePolyEvalMsg / handleAccusationMsg / handleApologyMsg /
   deliverDKGResult: [app, code].  The phase is NOT checked by shuttermint. *)
Deliver(app, m) ==
    CASE m.k = "commit" ->
           IF app.commit[m.s] THEN [app |-> app, code |-> CodeSeen]
           ELSE [app |-> [app EXCEPT !.commit[m.s] = TRUE], code |-> CodeOk]
      [] m.k = "eval" ->
           IF m.s \in Named(m) THEN [app |-> app, code |-> CodeError]
           ELSE IF \E r \in Named(m) : app.eval[m.s][r] THEN [app |-> app, code |-> CodeSeen]
           ELSE [app |-> [app EXCEPT !.eval[m.s] = [r \in K |-> @[r] \/ r \in Named(m)]], code |-> CodeOk]
      [] m.k = "acc" ->
           IF m.s \in Named(m) THEN [app |-> app, code |-> CodeError]
           ELSE IF app.acc[m.s] THEN [app |-> app, code |-> CodeSeen]
           ELSE [app |-> [app EXCEPT !.acc[m.s] = TRUE], code |-> CodeOk]
      [] m.k = "apol" ->
           IF m.s \in Named(m) THEN [app |-> app, code |-> CodeError]
           ELSE IF app.apol[m.s] THEN [app |-> app, code |-> CodeSeen]
           ELSE [app |-> [app EXCEPT !.apol[m.s] = TRUE], code |-> CodeOk]
      [] m.k = "result" ->
           IF app.vote[m.s] # "none" THEN [app |-> app, code |-> CodeSeen]
           ELSE [app |-> [app EXCEPT !.vote[m.s] = m.vals[m.s]], code |-> CodeOk]
      [] m.k = "old" ->
           (* the failure vote for the previous eon: the votes of keypers 1..T are already in (they
              restarted the eon), so theirs is a repeat; the others' are accepted and dismissed *)
           [app |-> app, code |-> IF m.s <= T THEN CodeSeen ELSE CodeOk]
      [] m.k = "checkin" ->
           (* deliverCheckIn, check-in update fork disabled: every keyper checked in before the eon *)
           [app |-> app, code |-> CodeSeen]

(* only the DKG messages produce events the keypers act on in this model *)
MakesEvent(m) == m.k \in {"commit", "eval", "acc", "apol"}

----------------------------------------------------------------------------
(* one honest keyper: the puredkg snapshot + outbox + dkg_result row *)

NoMatrix(v) == [a \in K |-> [d \in K |-> v]]

(* puredkg.NewPureDKG *)
NewPure ==
    [phase  |-> Off,
     commit |-> [d \in K |-> "none"],
     eval   |-> [d \in K |-> "none"],
     acc    |-> NoMatrix(FALSE),          \* acc[accuser][accused]
     apol   |-> NoMatrix("none"),         \* apol[accuser][accused]
     outbox |-> <<>>,
     done   |-> FALSE,                    \* a dkg_result row exists
     ok     |-> FALSE,                    \* dkg_result.success
     qual   |-> [d \in K |-> FALSE]]      \* on success: the dealers whose polynomials were summed

(* the entry of a Byzantine keyper in the keyper table: never changes *)
NoKeyper == [NewPure EXCEPT !.phase = -1]

(* puredkg.isCorrupt: decided from commitments, accusations and apologies only *)
Corrupt(p, d) ==
    \/ p.commit[d] = "none"
    \/ \E a \in K : p.apol[a][d] = "bad"
    \/ \E a \in K : p.acc[a][d] /\ p.apol[a][d] = "none"

(* puredkg.polyEval: an apology addressed to me replaces the evaluation I received *)
EffEval(p, i, d) == IF p.apol[i][d] # "none" THEN p.apol[i][d] ELSE p.eval[d]

Qual(p) == {d \in K : ~Corrupt(p, d)}

(* puredkg.ComputeResult: error or success *)
ResultOk(p, i) ==
    /\ \A d \in Qual(p) : EffEval(p, i, d) = "ok"
    /\ Cardinality(Qual(p)) >= T

Push(p, m) == [p EXCEPT !.outbox = Append(@, m)]

(* smstate.startPhase1Dealing + BeforeSaveHook/sendPolyEvals of the same block *)
StartDealing(p, i) ==
    LET p1 == [p EXCEPT !.phase = Dealing, !.eval[i] = "ok"] IN
    Push(Push(p1, Msg("commit", i, [BlankVals EXCEPT ![i] = "good"])),
         Msg("eval", i, [r \in K |-> IF r = i THEN Blank ELSE "ok"]))

(* smstate.startPhase2Accusing / puredkg.StartPhase2Accusing *)
StartAccusing(p, i) ==
    LET bad == {d \in K \ {i} : p.eval[d] # "ok" \/ p.commit[d] = "none"}
        p1 == [p EXCEPT !.phase = Accusing]
    IN IF bad = {} THEN p1
       ELSE Push(p1, Msg("acc", i, [d \in K |-> IF d \in bad THEN "x" ELSE Blank]))

(* smstate.startPhase3Apologizing / puredkg.StartPhase3Apologizing *)
StartApologizing(p, i) ==
    LET accusers == {a \in K : p.acc[a][i]}
        p1 == [p EXCEPT !.phase = Apologizing]
    IN IF accusers = {} THEN p1
       ELSE Push(p1, Msg("apol", i, [a \in K |-> IF a \in accusers THEN "ok" ELSE Blank]))

(* smstate.finalizeDKG: the puredkg row is deleted, dkg_result inserted, vote queued *)
Finalize(p, i) ==
    LET ok == ResultOk(p, i) IN
    [NewPure EXCEPT !.phase = Finalized, !.done = TRUE, !.ok = ok,
                    !.qual = [d \in K |-> ok /\ d \in Qual(p)],
                    !.outbox = Append(p.outbox, Msg("result", i, [BlankVals EXCEPT ![i] = IF ok THEN "ok" ELSE "fail"]))]

ShiftOnce(p, i, target) ==
    IF p.phase >= target \/ p.phase < Off THEN p
    ELSE CASE p.phase = Off         -> StartDealing(p, i)
           [] p.phase = Dealing     -> StartAccusing(p, i)
           [] p.phase = Accusing    -> StartApologizing(p, i)
           [] p.phase = Apologizing -> Finalize(p, i)
           [] OTHER -> p

(* smstate.shiftPhase: loop until the phase of the height is reached *)
ShiftPhase(p, i, h) ==
    LET t == PhaseAt(h) IN ShiftOnce(ShiftOnce(ShiftOnce(ShiftOnce(p, i, t), i, t), i, t), i, t)

(* block 0 carries the EonStarted event (the eon of a keyper set that was registered EARLIER: a
   previous eon of the same keyper set failed and shuttermint restarted it, so the BatchConfig
   event and its redundant check-in are history): smstate.handleEonStarted creates the puredkg
   object and shifts it to the phase of block 0 *)
EonStarted(i) == ShiftPhase(NewPure, i, 0)

(* smstate.handlePolyCommitment -> puredkg.HandlePolyCommitmentMsg *)
HandleCommit(p, i, m) ==
    IF p.phase \in {Off, Dealing} /\ p.commit[m.s] = "none" /\ m.vals[m.s] = "good"
    THEN [p EXCEPT !.commit[m.s] = "good"] ELSE p

(* smstate.handlePolyEval -> puredkg.HandlePolyEvalMsg (own messages are skipped) *)
HandleEval(p, i, m) ==
    IF m.s # i /\ m.vals[i] # Blank /\ p.phase \in {Off, Dealing} /\ p.eval[m.s] = "none"
    THEN [p EXCEPT !.eval[m.s] = m.vals[i]] ELSE p

(* smstate.handleAccusation: only in the accusing phase *)
HandleAcc(p, i, m) ==
    IF p.phase = Accusing
    THEN [p EXCEPT !.acc[m.s] = [d \in K |-> @[d] \/ d \in Named(m)]] ELSE p

(* smstate.handleApology: only in the apologizing phase; an accusation is not required *)
HandleApol(p, i, m) ==
    IF p.phase = Apologizing
    THEN [p EXCEPT !.apol = [a \in K |-> IF a \in Named(m) /\ m.vals[a] # "oor" /\ @[a][m.s] = "none"
                                         THEN [@[a] EXCEPT ![m.s] = m.vals[a]] ELSE @[a]]]
    ELSE p

HandleEvent(p, i, m) ==
    CASE m.k = "commit" -> HandleCommit(p, i, m)
      [] m.k = "eval"   -> HandleEval(p, i, m)
      [] m.k = "acc"    -> HandleAcc(p, i, m)
      [] m.k = "apol"   -> HandleApol(p, i, m)
      [] OTHER -> p

RECURSIVE HandleEvents(_, _, _)
HandleEvents(p, i, evs) == IF evs = <<>> THEN p ELSE HandleEvents(HandleEvent(p, i, Head(evs)), i, Tail(evs))

(* smdriver.handleBlock: the phase is shifted BEFORE the events of the block are applied.
   ShiftMode "after" is the mutant that shifts afterwards (kept as a named alternative for
   experiments; the repository does "before"). *)
ProcessBlockOv(p, i, h, evs, ov) ==
    IF p.phase < Off \/ p.done THEN p   \* Byzantine slot / no active DKG: events for a non-existent eon are ignored
    ELSE LET (* overlapping eons: the previous eon of the keyper set is still active when this one starts
                and is finalised (as failed) by shiftPhases of block ov (1: an ordinary block; PhaseLen:
                the same shiftPhases call moves this eon from dealing to accusing).  shiftPhases ranges
                over a Go map: when both eons queue a message in that call their order is open; the
                model takes "previous eon first", DKGTrace accepts both *)
             p1 == IF ov > 0 /\ h = ov THEN Push(p, Msg("old", i, BlankVals)) ELSE p
             p2 == ShiftPhase(p1, i, h)
         IN HandleEvents(p2, i, evs)
ProcessBlock(p, i, h, evs) == ProcessBlockOv(p, i, h, evs, 0)

(* one SyncAppWithDB call (fetchEvents2): every closed block above the keyper's sync position *)
RECURSIVE ProcessBlocks(_, _, _, _, _)
ProcessBlocks(p, i, from, bs, ov) ==
    IF bs = <<>> THEN p
    ELSE ProcessBlocks(IF Head(bs).h > from THEN ProcessBlockOv(p, i, Head(bs).h, Head(bs).evs, ov) ELSE p, i, from, Tail(bs), ov)

----------------------------------------------------------------------------
(* the world: chain + honest keypers; ops *)

InitState ==
    [h     |-> 1,
     stage |-> 0,
     rej   |-> 0,
     rl    |-> [i \in K |-> 0],    \* ghost: block in which keyper i re-created its in-memory state (0 = never)
     ov    |-> 0,                   \* world variant: >0: the previous eon overlaps, finalised in block ov (see ProcessBlockOv)
     tags  |-> [rv |-> FALSE, oor |-> FALSE, at |-> 0, bnd |-> FALSE],   \* ghost: a message with reversed entry order / with an
                                    \* out-of-range value has been sent (both leave no trace in the model); at = block of the last such message;
                                    \* bnd = a Byzantine message was sent in the block in which the previous eon is finalised
     lags  |-> 0,                   \* number of "lag" ops so far
     skip  |-> [i \in K |-> FALSE], \* keyper i does not call SyncAppWithDB after the open block
     sync  |-> [i \in K |-> IF i \in Honest THEN 0 ELSE -1],   \* last block keyper i has applied
     backlog |-> <<>>,              \* closed blocks [h, evs] that some honest keyper has not applied yet
     kp    |-> [i \in K |-> IF i \in Honest THEN EonStarted(i) ELSE NoKeyper],
     app   |-> AppInit,
     blk   |-> <<>>]

(* op: [op, s, vals].  "bcommit" "beval" "bacc" "bapol": a Byzantine keyper sends that message;
   "post": honest keyper s sends the head of its outbox (fx.SendShutterMessages, one message);
   "reload": honest keyper s discards its ShuttermintState (process restart, or Invalidate after a
   database error) and will load it from its database: everything is in the database, so this
   changes nothing; "lag": honest keyper s will not sync after this block, a later SyncAppWithDB
   call catches up on several blocks (one transaction each, with the heights of the blocks);
   "end": the block is closed and every honest keyper that does not lag applies every closed
   block it has not applied yet. *)
(* rev: the entries of the message are written in descending keyper order (the handlers loop over
   the entries in message order; the order has no effect in the model) *)
OpR(o, s, vals, rev) == [op |-> o, s |-> s, vals |-> vals, rev |-> rev]
Op(o, s, vals) == OpR(o, s, vals, FALSE)
KindOf(o) == CASE o.op = "bcommit" -> "commit" [] o.op = "beval" -> "eval"
               [] o.op = "bacc" -> "acc" [] o.op = "bapol" -> "apol" [] OTHER -> Blank

(* canonical order of the ops inside one block (messages of different senders commute in
   every handler above and in every register of shuttermint) *)
Rank(o) ==
    CASE o.op = "bcommit" -> 4 * (o.s - 1) + 1
      [] o.op = "beval"   -> 4 * (o.s - 1) + 2
      [] o.op = "bacc"    -> 4 * (o.s - 1) + 3
      [] o.op = "bapol"   -> 4 * (o.s - 1) + 4
      [] o.op = "post"    -> 4 * N + o.s
      [] o.op = "reload"  -> 5 * N + o.s
      [] o.op = "lag"     -> 6 * N + o.s
      [] o.op = "end"     -> 7 * N + 1

Final(s) == s.h > LastBlock

MsgOf(s, o) == IF o.op = "post" THEN Head(s.kp[o.s].outbox) ELSE Msg(KindOf(o), o.s, o.vals)

WouldReject(s, o) == o.op \in {"bcommit", "beval", "bacc", "bapol"} /\ Deliver(s.app, MsgOf(s, o)).code # CodeOk

(* timing classes of a message: in its phase, or "late" = in the first block after its phase
   (for a Byzantine message every other out-of-phase block has the same effect: the once-only
   register of shuttermint is used up and no keyper acts on the event; for an honest message a
   later block only delays the messages queued behind it, which is what their own "late" class
   gives).  WindowEnd = the late block of the message kind.  With windows = FALSE: any block. *)
WindowEnd(kind) ==
    CASE kind \in {"checkin", "commit", "eval"} -> PhaseLen
      [] kind = "acc"                -> 2 * PhaseLen
      [] kind = "apol"               -> 3 * PhaseLen
      [] OTHER                       -> LastBlock + 1
WindowStart(kind) ==
    CASE kind = "acc"    -> PhaseLen
      [] kind = "apol"   -> 2 * PhaseLen
      [] kind = "result" -> LastBlock
      [] OTHER           -> 1

InWindow(s, o) ==
    CASE o.op \in {"bcommit", "beval", "bacc", "bapol"} ->
            s.h >= WindowStart(KindOf(o)) /\ s.h <= WindowEnd(KindOf(o))
      [] o.op = "post" -> s.h >= WindowStart(Head(s.kp[o.s].outbox).k) /\ s.h <= WindowEnd(Head(s.kp[o.s].outbox).k)
      [] o.op = "end"  -> \A i \in Honest : IF Len(s.kp[i].outbox) = 0 THEN TRUE ELSE s.h < WindowEnd(Head(s.kp[i].outbox).k)
      [] OTHER -> TRUE

(* timely: every honest message is posted inside its phase (no honest message is late) *)
InTime(s, o) ==
    CASE o.op = "post" -> IF o.s \notin Honest THEN FALSE
                          ELSE IF Len(s.kp[o.s].outbox) = 0 THEN TRUE ELSE s.h < WindowEnd(Head(s.kp[o.s].outbox).k)
      [] o.op = "end"  -> \A i \in Honest : IF Len(s.kp[i].outbox) = 0 THEN TRUE ELSE s.h + 1 < WindowEnd(Head(s.kp[i].outbox).k)
      [] OTHER -> TRUE

Reloads(s) == Cardinality({i \in K : s.rl[i] # 0})

OpEnabledX(s, o, maxRej, windows, maxReload, maxLag, timely, reloadMax) ==
    /\ ~Final(s)
    /\ timely => InTime(s, o)
    /\ o.op = "lag" => (o.s \in Honest /\ ~s.skip[o.s] /\ s.lags < maxLag /\ s.h < 3 * PhaseLen)
    /\ o.op = "reload" => (o.s \in Honest /\ ~s.kp[o.s].done /\ s.rl[o.s] = 0 /\ Reloads(s) < maxReload
                            /\ (windows => s.h <= reloadMax))
    /\ IF o.op = "post" THEN o.s \in Honest /\ s.kp[o.s].outbox # <<>> /\ Rank(o) >= s.stage
       ELSE Rank(o) > s.stage
    /\ o.op \in {"bcommit", "beval", "bacc", "bapol"} => o.s \in Byz
    /\ windows => InWindow(s, o)
    /\ WouldReject(s, o) => s.rej < maxRej

OpEnabledLag(s, o, maxRej, windows, maxReload, maxLag) ==
    OpEnabledX(s, o, maxRej, windows, maxReload, maxLag, FALSE, 2 * PhaseLen)

(* without "lag" ops (the signature other modules use) *)
OpEnabled(s, o, maxRej, windows, maxReload) == OpEnabledLag(s, o, maxRej, windows, maxReload, 0)

NoMsg == Msg(Blank, 0, BlankVals)

(* result of an op: [st, out] with out = [code, msg, ev]: shuttermint's answer, the message
   that was delivered, the event the keypers will decode from the block (NoMsg if none) *)
ApplyOp(s, o) ==
    IF o.op = "end" THEN
        LET process == s.h < LastBlock      \* the run stops after the block that carries the votes
            all == Append(s.backlog, [h |-> s.h, evs |-> s.blk])
            does(i) == process /\ i \in Honest /\ ~s.skip[i]
            sync1 == [i \in K |-> IF does(i) THEN s.h ELSE s.sync[i]]
            low == CHOOSE x \in {sync1[i] : i \in Honest} \cup {s.h} : \A y \in {sync1[i] : i \in Honest} \cup {s.h} : x <= y
        IN
        [st  |-> [s EXCEPT !.h = @ + 1, !.stage = 0, !.blk = <<>>,
                           !.kp = [i \in K |-> IF does(i) THEN ProcessBlocks(s.kp[i], i, s.sync[i], all, s.ov) ELSE s.kp[i]],
                           !.sync = sync1, !.skip = [i \in K |-> FALSE],
                           !.backlog = SelectSeq(all, LAMBDA b : b.h > low)],
         out |-> [code |-> CodeNone, msg |-> NoMsg, ev |-> NoMsg]]
    ELSE IF o.op = "lag" THEN
        [st  |-> [s EXCEPT !.skip[o.s] = TRUE, !.lags = @ + 1, !.stage = Rank(o)],
         out |-> [code |-> CodeNone, msg |-> NoMsg, ev |-> NoMsg]]
    ELSE IF o.op = "reload" THEN
        [st  |-> [s EXCEPT !.rl[o.s] = s.h, !.stage = Rank(o)],
         out |-> [code |-> CodeNone, msg |-> NoMsg, ev |-> NoMsg]]
    ELSE
        LET m == MsgOf(s, o)
            d == Deliver(s.app, m)
            ev == IF d.code = CodeOk /\ MakesEvent(m) THEN m ELSE NoMsg
            s1 == [s EXCEPT !.app = d.app, !.stage = Rank(o),
                            !.blk = IF ev # NoMsg THEN Append(@, ev) ELSE @]
        IN IF o.op = "post"
           THEN (* SendShutterMessages: Ok and Seen delete the row; Error keeps it at the head *)
                [st  |-> IF d.code = CodeError THEN s1 ELSE [s1 EXCEPT !.kp[o.s].outbox = Tail(@)],
                 out |-> [code |-> d.code, msg |-> m, ev |-> ev]]
           ELSE [st  |-> [s1 EXCEPT !.rej = IF d.code # CodeOk THEN @ + 1 ELSE @,
                                    !.tags = [rv |-> @.rv \/ o.rev, oor |-> @.oor \/ \E i \in K : o.vals[i] = "oor",
                                              at |-> IF o.rev \/ \E i \in K : o.vals[i] = "oor" THEN s.h ELSE @.at,
                                              bnd |-> @.bnd \/ (s.ov > 0 /\ s.h = s.ov)]],
                 out |-> [code |-> d.code, msg |-> m, ev |-> ev]]

=============================================================================
