--------------------------- MODULE ShuttermintProps ---------------------------
(***************************************************************************)
(* Property layer for shuttermint (C09 C10 C11 C12 C13).                   *)
(*                                                                         *)
(* Every property is an operator over ONE OBSERVED STEP                    *)
(*     (ghost, pre, kind, tx, r, post)                                     *)
(* where pre/post are abstract states, kind/tx the call, r the response    *)
(* [code, events, updates] and ghost a history summary that is folded from *)
(* the calls and responses only (never from the application's own          *)
(* bookkeeping), so a monitor cannot be fooled by an application that      *)
(* mis-records votes.  The same operators are used                         *)
(*   - as action properties of the code-shaped spec (ShuttermintMC), and   *)
(*   - as monitors over traces recorded from the real app (ShuttermintTrace*)
(*     pass A).  Only a failure of one of THESE operators on an observed   *)
(*     step is reported as VIOLATION.                                      *)
(***************************************************************************)
EXTENDS Shuttermint

GhostInit ==
    [votes  |-> {},                          \* <<sender, bare cfg>> answered Ok in this round
     nonces |-> {},                          \* <<sender, nonce>> that reached execution
     res    |-> {},                          \* <<eon, sender, ok>> DKG result votes answered Ok
     seen   |-> [a \in Addrs |-> -1],        \* highest block reported by a (Ok answers)
     ids    |-> [a \in Addrs |-> NoKey],     \* validator key of a's last ACCEPTED check-in
     tm     |-> Genesis.vals]                \* validator set folded the way Tendermint does

HasNonce(tx) == tx.k \notin {"garbage", "wrongchain", "forged"}
Accepted(pre, post) == Len(post.configs) # Len(pre.configs)

ApplyUpdates(tm, ups) ==
    [k \in AllKeys |-> IF \E i \in DOMAIN ups : ups[i].key = k
                       THEN (CHOOSE u \in ToSet(ups) : u.key = k).power
                       ELSE tm[k]]

GhostNext(g, pre, kind, tx, r, post) ==
    IF kind = "tx" THEN
      [g EXCEPT
        !.nonces = IF HasNonce(tx) THEN @ \cup {<<tx.s, tx.n>>} ELSE @,
        !.votes  = IF Accepted(pre, post) THEN {}
                   ELSE IF tx.k = "vote" /\ r.code = CodeOk THEN @ \cup {<<tx.s, tx.cfg>>} ELSE @,
        !.res    = IF tx.k = "dkgres" /\ r.code = CodeOk THEN @ \cup {<<tx.eon, tx.s, tx.ok>>} ELSE @,
        !.seen   = IF tx.k = "seen" /\ r.code = CodeOk /\ tx.b > g.seen[tx.s]
                   THEN [@ EXCEPT ![tx.s] = tx.b] ELSE @,
        !.ids    = IF tx.k = "checkin" /\ r.code = CodeOk /\ tx.s \in Addrs
                   THEN [@ EXCEPT ![tx.s] = tx.key] ELSE @]
    ELSE IF kind = "end" THEN [g EXCEPT !.tm = ApplyUpdates(g.tm, r.updates)]
    ELSE g

----------------------------------------------------------------------------
(* C11 *)

KeyPos(k) == CHOOSE i \in DOMAIN KeyOrd : KeyOrd[i] = k

C11_Accept(g, pre, kind, tx, r, post) ==
    Accepted(pre, post) =>
      /\ Len(post.configs) = Len(pre.configs) + 1
      /\ kind = "tx" /\ tx.k = "vote" /\ r.code = CodeOk
      /\ LET new == LastCfg(post) old == LastCfg(pre)
             voters == {v[1] : v \in {w \in g.votes : w[2] = Bare(new)}} \cup {tx.s}
         IN /\ Bare(new) = tx.cfg
            /\ Cardinality(voters \cap ToSet(old.keypers)) >= old.thr
            /\ new.idx > old.idx
            /\ new.act >= old.act

C11_ConfigsStable(g, pre, kind, tx, r, post) ==
    /\ Len(post.configs) >= Len(pre.configs)
    /\ \A i \in DOMAIN pre.configs :
         /\ Bare(post.configs[i]) = Bare(pre.configs[i])
         /\ pre.configs[i].started => post.configs[i].started

C11_OneVote(g, pre, kind, tx, r, post) ==
    (kind = "tx" /\ tx.k = "vote" /\ r.code = CodeOk) =>
        ~ \E v \in g.votes : v[1] = tx.s

C11_NonceOnce(g, pre, kind, tx, r, post) ==
    (kind = "tx" /\ HasNonce(tx) /\ <<tx.s, tx.n>> \in g.nonces) =>
        r.code # CodeOk /\ r.events = <<>> /\ post = pre

EonEvents(r) == SelectSeq(r.events, LAMBDA e : e.type = "EonStarted")

C11_EonFresh(g, pre, kind, tx, r, post) ==
    LET ee == EonEvents(r) IN
    /\ post.eon = pre.eon + Len(ee)
    /\ \A i \in DOMAIN ee : ee[i].x = pre.eon + i
    /\ Len(ee) <= 1
    /\ Accepted(pre, post) => Len(ee) = 1 /\ ee[1].y = LastCfg(post).act /\ ee[1].z = LastCfg(post).idx
    /\ Len(post.dkgs) = Len(pre.dkgs) + Len(ee)

C11_Restart(g, pre, kind, tx, r, post) ==
    (post.eon # pre.eon /\ ~Accepted(pre, post)) =>
      /\ kind = "tx" /\ tx.k = "dkgres" /\ r.code = CodeOk
      /\ tx.eon = pre.eon                                   \* newest eon only
      /\ HasDkg(pre, tx.eon)
      /\ LET c == pre.dkgs[DkgPos(pre, tx.eon)].cfg
             failers == {a \in Addrs : <<tx.eon, a, FALSE>> \in g.res \cup {<<tx.eon, tx.s, tx.ok>>}}
         IN /\ Cardinality(failers \cap ToSet(c.keypers)) >= c.thr
            /\ LastCfg(post) = LastCfg(pre)
            /\ post.dkgs[Len(post.dkgs)].cfg = c

C11_Started(g, pre, kind, tx, r, post) ==
    \A i \in (DOMAIN pre.configs) \cap (DOMAIN post.configs) :    \* (C11_ConfigsStable covers shrinking)
      (post.configs[i].started /\ ~pre.configs[i].started) =>
        /\ kind = "end"
        /\ LET prev == pre.configs[IF i > 1 THEN i - 1 ELSE 1]
               rep == {a \in ToSet(prev.keypers) : g.seen[a] >= pre.configs[i].act /\ g.seen[a] # -1}
           IN Cardinality(rep) >= prev.thr

----------------------------------------------------------------------------
(* C12 *)

(* the intended set, stated independently of the application's bookkeeping of identities: ten
   units per (distinct) keyper of the newest started configuration whose check-in quorum is met,
   on the key of the keyper's last ACCEPTED check-in (ghost), else on the placeholder *)
KeyperSetOf(c) == ToSet(c.keypers)
GCheckedIn(ids, c) == Cardinality({a \in KeyperSetOf(c) : ids[a] # NoKey})
IntendedPowermap(ids, c) ==
    [k \in AllKeys |->
        10 * Cardinality({a \in KeyperSetOf(c) : IF ids[a] = NoKey THEN k = NoVal ELSE k = ids[a]})]
(* whether configuration i ought to be started by now, from the GHOST reports (not from the
   application's own `started` flag): a threshold of the keypers of its predecessor (of itself for
   the first one) has reported a block at or after its activation block. Reports only grow, so the
   condition is monotone and EndBlock evaluates it at every block. *)
GStarted(g, cfgs, i) ==
    LET c == cfgs[i]
        prev == cfgs[IF i > 1 THEN i - 1 ELSE 1]
        rep == {a \in ToSet(prev.keypers) : g.seen[a] # -1 /\ g.seen[a] >= c.act}
    IN Cardinality(rep) >= prev.thr
IntendedValidators(g, post) ==
    LET ok == {i \in DOMAIN post.configs :
                 GStarted(g, post.configs, i) /\ GCheckedIn(g.ids, post.configs[i]) >= RequiredCheckIns(post.configs[i])}
    IN IF ok = {} THEN Genesis.vals ELSE IntendedPowermap(g.ids, post.configs[Max(ok)])

Total(pm) == FoldSet(LAMBDA k, acc : acc + pm[k], 0, AllKeys)

C12_Updates(g, pre, kind, tx, r, post) ==
    IF kind # "end" THEN r.updates = <<>> /\ post.vals = pre.vals
    ELSE IF pre.dev THEN r.updates = <<>>        \* dev mode: validator updates are withheld on purpose
    ELSE
      LET tm2 == ApplyUpdates(g.tm, r.updates) IN
      /\ \A i, j \in DOMAIN r.updates : i < j => KeyPos(r.updates[i].key) < KeyPos(r.updates[j].key)
      /\ \A i \in DOMAIN r.updates : r.updates[i].power >= 0
      /\ \A i \in DOMAIN r.updates : r.updates[i].power = 0 => g.tm[r.updates[i].key] > 0
      /\ tm2 = IntendedValidators(g, post)
      /\ tm2 # g.tm => 3 * (Total(tm2) - tm2[NoVal]) > 2 * Total(tm2)
      /\ Total(tm2) > 0

(* which check-ins count for "has checked in with key k": the first well-formed check-in of a member
   of some accepted configuration, and, once the check-in-update fork is active for the block being
   built, every later one (a key change). Stated from the genesis fork parameters and the ghost, not
   from the application's Identities table. *)
C12_CheckIn(g, pre, kind, tx, r, post) ==
    (kind = "tx" /\ tx.k = "checkin" /\ tx.bad = "" /\ tx.s \in Addrs /\ <<tx.s, tx.n>> \notin g.nonces) =>
        LET already == g.ids[tx.s] # NoKey
            forkActive == Genesis.forkOn /\ pre.height + 1 >= Genesis.forkH
            member == \E i \in DOMAIN pre.configs : tx.s \in ToSet(pre.configs[i].keypers)
        IN (r.code = CodeOk) <=> (member /\ (~already \/ forkActive))

----------------------------------------------------------------------------
(* C10, single-run part: refused transactions are answered with an error and
   change nothing (the twin part is in ShuttermintTrace) *)

Malformed(tx) == tx.k \in {"garbage", "wrongchain", "nopayload", "forged"} \/ tx.bad # ""
ExceptNonces(s) == [s EXCEPT !.nonces = [a \in Addrs |-> <<>>]]

C10_Refused(g, pre, kind, tx, r, post) ==
    /\ (kind = "tx" /\ (Malformed(tx) \/ (HasNonce(tx) /\ <<tx.s, tx.n>> \in g.nonces))) =>
          /\ r.code # CodeOk /\ r.events = <<>> /\ r.updates = <<>>
          /\ ExceptNonces(post) = ExceptNonces(pre)
          /\ \A a \in Addrs : a # tx.s => post.nonces[a] = pre.nonces[a]
    /\ (kind = "chk" /\ (tx.k \in {"garbage", "wrongchain", "forged"} \/ tx.s \notin AllMembers(pre)
                          \/ (HasNonce(tx) /\ <<tx.s, tx.n>> \in g.nonces))) => r.code # 0
    /\ (kind = "chk") => [post EXCEPT !.ctCounts = pre.ctCounts, !.ctNonces = pre.ctNonces] = pre
    (* a transaction of an address outside every accepted keyper set: no events, no vote,
       no validator change, no configuration or eon change *)
    /\ (kind = "tx" /\ HasNonce(tx) /\ tx.s \notin AllMembers(pre)) =>
          /\ r.events = <<>> /\ r.updates = <<>>
          /\ post.vvotes = pre.vvotes /\ post.vcands = pre.vcands
          /\ post.configs = pre.configs /\ post.dkgs = pre.dkgs /\ post.eon = pre.eon
          /\ post.vals = pre.vals /\ post.ids = pre.ids

----------------------------------------------------------------------------

(* equality of what anybody can observe: everything except the inserted sender's nonces and,
   for a sender outside every keyper set, its (so far unused) block report *)
Mask(s, x) == [s EXCEPT !.nonces = [a \in Addrs |-> IF a = x.s THEN <<>> ELSE s.nonces[a]],
                        !.seen = [a \in Addrs |-> IF a = x.s /\ x.k = "seen" THEN -1 ELSE s.seen[a]]]


MonitorNames == {"C11_Accept", "C11_ConfigsStable", "C11_OneVote", "C11_NonceOnce", "C11_EonFresh",
                 "C11_Restart", "C11_Started", "C12_Updates", "C12_CheckIn", "C10_Refused"}

Holds(name, g, pre, kind, tx, r, post) ==
    CASE name = "C11_Accept"        -> C11_Accept(g, pre, kind, tx, r, post)
      [] name = "C11_ConfigsStable" -> C11_ConfigsStable(g, pre, kind, tx, r, post)
      [] name = "C11_OneVote"       -> C11_OneVote(g, pre, kind, tx, r, post)
      [] name = "C11_NonceOnce"     -> C11_NonceOnce(g, pre, kind, tx, r, post)
      [] name = "C11_EonFresh"      -> C11_EonFresh(g, pre, kind, tx, r, post)
      [] name = "C11_Restart"       -> C11_Restart(g, pre, kind, tx, r, post)
      [] name = "C11_Started"       -> C11_Started(g, pre, kind, tx, r, post)
      [] name = "C12_Updates"       -> C12_Updates(g, pre, kind, tx, r, post)
      [] name = "C12_CheckIn"       -> C12_CheckIn(g, pre, kind, tx, r, post)
      [] name = "C10_Refused"       -> C10_Refused(g, pre, kind, tx, r, post)

Failed(g, pre, kind, tx, r, post) ==
    {m \in MonitorNames : ~Holds(m, g, pre, kind, tx, r, post)}

=============================================================================
