--------------------------- MODULE GnosisE2ETrace ---------------------------
(***************************************************************************)
(* Trace layer of the Gnosis end-to-end composition: validates ndjson      *)
(* traces recorded by harness/gnoe2e from ONE world per behaviour: a       *)
(* shared fakeeth chain, per keyper a fakepg database with the real        *)
(* gnosis.SequencerSyncer, the real gnosis.Keyper slot processing, the     *)
(* real KeyShareHandler service, gnosis handlers + MessagingMiddleware and *)
(* core handlers, the real access-node validator, joined by a simulated    *)
(* network.                                                                *)
(*                                                                         *)
(*   {"k":"new","first":s,"tabs":[kp0,kp1,kp2]}                            *)
(*   {"k":"step","a":{a,n,g,m},"verdict":..,"r":{out,trig,err},"hash":..,  *)
(*    "prod":[{m,own,an}],"panic":..,"missing":..,"bad":[..],"badkeys":[..]*)
(*    ,"tabs":[..]}                                                        *)
(*   {"k":"end","pending":n,"judge":[{id,per:[{has,fp,dec}]}],"bad":[..],  *)
(*    "badkeys":[..],"tabs":[..]}                                          *)
(* tabs[k+1] = the projection of keyper k's database and in-memory field   *)
(* (GnosisE2E.tla: s, sy, sh, ky, sg; sets as sorted lists); badkeys = a   *)
(* stored share / key that does not verify or is not the epoch key; bad =  *)
(* other rows the projection could not explain (an unknown identity, a     *)
(* queue row that is not the block's transaction, a row of another eon).   *)
(* The chain is an INPUT (the harness mines what the behaviour says); it   *)
(* is rebuilt here from the mine / reorg actions.                          *)
(*                                                                         *)
(* Deterministic fold, one TLC state per line.                             *)
(*   pass A  viol : monitors of GnosisE2EProps that are false on the       *)
(*                  OBSERVED step / end of slot / final judgement          *)
(*           obsv : observations that are not verdicts (finding GNO-1)     *)
(*   pass B  drift: the observed line is not what ApplyAct / Publish of    *)
(*                  the composed code-shaped spec yield from the           *)
(*                  previously OBSERVED tables                             *)
(***************************************************************************)
EXTENDS GnosisE2EProps, Json

CONSTANT TraceFile
Trace == ndJsonDeserialize(TraceFile)

VARIABLES l, wo, g, nt, viol, drift, obsv
tvars == <<l, wo, g, nt, viol, drift, obsv>>

ObsKp(o) == [s |-> o.s,
             sy |-> [synced |-> o.sy.synced, stored |-> ToSet(o.sy.stored)],
             sh |-> ToSet(o.sh), ky |-> ToSet(o.ky), sg |-> ToSet(o.sg)]
ObsTabs(line) == [k \in KSeq |-> ObsKp(line.tabs[k])]

RECURSIVE PacketsObs(_, _, _)
PacketsObs(i, prod, k) ==
    IF k > Len(prod) THEN EmptyBag
    ELSE (IF prod[k].own = "accept" THEN SetToBag({[m |-> prod[k].m, d |-> j] : j \in KeyperIdx \ {i}}) ELSE EmptyBag)
         (+) PacketsObs(i, prod, k + 1)

(* rows the projection could not explain: a key / share that is not the correct one; any other row *)
BadViol(line) ==
    (IF line.badkeys = <<>> THEN {} ELSE {"X2_KeysCorrect"}) \cup
    (IF line.bad = <<>> THEN {} ELSE {"X_TablesExplained"})

TInit == l = 1 /\ wo = WorldInit(1) /\ g = GW0 /\ nt = EmptyBag /\ viol = {} /\ drift = {} /\ obsv = {}

TNext ==
    /\ l <= Len(Trace) /\ l' = l + 1
    /\ LET line == Trace[l] IN
       CASE line.k = "new" ->
              /\ wo' = [WorldInit(line.first) EXCEPT !.kp = ObsTabs(line)]
              /\ g' = GW0 /\ nt' = EmptyBag
              /\ drift' = drift \cup (IF ObsTabs(line) = WorldInit(line.first).kp THEN {} ELSE {l})
              /\ UNCHANGED <<viol, obsv>>
         [] line.k = "end" ->
              /\ viol' = viol \cup {<<l, m>> : m \in
                    (IF line.pending = 0 THEN EndViol(g, wo) ELSE {"X4_AllRelease"}) \cup JudgeViol(line.judge) \cup
                    BadViol(line)}
              /\ drift' = drift \cup (IF nt = EmptyBag /\ ObsTabs(line) = wo.kp THEN {} ELSE {l})
              /\ obsv' = obsv \cup {<<l, m>> : m \in (IF line.pending = 0 THEN EndObsv(g, wo) ELSE {})}
              /\ UNCHANGED <<wo, g, nt>>
         [] OTHER ->
              LET a    == line.a
                  o    == ObsRec(line.verdict, line.r)
                  x    == ApplyAct(wo, a)
                  p    == Publish(a.n, x.out, 1)
                  w1   == [x.w EXCEPT !.kp = ObsTabs(line)]            \* chain and slot follow the actions, tables are observed
                  g1   == GhostNextE(g, wo, a, o, line.prod, w1, line.hash)
                  pk   == [m |-> a.m, d |-> a.n]
                  inNet == a.a \in {"dlv", "drop"} => (pk \in DOMAIN nt /\ ~line.missing)
              IN
              /\ viol' = viol \cup {<<l, m>> : m \in
                    StepViol(g, g1, wo, a, o, line.prod, w1) \cup
                    (IF line.panic = "" THEN {} ELSE {"X_NoPanic"}) \cup
                    BadViol(line) \cup
                    (IF a.a = "slot" /\ nt = EmptyBag THEN EndViol(g, wo) ELSE {})}
              /\ drift' = drift \cup (IF /\ inNet
                                         /\ x.w.kp = w1.kp
                                         /\ x.o = o
                                         /\ p.prod = line.prod THEN {} ELSE {l})
              /\ obsv' = obsv \cup {<<l, m>> : m \in (IF a.a = "slot" /\ nt = EmptyBag THEN EndObsv(g, wo) ELSE {})}
              /\ wo' = w1
              /\ g' = g1
              /\ nt' = (IF a.a \in {"dlv", "drop"} /\ pk \in DOMAIN nt THEN nt (-) SetToBag({pk}) ELSE nt)
                       (+) PacketsObs(a.n, line.prod, 1)

TSpec == TInit /\ [][TNext]_tvars

Done == l <= Len(Trace) \/
        PrintT(<<"RESULT", ToJson([lines |-> Len(Trace), viol |-> SetToSeq(viol), drift |-> SetToSeq(drift), obsv |-> SetToSeq(obsv)])>>)
=============================================================================
