------------------------------- MODULE E2EMC -------------------------------
(***************************************************************************)
(* The composed system as one transition system:                           *)
(*   ph = 1  DKG!ApplyOp steps chosen by the strategy (deterministic)      *)
(*   Handover at the final DKG state: hv := HandoverOf(st); wt (who will   *)
(*           be triggered, per round) is chosen among the honest keypers,  *)
(*           |wt[r]| >= T                                                  *)
(*   ph = 2  GossipMC's network over the nodes of the honest keypers:      *)
(*           Trig (a node's rounds in order) / Dlv / DropShare (<= MaxLoss *)
(*           lost share messages per receiver and round, within            *)
(*           DropBudget), every delivery order                             *)
(* TLC checks the property layers of both phases on what the spec predicts *)
(* to be observed and prints (hidden histories, VIEW) the phase-1          *)
(* behaviour of every strategy (tag P1) and every schedule of phase 2 that *)
(* reaches quiescence (tag B).  All bounds are functions of the state.     *)
(***************************************************************************)
EXTENDS E2EProps, Json, Bags, SequencesExt

CONSTANTS Emit, MaxLoss, Run    \* Run: the strategy names explored by this run

VARIABLES ph, sg, pc, st, g, hv, node, net, triggered, wt, dropped, obs, h1, h2
vars == <<ph, sg, pc, st, g, hv, node, net, triggered, wt, dropped, obs, h1, h2>>

ASSUME Run \subseteq StrategyNames
ASSUME PrintT(<<"CONST", ToJson([n |-> N, t |-> T, byz |-> SetSeq(Byz), phaseLen |-> PhaseLen, rounds |-> Rounds,
                                 strategies |-> [k \in DOMAIN Strategies |-> [name |-> Strategies[k].name, script |-> Strategies[k].script,
                                                                               held |-> SetToSeq({[k2 |-> p[1], kind |-> p[2]] : p \in Strategies[k].held})]],
                                 init |-> InitState])>>)

NoObs == [a |-> "-", n |-> 0, verdict |-> "-", prod |-> <<>>, panic |-> ""]
NoHv == [succ |-> {}, mat |-> [j \in G!Nodes |-> NoMat]]
Act(a, n, m) == [a |-> a, n |-> n, m |-> m]

Init ==
    /\ ph = 1
    /\ sg \in {Strategies[k] : k \in {k2 \in DOMAIN Strategies : Strategies[k2].name \in Run}}
    /\ pc = 1 /\ st = InitState /\ g = GhostInit /\ hv = NoHv
    /\ node = [i \in G!Nodes |-> G!NodeInit]
    /\ net = EmptyBag /\ triggered = [r \in G!RoundIdx |-> {}] /\ wt = [r \in G!RoundIdx |-> {}]
    /\ dropped = [i \in G!Nodes |-> [r \in G!RoundIdx |-> 0]]
    /\ obs = NoObs /\ h1 = <<>> /\ h2 = <<>>

(* ---- phase 1 ---- *)
P1Step(o) ==
    /\ ph = 1 /\ ~Final(st)
    /\ P1Enabled(sg, pc, st, o)
    /\ LET r == ApplyOp(st, o) IN
       /\ st' = r.st
       /\ g' = GhostNext(g, st, o, r.out)
    /\ pc' = P1NextPc(sg, pc, st, o)
    /\ h1' = Append(h1, o)
    /\ UNCHANGED <<ph, sg, hv, node, net, triggered, wt, dropped, obs, h2>>

Handover ==
    /\ ph = 1 /\ Final(st)
    /\ ph' = 2
    /\ hv' = HandoverOf(st)
    /\ wt' \in [G!RoundIdx -> {S \in SUBSET Part : Cardinality(S) >= T}]
    /\ UNCHANGED <<sg, pc, st, g, node, net, triggered, dropped, obs, h1, h2>>

(* ---- phase 2 ---- *)
Quiescent == ph = 2 /\ triggered = wt /\ net = EmptyBag

Trig(i, r) ==
    /\ ph = 2 /\ i \in wt[r] \ triggered[r]
    /\ \A q \in G!RoundIdx : (q < r /\ i \in wt[q]) => i \in triggered[q]
    /\ LET tr == E2ETrigger(hv, node[i], i, r)
           p == E2EPublish(tr.nd, i, tr.out) IN
       /\ node' = [node EXCEPT ![i] = tr.nd]
       /\ net' = net (+) p.pk
       /\ obs' = [a |-> "trig", n |-> i, verdict |-> "-", prod |-> p.prod, panic |-> ""]
    /\ triggered' = [triggered EXCEPT ![r] = @ \cup {i}]
    /\ h2' = Append(h2, Act("trig", i, G!SharesMsg(i, r)))
    /\ UNCHANGED <<ph, sg, pc, st, g, hv, wt, dropped, h1>>

Dlv(pk) ==
    /\ ph = 2 /\ pk \in BagToSet(net)
    /\ LET j == pk.d
           r == E2EDeliver(hv, node[j], j, pk.m)
           p == E2EPublish(r.nd, j, r.out) IN
       /\ node' = [node EXCEPT ![j] = r.nd]
       /\ net' = (net (-) SetToBag({pk})) (+) p.pk
       /\ obs' = [a |-> "dlv", n |-> j, verdict |-> r.v, prod |-> p.prod, panic |-> ""]
    /\ h2' = Append(h2, Act("dlv", pk.d, pk.m))
    /\ UNCHANGED <<ph, sg, pc, st, g, hv, triggered, wt, dropped, h1>>

DropShare(pk) ==
    /\ ph = 2 /\ pk \in BagToSet(net) /\ pk.m.t = "shares"
    /\ dropped[pk.d][pk.m.r] < MaxLoss /\ dropped[pk.d][pk.m.r] < DropBudget(hv, wt, pk.m.r)
    /\ net' = [q \in (DOMAIN net) \ {pk} |-> net[q]]
    /\ dropped' = [dropped EXCEPT ![pk.d][pk.m.r] = @ + 1]
    /\ obs' = [NoObs EXCEPT !.a = "drop", !.n = pk.d]
    /\ h2' = Append(h2, Act("drop", pk.d, pk.m))
    /\ UNCHANGED <<ph, sg, pc, st, g, hv, node, triggered, wt, h1>>

WtSeq == [r \in G!RoundIdx |-> G!SortedSeq(wt[r])]

EmitStep ==
    /\ (Emit /\ ph = 1 /\ ph' = 2) =>
          PrintT(<<"P1", ToJson([strat |-> sg.name, ops |-> h1, succ |-> SetSeq(SuccKeypers(st)),
                                 fin |-> SpecFin(st)])>>)
    /\ (Emit /\ ph = 2 /\ Quiescent') =>
          PrintT(<<"B", ToJson([strat |-> sg.name, wt |-> WtSeq, sched |-> h2'])>>)

Next ==
    /\ \/ \E o \in P1Ops : P1Step(o)
       \/ Handover
       \/ \E i \in G!Nodes, r \in G!RoundIdx : Trig(i, r)
       \/ \E pk \in BagToSet(net) : Dlv(pk) \/ DropShare(pk)
    /\ EmitStep

Spec == Init /\ [][Next]_vars

----------------------------------------------------------------------------
(* properties: the property layers applied to what the spec predicts to be observed *)

(* phase 1: the C07 monitors (DKGProps) and the direct agreement statement *)
C07_Spec == Failed(SpecFin(st), g) \ (IF Final(st) THEN {} ELSE {"C07_Live"}) = {}
Agreement == \A i, j \in Honest :
    (st.kp[i].done /\ st.kp[i].ok /\ st.kp[j].done /\ st.kp[j].ok) =>
        /\ st.kp[i].qual = st.kp[j].qual
        /\ Cardinality({d \in K : st.kp[i].qual[d]}) >= T
(* every strategy ends: phase 1 cannot get stuck before the final DKG state *)
P1Progress == (ph = 1 /\ ~Final(st)) => \E o \in P1Ops : P1Enabled(sg, pc, st, o)

(* the handover the spec makes is the handover the property layer asks for *)
HandoverOK == ph = 2 => HandoverFailed(SpecFin(st), SpecX(st)) = {}

(* phase 2, per step (action property) and at quiescence *)
StepOK == [][ph' = 2 => StepFailed(SpecX(st'), obs', node') = {}]_vars
QuiescentOK ==
    Quiescent => EndFailed(SpecX(st), [wt |-> WtSeq, pending |-> 0, judge |-> SpecJudge(hv, SpecX(st), node)], node) = {}

View == <<ph, sg, pc, st, g, hv, node, net, triggered, wt, dropped>>
=============================================================================
