--------------------------- MODULE PrimevFlowNetMC ---------------------------
(***************************************************************************)
(* Network-level model of the PrimevFlow stage: K keypers (threshold T) of *)
(* keyper set 1, each with its own commitment handler, KeyShareHandler and *)
(* databases, joined by the gossip network of the Gossip module.           *)
(*                                                                         *)
(*   Cmt(i, k)  commitment k of the universe reaches keyper i (each keyper *)
(*              of u.recv[k] once, in ANY order relative to the other      *)
(*              commitments and to the packets; at most MaxCDup repeated   *)
(*              deliveries per behaviour): validator, handler, trigger,    *)
(*              KeyShareHandler, shares published                          *)
(*   Dlv(pk)    a shares / keys packet is delivered: validators, core      *)
(*              handlers, keys published                                   *)
(*   Dup(pk)    a packet is duplicated (at most MaxDup per behaviour)      *)
(*   Drop(pk)   a shares packet is lost: at most MaxLoss per receiver and  *)
(*              only of a list every keyper holds its own shares of        *)
(* ProcNet bounds the packets in flight when a commitment is handled       *)
(* (state-space bound only; 99 = none).  All bounds are functions of the   *)
(* state; hist / obs are hidden from the VIEW; TLC prints the history of   *)
(* every transition into a complete state (every commitment delivered to   *)
(* its receivers, network empty) with the end monitors that fail there.    *)
(*                                                                         *)
(* Checked: on every transition the step monitors fail only as named in    *)
(* InfoMonitors; in every complete state P4_AllHaveKeys holds unless the   *)
(* universe contains a commitment whose identities are not ascending (F2). *)
(* FairSpec / Live: under weak fairness of first deliveries of commitments *)
(* and of packet deliveries every behaviour reaches a complete state       *)
(* (bounded liveness; checked without VIEW, Emit = FALSE).                 *)
(***************************************************************************)
EXTENDS PrimevFlowProps, Json

CONSTANTS NetIdx, MaxCDup, MaxDup, MaxLoss, ProcNet, Emit

VARIABLES ui, ks, nd, net, cnt, cdups, dups, dropped, g, obs, hist
vars == <<ui, ks, nd, net, cnt, cdups, dups, dropped, g, obs, hist>>

C0 == [inst |-> "ok", pfx |-> <<"a">>, txs |-> <<"t1">>, blk |-> "in", bsig |-> "ok", dig |-> "ok", prov |-> "p1", cd |-> "d1", cs |-> "ok"]
Cm(pfx, txs, cd) == [C0 EXCEPT !.pfx = pfx, !.txs = txs, !.cd = cd]
All == Nodes
NU(name, cs, recv) == [name |-> name, cs |-> cs, kind2 |-> "absent", eon2 |-> "known", faults |-> {}, env |-> <<>>, sfaults |-> {}, recv |-> recv]

NetDesigned == <<
  NU("n1-asc", <<Cm(<<"a", "b">>, <<"t1", "t2">>, "d1")>>, <<All>>),
  NU("n2-desc", <<Cm(<<"b", "a">>, <<"t1", "t2">>, "d1")>>, <<All>>),
  NU("n3-overlap", <<C0, Cm(<<"a", "b">>, <<"t1", "t2">>, "d1")>>, <<All, All>>),
  NU("n4-overlap-desc", <<C0, Cm(<<"b", "a">>, <<"t2", "t1">>, "d2")>>, <<All, All>>),
  NU("n5-partial", <<C0>>, <<{0, 1}>>),
  NU("n6-twoblocks", <<C0, [C0 EXCEPT !.blk = "in2"]>>, <<All, All>>),
  NU("n7-two", <<C0, Cm(<<"b">>, <<"t1">>, "d2")>>, <<All, {1, 2}>>),
  NU("n8-rejected", <<C0, [C0 EXCEPT !.inst = "bad", !.pfx = <<"b">>], [C0 EXCEPT !.bsig = "short", !.pfx = <<"c">>]>>, <<{0, 1}, All, All>>),
  NU("n9-one", <<C0>>, <<All>>) >>

Universes == [q \in DOMAIN NetIdx |-> NetDesigned[NetIdx[q]]]
U == Universes[ui]

Triggerable(c) == Bidder(c) # 0 /\ (\A k \in DOMAIN c.pfx : PfxId(c.pfx[k]) # 0) /\ Len(c.pfx) > 0 /\ Len(c.pfx) = Len(c.txs)
cLists == SetToSeq({TrigIds(Universes[q].cs[k]) : <<q, k>> \in
                       {<<q2, k2>> \in (DOMAIN Universes) \X (1..3) : k2 \in DOMAIN Universes[q2].cs /\ Triggerable(Universes[q2].cs[k2])}})
HasUnordered(u) == \E k \in DOMAIN u.cs : Triggerable(u.cs[k]) /\ ~Ordered(TrigIds(u.cs[k]))

ASSUME PrintT(<<"UNIS", ToJson([q \in DOMAIN Universes |-> [Universes[q] EXCEPT !.recv = [k \in DOMAIN @ |-> SetToSortSeq(@[k], <)]]])>>)
ASSUME PrintT(<<"CONST", ToJson([k |-> K, t |-> T, lists |-> Lists, sortmode |-> SortMode, ndesigned |-> Len(NetDesigned)])>>)

----------------------------------------------------------------------------
NoObs == [failed |-> {}]
NoMsg == [t |-> "-", from |-> 0, r |-> 0, x |-> 0, signers |-> <<>>]
Act(a, n, k, m) == [a |-> a, n |-> n, k |-> k, m |-> m]

Init ==
    /\ ui \in DOMAIN Universes
    /\ ks = [i \in Nodes |-> KsInit(Universes[ui])] /\ nd = [i \in Nodes |-> G!NodeInit]
    /\ net = EmptyBag
    /\ cnt = [i \in Nodes |-> [k \in DOMAIN Universes[ui].cs |-> 0]]
    /\ cdups = 0 /\ dups = 0 /\ dropped = [i \in Nodes |-> 0]
    /\ g = [i \in Nodes |-> GhostInit]
    /\ obs = NoObs /\ hist = <<>>

OwnShares(n, i) == {id \in G!IdSet : i \in n.shares[id]}
Log(e) == IF Emit THEN Append(hist, e) ELSE hist

Cmt(i, k) ==
    /\ i \in U.recv[k]
    /\ cnt[i][k] = 0 \/ cdups < MaxCDup
    /\ BagCardinality(net) <= ProcNet
    /\ LET c == U.cs[k]
           r == CmtDeliver(U, ks[i], nd[i], i, c, "none")
           o == [c |-> c, f |-> "none", v |-> r.v, res |-> r.res, out |-> r.out, prod |-> r.pub.prod, panic |-> "", hang |-> ""]
           g2 == GhostNext(g[i], ks[i].e2, o)
           nd2 == [nd EXCEPT ![i] = r.nd]
           failed == C05Failed(o) \cup CmtFailed(o, g2, ks[i].e2, [rows |-> r.ks.rows, cms |-> r.ks.cms], OwnShares(r.nd, i), U.kind2)
                     \cup CmtInfo(o, {}) \cup P4StepFailed("-", r.pub.prod, nd2)
       IN /\ ks' = [ks EXCEPT ![i] = r.ks] /\ nd' = nd2 /\ g' = [g EXCEPT ![i] = g2]
          /\ net' = net (+) r.pub.pk
          /\ obs' = [failed |-> failed]
    /\ cnt' = [cnt EXCEPT ![i][k] = @ + 1]
    /\ cdups' = IF cnt[i][k] = 0 THEN cdups ELSE cdups + 1
    /\ hist' = Log(Act("cmt", i, k, NoMsg))
    /\ UNCHANGED <<ui, dups, dropped>>

Dlv(pk) ==
    /\ pk \in BagToSet(net)
    /\ LET j == pk.d
           r == NetDeliver(nd[j], j, pk.m)
           nd2 == [nd EXCEPT ![j] = r.nd] IN
       /\ nd' = nd2
       /\ net' = (net (-) SetToBag({pk})) (+) r.pub.pk
       /\ obs' = [failed |-> P4StepFailed(r.v, r.pub.prod, nd2)]
    /\ hist' = Log(Act("dlv", pk.d, 0, pk.m))
    /\ UNCHANGED <<ui, ks, cnt, cdups, dups, dropped, g>>

Dup(pk) ==
    /\ pk \in BagToSet(net) /\ dups < MaxDup
    /\ net' = net (+) SetToBag({pk})
    /\ dups' = dups + 1
    /\ obs' = NoObs
    /\ hist' = Log(Act("dup", pk.d, 0, pk.m))
    /\ UNCHANGED <<ui, ks, nd, cnt, cdups, dropped, g>>

Drop(pk) ==
    /\ pk \in BagToSet(net) /\ pk.m.t = "shares" /\ dropped[pk.d] < MaxLoss
    /\ \A i \in Nodes : G!IdsOf(pk.m.r) \subseteq OwnShares(nd[i], i)
    /\ net' = [q \in (DOMAIN net) \ {pk} |-> net[q]]
    /\ dropped' = [dropped EXCEPT ![pk.d] = @ + 1]
    /\ obs' = NoObs
    /\ hist' = Log(Act("drop", pk.d, 0, pk.m))
    /\ UNCHANGED <<ui, ks, nd, cnt, cdups, dups, g>>

AllDelivered == \A k \in DOMAIN U.cs : \A i \in U.recv[k] : cnt[i][k] >= 1
Complete == AllDelivered /\ net = EmptyBag
EmitStep == (Emit /\ Complete') =>
               PrintT(<<"B", ToJson([ui |-> ui, sched |-> hist', info |-> SetToSeq(P4EndFailed(nd'))])>>)

Progress ==
    \/ \E i \in Nodes, k \in DOMAIN U.cs : cnt[i][k] = 0 /\ Cmt(i, k)
    \/ \E pk \in BagToSet(net) : Dlv(pk)
Next ==
    /\ \/ \E i \in Nodes, k \in DOMAIN U.cs : Cmt(i, k)
       \/ \E pk \in BagToSet(net) : Dlv(pk) \/ Dup(pk) \/ Drop(pk)
    /\ EmitStep
Spec == Init /\ [][Next]_vars
FairSpec == Spec /\ WF_vars(Progress /\ EmitStep)

StepOK == [][obs'.failed \subseteq InfoMonitors]_vars
EndOK == Complete => (P4EndFailed(nd) = {} \/ HasUnordered(U))
(* the as-found consequence of F2 stated positively: a universe all of whose lists ascend never fails P4 *)
Live == <>Complete
LiveKeys == <>[](Complete /\ (P4EndFailed(nd) = {} \/ HasUnordered(U)))

View == <<ui, ks, nd, net, cnt, cdups, dups, dropped, g>>
=============================================================================
