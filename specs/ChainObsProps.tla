---------------------------- MODULE ChainObsProps ----------------------------
(***************************************************************************)
(* Property layer of the chain observer (NEW properties, reported as       *)
(* OBSERVATION lines of the stage hosted under C15).  Stated over observed *)
(* data only: the block tree the node serves, the canonical head, the      *)
(* projected tables of an observer (every COMMITTED state of a step), the  *)
(* result class of a step.  It shares with the code-shaped layer only the  *)
(* tree helper ItemsIn, the event alphabet and the AddrsSeq table Sets.    *)
(*                                                                         *)
(* ADMISSIBILITY (the rule the code applies, restated): a NewConfig event  *)
(* is admissible iff its log data decodes, the members of the set it       *)
(* names can be read from the AddrsSeq contract, its activation block      *)
(* fits an int64 (and, for a collator config, the set has at most one      *)
(* member).  Nothing else is checked by the observer (no index order, no   *)
(* activation order, no threshold / member rules).  The row of an event    *)
(* carries the event's values and the set's members.                       *)
(*                                                                         *)
(*  K1  at any time the keyper_set (chain_collator) table of an observer   *)
(*      equals the fold of the admissible events of the CANONICAL chain    *)
(*      before its cursor, each index once (the first one), with the       *)
(*      event's values: K1_NoMissing K1_NoExtra K1_Value K1_CoMissing      *)
(*      K1_CoExtra                                                         *)
(*  K2  every committed transaction moves the cursor forward and only      *)
(*      together with the rows of the admissible events it passes:         *)
(*      K2_Skip (cursor moved past an admissible event without a row),     *)
(*      K2_Phantom (a row that is not the row of a passed event),          *)
(*      K2_Backward, K2_NoDup                                              *)
(*  K3  two observers with the same cursor hold the same tables: K3_Agree  *)
(*  K4  no panic, no hang / unbounded work, the service does not stop      *)
(*      because of event bytes or contract answers: K4_NoPanic K4_NoHang   *)
(*      K4_ServiceDown                                                     *)
(*  K5  bounded liveness, state form: an observer whose cursor is beyond   *)
(*      the final blocks (FinOff below the head) has a row for every       *)
(*      admissible event in them (the cursor only grows: K5_Lost is for    *)
(*      good); a fault-free poll makes progress while final blocks are     *)
(*      left: K5_Stuck                                                     *)
(***************************************************************************)
EXTENDS ChainObs

Obtainable(e) == e.set \in DOMAIN Sets /\ Sets[e.set].ans = "ok"
MembersOf(e) == IF Obtainable(e) THEN Sets[e.set].mem ELSE <<>>
Adm(e) ==
    /\ e.c \in {"ok", "long"}
    /\ Obtainable(e)
    /\ e.act \notin {P63, U64}
    /\ (e.t = "co" => Len(MembersOf(e)) <= 1)

KsRow(e) == [idx |-> e.idx, act |-> e.act, mem |-> MembersOf(e), thr |-> e.thr]
CoRow(e) == [act |-> e.act, col |-> MembersOf(e)[1]]
HasCoRow(e) == e.t = "co" /\ Adm(e) /\ Len(MembersOf(e)) = 1

(* cursor order *)
Before(x, db) == x.num < db.nb \/ (x.num = db.nb /\ x.li < db.li)
CurLess(a, b) == a.nb < b.nb \/ (a.nb = b.nb /\ a.li < b.li)

AllItems(blk, h) == ItemsIn(blk, h, 0, HeadNum(blk, h))

RECURSIVE RefKs(_, _, _)
RefKs(its, i, acc) ==
    IF i > Len(its) THEN acc
    ELSE LET e == its[i].e IN
         IF e.t = "ks" /\ Adm(e) /\ ~(\E r \in acc : r.idx = e.idx) THEN RefKs(its, i + 1, acc \cup {KsRow(e)})
         ELSE RefKs(its, i + 1, acc)
RECURSIVE RefCo(_, _, _)
RefCo(its, i, acc) ==
    IF i > Len(its) THEN acc
    ELSE LET e == its[i].e IN
         IF HasCoRow(e) /\ ~(\E r \in acc : r.act = e.act) THEN RefCo(its, i + 1, acc \cup {CoRow(e)})
         ELSE RefCo(its, i + 1, acc)

(* K1 for one table; all = AllItems of the chain *)
K1_FailedA(all, db) ==
    LET its == SelectSeq(all, LAMBDA x : Before(x, db))
        rk  == RefKs(its, 1, {})
        rc  == RefCo(its, 1, {})
    IN (IF \A r \in rk : \E q \in db.ks : q.idx = r.idx THEN {} ELSE {"K1_NoMissing"}) \cup
       (IF \A q \in db.ks : \E r \in rk : q.idx = r.idx THEN {} ELSE {"K1_NoExtra"}) \cup
       (IF \A q \in db.ks : \A r \in rk : q.idx = r.idx => q = r THEN {} ELSE {"K1_Value"}) \cup
       (IF \A r \in rc : r \in db.co THEN {} ELSE {"K1_CoMissing"}) \cup
       (IF \A q \in db.co : q \in rc THEN {} ELSE {"K1_CoExtra"})
K1_Failed(blk, h, db) == K1_FailedA(AllItems(blk, h), db)

(* K2 for two consecutive committed states s, s2 of one observer *)
K2_FailedA(all, s, s2) ==
    LET passed == SelectSeq(all, LAMBDA x : ~Before(x, s) /\ Before(x, s2))
        P == {passed[i].e : i \in 1..Len(passed)}
    IN (IF CurLess(s2, s) THEN {"K2_Backward"} ELSE {}) \cup
       (IF \E e \in P : \/ e.t = "ks" /\ Adm(e) /\ ~(\E q \in s2.ks : q.idx = e.idx)
                        \/ HasCoRow(e) /\ ~(\E q \in s2.co : q.act = e.act)
        THEN {"K2_Skip"} ELSE {}) \cup
       (IF \/ \E q \in s2.ks \ s.ks : ~(\E e \in P : e.t = "ks" /\ Adm(e) /\ KsRow(e) = q)
           \/ \E q \in s2.co \ s.co : ~(\E e \in P : HasCoRow(e) /\ CoRow(e) = q)
           \/ ~(s.ks \subseteq s2.ks) \/ ~(s.co \subseteq s2.co)
        THEN {"K2_Phantom"} ELSE {})
RECURSIVE K2_Seq(_, _, _)
K2_Seq(all, states, i) == IF i >= Len(states) THEN {} ELSE K2_FailedA(all, states[i], states[i + 1]) \cup K2_Seq(all, states, i + 1)

K3_Failed(a, b) ==
    IF a.nb = b.nb /\ a.li = b.li /\ (a.ks # b.ks \/ a.co # b.co) THEN {"K3_Agree"} ELSE {}

(* K4 on the result class of a step; faulty = an RPC / SQL fault or a crash was injected into it *)
K4_Failed(ret, faulty) ==
    (IF ret = "panic" THEN {"K4_NoPanic"} ELSE {}) \cup
    (IF ret = "hang" THEN {"K4_NoHang"} ELSE {}) \cup
    (IF ret = "dead" /\ ~faulty THEN {"K4_ServiceDown"} ELSE {})

Final(blk, h) == HeadNum(blk, h) - FinOff
(* blocks below the first deployment block hold no events: a cursor below it stands for it *)
EffNb(db) == IF db.nb < MinDeploy THEN MinDeploy ELSE db.nb
CaughtUp(blk, h, db) == EffNb(db) > Final(blk, h)
K5_LostA(all, fin, db) ==
    IF db.nb > fin /\ \E i \in 1..Len(all) : LET x == all[i] IN
          /\ x.num <= fin
          /\ \/ x.e.t = "ks" /\ Adm(x.e) /\ ~(\E q \in db.ks : q.idx = x.e.idx)
             \/ HasCoRow(x.e) /\ ~(\E q \in db.co : q.act = x.e.act)
    THEN {"K5_Lost"} ELSE {}
K5_Lost(blk, h, db) == K5_LostA(AllItems(blk, h), Final(blk, h), db)
(* a poll without fault of a running observer *)
K5_Stuck(blk, h, post, ret) ==
    IF ret \in {"idle", "dead", "hang"} /\ ~CaughtUp(blk, h, post) /\ Final(blk, h) >= 0 THEN {"K5_Stuck"} ELSE {}

=============================================================================
