---------------------------- MODULE EventTriggerMC ----------------------------
(***************************************************************************)
(* Two keypers over one growing block tree:                                *)
(*   A  calls Sync whenever the model says so (any partition of the head   *)
(*      sequence into sync steps) with range size MaxR,                    *)
(*   B  the reference keyper: syncs after every head move with range 1     *)
(*      (block by block).                                                  *)
(* Environment as in ChainSyncMC: Mine(p, evs, exp) puts a new block with  *)
(* at most MaxPerBlock entries on any canonical block p and makes it the   *)
(* head; Switch(b) moves the head to an existing block.  A trigger is      *)
(* registered at most once per branch.  Forks are offered only up to the   *)
(* assumed depth D (C15's precondition).                                   *)
(* Checked: C16_Exact (no extra, no unexplained missing), C16_FiredAt,     *)
(* C16_Once on both keypers, C16_Same between them.  Misses explained by   *)
(* known finding D6 are counted, not reported; with Fetch = "ordered" (the *)
(* ideal) there are none.                                                  *)
(***************************************************************************)
EXTENDS EventTriggerProps, Json, SequencesExt

CONSTANTS
    MaxBlocks, MaxNum, MaxLeaves, MaxEntries, MaxPerBlock, NTrig, ExpOffsets,
    D, MaxR, Start0, Fetch, AllowKnown, Emit,
    AllowBadReg,  \* generate registrations that must be skipped?
    MinForkNum,   \* forks start and the head switches only at blocks with at least this number (0: anywhere)
    AllowOther,   \* generate non-matching logs "o"?
    MidSwitch,    \* may the canonical leaf switch in the middle of a Sync call of keyper A?
    Faults    \* may a Sync call of keyper A fail (RPC error, failed transaction)?  Code-shaped: the
              \* error is returned, the transactions committed so far stay, the rest is not done,
              \* the next call resumes after the recorded position

TrigSeq == <<"1", "2", "3">>
UseTrigs == {TrigSeq[i] : i \in 1..NTrig}
cfgA == [d |-> D, maxr |-> MaxR, start0 |-> Start0, fetch |-> Fetch]
cfgB == [d |-> D, maxr |-> 1, start0 |-> Start0, fetch |-> Fetch]

VARIABLES blk, canon, a, b, cutsA, cutsB, okA, okB, seen, tag, last, hist, dead
vars == <<blk, canon, a, b, cutsA, cutsB, okA, okB, seen, tag, last, hist, dead>>
(* dead: blocks abandoned by a switch in the middle of a Sync call; the environment never makes them
   canonical again (if it did, the position hash taken before the switch would name a block whose
   events were never fetched - the header-first order cannot protect against that flip-flop) *)

NoSt == TSt(NoRow, {}, {})
H(op, x, evs, exp) == [op |-> op, a |-> x, evs |-> evs, exp |-> exp, t |-> <<>>, cut |-> -1,
                       post |-> [synced |-> NoRow, regs |-> <<>>, fired |-> <<>>]]

Leaves(t) == {x \in DOMAIN t : \A y \in DOMAIN t : t[y].par # x}
NumEntries(t) == LET RECURSIVE Sum(_) Sum(i) == IF i = 0 THEN 0 ELSE Cardinality(t[i].evs) + Sum(i - 1) IN Sum(Len(t))
BranchToks(t, p) == UNION {t[x].evs : x \in AncSelf(t, p)}

(* "b" is a registration the processor must skip (undecodable or invalid definition, eon or expiry
   above MaxInt64): no effect in the code-shaped spec, so it has to be visible in the VIEW through
   blk and through the tag of the call that meets it *)
BadReg == "b"
Tokens == {RegTok(t) : t \in UseTrigs} \cup {LogTok(t) : t \in UseTrigs} \cup (IF AllowOther THEN {"o"} ELSE {}) \cup (IF AllowBadReg THEN {BadReg} ELSE {})

(* monitors of one call: states = <<pre, committed...>>; returns [fail, known, cuts] *)
CallCheck(states, cuts) ==
    LET RECURSIVE Go(_, _, _, _)
        Go(i, cs, fail, known) ==
          IF i > Len(states) THEN [fail |-> fail, known |-> known, cuts |-> cs]
          ELSE LET s   == states[i]
                   cs2 == IF i = 1 THEN cs ELSE CutsAfter(cs, s)
                   ex  == C16_Exact(blk, canon, Start0, s, cs2)
                   f2  == (ex \ {"C16_Known_D6"}) \cup
                          (IF C16_FiredAt(blk, canon, Start0, s) THEN {} ELSE {"C16_FiredAt"}) \cup
                          (IF i > 1 /\ ~C16_Once(states[i - 1], s) THEN {"C16_Once"} ELSE {})
               IN Go(i + 1, cs2, fail \cup f2, known \/ "C16_Known_D6" \in ex)
    IN Go(1, cuts, {}, FALSE)

Init ==
    /\ blk = << [num |-> 0, par |-> -1, evs |-> {}, exp |-> 0] >>
    /\ canon = 1
    /\ a = NoSt /\ b = NoSt /\ cutsA = {} /\ cutsB = {}
    /\ okA = TRUE /\ okB = TRUE /\ seen = FALSE /\ tag = <<>> /\ dead = {}
    /\ last = H("init", 0, <<>>, 0)
    /\ hist = <<>>

DepthOK(st, h) ==
    \/ ~st.synced.has \/ st.synced.hash < 1
    \/ blk'[st.synced.hash].num - blk'[LCA(blk', st.synced.hash, h)].num <= D

(* the reference keyper follows every head move *)
RefSync ==
    LET seq == TRun(cfgB, blk', canon', b)
        chk == CallCheck(<<b>> \o seq, cutsB)
    IN /\ b' = TFinal(b, seq)
       /\ cutsB' = chk.cuts
       /\ okB' = (chk.fail = {} /\ ~chk.known)

Mine(p, evs, exp) ==
    /\ Len(blk) < MaxBlocks
    /\ p \in AncSelf(blk, canon)
    /\ blk[p].num < MaxNum
    /\ p # canon => blk[p].num >= MinForkNum
    /\ Cardinality(evs) <= MaxPerBlock
    /\ NumEntries(blk) + Cardinality(evs) <= MaxEntries
    /\ \A t \in UseTrigs : RegTok(t) \in evs => RegTok(t) \notin BranchToks(blk, p)
    /\ Cardinality({t \in UseTrigs : RegTok(t) \in evs}) <= 1
    (* triggers are interchangeable: register them in order; a log for a trigger that is not
       registered on this branch is the same as "o" *)
    /\ \A i \in 2..NTrig : RegTok(TrigSeq[i]) \in evs => \E x \in DOMAIN blk : RegTok(TrigSeq[i - 1]) \in blk[x].evs
    /\ \A t \in UseTrigs : LogTok(t) \in evs => RegTok(t) \in BranchToks(blk, p) \cup evs
    /\ (\E t \in UseTrigs : RegTok(t) \in evs) = (exp # 0)
    /\ exp # 0 => exp - (blk[p].num + 1) \in ExpOffsets
    /\ LET nb == Append(blk, [num |-> blk[p].num + 1, par |-> p, evs |-> evs, exp |-> exp]) IN
       /\ Cardinality(Leaves(nb)) <= MaxLeaves
       /\ blk' = nb
    /\ canon' = Len(blk) + 1
    /\ DepthOK(b, canon')  = TRUE
    /\ RefSync
    /\ last' = H("mine", p, SetToSeq(evs), exp)
    /\ hist' = Append(hist, last')
    /\ tag' = <<>>
    /\ UNCHANGED <<a, cutsA, okA, seen, dead>>

Switch(x) ==
    /\ x \in DOMAIN blk /\ x # canon
    /\ blk[x].num >= MinForkNum
    /\ AncSelf(blk, x) \cap dead = {}
    /\ canon' = x /\ blk' = blk
    /\ DepthOK(b, x) = TRUE
    /\ RefSync
    /\ last' = H("switch", x, <<>>, 0)
    /\ hist' = Append(hist, last')
    /\ tag' = <<>>
    /\ UNCHANGED <<a, cutsA, okA, seen, dead>>

(* The node switches to leaf x right after the k-th RPC call of A's (single-range, rollback-free,
   gap-free) Sync; ONE step.  The monitors judge the tables from the next quiescent call on. *)
SyncMid(k, x, ord) ==
    /\ MidSwitch
    /\ blk' = blk /\ canon' = x
    /\ x \in Leaves(blk) /\ x # canon /\ blk[x].num >= blk[canon].num
    /\ ~(a.synced.has /\ blk[canon].num > a.synced.num + 1)
    /\ DepthOK(a, canon) = TRUE
    /\ LET full == TRun(cfgA, blk, canon, a)
           lo   == IF a.synced.has THEN a.synced.num + 1 ELSE Start0
       IN /\ Len(full) = 1 /\ full[1].synced.hash # Empty
          /\ a' = TStoreMid(cfgA, blk, canon, x, a, lo, blk[canon].num, k, ord)
          /\ cutsA' = CutsAfter(cutsA, a')
    /\ DepthOK(b, x) = TRUE
    /\ RefSync
    /\ tag' = <<"mid", k, ord>>
    /\ last' = [H("syncmid", x, <<>>, 0) EXCEPT !.cut = k]
    /\ hist' = Append(hist, last')
    /\ dead' = dead \cup (AncSelf(blk, canon) \ AncSelf(blk, x))
    /\ UNCHANGED <<okA, seen>>

(* cut = how many of the call's transactions are committed before it fails (Len(full) = no failure) *)
SyncA(cut) ==
    /\ blk' = blk /\ canon' = canon
    /\ DepthOK(a, canon) = TRUE
    /\ LET full == TRun(cfgA, blk, canon, a)
           seq  == SubSeq(full, 1, cut)
           chk  == CallCheck(<<a>> \o seq, cutsA)
       IN /\ cut = Len(full) \/ (Faults /\ cut >= 1 /\ cut < Len(full))
          /\ a' = TFinal(a, seq)
          /\ cutsA' = chk.cuts
          /\ okA' = (chk.fail = {})
          /\ seen' = (seen \/ chk.known)
          (* the code path of this call is part of the VIEW: rollback or not, 0 / 1 / several ranges,
             D6 hit, failed *)
          /\ tag' = << Len(seq) > 0 /\ seq[1].synced.hash = Empty,
                       IF Len(seq) > 2 THEN 2 ELSE Len(seq), chk.known, cut < Len(full),
                       (* fired rows just below (-1), exactly at (0), just above (1) the rollback target *)
                       IF Len(seq) > 0 /\ seq[1].synced.hash = Empty
                       THEN SetToSeq({f.num - seq[1].synced.num : f \in {g \in a.fired : g.num - seq[1].synced.num \in {-1, 0, 1}}})
                       ELSE <<>>,
                       (* a range of this call holds a bad registration at or before a good one *)
                       \E i \in 1..Len(seq) : seq[i].synced.hash # Empty /\
                           LET lo == (IF i = 1 THEN (IF a.synced.has THEN a.synced.num + 1 ELSE Start0) ELSE seq[i - 1].synced.num + 1)
                               bs == CanonBlocks(blk, canon, lo, seq[i].synced.num)
                           IN \E b1, b2 \in bs : BadReg \in blk[b1].evs /\ blk[b1].num <= blk[b2].num /\
                                                  \E t \in UseTrigs : RegTok(t) \in blk[b2].evs >>
          /\ last' = [H("sync", 0, <<>>, 0) EXCEPT !.t = tag', !.cut = IF cut = Len(full) THEN -1 ELSE cut,
                         !.post = [synced |-> a'.synced, regs |-> SetToSeq(a'.regs), fired |-> SetToSeq(a'.fired)]]
    /\ hist' = Append(hist, last')
    /\ UNCHANGED <<b, cutsB, okB, dead>>

ExpChoices(p) == {0} \cup {blk[p].num + 1 + o : o \in ExpOffsets}

Next ==
    \/ \E p \in DOMAIN blk, evs \in {e \in SUBSET Tokens : Cardinality(e) <= MaxPerBlock} :
          \E exp \in ExpChoices(p) : Mine(p, evs, exp)
    \/ \E x \in DOMAIN blk : Switch(x)
    \/ \E cut \in 0..(MaxNum + 1) : SyncA(cut)
    \/ \E k \in 1..3, x \in DOMAIN blk, ord \in {"rt", "tr"} : SyncMid(k, x, ord)

Spec == Init /\ [][Next]_vars

C16_Inv ==
    /\ okA /\ okB
    /\ (AllowKnown \/ ~seen)
    /\ C16_Same(blk, canon, Start0, a, cutsA, b, cutsB)
C16_InvCex == C16_Inv \/ (PrintT(<<"CEX", ToJson(hist)>>) /\ FALSE)

EmitInv == (~Emit) \/ last.op # "sync" \/ PrintT(<<"B", ToJson(hist)>>)
View == <<blk, canon, a, b, cutsA, cutsB, okA, okB, seen, tag, dead>>

=============================================================================
