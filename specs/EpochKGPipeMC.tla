---------------------------- MODULE EpochKGPipeMC ----------------------------
(* all delivery sequences of share MESSAGES to one DecryptionKeyShareHandler: the effect of a
   message depends only on the tables, so BFS over (tables, ghost) covers every (reachable state,
   message) pair; every generated TRANSITION prints its hidden history (one delivery history per
   pair); shareTab rows keep insertion order, so different arrival orders are different states *)
EXTENDS EpochKGPipe, Json
CONSTANTS Emit, DupIds, WithKeys     \* WithKeys: DecryptionKeys messages are part of the alphabet
VARIABLES db, gh, last, obs, hist
vars == <<db, gh, last, obs, hist>>

(* DupIds = FALSE leaves out messages naming one identity twice *)
AlphaSet == {m \in Msgs : /\ m.t = "keys" => WithKeys
                          /\ DupIds \/ Len(MsgIds(m)) = 1 \/ MsgIds(m)[1] # MsgIds(m)[2]}
Alphabet == SetToSeq(AlphaSet)
ASSUME PrintT(<<"ALPHABET", ToJson(Alphabet)>>)
ASSUME PrintT(<<"CONST", ToJson([n |-> N, t |-> T, idents |-> IdOrder])>>)

NoObs == [verdict |-> "", verr |-> "", out |-> <<>>, err |-> "", post |-> DBInit]
Init == db = DBInit /\ gh = PGhostInit /\ last = 0 /\ obs = NoObs /\ hist = <<>>
Do(i) ==
    LET r == Step(db, Alphabet[i]) IN
    /\ db' = r.db
    /\ obs' = [verdict |-> r.verdict, verr |-> r.verr, out |-> r.out, err |-> r.err, post |-> r.db]
    /\ gh' = PGhostNext(gh, Alphabet[i])
    /\ last' = i /\ hist' = Append(hist, i)
    /\ (~Emit) \/ PrintT(<<"B", Append(hist, i)>>)
Next == \E i \in DOMAIN Alphabet : Do(i)
Spec == Init /\ [][Next]_vars

StepProps == [][BFailed(gh, db, Alphabet[last'], obs') = {}]_vars
(* the unreachable error branch of HandleMessage stays unreachable *)
NoEnoughError == obs.err = ""
View == <<db, gh>>
==============================================================================
