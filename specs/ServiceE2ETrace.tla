--------------------------- MODULE ServiceE2ETrace ---------------------------
(***************************************************************************)
(* Trace layer of the composition: validates ndjson traces recorded by     *)
(* harness/svce2e from the real code - per keyper one Postgres fake, the   *)
(* real RegistrySyncer and MultiEventSyncer (+ EventTriggerRegistered and  *)
(* Trigger processors) against one shared in-process Ethereum node with a  *)
(* block tree, the real shutterservice.Keyper.processNewBlock, the real    *)
(* KeyShareHandler behind the real service MessagingMiddleware, the real   *)
(* service and core message handlers and combined topic validators joined  *)
(* by a simulated network.  One file holds several behaviours:             *)
(*   new   universe u (static scenario as configured and as read back from *)
(*         the keyper-set tables), initial tables of all keypers           *)
(*   mine  a block [num, par, evs, exp, ts] is added and becomes the head  *)
(*   proc  keyper n processed header h: tables before / after, committed   *)
(*         states of the MultiEventSyncer call (mseq), emitted triggers    *)
(*         out = [blk, ids, sorted, msg, sh], published messages prod with *)
(*         the producer's own verdict, error / panic text, key tables tabs *)
(*   dlv   packet m delivered to keyper n: verdict, prod, its tables after *)
(*   drop  packet m to keyper n lost                                       *)
(*   end   nothing in flight: tables, keys judged against the dealer's key *)
(*         and by trial decryption                                         *)
(* Deterministic fold, one TLC state per line.                             *)
(*   pass A  viol : E1 / E2 / E3 monitors false on the OBSERVED data       *)
(*           info : information monitors and E2_Known_D6                   *)
(*   pass B  drift: the observed line is not what the composed code-shaped *)
(*           operators (ProcBlock, SvcDeliver, G!Publish) yield from the   *)
(*           previously OBSERVED tables                                    *)
(***************************************************************************)
EXTENDS ServiceE2EProps, Json

CONSTANT TraceFile
Trace == ndJsonDeserialize(TraceFile)

VARIABLES l, u, blk, canon, cur, node, net, lastp, cuts, recs, sent, viol, drift, info
tvars == <<l, u, blk, canon, cur, node, net, lastp, cuts, recs, sent, viol, drift, info>>

Nodes == G!Nodes
RangeOf(s) == {s[i] : i \in DOMAIN s}

(* observed tables -> records of the spec *)
ObsSy(o) == [has |-> o.has, num |-> o.num, hash |-> o.hash]
ObsM(o) == TSt(ObsSy(o.synced), RangeOf(o.regs), RangeOf(o.fired))
ObsKs(o) == [r |-> RSt(ObsSy(o.r.synced), RangeOf(o.r.rows)), m |-> ObsM(o.m), latest |-> o.latest]
ObsNode(o) == [shares |-> [id \in G!IdSet |-> RangeOf(o.shares[id])], keys |-> [id \in G!IdSet |-> o.keys[id]],
               sigs |-> [r \in DOMAIN Lists |-> RangeOf(o.sigs[r])], cur |-> o.cur, ptr |-> o.ptr]
ObsTabs(t) == [i \in Nodes |-> ObsNode(t[i + 1])]
ObsBlk(b) == [num |-> b.num, par |-> b.par, evs |-> RangeOf(b.evs), exp |-> b.exp, ts |-> b.ts]
ObsU(o) == [idset |-> o.idset, trset |-> o.trset, kind |-> o.kind, act |-> o.act]
StripOut(out) == [q \in DOMAIN out |-> [blk |-> out[q].blk, ids |-> out[q].ids, msg |-> out[q].msg, sh |-> out[q].sh]]

RECURSIVE PacketsObs(_, _, _)
PacketsObs(i, prod, k) ==
    IF k > Len(prod) THEN EmptyBag
    ELSE (IF prod[k].own = "accept" THEN SetToBag({[m |-> prod[k].m, d |-> j] : j \in Nodes \ {i}}) ELSE EmptyBag)
         (+) PacketsObs(i, prod, k + 1)

Root == [num |-> 0, par |-> -1, evs |-> {}, exp |-> 0, ts |-> [x \in 1..NI |-> 0]]
NoU == [idset |-> <<>>, trset |-> <<>>, kind |-> <<>>, act |-> <<>>]
NoSent == [r \in DOMAIN Lists |-> {}]

(* the decrypted flags must be set (updateEventFlag) when a keys message is handled and when the
   core share handler's own keys message passes the middleware: the latter is the case exactly when
   a key of the list was unknown before the step and a keys message of the list is produced (the
   flavour handler, which runs first and is not intercepted, emits only for known keys) *)
HasRow(uu, ks, x) == IF x \in TimeIds THEN IdRow(ks, x).reg /\ IdRow(ks, x).set = OkSet
                     ELSE x \in EvIds /\ TrgRow(uu, ks, x - NI).reg /\ TrgRow(uu, ks, x - NI).set = OkSet
E3_FlagSet(uu, preNode, line, postKs) ==
    LET m == line.m
        need == /\ line.verdict = "accept" /\ m.r \in DOMAIN Lists
                /\ \/ m.t = "keys"
                   \/ /\ m.t = "shares"
                      /\ \E x \in G!IdsOf(m.r) : preNode.keys[x] = "none"
                      /\ \E q \in DOMAIN line.prod : line.prod[q].m.t = "keys" /\ line.prod[q].m.r = m.r
    IN need => \A x \in G!IdsOf(m.r) : HasRow(uu, postKs, x) => x \in DecSlots(uu, postKs)

Mon(ln, S) == {<<ln, m>> : m \in S}

TInit == /\ l = 1 /\ u = NoU /\ blk = <<Root>> /\ canon = 1
         /\ cur = [i \in Nodes |-> KsInit] /\ node = [i \in Nodes |-> G!NodeInit] /\ net = EmptyBag
         /\ lastp = [i \in Nodes |-> 1] /\ cuts = [i \in Nodes |-> {}] /\ recs = {} /\ sent = NoSent
         /\ viol = {} /\ drift = {} /\ info = {}

TNext ==
    /\ l <= Len(Trace)
    /\ l' = l + 1
    /\ LET line == Trace[l] IN
       CASE line.k = "new" ->
              /\ u' = ObsU(line.u)
              /\ blk' = <<Root>> /\ canon' = 1
              /\ cur' = [i \in Nodes |-> ObsKs(line.ks[i + 1])]
              /\ node' = ObsTabs(line.tabs) /\ net' = EmptyBag
              /\ lastp' = [i \in Nodes |-> 1] /\ cuts' = [i \in Nodes |-> {}] /\ recs' = {} /\ sent' = NoSent
              /\ drift' = drift \cup (IF /\ \A i \in Nodes : ObsKs(line.ks[i + 1]) = KsInit
                                         /\ ObsTabs(line.tabs) = [i \in Nodes |-> G!NodeInit] THEN {} ELSE {l})
              /\ UNCHANGED <<viol, info>>
         [] line.k = "mine" ->
              /\ blk' = Append(blk, ObsBlk(line.b))
              /\ canon' = Len(blk) + 1
              /\ drift' = drift \cup (IF line.id = Len(blk) + 1 /\ line.b.par \in DOMAIN blk /\ net = EmptyBag THEN {} ELSE {l})
              /\ UNCHANGED <<u, cur, node, net, lastp, cuts, recs, sent, viol, info>>
         [] line.k = "proc" ->
              LET k    == line.n
                  h    == line.h
                  pre  == ObsKs(line.pre)
                  post == ObsKs(line.post)
                  out  == StripOut(line.out)
                  mseq == [q \in DOMAIN line.mseq |-> ObsM(line.mseq[q])]
                  tabs == ObsTabs(line.tabs)
                  c2   == CutsFold(cuts[k], mseq, 1)
                  rec  == ProcRec(k, h, lastp[k], out, DecSlots(u, post), c2)
                  e1   == E1Failed(u, blk, h, pre, post, out) \cup
                          (IF \E q \in DOMAIN line.out : ~line.out[q].sorted THEN {"E1_Sorted"} ELSE {})
                  e2   == UNION {E2Failed(blk, rec, o) : o \in recs}
                  e3   == StepFailed([verdict |-> "-", prod |-> line.prod], tabs)
                  all  == e1 \cup e2 \cup e3 \cup (IF line.panic = "" THEN {} ELSE {"E_NoPanic"})
                  p    == ProcBlock(u, cur[k], node[k], k, blk, h)
                  pub  == G!Publish(p.nd, k, Flat(p.out, 1), 1)
                  conf == /\ line.err = "" /\ line.panic = ""
                          /\ h = canon /\ pre = cur[k]
                          /\ p.ks = post /\ p.mseq = mseq /\ p.out = out
                          /\ pub.prod = line.prod
                          /\ [node EXCEPT ![k] = p.nd] = tabs
              IN /\ viol' = viol \cup Mon(l, all \ InfoMonitors)
                 /\ info' = info \cup Mon(l, all \cap InfoMonitors)
                 /\ drift' = drift \cup (IF conf THEN {} ELSE {l})
                 /\ cur' = [cur EXCEPT ![k] = post]
                 /\ node' = tabs
                 /\ net' = net (+) PacketsObs(k, line.prod, 1)
                 /\ lastp' = [lastp EXCEPT ![k] = h]
                 /\ cuts' = [cuts EXCEPT ![k] = c2]
                 /\ recs' = recs \cup {rec}
                 /\ sent' = [r \in DOMAIN Lists |->
                               IF \E q \in DOMAIN line.out : line.out[q].msg.sent /\ ListIdx(line.out[q].msg.ids) = r
                                                             /\ \E w \in DOMAIN line.prod : line.prod[w].m.t = "shares" /\ line.prod[w].m.r = r /\ line.prod[w].own = "accept"
                               THEN sent[r] \cup {k} ELSE sent[r]]
                 /\ UNCHANGED <<u, blk, canon>>
         [] line.k = "dlv" ->
              LET j    == line.n
                  pk   == [m |-> line.m, d |-> j]
                  post == ObsKs(line.ksn)
                  tabs == ObsTabs(line.tabs)
                  all  == StepFailed([verdict |-> line.verdict, prod |-> line.prod], tabs) \cup
                          (IF line.panic = "" THEN {} ELSE {"E_NoPanic"}) \cup
                          (IF line.trig = 0 THEN {} ELSE {"E1_Quiet"}) \cup
                          (IF E3_FlagSet(u, node[j], line, post) THEN {} ELSE {"E3_FlagSet"})
                  r    == SvcDeliver(u, cur[j], node[j], j, line.m)
                  pub  == G!Publish(r.nd, j, r.out, 1)
                  conf == /\ ~line.missing /\ line.err = "" /\ line.panic = ""
                          /\ pk \in DOMAIN net
                          /\ line.m.r \in DOMAIN Lists
                          /\ r.v = line.verdict /\ r.ks = post
                          /\ pub.prod = line.prod
                          /\ [node EXCEPT ![j] = r.nd] = tabs
              IN /\ viol' = viol \cup Mon(l, all)
                 /\ drift' = drift \cup (IF line.m.r \in DOMAIN Lists /\ conf THEN {} ELSE {l})
                 /\ cur' = [cur EXCEPT ![j] = post]
                 /\ node' = tabs
                 /\ net' = (IF pk \in DOMAIN net THEN net (-) SetToBag({pk}) ELSE net) (+) PacketsObs(j, line.prod, 1)
                 /\ UNCHANGED <<u, blk, canon, lastp, cuts, recs, sent, info>>
         [] line.k = "drop" ->
              LET pk == [m |-> line.m, d |-> line.n] IN
              /\ drift' = drift \cup (IF ~line.missing /\ pk \in DOMAIN net /\ line.m.t = "shares" THEN {} ELSE {l})
              /\ net' = IF pk \in DOMAIN net THEN net (-) SetToBag({pk}) ELSE net
              /\ UNCHANGED <<u, blk, canon, cur, node, lastp, cuts, recs, sent, viol, info>>
         [] line.k = "end" ->
              LET tabs == ObsTabs(line.tabs)
                  kss  == [i \in Nodes |-> ObsKs(line.ks[i + 1])]
                  dec  == [i \in Nodes |-> DecSlots(u, kss[i])]
                  reg  == [i \in Nodes |-> {x \in TimeIds \cup EvIds : HasRow(u, kss[i], x)}]
                  bad  == EndFailed(sent, tabs, dec) \cup StepFailed([verdict |-> "-", prod |-> <<>>], tabs)
                  inf  == EndInfo(sent, tabs, dec, reg) \cup (IF "E3_Flagged" \in bad THEN {"X_Flagged"} ELSE {})
              IN /\ viol' = viol \cup Mon(l, bad \ {"E3_Flagged"})
                 /\ info' = info \cup Mon(l, inf)
                 /\ drift' = drift \cup (IF line.pending = 0 /\ net = EmptyBag /\ tabs = node /\ kss = cur THEN {} ELSE {l})
                 /\ UNCHANGED <<u, blk, canon, cur, node, net, lastp, cuts, recs, sent>>
         [] OTHER -> UNCHANGED <<u, blk, canon, cur, node, net, lastp, cuts, recs, sent, viol, drift, info>>

TSpec == TInit /\ [][TNext]_tvars
SetToSeq2(S) == SetToSeq({<<p[1], p[2]>> : p \in S})
Done == l <= Len(Trace) \/
        PrintT(<<"RESULT", ToJson([lines |-> Len(Trace), viol |-> SetToSeq(viol), drift |-> SetToSeq(drift), info |-> SetToSeq(info)])>>)
=============================================================================
