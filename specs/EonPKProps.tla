------------------------------ MODULE EonPKProps ------------------------------
(***************************************************************************)
(* C20 -- property layer.  Everything here talks about ONE observed step   *)
(* ("line") and a ghost folded from earlier lines only:                    *)
(*   line = [k, mode, e, ord, q, fail, res, pre, calls, err, post, panic]  *)
(*     k     "new" (handler constructed), "ins" (a key generation for eon  *)
(*           e finished successfully and was recorded), "tick" (one call   *)
(*           of queryAndHandleNewEonPubKeys)                               *)
(*     pre / post   rows of outgoing_eon_keys before / after the step      *)
(*     calls        what the recording Messaging / callback received in    *)
(*                  this step, in order, with the answer they gave         *)
(*     err, res     what the called function returned                      *)
(* Ghost: owed = eons whose successful key generation was recorded and     *)
(* whose key has neither been handed nor excused; done = the <<mechanism,  *)
(* eon>> pairs handed so far.                                              *)
(*                                                                         *)
(* "Provided that mechanism accepts it" is read per tick: a tick in which  *)
(* a mechanism refused a call is outside the property (the handler stops   *)
(* there; that the remaining keys of that tick are dropped is reported in  *)
(* the notes, not as a violation).  Rows that the keyper's own key         *)
(* generation cannot have written (eon of a keyper set the keyper is not   *)
(* in, eon without eons / config row) are outside as well: a tick that     *)
(* finds such a row pending is only checked for conformance.               *)
(***************************************************************************)
EXTENDS EonPK

Ids(rows) == {rows[j].e : j \in DOMAIN rows}
IdOfNum(n) == IF \E e \in EonIds : EonTab[e].num = n THEN CHOOSE e \in EonIds : EonTab[e].num = n ELSE 0

\* the mechanisms the options given to the keyper core enabled (recomputed from the option
\* sequence, not taken from what the harness wrote).  Every enabled mechanism is required: with
\* the default broadcast AND a registered handler each key goes to both, once each.
Allowed(mode) == (IF Eff(mode).bc THEN {"bc"} ELSE {}) \cup (IF Eff(mode).cb THEN {"cb"} ELSE {})
Required(mode) == Allowed(mode)

GhostInit == [owed |-> {}, done |-> {}]

Refused(line) == \E j \in DOMAIN line.calls : line.calls[j].res # "ok"
ReachablePre(line) == \A j \in DOMAIN line.pre : line.pre[j].e \in EonIds /\ Kind(line.pre[j].e) = "member"
Clean(line) == line.q = "ok" /\ ~Refused(line) /\ ReachablePre(line)

HandedIn(line, m, e) == {j \in DOMAIN line.calls : line.calls[j].m = m /\ line.calls[j].num = EonTab[e].num}

GhostNext(g, line) ==
    CASE line.k = "new"  -> GhostInit
      [] line.k = "ins"  -> IF line.res = "ok" /\ line.e \in EonIds /\ Kind(line.e) = "member"
                            THEN [g EXCEPT !.owed = @ \cup {line.e}] ELSE g
      [] line.k = "tick" -> [owed |-> {e \in g.owed : e \in Ids(line.post)},
                             done |-> g.done \cup {<<line.calls[j].m, IdOfNum(line.calls[j].num)>> : j \in DOMAIN line.calls}]
      [] OTHER -> g

\* every recorded key is handed exactly once, in the tick that finds it, to the flavour's mechanism
C20_Handed(g, line) ==
    (line.k = "tick" /\ Clean(line)) =>
        \A e \in g.owed : \A m \in Required(line.mode) : Cardinality(HandedIn(line, m, e)) = 1

\* a recorded key never disappears silently: after a tick it was handed, or it is still pending,
\* or a mechanism refused something in this tick
C20_Kept(g, line) ==
    /\ line.k = "ins" => (line.res = "ok" => line.e \in Ids(line.post)) /\ \A e \in g.owed : e \in Ids(line.post)
    /\ line.k = "tick" =>
         \A e \in g.owed :
            \/ e \in Ids(line.pre) /\ (\A m \in Required(line.mode) : HandedIn(line, m, e) # {})
            \/ e \in Ids(line.post)
            \/ Refused(line)
            \/ ~ReachablePre(line)

\* what is handed is a recorded key with the right eon number, activation block, keyper-set index
\* and key bytes, through a mechanism the flavour has enabled
C20_Fields(g, line) ==
    \A j \in DOMAIN line.calls :
        LET c == line.calls[j]
            e == IdOfNum(c.num)
        IN /\ e \in g.owed
           /\ c.act = EonTab[e].act
           /\ c.cfg = CfgOf(e).idx
           /\ c.key = KeyOf(e)
           /\ c.wf
           /\ c.m \in Allowed(line.mode)
           /\ line.k = "tick"

\* at most once per mechanism, over the whole history
C20_Once(g, line) ==
    /\ \A i, j \in DOMAIN line.calls :
          (i # j /\ line.calls[i].m = line.calls[j].m) => line.calls[i].num # line.calls[j].num
    /\ \A j \in DOMAIN line.calls : <<line.calls[j].m, IdOfNum(line.calls[j].num)>> \notin g.done

C20_NoPanic(g, line) == line.panic = ""

Failed(g, line) ==
    (IF C20_Handed(g, line) THEN {} ELSE {"C20_Handed"}) \cup
    (IF C20_Kept(g, line) THEN {} ELSE {"C20_Kept"}) \cup
    (IF C20_Fields(g, line) THEN {} ELSE {"C20_Fields"}) \cup
    (IF C20_Once(g, line) THEN {} ELSE {"C20_Once"}) \cup
    (IF C20_NoPanic(g, line) THEN {} ELSE {"C20_NoPanic"})
=============================================================================
