----------------------------- MODULE HttpGateHist -----------------------------
(***************************************************************************)
(* C18 -- request HISTORIES on one server instance.                        *)
(* hist = the requests served so far by this instance (at most HistDepth), *)
(* hresp = their responses.  Code-shaped layer: the pipeline is stateless  *)
(* (HttpGate: every stage works on the per-request record rq; the          *)
(* middleware re-loads the document and looks the operation up for every   *)
(* request), so serving a request neither reads nor writes anything that   *)
(* outlives it: MwState = "none".                                          *)
(* Named alternative (NOT the code) MwState = "pathcache": the middleware  *)
(* remembers the result of findOperation in a map keyed by r.URL.Path      *)
(* only -- TLC then finds HDetInv / HLiveInv / HGateInv violated on the    *)
(* "gate" stack after a request with another method on the same path       *)
(* (and not on the "server" stack, where the validator only lets declared  *)
(* method/path pairs through).                                             *)
(* TLC enumerates every sequence of HistDepth requests over                *)
(*   Methods x Templates x HistSpellings (x Accept absent / JSON)          *)
(* for both settings and every stack, checks that every response obeys     *)
(* the gate and is the response the request gets alone, and prints the     *)
(* histories that the harness sends to ONE real router instance each.      *)
(***************************************************************************)
EXTENDS HttpGateProps, Json, SequencesExt

CONSTANTS HistSpellings, HistDepth, HistHdrCross, MwState

VARIABLES hw, hstack, hist, hresp, cache
hvars == <<hw, hstack, hist, hresp, cache>>

HistHdrs == {DefaultHdr} \cup (IF HistHdrCross THEN {[DefaultHdr EXCEPT !.accept = "application/json"]} ELSE {})
HistReqs ==
    {r \in [m : Methods, t : TplNames, sps : {<<s>> : s \in HistSpellings}, h : HistHdrs] :
        ApplicableAll(BasePath(Tpl(r.t)), r.sps)}
PathOfReq(r) == SpellAll(BasePath(Tpl(r.t)), r.sps)

\* run the pipeline for one request on an instance whose middleware state is c
RECURSIVE RunH(_, _, _)
RunH(stage, rq, c) ==
    IF stage = "mw" /\ MwState = "pathcache"
    THEN LET key == rq.dec
             ress == IF key \in DOMAIN c THEN {c[key]} ELSE FindOperationResults(rq)
         IN UNION { LET x == MwDecide(rq, o)
                        c2 == IF key \in DOMAIN c THEN c ELSE c @@ (key :> o)
                    IN IF x.next = "done" THEN {[r |-> x.r, cache |-> c2]} ELSE RunH(x.next, x.rq, c2)
                  : o \in ress }
    ELSE UNION { IF x.next = "done" THEN {[r |-> x.r, cache |-> c]} ELSE RunH(x.next, x.rq, c)
               : x \in Step(stage, rq) }

HInit ==
    /\ hw \in BOOLEAN
    /\ hstack \in Stacks
    /\ hist = <<>>
    /\ hresp = <<>>
    /\ cache = <<>>

HNext ==
    /\ Len(hist) < HistDepth
    /\ \E r \in HistReqs :
         \E x \in RunH("outer", MkRq(r.m, PathOfReq(r), hw, r.h, hstack, FALSE), cache) :
            /\ hist' = Append(hist, r)
            /\ hresp' = Append(hresp, x.r)
            /\ cache' = x.cache
    /\ UNCHANGED <<hw, hstack>>

HSpec == HInit /\ [][HNext]_hvars

HGateInv == \A i \in DOMAIN hresp : C18_Gate(hw, hresp[i].effect)
HLiveInv == \A i \in DOMAIN hresp : C18_Live(hist[i].m, hist[i].t, hist[i].sps, hresp[i].effect)
\* the decision does not depend on what the instance served before
HDetInv == \A i \in DOMAIN hresp : ServeReq(hist[i], hw, hstack, FALSE) = {hresp[i]}

HEmitInv ==
    Len(hist) = HistDepth =>
        PrintT(<<"HIST", ToJson([w |-> hw, stack |-> hstack,
                                 reqs |-> [i \in DOMAIN hist |->
                                            [m |-> hist[i].m, t |-> hist[i].t, sps |-> hist[i].sps, h |-> hist[i].h,
                                             target |-> Target(PathOfReq(hist[i]))]]])>>)
=============================================================================
