----------------------------- MODULE HttpGateHist -----------------------------
(***************************************************************************)
(* C18 -- request HISTORIES on one server instance.                        *)
(* hist = the requests served so far by this instance (at most HistDepth), *)
(* hresp = their responses.  Code-shaped layer: the pipeline is stateless  *)
(* (HttpGate: every stage works on the per-request record rq; the          *)
(* middleware re-loads the document and looks the operation up for every   *)
(* request), so serving a request neither reads nor writes anything that   *)
(* outlives it: MwState = "none".                                          *)
(* Named alternative (NOT the code) MwState = "pathcache": the middleware  *)
(* remembers the result of findOperation in a map keyed by r.URL.Path      *)
(* only -- TLC then finds HDetInv / HLiveInv / HGateInv violated on the    *)
(* "gate" stack after a request with another method on the same path       *)
(* (and not on the "server" stack, where the validator only lets declared  *)
(* method/path pairs through).                                             *)
(* TLC enumerates every sequence of HistDepth requests over                *)
(*   Methods x Templates x HistSpellings (x Accept absent / JSON)          *)
(* for both settings and every stack, checks that every response obeys     *)
(* the gate and is the response the request gets alone, and prints the     *)
(* histories that the harness sends to ONE real router instance each.      *)
(*                                                                         *)
(* BURST histories: before the requests, the instance went through an      *)
(* overload -- burst.n requests IN FLIGHT at once (held open by request    *)
(* bodies that do not arrive: the validator reads the body of an operation *)
(* that declares one, also in read-only mode), burst.k further requests    *)
(* while they are held, then all released.  Code-shaped layer: the router  *)
(* has no admission control and no counter of any kind (setupAPIRouter     *)
(* installs the validator, ConfigMiddleware and the handlers, nothing      *)
(* else), so an overload leaves nothing behind: LimiterMax = 0.  Named     *)
(* alternative (NOT the code) LimiterMax = L > 0: a load-shedding          *)
(* middleware whose in-flight counter is also incremented for the requests *)
(* it sheds and never decremented for them; after a burst with             *)
(* (n - L) + k >= L it answers 503 to everything for ever -- TLC then      *)
(* finds HLiveInv / HDetInv violated.  After a burst TLC enumerates the    *)
(* single-request domain Methods x Templates (documented spelling).        *)
(***************************************************************************)
EXTENDS HttpGateProps, Json, SequencesExt

CONSTANTS HistSpellings, HistDepth, HistHdrCross, MwState,
          BurstSizes,  \* numbers of requests held in flight at once ({} = no burst histories)
          BurstExtra,  \* further requests sent while they are held
          LimiterMax   \* 0 = the code (no limiter)

VARIABLES hw, hstack, hist, hresp, cache, burst
hvars == <<hw, hstack, hist, hresp, cache, burst>>

NoBurst == [n |-> 0, k |-> 0]
Bursts == {[n |-> n, k |-> BurstExtra] : n \in BurstSizes}
\* what the alternative limiter has leaked after burst b: the shed ones of the n, and the k sent meanwhile
Leaked(b) == IF LimiterMax > 0 /\ b.n > LimiterMax THEN (b.n - LimiterMax) + b.k ELSE 0
Saturated(b) == LimiterMax > 0 /\ Leaked(b) >= LimiterMax
\* the request that is held open (an operation with a request body) and the one sent meanwhile
HoldReq == LET o == CHOOSE x \in Range(EmbOps) : x.body # "none" IN
           [m |-> o.method, t |-> o.path, sps |-> <<"exact">>, h |-> DefaultHdr]
MeanwhileReq == LET o == CHOOSE x \in Range(EmbOps) : IsReadOnlyEndpoint(x) /\ x.params = <<>> IN
           [m |-> o.method, t |-> o.path, sps |-> <<"exact">>, h |-> DefaultHdr]
AfterBurstReqs == [m : Methods, t : TplNames, sps : {<<"exact">>}, h : {DefaultHdr}]

HistHdrs == {DefaultHdr} \cup (IF HistHdrCross THEN {[DefaultHdr EXCEPT !.accept = "application/json"]} ELSE {})
HistReqs ==
    {r \in [m : Methods, t : TplNames, sps : {<<s>> : s \in HistSpellings}, h : HistHdrs] :
        ApplicableAll(BasePath(Tpl(r.t)), r.sps)}
PathOfReq(r) == SpellAll(BasePath(Tpl(r.t)), r.sps)

\* run the pipeline for one request on an instance whose middleware state is c
RECURSIVE RunH(_, _, _)
RunH(stage, rq, c) ==
    IF stage = "validator" /\ Saturated(burst)
    THEN {[r |-> Resp(503, "None", "too_many_request", "limiter"), cache |-> c]}
    ELSE IF stage = "mw" /\ MwState = "pathcache"
    THEN LET key == rq.dec
             ress == IF key \in DOMAIN c THEN {c[key]} ELSE FindOperationResults(rq)
         IN UNION { LET x == MwDecide(rq, o)
                        c2 == IF key \in DOMAIN c THEN c ELSE c @@ (key :> o)
                    IN IF x.next = "done" THEN {[r |-> x.r, cache |-> c2]} ELSE RunH(x.next, x.rq, c2)
                  : o \in ress }
    ELSE UNION { IF x.next = "done" THEN {[r |-> x.r, cache |-> c]} ELSE RunH(x.next, x.rq, c)
               : x \in Step(stage, rq) }

HInit ==
    /\ hw \in BOOLEAN
    /\ hstack \in Stacks
    /\ burst \in {NoBurst} \cup (IF hstack = "server" THEN Bursts ELSE {})
    /\ hist = <<>>
    /\ hresp = <<>>
    /\ cache = <<>>

HNext ==
    /\ Len(hist) < (IF burst = NoBurst THEN HistDepth ELSE 1)
    /\ \E r \in (IF burst = NoBurst THEN HistReqs ELSE AfterBurstReqs) :
         \E x \in RunH("outer", MkRq(r.m, PathOfReq(r), hw, r.h, hstack, FALSE), cache) :
            /\ hist' = Append(hist, r)
            /\ hresp' = Append(hresp, x.r)
            /\ cache' = x.cache
    /\ UNCHANGED <<hw, hstack, burst>>

HSpec == HInit /\ [][HNext]_hvars

HGateInv == \A i \in DOMAIN hresp : C18_Gate(hw, hresp[i].effect)
HLiveInv == \A i \in DOMAIN hresp : C18_Live(hist[i].m, hist[i].t, hist[i].sps, hresp[i].effect)
\* the decision does not depend on what the instance served before
HDetInv == \A i \in DOMAIN hresp : ServeReq(hist[i], hw, hstack, FALSE) = {hresp[i]}

WithTargetH(r) == [m |-> r.m, t |-> r.t, sps |-> r.sps, h |-> r.h, target |-> Target(PathOfReq(r))]
HBurstEmitInv ==
    (burst # NoBurst /\ Len(hist) = 1) =>
        PrintT(<<"BURST", ToJson([w |-> hw, stack |-> hstack, n |-> burst.n, k |-> burst.k,
                                  hold |-> WithTargetH(HoldReq), meanwhile |-> WithTargetH(MeanwhileReq),
                                  req |-> WithTargetH(hist[1])])>>)

HEmitInv ==
    (burst = NoBurst /\ Len(hist) = HistDepth) =>
        PrintT(<<"HIST", ToJson([w |-> hw, stack |-> hstack,
                                 reqs |-> [i \in DOMAIN hist |->
                                            [m |-> hist[i].m, t |-> hist[i].t, sps |-> hist[i].sps, h |-> hist[i].h,
                                             target |-> Target(PathOfReq(hist[i]))]]])>>)
=============================================================================
