------------------------------ MODULE SMConst_one ------------------------------
(* mempool universe (C10, CheckTx): one keyper and one outsider, so that the per-sender
   per-block limit of ten mempool transactions is inside the exhaustive bound *)
cAddrs == {"a1", "a2"}
cKeyOrd == <<"v1", "none", "v9">>
cGenesis == [keypers |-> <<"a1">>, thr |-> 1, eon0 |-> 0,
             vals |-> [k \in {"v1", "none", "v9"} |-> IF k = "v9" THEN 10 ELSE 0],
             forkOn |-> FALSE, forkH |-> 0, dev |-> FALSE, legacy |-> FALSE]
cCands == << [keypers |-> <<"a1", "a2">>, thr |-> 1, act |-> 0, idx |-> 1] >>
cSeenBlocks == {1}
cCheckKeys == {"v1"}
cEons == {1}
=============================================================================
