----------------------------- MODULE PersistFile -----------------------------
(***************************************************************************)
(* C13, second sentence: "A crash at any point while the state file is     *)
(* being written leaves the previous file intact and loadable."            *)
(*                                                                         *)
(* Code-shaped model of app.PersistToDisk at system-call granularity:      *)
(*   Create   os.Create(path+".tmp")        (truncates an old temp file)   *)
(*   Write    gob encoder writes, chunk by chunk; a write may FAIL         *)
(*   Sync     file.Sync()                                                  *)
(*   Rename   os.Rename(tmp, path)          (atomic replace)               *)
(*   Close    deferred file.Close()                                        *)
(* and of the environment: Crash (the process dies between any two system  *)
(* calls; the files stay as they are) and Restart (LoadShutterAppFromFile  *)
(* reads ONLY the main path).                                              *)
(* Files are [v |-> version, len |-> chunks written]; a file is loadable   *)
(* iff len = L.  The property layer talks about what a Load returns.       *)
(***************************************************************************)
EXTENDS Integers, TLC

CONSTANTS L,        \* length of an encoding in chunks
          MaxV,     \* number of versions (= block heights) explored
          RetainRule \* what Commit answers as RetainHeight: "zero" (the repository: keep every block) |
                    \* "recent" (named alternative: keep one block below the current height)

VARIABLES main, tmp, pc, mem, lastOk, retain
vars == <<main, tmp, pc, mem, lastOk, retain>>

Absent == [v |-> -1, len |-> 0]
Loadable(f) == f.len = L /\ f.v >= 0

Init == /\ main = [v |-> 0, len |-> L]     \* a previous complete save exists
        /\ tmp = Absent
        /\ pc = "idle"
        /\ mem = 0                         \* version held in memory
        /\ lastOk = 0                      \* last version whose PersistToDisk returned nil
        /\ retain = 0                      \* highest RetainHeight a Commit has answered: Tendermint may
                                           \* prune every block below it

RetainOf(h) == IF RetainRule = "recent" /\ h > 1 THEN h - 1 ELSE 0
Max2(a, b) == IF a >= b THEN a ELSE b
(* Commit of block mem+1: the time gate of maybePersistToDisk either starts a save (Begin) or not (Block) *)
Begin   == pc = "idle" /\ mem < MaxV /\ mem' = mem + 1 /\ pc' = "create" /\ retain' = Max2(retain, RetainOf(mem + 1)) /\ UNCHANGED <<main, tmp, lastOk>>
Block   == pc = "idle" /\ mem < MaxV /\ mem' = mem + 1 /\ retain' = Max2(retain, RetainOf(mem + 1)) /\ UNCHANGED <<main, tmp, pc, lastOk>>
Create  == pc = "create" /\ tmp' = [v |-> mem, len |-> 0] /\ pc' = "write" /\ UNCHANGED <<main, mem, lastOk, retain>>
Write   == pc = "write" /\ tmp.len < L /\ tmp' = [tmp EXCEPT !.len = @ + 1] /\ UNCHANGED <<main, pc, mem, lastOk, retain>>
WriteFail == pc = "write" /\ tmp.len < L /\ pc' = "close" /\ UNCHANGED <<main, tmp, mem, lastOk, retain>>   \* Encode returns the error
Sync    == pc = "write" /\ tmp.len = L /\ pc' = "rename" /\ UNCHANGED <<main, tmp, mem, lastOk, retain>>
SyncFail == pc = "write" /\ tmp.len = L /\ pc' = "close" /\ UNCHANGED <<main, tmp, mem, lastOk, retain>>
Rename  == pc = "rename" /\ main' = tmp /\ tmp' = Absent /\ lastOk' = mem /\ pc' = "close" /\ UNCHANGED <<mem, retain>>
Close   == pc = "close" /\ pc' = "idle" /\ UNCHANGED <<main, tmp, mem, lastOk, retain>>
(* the process dies; on restart the application is whatever the main file holds, and Tendermint
   replays the blocks above that height: they must not have been pruned *)
Crash   == pc' = "idle" /\ mem' = main.v /\ UNCHANGED <<main, tmp, lastOk, retain>>

Next == Begin \/ Block \/ Create \/ Write \/ WriteFail \/ Sync \/ SyncFail \/ Rename \/ Close \/ Crash
Spec == Init /\ [][Next]_vars

(* property layer *)
C13_MainLoadable == Loadable(main)
C13_MainIsLastOk == main.v = lastOk          \* a failed or interrupted save leaves the previous file
C13_NeverAhead   == main.v <= mem \/ pc = "idle"
(* "replaying the blocks after the saved height": block main.v + 1 and everything above it is still in
   the block store, i.e. no Commit has asked Tendermint to prune beyond the saved height *)
C13_BlocksKept   == retain <= main.v + 1
=============================================================================
