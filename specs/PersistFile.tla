----------------------------- MODULE PersistFile -----------------------------
(***************************************************************************)
(* C13, second sentence: "A crash at any point while the state file is     *)
(* being written leaves the previous file intact and loadable."            *)
(*                                                                         *)
(* Code-shaped model of app.PersistToDisk at system-call granularity:      *)
(*   Create   os.Create(path+".tmp")        (truncates an old temp file)   *)
(*   Write    gob encoder writes, chunk by chunk; a write may FAIL         *)
(*   Sync     file.Sync()                                                  *)
(*   Rename   os.Rename(tmp, path)          (atomic replace)               *)
(*   Close    deferred file.Close()                                        *)
(* and of the environment: Crash (the process dies between any two system  *)
(* calls; the files stay as they are) and Restart (LoadShutterAppFromFile  *)
(* reads ONLY the main path).                                              *)
(* Files are [v |-> version, len |-> chunks written]; a file is loadable   *)
(* iff len = L.  The property layer talks about what a Load returns.       *)
(***************************************************************************)
EXTENDS Integers, TLC

CONSTANTS L,        \* length of an encoding in chunks
          MaxV      \* number of save attempts explored

VARIABLES main, tmp, pc, mem, lastOk
vars == <<main, tmp, pc, mem, lastOk>>

Absent == [v |-> -1, len |-> 0]
Loadable(f) == f.len = L /\ f.v >= 0

Init == /\ main = [v |-> 0, len |-> L]     \* a previous complete save exists
        /\ tmp = Absent
        /\ pc = "idle"
        /\ mem = 0                         \* version held in memory
        /\ lastOk = 0                      \* last version whose PersistToDisk returned nil

Begin   == pc = "idle" /\ mem < MaxV /\ mem' = mem + 1 /\ pc' = "create" /\ UNCHANGED <<main, tmp, lastOk>>
Create  == pc = "create" /\ tmp' = [v |-> mem, len |-> 0] /\ pc' = "write" /\ UNCHANGED <<main, mem, lastOk>>
Write   == pc = "write" /\ tmp.len < L /\ tmp' = [tmp EXCEPT !.len = @ + 1] /\ UNCHANGED <<main, pc, mem, lastOk>>
WriteFail == pc = "write" /\ tmp.len < L /\ pc' = "close" /\ UNCHANGED <<main, tmp, mem, lastOk>>   \* Encode returns the error
Sync    == pc = "write" /\ tmp.len = L /\ pc' = "rename" /\ UNCHANGED <<main, tmp, mem, lastOk>>
SyncFail == pc = "write" /\ tmp.len = L /\ pc' = "close" /\ UNCHANGED <<main, tmp, mem, lastOk>>
Rename  == pc = "rename" /\ main' = tmp /\ tmp' = Absent /\ lastOk' = mem /\ pc' = "close" /\ UNCHANGED mem
Close   == pc = "close" /\ pc' = "idle" /\ UNCHANGED <<main, tmp, mem, lastOk>>
(* the process dies; on restart the application is whatever the main file holds *)
Crash   == pc # "idle" /\ pc' = "idle" /\ mem' = main.v /\ UNCHANGED <<main, tmp, lastOk>>

Next == Begin \/ Create \/ Write \/ WriteFail \/ Sync \/ SyncFail \/ Rename \/ Close \/ Crash
Spec == Init /\ [][Next]_vars

(* property layer *)
C13_MainLoadable == Loadable(main)
C13_MainIsLastOk == main.v = lastOk          \* a failed or interrupted save leaves the previous file
C13_NeverAhead   == main.v <= mem \/ pc = "idle"
=============================================================================
