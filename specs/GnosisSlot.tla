------------------------------ MODULE GnosisSlot ------------------------------
(***************************************************************************)
(* Code-shaped layer for C19: the slot processing of the Gnosis keyper and *)
(* the transaction pointer.  One pure operator per function / statement of  *)
(*   keyperimpl/gnosis/newslot.go            maybeTriggerDecryption,        *)
(*                                           isProposerRegistered,          *)
(*                                           getTxPointer, triggerDecryption*)
(*                                           getDecryptionIdentityPreimages *)
(*                                           sortIdentityPreimages          *)
(*   keyperimpl/gnosis/handlers.go           DecryptionKeysHandler.Handle-  *)
(*                                           Message, DecryptionKeyShares-  *)
(*                                           Handler.HandleMessage          *)
(*   keyperimpl/gnosis/messagingmiddleware.go interceptDecryptionKeys,      *)
(*                                           interceptDecryptionKeyShares,  *)
(*                                           advanceTxPointer               *)
(*   keyperimpl/gnosis/keyper.go             Start: ResetAllTxPointerAges   *)
(*   database/sql/queries/gnosiskeyper.sql   the statements named below     *)
(*                                                                         *)
(* State of one keyper (its own database + the one in-memory field):       *)
(*   ptr[e]   row of tx_pointer for keyper config index e                  *)
(*            [row, value, age]; age = Null is SQL NULL ("infinite")       *)
(*   cur[e]   row of current_decryption_trigger [row, slot, ptr, ids,      *)
(*            signed]; ids stands for identities_hash (keccak of the       *)
(*            concatenated preimages: equal lists <=> equal hashes);       *)
(*            signed <=> slot_decryption_signatures holds a threshold of   *)
(*            signatures for exactly (e, slot, ptr, ids)                   *)
(*   latest   highest slot handed to maybeTriggerDecryption so far         *)
(*   fresh    the Keyper object is new (latestTriggeredSlot = nil)         *)
(* Synced state, equal for all keypers (written by the syncers, which are  *)
(* not part of this module):                                               *)
(*   q[e]     transaction_submitted_event rows of eon e in index order;    *)
(*            index = position-1; entry [r, g]: r = rank of the identity   *)
(*            preimage (prefix ++ sender) in byte order, g = gas class     *)
(*   active   keyper config index of the keyper set / eon of block+1       *)
(*   synced   transaction_submitted_events_synced_until.slot               *)
(*   block    ....block_number                                             *)
(***************************************************************************)
EXTENDS Integers, Sequences, FiniteSets, TLC

CONSTANTS
    NEons,      \* keyper config indices are 1..NEons
    GasLimit,   \* config.Gnosis.EncryptedGasLimit (abstract gas units)
    MinGas,     \* config.Gnosis.MinGasPerTransaction
    MaxAge,     \* config.Gnosis.MaxTxPointerAge
    Unreg,      \* slots whose proposer is not registered in the validator registry
    Ranks       \* Ranks[i] = byte-order rank of the identity preimage at queue position i of an eon
                \* (a repeated rank is the same identity submitted twice)

(* StaleKeys: what interceptDecryptionKeys does with a keys message (without Extra) whose
   identities are not the current trigger's.
     "drop"   the tree as it is now (repair out/fixes/C03-1.diff): dropped, like key shares
     "stamp"  the code as found: the message got the current trigger's slot, pointer and
              signatures and the pointer advanced by ITS key count
   (a definition, not a CONSTANT, so that modules extending this one need no new assignment) *)
StaleKeys == "drop"

Null   == -1      \* tx_pointer.age IS NULL
NoSlot == 0       \* latestTriggeredSlot = nil (slots are >= 1)
EonSet == 1..NEons

Min2(a, b) == IF a < b THEN a ELSE b
Max2(a, b) == IF a > b THEN a ELSE b

(* Gas values.  TLC integers are 32 bit and the gas_limit column is an int64 (the syncer admits
   every value that fits), so a gas value is a two-limb number  h * 2^62 + l  with a small l
   (|l| far below 2^62):  Low = MinGas, AtLimit = GasLimit, Above = GasLimit + 1 (all h = 0),
   Half = 2^62, Max1 = MaxInt64 - 1 = 2*2^62 - 2, Max = MaxInt64 = 2*2^62 - 1. *)
GasClasses == {"Low", "AtLimit", "Above", "Half", "Max1", "Max"}
Gas(h, l) == [h |-> h, l |-> l]
GasOf(g) == CASE g = "Low"     -> Gas(0, MinGas)
              [] g = "AtLimit" -> Gas(0, GasLimit)
              [] g = "Above"   -> Gas(0, GasLimit + 1)
              [] g = "Half"    -> Gas(1, 0)
              [] g = "Max1"    -> Gas(2, -2)
              [] g = "Max"     -> Gas(2, -1)
GasZero == Gas(0, 0)
(* mathematical sum and comparison with the (small) encrypted gas limit *)
GasAdd(a, b) == Gas(a.h + b.h, a.l + b.l)
GasExceeds(a, lim) == a.h > 0 \/ (a.h = 0 /\ a.l > lim)
(* newslot.go: gas += uint64(event.GasLimit) on a uint64: wraps at 2^64 = 4 * 2^62.  (A signed
   int64 sum would wrap at 2^63 already: Low + Max is negative and never "> limit".) *)
U64Add(a, b) == LET s == GasAdd(a, b) IN
                IF s.h > 4 \/ (s.h = 4 /\ s.l >= 0) THEN Gas(s.h - 4, s.l) ELSE s

----------------------------------------------------------------------------
(* identity preimages as tokens; IdLess is bytes.Compare(a, b) < 0 under the assumption the
   code states (makeSlotIdentityPreimage): a transaction identity (32 byte prefix ++ sender) is
   never below 32 zero bytes ++ 20 byte slot number.  Equal tokens are equal byte strings. *)
SlotId(s)   == [k |-> "slot", e |-> 0, r |-> s]
TxId(e, en) == [k |-> "tx", e |-> e, r |-> en.r]
IdLess(a, b) ==
    \/ a.k = "slot" /\ b.k = "tx"
    \/ a.k = b.k /\ (a.e < b.e \/ (a.e = b.e /\ a.r < b.r))

(* sortIdentityPreimages: sort.Slice with bytes.Compare (not stable; equal elements are
   indistinguishable, so the result is unique) *)
RECURSIVE InsertSorted(_, _, _)
InsertSorted(s, x, i) ==
    IF i > Len(s) THEN Append(s, x)
    ELSE IF IdLess(x, s[i]) THEN SubSeq(s, 1, i - 1) \o <<x>> \o SubSeq(s, i, Len(s))
    ELSE InsertSorted(s, x, i + 1)
RECURSIVE SortFrom(_, _, _)
SortFrom(s, i, acc) == IF i > Len(s) THEN acc ELSE SortFrom(s, i + 1, InsertSorted(acc, s[i], 1))
SortIds(s) == SortFrom(s, 1, <<>>)

----------------------------------------------------------------------------
NoPtr == [row |-> FALSE, value |-> 0, age |-> 0]
NoCur == [row |-> FALSE, slot |-> 0, ptr |-> 0, ids |-> <<>>, signed |-> FALSE]
PtrRow(v, a) == [row |-> TRUE, value |-> v, age |-> a]

KeyperInit == [ptr |-> [e \in EonSet |-> NoPtr], cur |-> [e \in EonSet |-> NoCur], latest |-> NoSlot, fresh |-> TRUE]

(* SELECT * FROM transaction_submitted_event WHERE eon = $1 AND index >= $2 AND index < $2 + $3
   ORDER BY index ASC LIMIT $3        (p >= 0) *)
GetTransactionSubmittedEvents(q, p, lim) == SubSeq(q, p + 1, Min2(Len(q), p + lim))

(* SELECT cast(coalesce(max(index) + 1, 0) AS bigint) ... WHERE eon = $1 *)
GetTransactionSubmittedEventCount(q) == Len(q)

(* UPDATE tx_pointer SET age = age + 1 WHERE eon = $1 RETURNING age   (NULL + 1 = NULL; no row: nothing) *)
IncrementTxPointerAge(row) == IF row.row /\ row.age # Null THEN [row EXCEPT !.age = @ + 1] ELSE row

(* newslot.go getTxPointer(ctx, db, eon, maxTxPointerAge): result [row (as left in the db), p] *)
GetTxPointer(row, q) ==
    IF ~row.row THEN [row |-> PtrRow(0, 0), p |-> 0]                     \* "initializing tx pointer"
    ELSE IF row.age = Null \/ row.age > MaxAge
         THEN [row |-> row, p |-> GetTransactionSubmittedEventCount(q)]  \* "outdated tx pointer"; not written back
         ELSE [row |-> row, p |-> row.value]

(* newslot.go getDecryptionIdentityPreimages: the loop over the events, acc = identityPreimages *)
RECURSIVE SelectLoop(_, _, _, _, _)
SelectLoop(e, evs, i, gas, acc) ==
    IF i > Len(evs) THEN acc
    ELSE LET g == U64Add(gas, GasOf(evs[i].g)) IN
         IF GasExceeds(g, GasLimit) /\ Len(acc) > 1 THEN acc              \* break
         ELSE SelectLoop(e, evs, i + 1, g, Append(acc, TxId(e, evs[i])))

GetDecryptionIdentityPreimages(q, s, e, p) ==
    LET limit == (GasLimit \div MinGas) + 1
        evs   == GetTransactionSubmittedEvents(q, p, limit)
    IN SortIds(SelectLoop(e, evs, 1, GasZero, <<SlotId(s)>>))

NoTrig == [block |-> 0, ids |-> <<>>]

(* newslot.go maybeTriggerDecryption + triggerDecryption for a keyper that is a member of the
   keyper set of block+1, with the eons table and the keyper set table naming the same config
   index for block+1 (env.active).  out: "nil" (returned nil, nothing sent), "err", "emit". *)
MaybeTriggerDecryption(st, env, s) ==
    LET codeLatest == IF st.fresh THEN NoSlot ELSE st.latest IN
    IF codeLatest # NoSlot /\ s <= codeLatest THEN [st |-> st, out |-> "nil", trig |-> NoTrig]
    ELSE
    LET st1 == [st EXCEPT !.latest = s, !.fresh = FALSE] IN
    IF env.synced >= s THEN [st |-> st1, out |-> "err", trig |-> NoTrig]     \* "block has already been processed"
    ELSE IF s \in Unreg THEN [st |-> st1, out |-> "nil", trig |-> NoTrig]    \* "proposer is not registered"
    ELSE
    LET e    == env.active
        row1 == IncrementTxPointerAge(st1.ptr[e])
        g    == GetTxPointer(row1, env.q[e])
        ids  == GetDecryptionIdentityPreimages(env.q[e], s, e, g.p)
        st2  == [st1 EXCEPT !.ptr[e] = g.row,
                            \* SetCurrentDecryptionTrigger (upsert); no signature can exist for a new slot
                            !.cur[e] = [row |-> TRUE, slot |-> s, ptr |-> g.p, ids |-> ids, signed |-> FALSE]]
    IN [st |-> st2, out |-> "emit", trig |-> [block |-> env.block + 1, ids |-> ids]]

(* The same call when ONE statement of the slot path fails with a database error (one-shot fault
   class f = the statement; every statement is its own autocommit transaction, so what was written
   before stays).  A fault on a statement the call does not reach has no effect.  Statements in
   call order: synced    GetTransactionSubmittedEventsSyncedUntil
               keyperset GetKeyperSet
               registered IsValidatorRegistered (also issued for an unregistered proposer)
               incr      IncrementTxPointerAge
               eon       GetEonForBlockNumber            (the age is already incremented)
               getptr    GetTxPointer
               initptr   SetTxPointer (no row yet)
               count     GetTransactionSubmittedEventCount (outdated pointer only)
               events    GetTransactionSubmittedEvents   (a missing row is already initialised)
               setcur    SetCurrentDecryptionTrigger
   latestTriggeredSlot is set right after the guard, so the failed slot is not tried again. *)
FaultClasses == {"synced", "keyperset", "registered", "incr", "eon", "getptr", "initptr", "count", "events", "setcur"}

MaybeTriggerDecryptionF(st, env, s, f) ==
    LET codeLatest == IF st.fresh THEN NoSlot ELSE st.latest
        Err(x) == [st |-> x, out |-> "err", trig |-> NoTrig]
    IN
    IF codeLatest # NoSlot /\ s <= codeLatest THEN [st |-> st, out |-> "nil", trig |-> NoTrig]
    ELSE
    LET st1 == [st EXCEPT !.latest = s, !.fresh = FALSE] IN
    IF f = "synced" THEN Err(st1)
    ELSE IF env.synced >= s THEN Err(st1)
    ELSE IF f \in {"keyperset", "registered"} THEN Err(st1)
    ELSE IF s \in Unreg THEN [st |-> st1, out |-> "nil", trig |-> NoTrig]
    ELSE IF f = "incr" THEN Err(st1)
    ELSE
    LET e    == env.active
        row1 == IncrementTxPointerAge(st1.ptr[e])
        st1a == [st1 EXCEPT !.ptr[e] = row1]
        g    == GetTxPointer(row1, env.q[e])
        st1b == [st1 EXCEPT !.ptr[e] = g.row]
        outdated == row1.row /\ (row1.age = Null \/ row1.age > MaxAge)
    IN
    IF f \in {"eon", "getptr"} THEN Err(st1a)
    ELSE IF f = "initptr" /\ ~row1.row THEN Err(st1a)
    ELSE IF f = "count" /\ outdated THEN Err(st1a)
    ELSE IF f \in {"events", "setcur"} THEN Err(st1b)
    ELSE MaybeTriggerDecryption(st, env, s)               \* the faulty statement is not reached

(* handlers.go DecryptionKeysHandler.HandleMessage for a validated keys message of eon e with
   pointer p and n keys: SetTxPointer(e, age 0, p+n-1); the signatures it carries are inserted
   (match: the message is for exactly this keyper's current trigger) *)
HandleDecryptionKeys(st, e, p, n, match) ==
    [st EXCEPT !.ptr[e] = PtrRow(p + n - 1, 0),
               !.cur[e].signed = @ \/ match]

(* own share sent through interceptDecryptionKeyShares + another keyper's share received by
   DecryptionKeySharesHandler (threshold 2) for the current trigger: signatures are stored; the
   handler returns no keys message because the decryption keys are not in the database *)
CollectSignatures(st, e) == IF st.cur[e].row THEN [st EXCEPT !.cur[e].signed = TRUE] ELSE st

(* messagingmiddleware.go interceptDecryptionKeys for a keys message without Extra (produced by
   the keyper core) with n keys; stale: its identities are not those of the current trigger (late
   keys of an earlier trigger); result [st, sent, p] *)
SendOwnKeys(st, e, n, stale) ==
    LET c == st.cur[e] IN
    IF ~c.row THEN [st |-> st, sent |-> FALSE, p |-> 0]                     \* "unknown decryption trigger"
    ELSE IF stale /\ StaleKeys = "drop" THEN [st |-> st, sent |-> FALSE, p |-> 0]   \* "unexpected identities hash"
    ELSE IF ~c.signed THEN [st |-> st, sent |-> FALSE, p |-> 0]             \* signature count not high enough
    ELSE [st |-> [st EXCEPT !.ptr[e] = PtrRow(c.ptr + n - 1, 0)],          \* advanceTxPointer
          sent |-> TRUE, p |-> c.ptr]

(* interceptDecryptionKeys for a keys message that already has Extra (returned by
   DecryptionKeySharesHandler.HandleMessage): advanceTxPointer *)
ForwardKeys(st, e, p, n) == [st EXCEPT !.ptr[e] = PtrRow(p + n - 1, 0)]

(* keyper.go Start: ResetAllTxPointerAges (UPDATE tx_pointer SET age = NULL), new Keyper object *)
Restart(st) ==
    [st EXCEPT !.ptr = [e \in EonSet |-> IF st.ptr[e].row THEN [st.ptr[e] EXCEPT !.age = Null] ELSE st.ptr[e]],
               !.fresh = TRUE]

----------------------------------------------------------------------------
(* synced state: one more block is synced and brings a transaction / belongs to the next slot /
   is the activation block of the next keyper set and eon *)
EnvGrow(env, e, entry) == [env EXCEPT !.q[e] = Append(@, entry), !.block = @ + 1]
EnvSyncSlot(env)       == [env EXCEPT !.synced = @ + 1, !.block = @ + 1]
EnvSwitchEon(env)      == [env EXCEPT !.active = @ + 1, !.block = @ + 1]

----------------------------------------------------------------------------
(* operations (shared by the model checking module and the trace module):
     slot    K, s        slot tick s (maybeTriggerDecryption); every slot is offered twice (new
                         block, slot ticker): a tick for the slot just handled is allowed
     slotf   K, s, g     the same with a one-shot database error on statement class g
     in      K, e, p, n  a valid DecryptionKeys message of eon e, pointer p, n keys is received
                         (m: it is the message for the keyper's own current trigger, p and n are
                         taken from it)
     out     K, e, n, m  the keyper core hands a keys message without Extra to the middleware
                         (n = 0: the keys of the current trigger's identities; n > 0: n keys
                         of OTHER identities, a late message of an earlier trigger; m: a
                         threshold of signatures for the current trigger is collected before)
     fwd     K, e, p, n  key shares are received that complete a keys message
                         (DecryptionKeySharesHandler returns it with Extra)
     restart K           ResetAllTxPointerAges + new Keyper object
     grow    e, g        a transaction with gas class g is synced
     sync                a block of the next slot is synced
     eon                 the next keyper set / eon becomes active
   K is the sequence of keypers the operation is applied to. *)
Op0 == [op |-> "", K |-> <<>>, e |-> 0, s |-> 0, p |-> 0, n |-> 0, m |-> FALSE, g |-> ""]

NoMsg == [ok |-> FALSE, p |-> 0, n |-> 0]
Idle  == [out |-> "idle", trig |-> NoTrig, msg |-> NoMsg]

Entry(q, g) == [r |-> Ranks[Len(q) + 1], g |-> g]

(* result of an operation on ONE keyper: [st, r], r = [out, trig, msg] *)
KeyperStep(st, en, o) ==
    CASE o.op = "slot" ->
           LET x == MaybeTriggerDecryption(st, en, o.s) IN
           [st |-> x.st, r |-> [out |-> x.out, trig |-> x.trig, msg |-> NoMsg]]
      [] o.op = "slotf" ->                                  \* slot tick with the one-shot fault o.g
           LET x == MaybeTriggerDecryptionF(st, en, o.s, o.g) IN
           [st |-> x.st, r |-> [out |-> x.out, trig |-> x.trig, msg |-> NoMsg]]
      [] o.op = "in" ->
           LET c == st.cur[o.e]
               p == IF o.m THEN c.ptr ELSE o.p
               n == IF o.m THEN Len(c.ids) ELSE o.n
           IN [st |-> HandleDecryptionKeys(st, o.e, p, n, o.m),
               r |-> [out |-> "keys", trig |-> NoTrig, msg |-> [ok |-> TRUE, p |-> p, n |-> n]]]
      [] o.op = "out" ->
           LET st1 == IF o.m THEN CollectSignatures(st, o.e) ELSE st
               n == IF o.n = 0 THEN (IF st1.cur[o.e].row THEN Len(st1.cur[o.e].ids) ELSE 1) ELSE o.n
               x == SendOwnKeys(st1, o.e, n, o.n # 0)
           IN [st |-> x.st, r |-> [out |-> "keys", trig |-> NoTrig,
                                   msg |-> IF x.sent THEN [ok |-> TRUE, p |-> x.p, n |-> n] ELSE NoMsg]]
      [] o.op = "fwd" ->
           [st |-> ForwardKeys(st, o.e, o.p, o.n),
            r |-> [out |-> "keys", trig |-> NoTrig, msg |-> [ok |-> TRUE, p |-> o.p, n |-> o.n]]]
      [] o.op = "restart" ->
           [st |-> Restart(st), r |-> [out |-> "restart", trig |-> NoTrig, msg |-> NoMsg]]

EnvStep(en, o) ==
    CASE o.op = "grow" -> EnvGrow(en, o.e, Entry(en.q[o.e], o.g))
      [] o.op = "sync" -> EnvSyncSlot(en)
      [] o.op = "eon"  -> EnvSwitchEon(en)
      [] OTHER -> en

InSet(K) == {K[i] : i \in DOMAIN K}

=============================================================================
