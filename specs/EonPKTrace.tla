------------------------------ MODULE EonPKTrace ------------------------------
(***************************************************************************)
(* C20 -- trace layer.  One ndjson line per step executed on the REAL      *)
(* handler (keyper.eonPubKeyHandler built by the real option functions,    *)
(* queryAndHandleNewEonPubKeys over the repository's sqlc queries and a    *)
(* PostgreSQL wire-protocol fake; insertions through the repository's      *)
(* InsertEonPublicKey or through smobserver's finalizeDKG):                *)
(*   {k, mode, e, ord, q, fail, res, pre, calls, err, post, panic}         *)
(* A "new" line starts a history.                                          *)
(*   pass A  viol : <<line, monitor>> for every monitor of EonPKProps that *)
(*                  is false on the observed step                          *)
(*   pass B  drift: lines whose observed result is not the one the         *)
(*                  code-shaped spec gives for the observed pre-state and  *)
(*                  inputs, or whose pre-state is not the previous post    *)
(***************************************************************************)
EXTENDS EonPKProps, Json, TLC, SequencesExt

CONSTANT TraceFile
Trace == ndJsonDeserialize(TraceFile)

VARIABLES l, stack, viol, drift
tvars == <<l, stack, viol, drift>>

\* stack: one [g, cur] per executed step of the current history (the trace is a depth-first walk
\* of the prefix tree of the histories; a "pop" line returns to the node at depth d, where the
\* harness restored the database snapshot taken there)

SpecAllows(line, cur) ==
    CASE line.k = "new" ->
            /\ line.res = (IF ValidateOptions(Eff(line.mode)) THEN "ok" ELSE "invalid")
            /\ line.mode.bc = Eff(line.mode).bc /\ line.mode.cb = Eff(line.mode).cb
            /\ line.pre = <<>> /\ line.post = <<>> /\ line.calls = <<>>
      [] line.k = "ins" ->
            /\ line.pre = cur
            /\ line.e \in EonIds
            /\ line.res = "ok"
            /\ line.post = FinalizeDKGSuccess(line.pre, line.e)
            /\ line.calls = <<>>
      [] line.k = "tick" ->
            /\ line.pre = cur
            /\ \A j \in DOMAIN line.pre : line.pre[j].e \in EonIds
            /\ IsPerm(line.ord, Len(line.pre))
            /\ LET t == Tick(line.pre, line.ord, line.q, line.fail, Eff(line.mode)) IN
               t.rows = line.post /\ t.calls = line.calls /\ t.err = line.err
      [] OTHER -> FALSE

TInit == l = 1 /\ stack = <<>> /\ viol = {} /\ drift = {}

TNext ==
    /\ l <= Len(Trace)
    /\ l' = l + 1
    /\ LET line == Trace[l] IN
       CASE line.k = "pop" ->
              /\ stack' = SubSeq(stack, 1, line.d + 1)
              /\ UNCHANGED <<viol, drift>>
         [] line.k = "new" ->
              /\ viol' = viol \cup {<<l, m>> : m \in Failed(GhostInit, line)}
              /\ drift' = drift \cup (IF line.panic = "" /\ SpecAllows(line, <<>>) THEN {} ELSE {l})
              /\ stack' = <<[g |-> GhostNext(GhostInit, line), cur |-> line.post]>>
         [] OTHER ->
              LET top == stack[Len(stack)] IN
              /\ viol' = viol \cup {<<l, m>> : m \in Failed(top.g, line)}
              /\ drift' = drift \cup (IF line.panic = "" /\ SpecAllows(line, top.cur) THEN {} ELSE {l})
              /\ stack' = Append(stack, [g |-> GhostNext(top.g, line), cur |-> line.post])

TSpec == TInit /\ [][TNext]_tvars

Done == l <= Len(Trace) \/
        PrintT(<<"RESULT", ToJson([lines |-> Len(Trace), viol |-> SetToSeq(viol), drift |-> SetToSeq(drift)])>>)
=============================================================================
