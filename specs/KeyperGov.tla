------------------------------ MODULE KeyperGov ------------------------------
(***************************************************************************)
(* Code-shaped specification of the KEYPER side of keyper-set governance   *)
(* (rolling-shutter/keyper/keyper.go operateShuttermint loop body),        *)
(* composed with the shuttermint application of Shuttermint.tla (EXTENDED, *)
(* not copied: DeliverTx / CheckTx / EndBlock / Commit are the operators   *)
(* of that module).                                                        *)
(*                                                                         *)
(* One operator per function / critical section of the Go code:            *)
(*   Observe         chain observer: InsertKeyperSet .. ON CONFLICT DO     *)
(*                   NOTHING (rows of table keyper_set, key = index)       *)
(*   ApplyCfgEvent   smobserver handleBatchConfig: InsertBatchConfig +     *)
(*                   DeleteShutterMessageByDesc("new batch config (activa- *)
(*                   tion-block-number=A, config-index=I)") -- the         *)
(*                   description names ONLY activation block and index     *)
(*   SyncApp         smobserver.SyncAppWithDB: blocks synced+1 .. h-Lag,   *)
(*                   one transaction per block                             *)
(*   ValidSet        validateBatchConfig                                   *)
(*   HandleSets      handleOnChainKeyperSetChanges                         *)
(*   SendSeen        sendNewBlockSeen                                      *)
(*   HandleOnChain   handleOnChainChanges (one DB transaction)             *)
(*   SendLoop        fx.SendShutterMessages + RPCMessageSender.SendMessage *)
(*                   against the app (CheckTx, DeliverTx into the open     *)
(*                   block); isRetrieable is constant TRUE, so an Error    *)
(*                   answer keeps the message at the HEAD of the outbox    *)
(*                   and ends the loop (head-of-line blocking)             *)
(*   Iter            one loop iteration                                    *)
(*                                                                         *)
(* Keyper database, projected (JSON-shaped):                               *)
(*   synced   tendermint_sync_meta.current_block                           *)
(*   bcs      tendermint_batch_config rows as bare configs, by index       *)
(*   marker   last_batch_config_sent.keyper_config_index                   *)
(*   lastSeen last_block_seen.block_number (schema default -1)             *)
(*   sets     keyper_set rows (bare configs), by index                     *)
(*   outbox   tendermint_outgoing_messages in id order, governance         *)
(*            messages only (BatchConfig votes, BlockSeen); check-in and   *)
(*            DKG messages are not modelled: in honest runs shuttermint    *)
(*            never answers them with an error, so they never block        *)
(*                                                                         *)
(* Abstractions of the composition (stated, not hidden): nonces are random *)
(* 64-bit numbers in the code, so the nonce registers of the app record    *)
(* are erased after every call (a fresh nonce is never refused); the       *)
(* per-block CheckTx counters are erased too (no keyper sends more than    *)
(* MaxTxsPerBlock messages into one block).                                *)
(*                                                                         *)
(* What the code DOES where the comments say otherwise: the comment in     *)
(* handleOnChainKeyperSetChanges says a missed activation block means the  *)
(* config is never submitted; the condition submits it whenever            *)
(* blockNumber >= activation (NotYet is false).                            *)
(***************************************************************************)
EXTENDS Shuttermint

CONSTANTS
    Delta,      \* config.Shuttermint.DKGStartBlockDelta
    Lag         \* blocks the driver stays behind the head (real node: 2; fake node: 0)

BudgetAll == 99

KpInit == [synced |-> 0, bcs |-> <<>>, marker |-> 0, lastSeen |-> -1, sets |-> <<>>, outbox |-> <<>>]

VoteMsg(c) == [k |-> "vote", cfg |-> Bare(c), b |-> 0]
SeenMsg(b) == [k |-> "seen", cfg |-> NoCfg, b |-> b]

HasIdx(q, i) == \E j \in DOMAIN q : q[j].idx = i
SortByIdx(S) == SetToSortSeq(S, LAMBDA x, y : x.idx < y.idx)

----------------------------------------------------------------------------
(* chain observer: the rows the syncer has written when the loop runs *)
Observe(kp, gsets) ==
    LET add == {s \in ToSet(gsets) : ~HasIdx(kp.sets, s.idx)}
    IN [kp EXCEPT !.sets = SortByIdx(ToSet(kp.sets) \cup add)]

----------------------------------------------------------------------------
(* smobserver *)

ApplyCfgEvent(kp, c) ==
    [kp EXCEPT !.bcs = Append(@, c),
               !.outbox = SelectSeq(@, LAMBDA m : ~(m.k = "vote" /\ m.cfg.act = c.act /\ m.cfg.idx = c.idx))]

RECURSIVE ApplyEvents(_, _)
ApplyEvents(kp, evs) == IF evs = <<>> THEN kp ELSE ApplyEvents(ApplyCfgEvent(kp, Head(evs)), Tail(evs))

(* chainEv[h] = bare configs of the BatchConfig events of block h, in emission order *)
RECURSIVE SyncBlocks(_, _, _)
SyncBlocks(kp, chainEv, upto) ==
    IF kp.synced >= upto THEN kp
    ELSE SyncBlocks([ApplyEvents(kp, chainEv[kp.synced + 1]) EXCEPT !.synced = kp.synced + 1], chainEv, upto)

SyncApp(kp, chainEv) == SyncBlocks(kp, chainEv, Len(chainEv) - Lag)

----------------------------------------------------------------------------
(* keyper.go *)

(* GetLatestBatchConfig: ORDER BY keyper_config_index DESC LIMIT 1 *)
Latest(kp) == CHOOSE c \in ToSet(kp.bcs) : \A d \in ToSet(kp.bcs) : d.idx <= c.idx

(* validateBatchConfig *)
ValidSet(latest, s) ==
    /\ Len(s.keypers) > 0
    /\ s.thr > 0
    /\ s.thr <= Len(s.keypers)
    /\ NoDup(s.keypers)
    /\ s.act >= latest.act
    /\ s.idx > latest.idx

NotYet(s, b) == b < s.act /\ s.act - b > Delta

(* handleOnChainKeyperSetChanges *)
HandleSets(kp, b) ==
    IF kp.bcs = <<>> THEN kp
    ELSE
      LET latest == Latest(kp)
          next   == IF kp.marker > latest.idx THEN kp.marker ELSE latest.idx
      IN IF ~HasIdx(kp.sets, next + 1) THEN kp
         ELSE
           LET s == CHOOSE x \in ToSet(kp.sets) : x.idx = next + 1 IN
           IF ~ValidSet(latest, s) THEN [kp EXCEPT !.marker = s.idx]
           ELSE IF NotYet(s, b) THEN kp
           ELSE [kp EXCEPT !.marker = s.idx, !.outbox = Append(@, VoteMsg(s))]

(* sendNewBlockSeen; CountBatchConfigsInBlockRangeWithKeyper: start <= act AND act < end *)
SeenCount(kp, me, b) ==
    Cardinality({i \in DOMAIN kp.bcs : IsMember(kp.bcs[i], me) /\ kp.lastSeen <= kp.bcs[i].act /\ kp.bcs[i].act < b})

SendSeen(kp, me, b) ==
    IF SeenCount(kp, me, b) = 0 THEN kp
    ELSE [kp EXCEPT !.outbox = Append(@, SeenMsg(b)), !.lastSeen = b]

(* handleOnChainChanges, one transaction *)
HandleOnChain(kp, me, b) == SendSeen(HandleSets(kp, b), me, b)

----------------------------------------------------------------------------
(* fx.SendShutterMessages against the application *)

GovTx(me, m) ==
    [k |-> m.k, s |-> me, n |-> 0,
     bad |-> IF m.k = "vote" /\ ~NoDup(m.cfg.keypers) THEN "dupAddr" ELSE "",
     cfg |-> m.cfg, b |-> m.b, eon |-> 0, ok |-> FALSE, key |-> NoKey, to |-> <<>>, gm |-> 0]

Erase(s) == [s EXCEPT !.nonces = InitState.nonces, !.ctCounts = InitState.ctCounts, !.ctNonces = InitState.ctNonces]

One(S) == CHOOSE x \in S : TRUE

(* class of the error text deliverBatchConfig answers with, in the order of its checks *)
VoteWhy(s, tx) ==
    LET c == tx.cfg last == LastCfg(s) IN
    IF tx.k # "vote" THEN ""
    ELSE IF tx.bad # "" THEN "malformed"
    ELSE IF ~EnsureValid(c) THEN "invalid"
    ELSE IF c.act < last.act THEN "act"
    ELSE IF c.idx <= last.idx THEN "idx"
    ELSE IF ~IsMember(last, tx.s) THEN "notallowed"
    ELSE IF s.vvotes[tx.s] # 0 THEN "voted"
    ELSE ""

Ans(m, res, why) == [m |-> m, res |-> res, why |-> why]

CfgOfEvent(e) == [keypers |-> e.l, thr |-> e.y, act |-> e.x, idx |-> e.z]
CfgsOf(events) ==
    LET q == SelectSeq(events, LAMBDA e : e.type = "BatchConfig")
    IN [i \in DOMAIN q |-> CfgOfEvent(q[i])]

AppStep(kind, tx, pre, code, events, updates, post) ==
    [kind |-> kind, tx |-> tx, pre |-> pre, code |-> code, events |-> events, updates |-> updates, post |-> post]

SendRes(ob, a) == [outbox |-> ob, app |-> a.app, sent |-> a.sent, steps |-> a.steps, evs |-> a.evs, ok |-> a.ok]
SendAcc(app) == [app |-> app, sent |-> <<>>, steps |-> <<>>, evs |-> <<>>, ok |-> 0]

(* budget: number of messages the node puts into the open block before BroadcastTxCommit
   times out; crash: the reply to the first accepted broadcast is lost (the process dies
   between the broadcast and the outbox delete) *)
RECURSIVE SendLoop(_, _, _, _, _)
SendLoop(me, ob, budget, crash, a) ==
    IF ob = <<>> THEN SendRes(ob, a)
    ELSE
      LET m == Head(ob) tx == GovTx(me, m) IN
      IF budget = 0 THEN SendRes(ob, [a EXCEPT !.sent = Append(@, Ans(m, "timeout", ""))])
      ELSE
        LET chk == CheckTx(a.app, tx)
            chkStep == AppStep("chk", tx, a.app, chk.code, <<>>, <<>>, chk.st)
        IN IF chk.code # 0
           THEN SendRes(ob, [a EXCEPT !.sent = Append(@, Ans(m, "chk", "")), !.steps = Append(@, chkStep)])
           ELSE
             LET r == One(DeliverTx(chk.st, tx))
                 txStep == AppStep("tx", tx, chk.st, r.code, r.events, <<>>, r.st)
                 a2 == [a EXCEPT !.app = Erase(r.st), !.steps = @ \o <<chkStep, txStep>>,
                                 !.evs = @ \o CfgsOf(r.events),
                                 !.ok = @ + (IF r.code = CodeOk THEN 1 ELSE 0)]
             IN IF crash THEN SendRes(ob, [a2 EXCEPT !.sent = Append(@, Ans(m, "lost", ""))])
                ELSE IF r.code = CodeError
                     THEN SendRes(ob, [a2 EXCEPT !.sent = Append(@, Ans(m, "err", VoteWhy(chk.st, tx)))])
                ELSE SendLoop(me, Tail(ob), budget - 1, FALSE,
                              [a2 EXCEPT !.sent = Append(@, Ans(m, IF r.code = CodeOk THEN "ok" ELSE "seen", ""))])

----------------------------------------------------------------------------
(* ground truth about the chain, as anybody can read it from the block results *)
RECURSIVE AccFrom(_, _)
AccFrom(chainEv, h) ==
    IF h > Len(chainEv) THEN <<>>
    ELSE [i \in DOMAIN chainEv[h] |-> [cfg |-> chainEv[h][i], h |-> h]] \o AccFrom(chainEv, h + 1)
AccOf(chainEv) == AccFrom(chainEv, 1)

(* one iteration of the operateShuttermint loop with syncBlockNumber = b *)
Iter(kp, me, b, app, chainEv, gsets, budget, crash) ==
    LET s1 == SyncApp(Observe(kp, gsets), chainEv)
        s2 == HandleOnChain(s1, me, b)
        r  == SendLoop(me, s2.outbox, budget, crash, SendAcc(app))
        s3 == [s2 EXCEPT !.outbox = r.outbox]
    IN [kp |-> s3, app |-> r.app, evs |-> r.evs, ok |-> r.ok, steps |-> r.steps,
        ln |-> [k |-> "iter", a |-> me, b |-> b, budget |-> budget, crash |-> crash,
                pre |-> kp, s1 |-> s1, s2 |-> s2, s3 |-> s3, sent |-> r.sent,
                acc |-> AccOf(chainEv), h |-> Len(chainEv), gsets |-> gsets]]

(* closing the open block: EndBlock + Commit *)
CloseBlock(app) ==
    LET x == EndBlock(app, app.height + 1)
    IN [app |-> Erase(Commit(x.st)),
        step |-> AppStep("end", [k |-> "none", s |-> NoAddr], app, 0, x.events, x.updates, Commit(x.st)),
        started |-> [i \in DOMAIN x.events |-> x.events[i].x]]

=============================================================================
