-------------------------- MODULE ServiceTriggerMC --------------------------
(***************************************************************************)
(* Exhaustive exploration of ServiceTrigger for a set of universes and     *)
(* generation of the behaviours that harness/service replays on the real   *)
(* shutterservice.Keyper.  The state space of one universe is finite by    *)
(* itself (no depth bound): latest block time, sync position, per-slot     *)
(* registered/fired/decrypted flags, the eon tables.                       *)
(* hist = <<universe index, op index, op index, ...>> is hidden from the   *)
(* VIEW: TLC prints ("B") the first history reaching each distinct state   *)
(* (a spanning tree of the state graph) and hist.op for EVERY block        *)
(* transition: "E" if it emits a trigger, "N" if not (both thinned).       *)
(*                                                                         *)
(* Universes: the entries DesignedIdx of Designed (hand-written boundary   *)
(* scenarios) plus UniAt(k) for k in UniIdx, a mixed-radix                 *)
(* decoding of k over the full domain                                      *)
(*   MemberOpts x ActOpts x (Sets x TsOpts)^NI x (Sets x ExpOpts x LogOpts)^NT *)
(* so that the harness only chooses numbers (seeded), never scenarios.     *)
(***************************************************************************)
EXTENDS ServiceTrigger, Json

CONSTANTS Times, BlockNums,                   \* block timestamps / block numbers delivered
          TsOpts, ExpOpts, LogOpts,           \* registration timestamps, expiry blocks, log blocks (may contain Nil)
          MemberOpts, ActOpts,                \* sequences of <<_, _>> pairs
          UniIdx, DesignedIdx, PickOne,       \* sequences of naturals: seeded universe numbers; which designed universes
          UseNI, UseNT, MaxGen,               \* slots used / generations allowed in seeded and in designed universes 1..5
          Emit, EMod, EPhase, NMod, NPhase

VARIABLES ui, st, gh, out, last, hist
vars == <<ui, st, gh, out, last, hist>>

IdOpts == SetToSortSeq({[set |-> s, ts |-> t] : s \in Sets, t \in TsOpts},
                       LAMBDA a, b : a.set < b.set \/ (a.set = b.set /\ a.ts < b.ts))
TrOpts == SetToSortSeq({[set |-> s, exp |-> e, log |-> g] : s \in Sets, e \in ExpOpts, g \in LogOpts},
                       LAMBDA a, b : a.set < b.set \/ (a.set = b.set /\ (a.exp < b.exp \/ (a.exp = b.exp /\ a.log < b.log))))

NoId == [set |-> 0, ts |-> 0]
NoTrg == [set |-> 0, exp |-> 0, log |-> Nil]
Radices == <<Len(MemberOpts), Len(ActOpts)>> \o [i \in 1..UseNI |-> Len(IdOpts)] \o [j \in 1..UseNT |-> Len(TrOpts)]
RECURSIVE ProdUpTo(_)
ProdUpTo(p) == IF p = 0 THEN 1 ELSE Radices[p] * ProdUpTo(p - 1)
UniCount == ProdUpTo(Len(Radices))
Digit(k, p) == ((k % UniCount) \div ProdUpTo(p - 1)) % Radices[p]
NoHttp(d) == [member |-> d.member, act |-> d.act, gen |-> d.gen, ids |-> d.ids, trg |-> d.trg,
              http |-> FALSE, ro |-> "absent", wd |-> WriteEnabledByDefault]
UniAt(k) == NoHttp([member |-> MemberOpts[Digit(k, 1) + 1], act |-> ActOpts[Digit(k, 2) + 1], gen |-> MaxGen,
             ids |-> [i \in 1..NI |-> IF i <= UseNI THEN IdOpts[Digit(k, 2 + i) + 1] ELSE NoId],
             trg |-> [j \in 1..NT |-> IF j <= UseNT THEN TrOpts[Digit(k, 2 + UseNI + j) + 1] ELSE NoTrg]])

(* hand-written scenarios (3 identities, 2 triggers; truncated to UseNI / UseNT):
   1  ts order opposite to byte order inside set 1, second set active later; one log one block after
      expiry (must not fire), one log exactly at the expiry block (fires)
   2  not a member of set 2; two identities with equal timestamps; log before expiry / at the last block
   3  not a member of set 1; timestamps at both ends of the time domain; two triggers of one set, the
      first with a log two blocks after expiry
   4  identities of both sets interleaved; a log after expiry inside a range that starts before expiry;
      a trigger whose log never happens *)
Designed == <<
  [member |-> <<TRUE, TRUE>>, act |-> <<1, 2>>,
   ids |-> <<[set |-> 1, ts |-> 2], [set |-> 1, ts |-> 1], [set |-> 2, ts |-> 2]>>,
   trg |-> <<[set |-> 2, exp |-> 1, log |-> 2], [set |-> 1, exp |-> 2, log |-> 2]>>],
  [member |-> <<TRUE, FALSE>>, act |-> <<1, 2>>,
   ids |-> <<[set |-> 2, ts |-> 1], [set |-> 1, ts |-> 3], [set |-> 1, ts |-> 3]>>,
   trg |-> <<[set |-> 1, exp |-> 2, log |-> 1], [set |-> 2, exp |-> 3, log |-> 3]>>],
  [member |-> <<FALSE, TRUE>>, act |-> <<1, 2>>,
   ids |-> <<[set |-> 2, ts |-> 0], [set |-> 2, ts |-> 4], [set |-> 1, ts |-> 2]>>,
   trg |-> <<[set |-> 2, exp |-> 1, log |-> 3], [set |-> 2, exp |-> 2, log |-> 2]>>],
  [member |-> <<TRUE, TRUE>>, act |-> <<1, 2>>,
   ids |-> <<[set |-> 1, ts |-> 3], [set |-> 2, ts |-> 1], [set |-> 1, ts |-> 1]>>,
   trg |-> <<[set |-> 1, exp |-> 1, log |-> 3], [set |-> 1, exp |-> 2, log |-> Nil]>>],
  (* 5: extension - both keyper sets activate at the same block *)
  [member |-> <<TRUE, TRUE>>, act |-> <<1, 1>>,
   ids |-> <<[set |-> 1, ts |-> 1], [set |-> 2, ts |-> 1], [set |-> 1, ts |-> 2]>>,
   trg |-> <<[set |-> 1, exp |-> 2, log |-> 1], [set |-> 2, exp |-> 2, log |-> 2]>>] >>

(* targeted scenarios, used as they are (4 identity slots, 2 trigger slots):
   1  fired triggers of BOTH keyper sets pending in the same block, member of both: each emitted
      trigger must carry the identities of its own set only
   2  the same, but this keyper is not in set 2
   3  four identities of ONE set with equal timestamps (the query order among them is unspecified:
      the driver permutes it) - sorting of 3 and 4 identities from every arrival order
   4  four identities of one set whose timestamp order is (largest, smallest, third, second)
   5  HTTP API enabled by a config file that does not mention HTTPReadOnly: POST /v1/decryptionTrigger
      for identities that are due / not due / of a later set must be refused
   6  the same with HTTPReadOnly = false written by the operator (the request reaches the key share
      handler; exercises the code-shaped manual path, exempt from C02) *)
Targeted == <<
  [member |-> <<TRUE, TRUE>>, act |-> <<1, 2>>, gen |-> <<1, 1>>,
   ids |-> <<NoId, NoId, NoId, NoId>>,
   trg |-> <<[set |-> 1, exp |-> 3, log |-> 1], [set |-> 2, exp |-> 3, log |-> 2]>>],
  [member |-> <<TRUE, FALSE>>, act |-> <<1, 2>>, gen |-> <<1, 1>>,
   ids |-> <<NoId, NoId, NoId, NoId>>,
   trg |-> <<[set |-> 2, exp |-> 2, log |-> 1], [set |-> 1, exp |-> 3, log |-> 1]>>],
  [member |-> <<TRUE, TRUE>>, act |-> <<1, 2>>, gen |-> <<1, 0>>,
   ids |-> <<[set |-> 1, ts |-> 1], [set |-> 1, ts |-> 1], [set |-> 1, ts |-> 1], [set |-> 1, ts |-> 1]>>,
   trg |-> <<NoTrg, NoTrg>>],
  [member |-> <<TRUE, TRUE>>, act |-> <<1, 2>>, gen |-> <<1, 0>>,
   ids |-> <<[set |-> 1, ts |-> 1], [set |-> 1, ts |-> 3], [set |-> 1, ts |-> 2], [set |-> 1, ts |-> 0]>>,
   trg |-> <<NoTrg, NoTrg>>],
  [member |-> <<TRUE, TRUE>>, act |-> <<1, 2>>, gen |-> <<1, 1>>, http |-> TRUE, ro |-> "absent",
   ids |-> <<[set |-> 1, ts |-> 3], [set |-> 2, ts |-> 1], NoId, NoId>>,
   trg |-> <<NoTrg, NoTrg>>],
  [member |-> <<TRUE, TRUE>>, act |-> <<1, 2>>, gen |-> <<1, 1>>, http |-> TRUE, ro |-> "false",
   ids |-> <<[set |-> 1, ts |-> 3], [set |-> 2, ts |-> 1], NoId, NoId>>,
   trg |-> <<NoTrg, NoTrg>>] >>

(* designed universes 1..5 use the first UseNI / UseNT of their slots and MaxGen; 6.. are Targeted *)
Cut(d) == NoHttp([member |-> d.member, act |-> d.act, gen |-> MaxGen,
           ids |-> [i \in 1..NI |-> IF i <= UseNI /\ i <= Len(d.ids) THEN d.ids[i] ELSE NoId],
           trg |-> [j \in 1..NT |-> IF j <= UseNT /\ j <= Len(d.trg) THEN d.trg[j] ELSE NoTrg]])
Fit(d) == LET e == NoHttp([member |-> d.member, act |-> d.act, gen |-> d.gen,
                           ids |-> [i \in 1..NI |-> IF i <= Len(d.ids) THEN d.ids[i] ELSE NoId],
                           trg |-> [j \in 1..NT |-> IF j <= Len(d.trg) THEN d.trg[j] ELSE NoTrg]])
          IN IF "http" \in DOMAIN d THEN [e EXCEPT !.http = d.http, !.ro = d.ro] ELSE e
DesignedUnis == [k \in DOMAIN DesignedIdx |->
                   IF DesignedIdx[k] <= Len(Designed) THEN Cut(Designed[DesignedIdx[k]])
                   ELSE Fit(Targeted[DesignedIdx[k] - Len(Designed)])]

(* PickOne: instead of all seeded universes use only the first one that makes the set of universes
   "rich": some universe has a trigger of a set we belong to whose log comes after the expiry block
   (and the trigger is still unexpired at block 1), and some universe has one whose log is in time. *)
LateLog(v) == \E j \in DOMAIN v.trg : /\ v.trg[j].set # 0 /\ v.trg[j].log # Nil /\ v.trg[j].log > v.trg[j].exp
                                      /\ v.trg[j].exp >= 1 /\ v.member[v.trg[j].set]
InTimeLog(v) == \E j \in DOMAIN v.trg : /\ v.trg[j].set # 0 /\ v.trg[j].log >= 1 /\ v.trg[j].log <= v.trg[j].exp /\ v.member[v.trg[j].set]
Rich(vs) == (\E v \in vs : LateLog(v)) /\ (\E v \in vs : InTimeLog(v))
RichWith(k) == Rich(SeqToSet(DesignedUnis) \cup {UniAt(UniIdx[k])})
Picked == IF \E k \in DOMAIN UniIdx : RichWith(k)
          THEN CHOOSE k \in DOMAIN UniIdx : RichWith(k) /\ \A m \in 1..(k - 1) : ~RichWith(m)
          ELSE 1
Universes == DesignedUnis \o (IF PickOne /\ UniIdx # <<>> THEN <<UniAt(UniIdx[Picked])>>
                              ELSE [k \in DOMAIN UniIdx |-> UniAt(UniIdx[k])])

Sum(q) == FoldSeq(LAMBDA x, acc : x + acc, 0, q)

Pairs(n) == {<<a, b>> : a \in 1..n, b \in 1..n}
ReleaseSets == {<<x>> : x \in 1..(NI + NT)} \cup {p \in Pairs(NI + NT) : p[1] < p[2]}
Op(k, a, b, ids) == [k |-> k, a |-> a, b |-> b, ids |-> ids]
Alphabet ==
    SetToSeq({Op("block", n, t, <<>>) : n \in BlockNums, t \in Times}) \o
    SetToSeq({Op("regi", i, 0, <<>>) : i \in 1..NI}) \o
    SetToSeq({Op("regt", j, 0, <<>>) : j \in 1..NT}) \o
    SetToSeq({Op("eon", s, 0, <<>>) : s \in Sets}) \o
    SetToSeq({Op("dkg", s, b, <<>>) : s \in Sets, b \in {0, 1}}) \o
    SetToSeq({Op("release", 0, 0, r) : r \in ReleaseSets}) \o
    <<Op("restart", 0, 0, <<>>)>> \o
    SetToSeq({Op("manual", x, 0, <<>>) : x \in 1..(NI + NT)})

ASSUME PrintT(<<"ALPHABET", ToJson(Alphabet)>>)
ASSUME PrintT(<<"UNIS", ToJson(Universes)>>)
ASSUME PrintT(<<"CONST", ToJson([ni |-> NI, nt |-> NT, unicount |-> UniCount])>>)
ASSUME NI >= 4 /\ NT >= 2 /\ UseNI <= NI /\ UseNT <= NT

Init == /\ ui \in DOMAIN Universes
        /\ st = InitSt /\ gh = GhostInit /\ out = <<>> /\ last = 0 /\ hist = <<ui>>

Step(i) ==
    LET u == Universes[ui] op == Alphabet[i] IN
    /\ Enabled(u, st, op)
    /\ LET r == Apply(u, st, op) IN
         (* the share table only decides whether a share message is suppressed as "already sent"
            (ErrSharesAlreadySent); here it is emptied after every step, so that every message the
            handler could send IS sent and checked; the trace layer uses the observed table *)
         /\ st' = [r.st EXCEPT !.shared = {}] /\ out' = r.out
    /\ gh' = GhostNext(gh, op)
    /\ last' = i /\ hist' = Append(hist, i) /\ UNCHANGED ui
    (* every block transition is a candidate for replay (thinned by EMod / NMod), also when it leads
       to a state that was already found: "E" edges emit a trigger (the property is decided there),
       "N" edges emit nothing in this model (where a faulty implementation would trigger early) *)
    /\ IF Emit /\ op.k = "block"
       THEN IF out' # <<>>
            THEN IF (Sum(hist') % EMod) = EPhase THEN PrintT(<<"E", hist'>>) ELSE TRUE
            ELSE IF (Sum(hist') % NMod) = NPhase THEN PrintT(<<"N", hist'>>) ELSE TRUE
       ELSE IF Emit /\ op.k = "manual"     \* a refused request changes nothing: it would never be in the tree
            THEN PrintT(<<"M", hist'>>) ELSE TRUE

Next == \E i \in DOMAIN Alphabet : Step(i)
Spec == Init /\ [][Next]_vars

(* the property layer on every transition of the code-shaped layer *)
StepProps == [][Failed(Universes[ui], gh, st, Alphabet[last'], out') \subseteq InfoMonitors]_vars

EmitInv == (~Emit) \/ PrintT(<<"B", hist>>)
View == <<ui, st, gh>>
=============================================================================
