---------------------------- MODULE TriggerMatch ----------------------------
(***************************************************************************)
(* Event-trigger definitions of the shutter-service keyper (property C17). *)
(*                                                                         *)
(*  PROPERTY LAYER   a transcription of docs/event.md: Doc* operators,     *)
(*                   the geth log-filter rule (Passes) and the monitors    *)
(*                   C17_* over ONE observed case (inputs + what the real  *)
(*                   code returned).                                       *)
(*  CODE-SHAPED LAYER a transcription of                                   *)
(*                   keyperimpl/shutterservice/eventtrigger.go, function   *)
(*                   by function (C* operators), including the RLP codec   *)
(*                   of go-ethereum as far as UnmarshalBytes/MarshalBytes  *)
(*                   use it.                                               *)
(*                                                                         *)
(* Byte strings are sequences of 0..255.  TLC integers are 32 bit, so      *)
(* 64/256-bit quantities stay byte strings: they are compared by           *)
(* length-then-lexicographic order after stripping leading zeros (UCmp),   *)
(* and converted to an integer only when they are < 2^24 (IsSmall/Val).    *)
(* A uint64 (LogValueRef.Offset) is an 8-byte big-endian string.           *)
(*                                                                         *)
(* JSON shapes (identical in generated cases and in recorded traces):      *)
(*   def  = [contract: bytes20, preds: Seq(pred)]                          *)
(*   pred = [dyn: BOOLEAN, off: bytes8, op: Nat,                           *)
(*           iargs: Seq([s: "pos"|"neg"|"nil", m: bytes]), bargs: Seq(bytes)]*)
(*   log  = [addr: bytes20, topics: Seq(bytes32), data: bytes]             *)
(*   filt = [addrs: Seq(bytes20), topics: Seq(Seq(bytes32))]               *)
(***************************************************************************)
EXTENDS Integers, Sequences, FiniteSets

CONSTANTS
    DynMode,       \* "checked": getOffsetDataValue after the repair (out-of-range reference => no match)
                   \* "unchecked": the original code (slices log.Data with unchecked offsets, make(length))
    TopicArgMode   \* "word": Validate rejects a topic BytesEq argument that is not 32 bytes (after the repair)
                   \* "any": the original Validate

WORD == 32
VERSION == 2

----------------------------------------------------------------------------
(* bytes                                                                   *)

Zeros(n) == [i \in 1..n |-> 0]

RECURSIVE FirstNZ(_, _)
FirstNZ(b, i) == IF i > Len(b) THEN i ELSE IF b[i] # 0 THEN i ELSE FirstNZ(b, i + 1)
Strip(b) == SubSeq(b, FirstNZ(b, 1), Len(b))

RECURSIVE LexCmp(_, _, _)
LexCmp(a, b, i) ==
    IF i > Len(a) THEN 0
    ELSE IF a[i] < b[i] THEN -1
    ELSE IF a[i] > b[i] THEN 1
    ELSE LexCmp(a, b, i + 1)

(* unsigned big-endian comparison: -1, 0, 1 *)
UCmp(a, b) ==
    LET x == Strip(a)
        y == Strip(b)
    IN IF Len(x) < Len(y) THEN -1 ELSE IF Len(x) > Len(y) THEN 1 ELSE LexCmp(x, y, 1)

IsSmall(b) == Len(Strip(b)) <= 3              \* value < 2^24
RECURSIVE ValFrom(_, _, _)
ValFrom(b, i, acc) == IF i > Len(b) THEN acc ELSE ValFrom(b, i + 1, acc * 256 + b[i])
Val(b) == ValFrom(Strip(b), 1, 0)             \* only meaningful when IsSmall(b)

(* minimal big-endian bytes of 0 <= n < 2^24 *)
BE(n) == IF n = 0 THEN <<>>
         ELSE IF n < 256 THEN <<n>>
         ELSE IF n < 65536 THEN <<n \div 256, n % 256>>
         ELSE <<n \div 65536, (n \div 256) % 256, n % 256>>

Slice(d, s, n) == SubSeq(d, s + 1, s + n)                                   \* d[s : s+n], needs s+n <= Len(d)
SliceZ(d, s, n) == [i \in 1..n |-> IF s + i <= Len(d) THEN d[s + i] ELSE 0] \* right zero padded

RECURSIVE Flat(_, _)
Flat(ss, i) == IF i > Len(ss) THEN <<>> ELSE ss[i] \o Flat(ss, i + 1)
Concat(ss) == Flat(ss, 1)

(* uint64 offsets as 8 bytes *)
OffBig(o) == \E i \in 1..5 : o[i] # 0          \* >= 2^24
OffN(o) == o[6] * 65536 + o[7] * 256 + o[8]    \* the value when ~OffBig(o)
OffGtU32(o) == \E i \in 1..4 : o[i] # 0        \* > math.MaxUint32
IsTopicOff(o) == ~OffBig(o) /\ OffN(o) < 4

----------------------------------------------------------------------------
(* PROPERTY LAYER: docs/event.md                                            *)

(* "Dynamic": internal_offset_in_bytes = uint64(WORD@Offset) => IOIB, length = uint64(WORD@IOIB),
   dataslice = data[IOIB + 32 : IOIB + 32 + length].  The slice is DEFINED when the offset word,
   the length word and the slice lie inside the data.                                           *)
DocDynDefined(data, k) ==
    /\ (k + 1) * WORD <= Len(data)
    /\ LET w == Slice(data, k * WORD, WORD) IN
       /\ IsSmall(w)
       /\ Val(w) + WORD <= Len(data)
       /\ LET lw == Slice(data, Val(w), WORD) IN
          /\ IsSmall(lw)
          /\ Val(w) + WORD + Val(lw) <= Len(data)
DocDynValue(data, k) ==
    LET io == Val(Slice(data, k * WORD, WORD)) IN Slice(data, io + WORD, Val(Slice(data, io, WORD)))

(* LogValueRef: topics 0..3 by index; data words from offset 4 (a word reaching past the end of
   the data is zero padded on the right, as GetValue documents); dynamic slices as above.        *)
DocRefDefined(p, log) ==
    IF IsTopicOff(p.off) THEN OffN(p.off) < Len(log.topics)
    ELSE IF p.dyn THEN ~OffBig(p.off) /\ DocDynDefined(log.data, OffN(p.off) - 4)
    ELSE TRUE
DocValue(p, log) ==
    IF IsTopicOff(p.off) THEN log.topics[OffN(p.off) + 1]
    ELSE IF p.dyn THEN DocDynValue(log.data, OffN(p.off) - 4)
    ELSE IF OffBig(p.off) THEN Zeros(WORD)
    ELSE SliceZ(log.data, (OffN(p.off) - 4) * WORD, WORD)

(* operators 0..4: unsigned integer comparison value <op> argument; 5: byte-wise equality *)
DocHolds(p, v) ==
    CASE p.op = 0 -> UCmp(v, p.iargs[1].m) < 0
      [] p.op = 1 -> UCmp(v, p.iargs[1].m) <= 0
      [] p.op = 2 -> UCmp(v, p.iargs[1].m) = 0
      [] p.op = 3 -> UCmp(v, p.iargs[1].m) > 0
      [] p.op = 4 -> UCmp(v, p.iargs[1].m) >= 0
      [] p.op = 5 -> v = p.bargs[1]
      [] OTHER -> FALSE

WellFormedFor(def, log) == \A i \in DOMAIN def.preds : DocRefDefined(def.preds[i], log)
MatchSpec(def, log) ==
    /\ log.addr = def.contract
    /\ \A i \in DOMAIN def.preds : DocHolds(def.preds[i], DocValue(def.preds[i], log))

(* What the document decides about (def, log): "F" the address differs or some predicate whose
   reference is defined does not hold (logical AND); "T" every reference is defined and every
   predicate holds; "U" otherwise (only a yes/no answer is required).                           *)
DocDecided(def, log) ==
    IF log.addr # def.contract THEN "F"
    ELSE IF \E i \in DOMAIN def.preds :
              DocRefDefined(def.preds[i], log) /\ ~DocHolds(def.preds[i], DocValue(def.preds[i], log)) THEN "F"
    ELSE IF WellFormedFor(def, log) THEN "T"
    ELSE "U"

(* Validity as documented (event.md "Operators" + Validate's doc comments) *)
DocPredValid(p) ==
    /\ ~OffGtU32(p.off)
    /\ (p.dyn => ~IsTopicOff(p.off))
    /\ p.op \in 0..5
    /\ Len(p.iargs) = (IF p.op < 5 THEN 1 ELSE 0)
    /\ Len(p.bargs) = (IF p.op = 5 THEN 1 ELSE 0)
    /\ \A j \in DOMAIN p.iargs : p.iargs[j].s = "pos"
    /\ (p.op = 5 /\ IsTopicOff(p.off)) => Len(p.bargs[1]) = WORD
TopicEqIdx(def) == {i \in DOMAIN def.preds : IsTopicOff(def.preds[i].off) /\ def.preds[i].op = 5}
DocValid(def) ==
    /\ \A i \in DOMAIN def.preds : DocPredValid(def.preds[i])
    /\ \A i, j \in TopicEqIdx(def) : i # j => def.preds[i].off # def.preds[j].off

(* go-ethereum's log filter (eth/filters filterLogs / includes) *)
Passes(f, log) ==
    /\ (Len(f.addrs) > 0 => \E i \in DOMAIN f.addrs : f.addrs[i] = log.addr)
    /\ Len(f.topics) <= Len(log.topics)
    /\ \A i \in DOMAIN f.topics :
          Len(f.topics[i]) = 0 \/ \E j \in DOMAIN f.topics[i] : f.topics[i][j] = log.topics[i]

(* the definition has the argument shape the operators need (so that the Doc* operators can be
   evaluated on it); weaker than DocValid *)
DocShapeOK(def) ==
    \A i \in DOMAIN def.preds :
        LET p == def.preds[i] IN
        /\ p.op \in 0..5
        /\ Len(p.iargs) = (IF p.op < 5 THEN 1 ELSE 0)
        /\ Len(p.bargs) = (IF p.op = 5 THEN 1 ELSE 0)

(* allocation allowance of one Match call: linear in the size of the log *)
AllocAllowance(log) == 16384 + 64 * (Len(log.data) + WORD * Len(log.topics))

(*------------------------- monitors (pass A) ------------------------------*)
(* "def" case: out = [valid, menc, uok, udef, uvalid, enc2, fok, filt]
   "match" case: out = [valid, match: "true"|"false"|"error"|"panic"|"hang"|"crash", alloc, fok, filt]
   "dec" case: input bytes; out = [uok, udef, uvalid, rok]                                          *)

C17_RoundTrip(def, out) ==          \* valid => Unmarshal(Marshal(def)) is an equivalent definition
    out.valid => (out.menc = "ok" /\ out.uok /\ out.udef = <<def>>)
C17_DecodeValid(out) ==             \* bytes that decode yield a valid definition
    out.uok => (out.uvalid /\ DocValid(out.udef[1]))
C17_FilterExists(out) == out.valid => out.fok
C17_Total(out) == out.valid => out.match \in {"true", "false"}
C17_Bounded(log, out) == out.valid => out.alloc <= AllocAllowance(log)
C17_Semantics(def, log, out) ==
    (out.valid /\ DocShapeOK(def) /\ out.match \in {"true", "false"}) =>
        LET d == DocDecided(def, log) IN
        /\ (d = "T" => out.match = "true")
        /\ (d = "F" => out.match = "false")
C17_FilterSound(log, out) ==
    (out.valid /\ out.match = "true") => (out.fok /\ Passes(out.filt[1], log))

(*---------------- TriggerProcessor.FetchEvents (triggerprocessor.go) ----------------------*)
(* Several definitions are active together and the node holds several logs (all inside the
   requested block range, none after an expiration).  out = [err, fired, pm]:
     fired[i][j]  FetchEvents returned a TriggerEvent for definition i and log j
     pm[i][j]     what the real Match(definition i, log j) answers when called directly
   "never hidden by the filter", lifted to the multi-trigger call: every log that matches a
   definition (by the document where it decides, and by the real Match) is returned for that
   definition; and nothing is returned that does not match.                                  *)
C17_FetchNotHidden(defs, logs, out) ==
    /\ out.err = ""
    /\ \A i \in DOMAIN defs : \A j \in DOMAIN logs :
          (out.pm[i][j] = "true" \/ (DocShapeOK(defs[i]) /\ DocDecided(defs[i], logs[j]) = "T")) => out.fired[i][j]
C17_FetchOnlyMatching(defs, logs, out) ==
    \A i \in DOMAIN defs : \A j \in DOMAIN logs :
        out.fired[i][j] => (out.pm[i][j] = "true" /\ (DocShapeOK(defs[i]) => DocDecided(defs[i], logs[j]) # "F"))

----------------------------------------------------------------------------
(* CODE-SHAPED LAYER: eventtrigger.go                                       *)

(* Op.Validate, NumIntArgs, NumByteArgs *)
COpValid(op) == op \in 0..5
CNumIntArgs(op) == IF op \in 0..4 THEN 1 ELSE 0
CNumByteArgs(op) == IF op = 5 THEN 1 ELSE 0

(* LogValueRef.Validate *)
CRefValid(p) == ~OffGtU32(p.off) /\ ~(p.dyn /\ IsTopicOff(p.off))
(* ValuePredicate.Validate = Op.Validate, validateArgNums, validateArgValues *)
CVPValid(p) ==
    /\ COpValid(p.op)
    /\ Len(p.iargs) = CNumIntArgs(p.op) /\ Len(p.bargs) = CNumByteArgs(p.op)
    /\ \A j \in DOMAIN p.iargs : p.iargs[j].s = "pos"
(* LogPredicate.Validate; the topic-argument length check is the repair of D5b *)
CPredValid(p) ==
    /\ CRefValid(p)
    /\ CVPValid(p)
    /\ (TopicArgMode = "word" /\ IsTopicOff(p.off) /\ p.op = 5) => Len(p.bargs[1]) = WORD
(* EventTriggerDefinition.Validate *)
CValid(def) ==
    /\ \A i \in DOMAIN def.preds : CPredValid(def.preds[i])
    /\ \A i, j \in TopicEqIdx(def) : i # j => def.preds[i].off # def.preds[j].off

(* EventTriggerDefinition.ToFilterQuery: [ok, filt] *)
RECURSIVE CFilterTopics(_, _, _)
CFilterTopics(preds, i, topics) ==
    IF i > Len(preds) THEN [ok |-> TRUE, topics |-> topics]
    ELSE LET p == preds[i] IN
         IF ~IsTopicOff(p.off) \/ p.op # 5 THEN CFilterTopics(preds, i + 1, topics)
         ELSE LET idx == OffN(p.off) + 1
                  grown == IF idx > Len(topics) THEN topics \o [k \in 1..(idx - Len(topics)) |-> <<>>] ELSE topics
              IN IF Len(grown[idx]) # 0 THEN [ok |-> FALSE, topics |-> <<>>]
                 ELSE IF Len(p.bargs[1]) # WORD THEN [ok |-> FALSE, topics |-> <<>>]
                 ELSE CFilterTopics(preds, i + 1, [grown EXCEPT ![idx] = <<p.bargs[1]>>])
CToFilterQuery(def) ==
    LET r == CFilterTopics(def.preds, 1, <<>>) IN
    [ok |-> r.ok, filt |-> IF r.ok THEN <<[addrs |-> <<def.contract>>, topics |-> r.topics]>> ELSE <<>>]

(* LogValueRef.getOffsetDataValue: [st, v]
     st = "ok"      a value
          "nomatch" (repaired code only) the reference is not inside the data: the predicate is false
          "panic"   slice bounds out of range / makeslice: len out of range
          "blow"    make([]byte, length) with length not bounded by the data: panic, out of memory or
                    an allocation far beyond the log's size (the spec leaves the result open)      *)
FitsU64(w) == \A i \in 1..24 : w[i] = 0
Low8(w) == SubSeq(w, 25, 32)
CDynChecked(data, k) ==
    IF (k + 1) * WORD > Len(data) THEN [st |-> "nomatch", v |-> <<>>]
    ELSE LET w == Slice(data, k * WORD, WORD) IN
    IF ~FitsU64(w) \/ ~IsSmall(w) \/ Val(w) > Len(data) - WORD THEN [st |-> "nomatch", v |-> <<>>]
    ELSE LET io == Val(w)
             lw == Slice(data, io, WORD) IN
    IF ~FitsU64(lw) \/ ~IsSmall(lw) \/ Val(lw) > Len(data) - WORD - io THEN [st |-> "nomatch", v |-> <<>>]
    ELSE [st |-> "ok", v |-> Slice(data, io + WORD, Val(lw))]
CDynUnchecked(data, k) ==
    IF (k + 1) * WORD > Len(data) THEN [st |-> "panic", v |-> <<>>]          \* log.Data[s : s+Word]
    ELSE LET io8 == Low8(Slice(data, k * WORD, WORD)) IN                      \* big.Int.Uint64(): low 64 bits
    IF ~IsSmall(io8) \/ Val(io8) + WORD > Len(data) THEN [st |-> "panic", v |-> <<>>]   \* log.Data[io : io+Word] (also when io+Word wraps)
    ELSE LET io == Val(io8)
             l8 == Low8(Slice(data, io, WORD)) IN
    IF ~IsSmall(l8) \/ Val(l8) > 9000 THEN [st |-> "blow", v |-> <<>>]       \* make([]byte, length)
    ELSE [st |-> "ok", v |-> SliceZ(data, io + WORD, Val(l8))]               \* zero padded to length
CDyn(data, k) == IF DynMode = "checked" THEN CDynChecked(data, k) ELSE CDynUnchecked(data, k)

(* LogValueRef.GetValue (a missing topic is nil: the empty byte string) *)
CGetValue(p, log) ==
    IF IsTopicOff(p.off) THEN
        IF Len(log.topics) <= OffN(p.off) THEN [st |-> "ok", v |-> <<>>]
        ELSE [st |-> "ok", v |-> log.topics[OffN(p.off) + 1]]
    ELSE IF p.dyn THEN
        IF OffBig(p.off) THEN [st |-> IF DynMode = "checked" THEN "nomatch" ELSE "panic", v |-> <<>>]  \* far past any data
        ELSE CDyn(log.data, OffN(p.off) - 4)
    ELSE IF OffBig(p.off) THEN [st |-> "ok", v |-> Zeros(WORD)]   \* (off-4)*32 cannot wrap for off <= MaxUint32: past the data
    ELSE [st |-> "ok", v |-> SliceZ(log.data, (OffN(p.off) - 4) * WORD, WORD)]

(* ValuePredicate.Match: n := new(big.Int).SetBytes(value) *)
CVPMatch(p, v) ==
    CASE p.op = 0 -> UCmp(v, p.iargs[1].m) < 0
      [] p.op = 1 -> UCmp(v, p.iargs[1].m) <= 0
      [] p.op = 2 -> UCmp(v, p.iargs[1].m) = 0
      [] p.op = 3 -> UCmp(v, p.iargs[1].m) > 0
      [] p.op = 4 -> UCmp(v, p.iargs[1].m) >= 0
      [] p.op = 5 -> v = p.bargs[1]
      [] OTHER -> FALSE

(* LogPredicate.Match: "true" | "false" | "panic" | "blow" *)
CPredMatch(p, log) ==
    LET g == CGetValue(p, log) IN
    IF g.st = "ok" THEN (IF CVPMatch(p, g.v) THEN "true" ELSE "false")
    ELSE IF g.st = "nomatch" THEN "false"
    ELSE g.st

(* EventTriggerDefinition.Match: predicates in order, the first one that does not match ends it *)
RECURSIVE CMatchFrom(_, _, _)
CMatchFrom(def, log, i) ==
    IF i > Len(def.preds) THEN "true"
    ELSE LET r == CPredMatch(def.preds[i], log) IN
         IF r = "true" THEN CMatchFrom(def, log, i + 1) ELSE r
CMatch(def, log) == IF log.addr # def.contract THEN "false" ELSE CMatchFrom(def, log, 1)

(* TriggerProcessor.FetchEvents for active triggers whose stored definitions are defs, against a node
   holding logs (in range, not expired): per trigger UnmarshalBytes (invalid: skipped), ToFilterQuery
   (error: skipped), eth_getLogs with that filter (the node applies Passes), then Match on every
   returned log.                                                                                   *)
CFetchFired(defs, logs) ==
    [i \in DOMAIN defs |-> [j \in DOMAIN logs |->
        LET d == defs[i] IN
        /\ CValid(d)
        /\ LET f == CToFilterQuery(d) IN
           f.ok /\ Passes(f.filt[1], logs[j]) /\ CMatch(d, logs[j]) = "true"]]

----------------------------------------------------------------------------
(* RLP (go-ethereum rlp) as used by MarshalBytes / UnmarshalBytes           *)

RlpHead(n, base) == IF n < 56 THEN <<base + n>> ELSE <<base + 55 + Len(BE(n))>> \o BE(n)
RlpStr(b) == IF Len(b) = 1 /\ b[1] < 128 THEN b ELSE RlpHead(Len(b), 128) \o b
RlpList(payload) == RlpHead(Len(payload), 192) \o payload
RlpBool(x) == IF x THEN <<1>> ELSE <<128>>
RlpUint(bytes) == RlpStr(Strip(bytes))

(* ValuePredicate.EncodeRLP: the flat list [op, intArgs..., byteArgs...] *)
CEncVP(p) == RlpList(RlpUint(BE(p.op)) \o Concat([j \in DOMAIN p.iargs |-> RlpStr(p.iargs[j].m)])
                                       \o Concat([j \in DOMAIN p.bargs |-> RlpStr(p.bargs[j])]))
CEncPred(p) == RlpList(RlpList(RlpBool(p.dyn) \o RlpUint(p.off)) \o CEncVP(p))
(* MarshalBytes (of a definition with non-negative, non-nil integer arguments) *)
CMarshal(def) ==
    <<VERSION>> \o RlpList(RlpStr(def.contract) \o RlpList(Concat([i \in DOMAIN def.preds |-> CEncPred(def.preds[i])])))

(* Decoder.  Item(b, p, lim): the RLP item starting at index p (1-based) of b, which must end at or
   before lim (the end of the enclosing list, or of the input).
   [ok, list, ps, pe, nx]: payload is b[ps..pe] (pe = ps-1 when empty), nx the index after it.      *)
NoItem == [ok |-> FALSE, list |-> FALSE, ps |-> 1, pe |-> 0, nx |-> 0]
LongItem(b, p, lim, ll, isList) ==
    IF p + ll > lim THEN NoItem
    ELSE LET lb == SubSeq(b, p + 1, p + ll) IN
         IF lb[1] = 0 \/ ll > 3 THEN NoItem                 \* leading zero in the size, or larger than any input
         ELSE LET n == Val(lb) IN
              IF n < 56 \/ p + ll + n > lim THEN NoItem     \* non-canonical size / exceeds the input
              ELSE [ok |-> TRUE, list |-> isList, ps |-> p + ll + 1, pe |-> p + ll + n, nx |-> p + ll + n + 1]
Item(b, p, lim) ==
    IF p > lim THEN NoItem
    ELSE LET x == b[p] IN
         IF x < 128 THEN [ok |-> TRUE, list |-> FALSE, ps |-> p, pe |-> p, nx |-> p + 1]
         ELSE IF x < 184 THEN
              LET n == x - 128 IN
              IF p + n > lim THEN NoItem
              ELSE IF n = 1 /\ b[p + 1] < 128 THEN NoItem   \* ErrCanonSize
              ELSE [ok |-> TRUE, list |-> FALSE, ps |-> p + 1, pe |-> p + n, nx |-> p + n + 1]
         ELSE IF x < 192 THEN LongItem(b, p, lim, x - 183, FALSE)
         ELSE IF x < 248 THEN
              LET n == x - 192 IN
              IF p + n > lim THEN NoItem
              ELSE [ok |-> TRUE, list |-> TRUE, ps |-> p + 1, pe |-> p + n, nx |-> p + n + 1]
         ELSE LongItem(b, p, lim, x - 247, TRUE)
Payload(b, it) == SubSeq(b, it.ps, it.pe)

(* typed reads of one item: [ok, v] *)
AsUint(b, it, maxBytes) ==      \* Stream.uint: a string without leading zero, at most maxBytes long
    LET v == Payload(b, it) IN
    IF ~it.ok \/ it.list \/ Len(v) > maxBytes \/ (Len(v) > 0 /\ v[1] = 0) THEN [ok |-> FALSE, v |-> <<>>]
    ELSE [ok |-> TRUE, v |-> v]
AsBool(b, it) ==
    LET u == AsUint(b, it, 1) IN
    IF ~u.ok THEN [ok |-> FALSE, v |-> FALSE]
    ELSE IF u.v = <<>> THEN [ok |-> TRUE, v |-> FALSE]
    ELSE IF u.v = <<1>> THEN [ok |-> TRUE, v |-> TRUE]
    ELSE [ok |-> FALSE, v |-> FALSE]
AsBigInt(b, it) == AsUint(b, it, 1000000)
AsBytes(b, it) == IF ~it.ok \/ it.list THEN [ok |-> FALSE, v |-> <<>>] ELSE [ok |-> TRUE, v |-> Payload(b, it)]
Pad8(v) == Zeros(8 - Len(v)) \o v

BadPred == [ok |-> FALSE, p |-> [dyn |-> FALSE, off |-> Zeros(8), op |-> 0, iargs |-> <<>>, bargs |-> <<>>]]

(* ValuePredicate.DecodeRLP on the list item vp *)
CDecVP(b, vp) ==
    IF ~vp.ok \/ ~vp.list THEN [ok |-> FALSE, op |-> 0, iargs |-> <<>>, bargs |-> <<>>]
    ELSE LET i1 == Item(b, vp.ps, vp.pe)
             opu == AsUint(b, i1, 8)
         IN IF ~opu.ok \/ ~IsSmall(opu.v) \/ ~COpValid(Val(opu.v)) THEN [ok |-> FALSE, op |-> 0, iargs |-> <<>>, bargs |-> <<>>]
            ELSE LET op == Val(opu.v)
                     i2 == Item(b, i1.nx, vp.pe)          \* exactly one argument for every valid op
                     arg == IF CNumIntArgs(op) = 1 THEN AsBigInt(b, i2) ELSE AsBytes(b, i2)
                 IN IF ~arg.ok \/ i2.nx # vp.pe + 1 THEN [ok |-> FALSE, op |-> 0, iargs |-> <<>>, bargs |-> <<>>]   \* ListEnd
                    ELSE [ok |-> TRUE, op |-> op,
                          iargs |-> IF CNumIntArgs(op) = 1 THEN <<[s |-> "pos", m |-> arg.v]>> ELSE <<>>,
                          bargs |-> IF CNumByteArgs(op) = 1 THEN <<arg.v>> ELSE <<>>]

(* one LogPredicate = [[dynamic, offset], valuePredicate] *)
CDecPred(b, it) ==
    IF ~it.ok \/ ~it.list THEN BadPred
    ELSE LET ref == Item(b, it.ps, it.pe) IN
         IF ~ref.ok \/ ~ref.list THEN BadPred
         ELSE LET d == Item(b, ref.ps, ref.pe)
                  db == AsBool(b, d)
                  o == IF d.ok THEN Item(b, d.nx, ref.pe) ELSE NoItem
                  ou == AsUint(b, o, 8)
              IN IF ~db.ok \/ ~ou.ok \/ o.nx # ref.pe + 1 THEN BadPred
                 ELSE LET vp == Item(b, ref.nx, it.pe)
                          v == CDecVP(b, vp)
                      IN IF ~v.ok \/ vp.nx # it.pe + 1 THEN BadPred
                         ELSE [ok |-> TRUE, p |-> [dyn |-> db.v, off |-> Pad8(ou.v), op |-> v.op,
                                                   iargs |-> v.iargs, bargs |-> v.bargs]]

RECURSIVE CDecPreds(_, _, _, _)
CDecPreds(b, p, lim, acc) ==
    IF p = lim + 1 THEN [ok |-> TRUE, preds |-> acc]
    ELSE LET it == Item(b, p, lim)
             dp == CDecPred(b, it)
         IN IF ~dp.ok THEN [ok |-> FALSE, preds |-> <<>>]
            ELSE CDecPreds(b, it.nx, lim, Append(acc, dp.p))

(* rlp.DecodeBytes(data[1:], d) *)
CDecode(b) ==
    LET top == Item(b, 2, Len(b)) IN
    IF ~top.ok \/ ~top.list \/ top.nx # Len(b) + 1 THEN [ok |-> FALSE, def |-> <<>>]
    ELSE LET a == Item(b, top.ps, top.pe) IN
         IF ~a.ok \/ a.list \/ a.pe - a.ps + 1 # 20 THEN [ok |-> FALSE, def |-> <<>>]
         ELSE LET ps == Item(b, a.nx, top.pe) IN
              IF ~ps.ok \/ ~ps.list \/ ps.nx # top.pe + 1 THEN [ok |-> FALSE, def |-> <<>>]
              ELSE LET r == CDecPreds(b, ps.ps, ps.pe, <<>>) IN
                   IF ~r.ok THEN [ok |-> FALSE, def |-> <<>>]
                   ELSE [ok |-> TRUE, def |-> <<[contract |-> Payload(b, a), preds |-> r.preds]>>]

(* UnmarshalBytes: version byte, RLP, Validate *)
CUnmarshal(b) ==
    IF Len(b) = 0 \/ b[1] # VERSION THEN [ok |-> FALSE, def |-> <<>>]
    ELSE LET d == CDecode(b) IN
         IF d.ok /\ CValid(d.def[1]) THEN d ELSE [ok |-> FALSE, def |-> <<>>]

=============================================================================
