----------------------------- MODULE EventsProps -----------------------------
(***************************************************************************)
(* Property layer for C14, over observed data only (an event's syntax, the *)
(* decoder's outcome):                                                     *)
(*                                                                         *)
(*  (a) fidelity: every event the application can emit decodes to exactly  *)
(*      the values put in;                                                 *)
(*  (b) malformed event data is reported as an error, it is never          *)
(*      mis-decoded, and it never crashes the decoder.                     *)
(*                                                                         *)
(* (b) needs a reading of "malformed" and "mis-decoded" that does not      *)
(* depend on the decoder.  It is given here by a REFERENCE DENOTATION of   *)
(* event syntax, written independently of the code-shaped operators of     *)
(* module Events (attributes are looked up by name, not by position; the   *)
(* classification of spellings is by what the text says, not by which      *)
(* library parses it):                                                     *)
(*   canon   the spelling the application produces; denotes value d;       *)
(*           the decoder must return d                                     *)
(*   len     another spelling of exactly one value d (letter case, a 0x/0X *)
(*           prefix or its absence, leading zeros, surrounding blanks, an  *)
(*           explicit +, ".0", base64 in the other alphabet / padded /     *)
(*           with line breaks, compressed or hybrid key encodings, an      *)
(*           additional attribute with an unknown name, attributes in      *)
(*           another order): the decoder may be strict (error) or lenient  *)
(*           (d); nothing else.  Accepting such a spelling loses nothing:  *)
(*           the value read is the value written.                          *)
(*   bad     no value of the attribute's type is denoted, or one could     *)
(*           only be obtained by guessing (truncating, padding, wrapping,  *)
(*           clamping, skipping an element): missing or renamed attribute, *)
(*           unknown event type, "", "-1", 2^64, non-digits, an address of *)
(*           the wrong length, odd-length or non-hex data, an empty list   *)
(*           element, a point not on the curve / not in G2 / not in        *)
(*           canonical compressed form, a key not on the curve, seeded     *)
(*           garbage starting with a character of no grammar.  The         *)
(*           decoder must report an error.                                 *)
(* A decoder outcome outside Allowed(EvDen(ev, h)) is a violation:         *)
(* "mis-decoded" = a value other than the denoted one, "malformed          *)
(* accepted" = any value for bad data, and a refusal of canonical data     *)
(* violates (a).  Independently, whatever the decoder returns must decode  *)
(* to itself after re-encoding (Idempotent): a returned value that would   *)
(* not round-trip is mis-decoded by definition.                            *)
(***************************************************************************)
EXTENDS Events

(* what each event type carries: attribute name, grammar, field of the value record *)
Sch(n, k, fld) == [name |-> n, kind |-> k, fld |-> fld]
Schema(type) ==
    CASE type = "checkin"     -> <<Sch("Sender", "addr", "s"), Sch("EncryptionPublicKey", "key", "key")>>
      [] type = "batchconfig" -> <<Sch("ActivationBlockNumber", "num", "act"), Sch("Threshold", "num", "thr"),
                                   Sch("Keypers", "addrs", "as"), Sch("ConfigIndex", "num", "idx")>>
      [] type = "bcstarted"   -> <<Sch("ConfigIndex", "num", "idx")>>
      [] type = "eonstarted"  -> <<Sch("Eon", "num", "eon"), Sch("ActivationBlockNumber", "num", "act"),
                                   Sch("KeyperConfigIndex", "num", "idx")>>
      [] type = "polycommit"  -> <<Sch("Sender", "addr", "s"), Sch("Eon", "num", "eon"), Sch("Gammas", "gammas", "items")>>
      [] type = "polyeval"    -> <<Sch("Sender", "addr", "s"), Sch("Eon", "num", "eon"),
                                   Sch("Receivers", "addrs", "as"), Sch("EncryptedEvals", "bytes", "items")>>
      [] type = "accusation"  -> <<Sch("Sender", "addr", "s"), Sch("Eon", "num", "eon"), Sch("Accused", "addrs", "as")>>
      [] type = "apology"     -> <<Sch("Sender", "addr", "s"), Sch("Eon", "num", "eon"),
                                   Sch("Accusers", "addrs", "as"), Sch("PolyEvals", "bigs", "items")>>

(* classification of spellings *)
Cls(f, lenient) == IF f = "canon" THEN "canon" ELSE IF f \in lenient THEN "len" ELSE "bad"
NumClass(f, t) ==
    IF f = "neg" /\ t = "Z0" THEN "len"      \* "-0" still says zero
    ELSE Cls(f, {"leadzero", "plus", "space", "trailspace", "dotzero", "hexpfx"})
        \* bad: empty, neg, overflow, overflowbig, nondigit, underscore, garbage
AddrClass(f) == Cls(f, {"lower", "upper", "noprefix", "prefixX", "badsum", "space"})
        \* bad: short, long, odd, empty, nonhex
HexClass(f) == Cls(f, {"upper", "prefixX", "noprefix", "padzero", "space"})
        \* bad: odd, nonhex, empty
GammaStrClass(f) == Cls(f, {"upper", "prefix0x"})
        \* bad: odd, nonhex, short, long
KeyClass(f) == Cls(f, {"trailbits", "newline", "padded", "std", "compressed", "hybrid"})
        \* bad: badchar, empty, truncated, long, offcurve, zero
Worst(cs) == IF "bad" \in cs THEN "bad" ELSE IF "len" \in cs THEN "len" ELSE "canon"

BadVal == [c |-> "bad", x |-> None]
ValDen(kind, val) ==
    IF val.k # kind THEN BadVal
    ELSE CASE kind = "num"  -> [c |-> NumClass(val.f, val.t), x |-> val.t]
           [] kind = "addr" -> [c |-> AddrClass(val.f), x |-> val.t]
           [] kind = "key"  -> [c |-> KeyClass(val.f), x |-> val.t]
           [] kind \in {"addrs", "bytes", "bigs"} ->
                 LET es == IF val.es = <<EmptyEl>> THEN <<>> ELSE val.es      \* same text as the empty list
                     ecls(e) == IF kind = "addrs" THEN AddrClass(e.f)
                                ELSE IF e.f = "padzero" /\ kind = "bytes" THEN "bad" ELSE HexClass(e.f)
                 IN [c |-> Worst({ecls(es[i]) : i \in DOMAIN es} \cup {Cls(val.f, {})}), x |-> Toks(es)]
           [] kind = "gammas" ->
                 [c |-> Worst({GammaStrClass(val.f)} \cup
                              {IF val.es[i].t \in ValidPoints /\ val.es[i].f = "canon" THEN "canon" ELSE "bad" : i \in DOMAIN val.es}),
                  x |-> Toks(val.es)]

BadDen == [c |-> "bad", v |-> NoV]
EvDen(ev, h) ==
    IF ev.ty.f # "canon" \/ ev.ty.t \notin Types THEN BadDen
    ELSE LET sch == Schema(ev.ty.t)
             pos(n) == {i \in DOMAIN ev.attrs : ev.attrs[i].key = Key(n)}
         IN IF \E j \in DOMAIN sch : Cardinality(pos(sch[j].name)) # 1 THEN BadDen
            ELSE LET at(j) == ev.attrs[CHOOSE i \in pos(sch[j].name) : TRUE].val
                     den(j) == ValDen(sch[j].kind, at(j))
                     structCanon == /\ Len(ev.attrs) = Len(sch)
                                    /\ \A j \in DOMAIN sch : ev.attrs[j].key = Key(sch[j].name)
                     cls == Worst({den(j).c : j \in DOMAIN sch} \cup {IF structCanon THEN "canon" ELSE "len"})
                     blank == Blank(ev.ty.t, h)
                     v == [fld \in DOMAIN blank |->
                              IF \E j \in DOMAIN sch : sch[j].fld = fld
                              THEN den(CHOOSE j \in DOMAIN sch : sch[j].fld = fld).x ELSE blank[fld]]
                 IN IF cls = "bad" THEN BadDen ELSE [c |-> cls, v |-> v]

Allowed(den) ==
    CASE den.c = "canon" -> {OkR(den.v)}
      [] den.c = "len"   -> {OkR(den.v), ErrR}
      [] OTHER           -> {ErrR}

(* ---- monitors over one observed case ------------------------------------ *)
(* out  : outcome of the real MakeEvent on the real event                     *)
(* out2 : outcome of MakeEvent(MakeABCIEvent(out.v)) when out is a value      *)
(* seen : what smobserver.makeEvents passed on for the one-event list         *)
Crashed(o) == o.res \in {"panic", "hang"}

FidelityViol(v, out, out2, seen) ==
    (IF Crashed(out) \/ Crashed(out2) \/ Crashed(seen) THEN {"C14_NoCrash"} ELSE {}) \cup
    (IF ~Crashed(out) /\ out # OkR(v) THEN {"C14_Fidelity"} ELSE {}) \cup
    (IF out.res = "ok" /\ out2 # out THEN {"C14_Idempotent"} ELSE {}) \cup
    (IF ~Crashed(out) /\ ~Crashed(seen) /\ seen # out THEN {"C14_KeyperSees"} ELSE {})

RobustViol(ev, h, out, out2, seen) ==
    LET den == EvDen(ev, h) IN
    (IF Crashed(out) \/ Crashed(out2) \/ Crashed(seen) THEN {"C14_NoCrash"} ELSE {}) \cup
    (IF ~Crashed(out) /\ out \notin Allowed(den)
       THEN {IF den.c = "bad" THEN "C14_MalformedAccepted"
             ELSE IF out.res = "ok" THEN "C14_Misdecoded" ELSE "C14_Fidelity"} ELSE {}) \cup
    (IF out.res = "ok" /\ out2 # out THEN {"C14_Idempotent"} ELSE {}) \cup
    (IF ~Crashed(out) /\ ~Crashed(seen) /\ seen # out THEN {"C14_KeyperSees"} ELSE {})

(* cross-check on the real application: when the scenario ran as modelled (all   *)
(* transactions accepted), the events it emitted, decoded by the keyper's        *)
(* decoder, are exactly the values of the scenario, in order.                     *)
AppViol(scen, panic, codes, evs) ==
    (IF panic # "" THEN {"C14_NoCrash"} ELSE {}) \cup
    (IF panic = "" /\ (\A i \in DOMAIN codes : codes[i] = 0) /\ evs # MapSeq(OkR, scen.expect)
       THEN {"C14_AppFidelity"} ELSE {})

=============================================================================
