------------------------------ MODULE SMConst_val2 ------------------------------
(* small keyper sets so that deep validator-set scenarios are inside the exhaustive bound:
   genesis set {a1,a2} threshold 1 (check-in quorum 2), next set {a2,a3} threshold 1; fork active
   from height 2 so a checked-in keyper can change its validator key; two genesis validators.
   Reachable within 8 ops: set A live with its quorum, set B started but still waiting for
   check-ins, then a key change by a keyper of A. *)
cAddrs == {"a1", "a2", "a3"}
cKeyOrd == <<"v1", "none", "v3", "v8", "v9">>
cGenesis == [keypers |-> <<"a1", "a2">>, thr |-> 1, eon0 |-> 0,
             vals |-> [k \in {"v1", "none", "v3", "v8", "v9"} |-> IF k \in {"v8", "v9"} THEN 10 ELSE 0],
             forkOn |-> TRUE, forkH |-> 2, dev |-> FALSE, legacy |-> FALSE]
cCands == << [keypers |-> <<"a2", "a3">>, thr |-> 1, act |-> 1, idx |-> 1] >>
cSeenBlocks == {1}
cCheckKeys == {"v1", "v3"}
cEons == {1}
=============================================================================
