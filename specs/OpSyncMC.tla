------------------------------ MODULE OpSyncMC ------------------------------
(***************************************************************************)
(* The chain-sync client(s) of OpSync.tla composed with an environment:    *)
(*   mine p e      a block with event e on top of canonical block p        *)
(*                 becomes the head (p = head: extension, else a shallow   *)
(*                 fork switch); only events the contracts would emit      *)
(*   switch b      the head becomes an existing block (flip back)          *)
(*   new c [rpc]   NewClient for client c (fixes the sync start block)     *)
(*   start c [rpc] the next start-up phase of Client.Start                 *)
(*   poll c [rpc]  ShutterStateSyncer's pollIsActive + handler             *)
(*   dlv c s [rpc] the oldest pending notification of subscription s is    *)
(*                 processed (any time later: late delivery)               *)
(*   skip c / swap c   the node drops the oldest pending head / hands over *)
(*                 the second oldest first                                 *)
(*   stop c        the client is cancelled (a restart is stop + new)       *)
(*   dkg c i       shuttermint + DKG make an eon of keyper_set row i       *)
(*                 (DkgEager: as soon as the row exists)                   *)
(*   halt          the environment stops for good (liveness plans)         *)
(* All bounds are functions of the state (tree shape, counters).  hist is  *)
(* hidden by the VIEW; the VIEW contains the ghost, the RESPONSE of the    *)
(* last step (lesson d: one history per distinct transition, not per       *)
(* state) and tags = every observation class and every refused / ignored   *)
(* input class met so far (lessons a, e), so that a history is printed for *)
(* each of them.                                                           *)
(***************************************************************************)
EXTENDS OpSyncProps, Json, SequencesExt

CONSTANTS
    MaxBlocks, MaxLeaves, MaxForkDepth,
    Events,        \* what a mined block may carry (set of Ev records, NoEv included or not)
    MaxEvents,     \* blocks with an event in the tree
    MaxSwitches,   \* head switches to an existing block (every one makes the node produce notifications)
    MaxStops, MaxFaults, MaxSkips, MaxSwaps,
    FaultAt,       \* subset of {"new", "start", "poll", "dlv"}: where an RPC fault may be injected
    DkgEager,
    LateNew,       \* may a client be created after the first block was mined?
    Emit,          \* print histories
    Halting        \* the environment may halt (liveness plans)

VARIABLES w, g, tags, last, cnt, halted, hist
vars == <<w, g, tags, last, cnt, halted, hist>>

Enc(a) == <<a.a, a.c, a.p, a.e.t, a.e.x, a.e.y, a.s, a.f>>
A0(a, c) == Act(a, c, 0, NoEv, "-", "none")

Init ==
    /\ w = World0 /\ g = Ghost0 /\ tags = {}
    /\ last = [a |-> Enc(A0("init", 0)), out |-> <<>>]
    /\ cnt = [stops |-> 0, faults |-> 0, skips |-> 0, swaps |-> 0, switches |-> 0]
    /\ halted = FALSE
    /\ hist = <<>>

Leaves(b) == {x \in DOMAIN b : \A y \in DOMAIN b : b[y].par # x}
NumEvents(b) == Cardinality({x \in DOMAIN b : b[x].ev.t # "none"})

(* inputs that are no-ops of the specification: tag them (lessons a, e) *)
RefusalTags(a, out) ==
    (IF a.f = "rpc" THEN {"t:fault-" \o a.a} ELSE {}) \cup
    (IF a.a \in {"skip", "swap", "stop", "switch"} THEN {"t:" \o a.a} ELSE {}) \cup
    (IF a.a = "dlv" /\ out = <<>> THEN {"t:ignored-" \o a.s} ELSE {}) \cup
    {"t:" \o out[i].h \o "-" \o out[i].r : i \in {j \in DOMAIN out : out[j].h \in {"drop", "fail", "ksh"}}}

DkgPending == \E c \in Clients : \E r \in w.db[c].ks : ~\E e \in w.db[c].eons : e.eon = r.idx

Do(a) ==
    /\ CanApply(w, a)
    /\ LET x  == ApplyAct(w, a)
           sf == StepFold(g, w, a, x.out, x.w) IN
       /\ w' = x.w
       /\ g' = sf.g
       /\ tags' = tags \cup sf.obs \cup AllEndObs(sf.g, x.w) \cup RefusalTags(a, x.out)
       /\ last' = [a |-> Enc(a), out |-> x.out]
       /\ hist' = IF Emit THEN Append(hist, Enc(a)) ELSE hist

Free == ~halted /\ (DkgEager => ~DkgPending)

Mine(p, e) ==
    /\ Free
    /\ Len(w.blk) < MaxBlocks
    /\ p \in DOMAIN w.blk
    /\ w.blk[w.head].num - w.blk[p].num <= MaxForkDepth
    /\ e.t # "none" => NumEvents(w.blk) < MaxEvents
    /\ Cardinality(Leaves(Append(w.blk, Blk(w.blk[p].num + 1, p, e)))) <= MaxLeaves
    /\ Do(Act("mine", 0, p, e, "-", "none"))
    /\ UNCHANGED <<cnt, halted>>

Switch(b) ==
    /\ Free /\ cnt.switches < MaxSwitches
    /\ b \in Leaves(w.blk)
    /\ Do(Act("switch", 0, b, NoEv, "-", "none"))
    /\ cnt' = [cnt EXCEPT !.switches = @ + 1]
    /\ UNCHANGED halted

Fault(kind, f) == f = "none" \/ (f = "rpc" /\ kind \in FaultAt /\ ~halted /\ cnt.faults < MaxFaults)
CountFault(f) == IF f = "rpc" THEN [cnt EXCEPT !.faults = @ + 1] ELSE cnt

ClientStep(a) ==
    /\ DkgEager => ~DkgPending
    /\ Fault(a.a, a.f)
    /\ Do(a)
    /\ cnt' = CountFault(a.f)
    /\ UNCHANGED halted

New(c, f) == (LateNew \/ Len(w.blk) = 1 \/ g[c].life > 0) /\ ClientStep(Act("new", c, 0, NoEv, "-", f))
Start(c, f) == ClientStep(Act("start", c, 0, NoEv, "-", f))
Poll(c, f) == ClientStep(Act("poll", c, 0, NoEv, "-", f))
Dlv(c, s, f) == (f = "rpc" => s = "ks") /\ ClientStep(Act("dlv", c, 0, NoEv, s, f))

Skip(c) == Free /\ cnt.skips < MaxSkips /\ Do(Act("skip", c, 0, NoEv, "-", "none")) /\ cnt' = [cnt EXCEPT !.skips = @ + 1] /\ UNCHANGED halted
Swap(c) == Free /\ cnt.swaps < MaxSwaps /\ Do(Act("swap", c, 0, NoEv, "-", "none")) /\ cnt' = [cnt EXCEPT !.swaps = @ + 1] /\ UNCHANGED halted
Stop(c) == Free /\ cnt.stops < MaxStops /\ Do(Act("stop", c, 0, NoEv, "-", "none")) /\ cnt' = [cnt EXCEPT !.stops = @ + 1] /\ UNCHANGED halted
Dkg(c, i) == Do(Act("dkg", c, i, NoEv, "-", "none")) /\ UNCHANGED <<cnt, halted>>

Halt == Halting /\ ~halted /\ halted' = TRUE /\ UNCHANGED <<w, g, tags, last, cnt, hist>>

Faults == {"none", "rpc"}
ClientNext ==
    \E c \in Clients :
        \/ \E f \in Faults : New(c, f) \/ Start(c, f) \/ Poll(c, f)
        \/ \E s \in SubKinds, f \in Faults : Dlv(c, s, f)
        \/ \E i \in 0..Len(KS) : Dkg(c, i)

Next ==
    \/ \E p \in DOMAIN w.blk, e \in Events : Mine(p, e)
    \/ \E b \in DOMAIN w.blk : Switch(b)
    \/ \E c \in Clients : Skip(c) \/ Swap(c) \/ Stop(c)
    \/ ClientNext
    \/ Halt

Spec == Init /\ [][Next]_vars

(* fault-free progress of the clients (a supervisor restarts a client that is down) *)
FairStep == \E c \in Clients :
        \/ New(c, "none") \/ Start(c, "none") \/ Poll(c, "none")
        \/ \E s \in SubKinds : Dlv(c, s, "none")
        \/ \E i \in 0..Len(KS) : Dkg(c, i)
FairSpec == Spec /\ WF_vars(FairStep)

AllQuiet == \A c \in Clients : Quiet(w, c)
(* bounded liveness: once the environment has halted every canonical keyper-set / eon-key event
   is eventually delivered *)
Live == [](halted => <>(AllQuiet /\ AllEndObs(g, w) \cap LossObs = {}))
(* the same as a state predicate: no fault-free client step is left, yet something is lost (every
   step while halted consumes a phase, a notification or a row, so a fair behaviour ends here) *)
Stuck == halted /\ ~ENABLED FairStep
LiveInv == ~(Stuck /\ (~AllQuiet \/ AllEndObs(g, w) \cap LossObs # {}))
LiveInvCex == LiveInv \/ (PrintT(<<"CEX", ToJson([h |-> hist, tags |-> SetToSeq(tags)])>>) /\ FALSE)

EmitInv == (~Emit) \/ last.a[1] \notin {"new", "start", "poll", "dlv"} \/
           PrintT(<<"B", ToJson([h |-> hist, tags |-> SetToSeq(tags), quiet |-> AllQuiet])>>)

View == <<w, g, tags, last, cnt, halted>>

=============================================================================
