---------------------------- MODULE ChainSyncTrace ----------------------------
(***************************************************************************)
(* Trace layer of C15.  One ndjson line = one call of the REAL Sync of one *)
(* syncer flavour under one concrete injected fault, self-contained:       *)
(*   cfg     [d, maxr, start0, errm, reorg]  how the syncer was configured *)
(*   blk     the block tree served by the fake node  [num, par, evs]       *)
(*   canon   the canonical head = the header passed to Sync                *)
(*   states  <<pre, s1, .., sn>>  every committed database state observed  *)
(*           during the call, projected: [synced |-> [has, num, hash],     *)
(*           rows |-> <<[key, num, bid]>>]                                 *)
(*   ret     "ok" | "err" | "panic" | "hang"                               *)
(* pass A (viol): the C15 monitors of ChainSyncProps on the observed       *)
(*   states; pass B (drift): no fault of the code-shaped spec explains the *)
(*   observed sequence of committed states and the returned error class.   *)
(***************************************************************************)
EXTENDS ChainSyncProps, Json, SequencesExt

CONSTANT TraceFile
Trace == ndJsonDeserialize(TraceFile)

VARIABLES l, viol, drift
tvars == <<l, viol, drift>>

RangeOf(s) == {s[i] : i \in DOMAIN s}
Tree(line) == [i \in DOMAIN line.blk |-> [num |-> line.blk[i].num, par |-> line.blk[i].par, evs |-> RangeOf(line.blk[i].evs), len |-> line.blk[i].len]]
StOf(o) == St(o.synced, RangeOf(o.rows))
States(line) == [i \in DOMAIN line.states |-> StOf(line.states[i])]

LineViol(line) ==
    LET blk == Tree(line)
        sts == States(line)
    IN C15_Failed(blk, line.canon, line.cfg.start0, sts) \cup
       (IF \A i \in DOMAIN line.states : C15_NoDup(line.states[i].rows) THEN {} ELSE {"C15_NoDup"}) \cup
       (IF line.ret \in {"ok", "err"} THEN {} ELSE {"C15_NoPanic"})

AllFaults(n) == {NoFault} \cup {[k |-> k, at |-> at] : k \in FaultKinds, at \in 0..n}

SpecAllows(line) ==
    LET blk == Tree(line)
        sts == States(line)
    IN \E f \in AllFaults(Len(blk) + 1) :
         LET r == Run(line.cfg, blk, line.canon, sts[1], f) IN
         /\ r.seq = SubSeq(sts, 2, Len(sts))
         /\ r.ret = "any" \/ r.ret = line.ret

TInit == l = 1 /\ viol = {} /\ drift = {}

TNext ==
    /\ l <= Len(Trace)
    /\ l' = l + 1
    /\ LET line == Trace[l] IN
       /\ viol' = viol \cup {<<l, m>> : m \in LineViol(line)}
       /\ drift' = drift \cup (IF SpecAllows(line) THEN {} ELSE {l})

TSpec == TInit /\ [][TNext]_tvars

Done == l <= Len(Trace) \/
        PrintT(<<"RESULT", ToJson([lines |-> Len(Trace), viol |-> SetToSeq(viol), drift |-> SetToSeq(drift)])>>)

=============================================================================
