--------------------------- MODULE EventTriggerTrace ---------------------------
(***************************************************************************)
(* Trace layer of C16.  A behaviour is replayed on two real                *)
(* MultiEventSyncers with both real processors over one fake node:         *)
(* keyper "A" (the partition and range size of the behaviour) and the      *)
(* reference keyper "B" (every head, range 1).  Lines, in order:           *)
(*   [k |-> "new"]                          a new behaviour starts         *)
(*   [k |-> "sync", who, cfg, blk, canon, states, ret, fault, var]         *)
(*        one real call (fault: a fault was injected; var: a variant of   *)
(*        the step that follows, executed from the same database state):   *)
(*        states = <<pre, committed states...>> projected to               *)
(*        [synced, regs <<[key,num,bid,exp,dec]>>, fired <<[key,num,bid]>>] *)
(* The fold keeps, per keyper, the last state and the committed positions  *)
(* (cuts).  pass A: C16 monitors on every observed state, C16_Same between *)
(* the two keypers after every call; misses explained by known finding D6  *)
(* are reported under their own name.  pass B: the observed committed      *)
(* states are those of the code-shaped spec.                               *)
(***************************************************************************)
EXTENDS EventTriggerProps, Json, SequencesExt

CONSTANT TraceFile
Trace == ndJsonDeserialize(TraceFile)

VARIABLES l, cur, cuts, tree, viol, drift
tvars == <<l, cur, cuts, tree, viol, drift>>

RangeOf(s) == {s[i] : i \in DOMAIN s}
Tree(line) == [i \in DOMAIN line.blk |-> [num |-> line.blk[i].num, par |-> line.blk[i].par, evs |-> RangeOf(line.blk[i].evs), exp |-> line.blk[i].exp]]
StOf(o) == TSt(o.synced, RangeOf(o.regs), RangeOf(o.fired))
NoSt == TSt(NoRow, {}, {})
Other(w) == IF w = "A" THEN "B" ELSE "A"

(* monitors over the states of one call; returns [fail, cuts] *)
CallCheck(blk, canon, first, states, cs0) ==
    LET RECURSIVE Go(_, _, _)
        Go(i, cs, fail) ==
          IF i > Len(states) THEN [fail |-> fail, cuts |-> cs]
          ELSE LET s   == states[i]
                   cs2 == IF i = 1 THEN cs ELSE CutsAfter(cs, s)
                   f2  == C16_Exact(blk, canon, first, s, cs2) \cup
                          (IF C16_FiredAt(blk, canon, first, s) THEN {} ELSE {"C16_FiredAt"}) \cup
                          (IF i > 1 /\ ~C16_Once(states[i - 1], s) THEN {"C16_Once"} ELSE {})
               IN Go(i + 1, cs2, fail \cup f2)
    IN Go(1, cs0, {})

TInit == l = 1 /\ cur = [A |-> NoSt, B |-> NoSt] /\ cuts = [A |-> {}, B |-> {}] /\ tree = <<>> /\ viol = {} /\ drift = {}

TNext ==
    /\ l <= Len(Trace)
    /\ l' = l + 1
    /\ LET line == Trace[l] IN
       IF line.k = "new"
       THEN /\ cur' = [A |-> NoSt, B |-> NoSt] /\ cuts' = [A |-> {}, B |-> {}] /\ tree' = <<>>
            /\ UNCHANGED <<viol, drift>>
       ELSE LET blk   == Tree(line)
                sts   == [i \in DOMAIN line.states |-> StOf(line.states[i])]
                w     == line.who
                first == line.cfg.start0
                chk   == CallCheck(blk, line.canon, first, sts, cuts[w])
                fin   == sts[Len(sts)]
                cuts2 == [cuts EXCEPT ![w] = chk.cuts]
                same  == C16_Same(blk, line.canon, first, fin, cuts2[w], cur[Other(w)], cuts2[Other(w)])
                fails == chk.fail \cup (IF same THEN {} ELSE {"C16_Same"}) \cup
                         (IF line.ret \in {"ok", "err"} THEN {} ELSE {"C16_NoPanic"})
                full  == TRun(line.cfg, blk, IF line.mid >= 1 THEN line.from ELSE line.canon, sts[1])
                obs   == SubSeq(sts, 2, Len(sts))
                lo    == IF sts[1].synced.has THEN sts[1].synced.num + 1 ELSE first
                midOK == /\ line.mid >= 1 /\ line.ret = "ok" /\ Len(obs) = 1
                         /\ \E ord \in {"rt", "tr"} :
                              obs[1] = TStoreMid(line.cfg, blk, line.from, line.canon, sts[1], lo, blk[line.from].num, line.mid, ord)
                conf  == /\ \/ midOK
                            \/ line.mid < 1 /\ obs = full /\ (line.ret = "ok" \/ line.fault)          \* (commit-then-error is a fault too)
                            \/ line.mid < 1 /\ line.fault /\ line.ret = "err" /\ Len(obs) < Len(full) /\ obs = SubSeq(full, 1, Len(obs))
                         /\ sts[1] = cur[w]          \* the call started where the previous one ended
            IN /\ viol' = viol \cup {<<l, m>> : m \in fails}
               /\ drift' = drift \cup (IF conf THEN {} ELSE {l})
               (* a variant (the same step under another injected fault) is checked but not continued *)
               /\ cur' = IF line.var THEN cur ELSE [cur EXCEPT ![w] = fin]
               /\ cuts' = IF line.var THEN cuts ELSE cuts2
               /\ tree' = blk

TSpec == TInit /\ [][TNext]_tvars

Done == l <= Len(Trace) \/
        PrintT(<<"RESULT", ToJson([lines |-> Len(Trace), viol |-> SetToSeq(viol), drift |-> SetToSeq(drift)])>>)

=============================================================================
