------------------------------ MODULE EonPubProps ------------------------------
(***************************************************************************)
(* C20, second stage -- property layer over ONE observed event ("line")    *)
(* and a ghost folded from earlier lines only:                             *)
(*   {k: "publish", key, ret}   Publish(key) was called; ret: it returned  *)
(*   {k: "takes"}               the routine began publishIfResponsible     *)
(*   {k: "astart", key}         an attempt for key began (the contract is  *)
(*                              asked whether the key is confirmed)        *)
(*   {k: "aend", key, res, wf}  the attempt's transaction reached the node *)
(*                              (wf: right contract, method, keyper index, *)
(*                              sender) and was answered res               *)
(*   {k: "free"}                from here on the publisher runs ungated    *)
(*   {k: "end"}                 the publisher has been idle for a while    *)
(* Ghost: handed = keys whose Publish returned, in order; started = keys   *)
(* in the order of their first attempt; done = keys with a successful      *)
(* attempt.                                                                *)
(***************************************************************************)
EXTENDS EonPub

GhostInit == [handed |-> <<>>, started |-> <<>>, done |-> {}]

InSeq(s, x) == \E j \in DOMAIN s : s[j] = x
IsPrefix(s, t) == Len(s) <= Len(t) /\ \A j \in DOMAIN s : s[j] = t[j]
KnownKey(k) == k \in KeyIds

GhostNext(g, line) ==
    CASE line.k = "new" -> GhostInit
      [] line.k = "publish" -> IF line.ret THEN [g EXCEPT !.handed = Append(@, line.key)] ELSE g
      [] line.k = "astart" -> IF InSeq(g.started, line.key) THEN g ELSE [g EXCEPT !.started = Append(@, line.key)]
      [] line.k = "aend" -> IF line.res = "ok" THEN [g EXCEPT !.done = @ \cup {line.key}] ELSE g
      [] OTHER -> g

\* the keys the publisher is responsible for, in hand-over order
Due(g) == SelectSeq(g.handed, LAMBDA k : KnownKey(k) /\ KeyTab[k].resp)
StartedNew(g) == SelectSeq(g.started, LAMBDA k : ~(KnownKey(k) /\ KeyTab[k].old))

\* attempts follow the hand-over order; nothing is attempted that was not handed over (or that the
\* keyper is not responsible for)
PUB_Order(g, line) ==
    line.k = "astart" => IsPrefix(StartedNew(GhostNext(g, line)), Due(g))

\* once the publisher has come to rest every handed-over key it is responsible for got an attempt
PUB_AllStarted(g, line) ==
    line.k = "end" => \A j \in DOMAIN Due(g) : InSeq(g.started, Due(g)[j])

\* a published key is not published again
PUB_Once(g, line) == line.k = "astart" => line.key \notin g.done

\* what reaches the chain is a known key, sent to the publisher contract of its keyper set with the
\* keyper's index and signature, for a key whose attempt is the current one
PUB_Fields(g, line) ==
    /\ line.k \in {"astart", "aend"} => KnownKey(line.key) /\ line.wf
    /\ line.k = "aend" => line.wf /\ Len(g.started) > 0 /\ g.started[Len(g.started)] = line.key

PUB_NoPanic(g, line) == line.panic = ""

Failed(g, line) ==
    (IF PUB_Order(g, line) THEN {} ELSE {"C20_PUB_Order"}) \cup
    (IF PUB_AllStarted(g, line) THEN {} ELSE {"C20_PUB_AllStarted"}) \cup
    (IF PUB_Once(g, line) THEN {} ELSE {"C20_PUB_Once"}) \cup
    (IF PUB_Fields(g, line) THEN {} ELSE {"C20_PUB_Fields"}) \cup
    (IF PUB_NoPanic(g, line) THEN {} ELSE {"C20_PUB_NoPanic"})
=============================================================================
