---------------------------- MODULE GnosisSlotTrace ----------------------------
(***************************************************************************)
(* Trace layer for C19: validates ndjson traces recorded by                *)
(* harness/gnosisslot from two real gnosis.Keyper objects (A, B) and the   *)
(* real gnosis message handlers / messaging middleware.  The trace is a    *)
(* depth-first walk of the tree of behaviours TLC printed: "op" lines push *)
(* a node, "pop" lines return to an earlier node.  Every variable is       *)
(* logged, the walk is deterministic (one TLC state per line).             *)
(*   line.o      the operation (GnosisSlot.tla, "operations")              *)
(*   line.env    the synced state read back from the database of A and of  *)
(*               B after the operation                                     *)
(*   line.obs[k] what keyper k did: out ("idle" not addressed, "emit",     *)
(*               "nil", "err", "keys", "restart", "panic", "hang"),        *)
(*               trig (block, identities of the trigger found on the       *)
(*               channel, as tokens), hash (keccak of the identity BYTES), *)
(*               msg (the keys message that was processed: ok, p, n) and   *)
(*               st (tx_pointer / current_decryption_trigger rows,         *)
(*               latestTriggeredSlot afterwards)                           *)
(*   pass A  viol : <<line, monitor>> for every monitor of GnosisSlotProps *)
(*                  that is false on the OBSERVED step                     *)
(*   pass B  drift: lines where a keyper's answer or state afterwards is   *)
(*                  not what the code-shaped spec gives from the observed  *)
(*                  state before                                           *)
(*           bad  : lines where the harness did not establish the synced   *)
(*                  state the behaviour asks for (infrastructure problem)  *)
(***************************************************************************)
EXTENDS GnosisSlotProps, Json, SequencesExt

CONSTANT TraceFile
Trace == ndJsonDeserialize(TraceFile)

VARIABLES l, stack, viol, drift, bad
tvars == <<l, stack, viol, drift, bad>>

Names == {"A", "B"}

RespOf(ob) == [out |-> ob.out, trig |-> ob.trig, msg |-> ob.msg]

(* record of a request for the agreement monitor: the synced state it was made from *)
ReqRec(k, top, o, ob, g) ==
    LET e == top.env.active IN
    [k |-> k, slot |-> o.s, e |-> e, q |-> top.env.q[e],
     row |-> top.ks[k].ptr[e], ids |-> ob.trig.ids, hash |-> ob.hash,
     gp |-> g.gp[e], gw |-> {w.a : w \in g.W[e]}]

NewRecs(top, line, g2) ==
    {ReqRec(k, top, line.o, line.obs[k], g2[k]) : k \in {x \in Names : line.obs[x].out = "emit"}}

StepViol(top, line, g2) ==
    LET o == line.o
        new == NewRecs(top, line, g2)
        old == {top.recs[i] : i \in DOMAIN top.recs}
    IN UNION {
         (IF line.obs[k].out \in {"panic", "hang"} THEN {"C19_NoPanic"} ELSE {}) \cup
         ObsFailed(top.env, o, g2[k], RespOf(line.obs[k]), line.obs[k].st.ptr)
         : k \in Names} \cup
       (IF \A r1 \in new : \A r2 \in new \cup old : r1.k # r2.k => AgreeOK2(r1, r2) THEN {} ELSE {"C19_Agree"})

StepDrift(top, line) ==
    \E k \in Names :
        LET ob == line.obs[k] IN
        IF k \in InSet(line.o.K)
        THEN LET x == KeyperStep(top.ks[k], top.env, line.o) IN x.st # ob.st \/ x.r # RespOf(ob)
        ELSE ob.st # top.ks[k] \/ ob.out # "idle"

TInit == l = 1 /\ stack = <<>> /\ viol = {} /\ drift = {} /\ bad = {}

TNext ==
    /\ l <= Len(Trace)
    /\ l' = l + 1
    /\ LET line == Trace[l] IN
       CASE line.k = "new" ->
              /\ stack' = <<[env |-> line.env.A, ks |-> [A |-> line.obs.A.st, B |-> line.obs.B.st],
                             gh |-> [A |-> GhostInit, B |-> GhostInit], recs |-> <<>>]>>
              /\ bad' = bad \cup (IF line.env.A = line.env.B THEN {} ELSE {l})
              /\ drift' = drift \cup (IF line.obs.A.st = KeyperInit /\ line.obs.B.st = KeyperInit THEN {} ELSE {l})
              /\ UNCHANGED viol
         [] line.k = "pop" ->
              /\ stack' = SubSeq(stack, 1, line.d + 1)
              /\ UNCHANGED <<viol, drift, bad>>
         [] OTHER ->
              LET top == stack[Len(stack)]
                  o   == line.o
                  g2  == [k \in Names |-> GhostStep(top.gh[k], top.env, o, RespOf(line.obs[k]))]
                  new == NewRecs(top, line, g2)
              IN /\ viol' = viol \cup {<<l, m>> : m \in StepViol(top, line, g2)}
                 /\ drift' = drift \cup (IF StepDrift(top, line) THEN {l} ELSE {})
                 /\ bad' = bad \cup (IF line.env.A = line.env.B /\ line.env.A = EnvStep(top.env, o) THEN {} ELSE {l})
                 /\ stack' = Append(stack, [env |-> line.env.A,
                                            ks |-> [A |-> line.obs.A.st, B |-> line.obs.B.st],
                                            gh |-> [A |-> g2["A"], B |-> g2["B"]],
                                            recs |-> top.recs \o SetToSeq(new)])

TSpec == TInit /\ [][TNext]_tvars

Done == l <= Len(Trace) \/
        PrintT(<<"RESULT", ToJson([lines |-> Len(Trace), viol |-> SetToSeq(viol), drift |-> SetToSeq(drift),
                                   bad |-> SetToSeq(bad)])>>)

=============================================================================
