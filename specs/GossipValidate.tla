---------------------------- MODULE GossipValidate ----------------------------
(***************************************************************************)
(* Code-shaped specification of gossip validation and handling of the two  *)
(* core message types of a keyper (property C04):                          *)
(*   p2p/messaging.go     addValidatorImpl (topic check, unmarshal, type   *)
(*                        check, validator), GetCombinedValidator, Handle  *)
(*   p2p/message.go       UnmarshalPubsubMessage                           *)
(*   p2pmsg/messages.go   Unmarshal (envelope version, Any), Validate()    *)
(*   keyper/epochkghandler/keyshare.go  ValidateMessage, checkKeyShares,   *)
(*                        HandleMessage, aggregateDecryptionKeySharesFromDB*)
(*   keyper/epochkghandler/key.go       ValidateMessage, checkKeysErrors,  *)
(*                        HandleMessage                                    *)
(*   keyper/database/extend.go  GetKeyperIndex, InsertDecryptionKeysMsg,   *)
(*                        InsertDecryptionKeySharesMsg                     *)
(*   keyper/database/sql/queries/keyper.sql  GetBatchConfig,               *)
(*                        GetDKGResultForKeyperConfigIndex, GetDecryptionKey*)
(*                                                                         *)
(* A CASE is a node flavour fl, a message m and the receiver's database     *)
(* state recv.                                                             *)
(*                                                                         *)
(* fl   "core": the assembly of keyper.KeyperCore.Start (one validator per *)
(*      topic); "gnosis" / "service": the assemblies of                    *)
(*      keyperimpl/gnosis/keyper.go and keyperimpl/shutterservice/keyper.go*)
(*      Start: the flavour's DecryptionKeyShares / DecryptionKeys handler  *)
(*      is registered FIRST on the topic, the core handler second (through *)
(*      the messaging middleware); the combined validator runs both,       *)
(*      reject dominates.  For these flavours the concretiser attaches a   *)
(*      GENUINE flavour extra to messages whose extra field names the      *)
(*      flavour (the sender's real signature over the message's own        *)
(*      fields / threshold many real signatures for keys, identities of    *)
(*      the flavour's SSZ size), so that the flavour validator accepts     *)
(*      whenever its structural checks pass and the verdict rests on the   *)
(*      core validator.                                                    *)
(*                                                                         *)
(* m.mt        "shares" | "keys": the message type the topic is for        *)
(* m.topicOk   the pubsub message names the topic the validator is         *)
(*             registered for                                              *)
(* m.typeOk    the envelope carries the type of the topic (FALSE: it       *)
(*             carries the sibling type, built from the same entries)      *)
(* m.versionOk envelope version = "0.0.1"                                  *)
(* m.instOk    instance id = the receiver's                                *)
(* m.set       what the eon field (a keyper config index) names in the     *)
(*             receiver's database:                                        *)
(*    MemberOk         config with the receiver as member, one eon, DKG ok *)
(*    NotMember        config without the receiver (eon with DKG ok)       *)
(*    NoResult         member, eon exists, no dkg_result row               *)
(*    Failed           member, eon's dkg_result has success = false        *)
(*    RestartNoResult  member, two eons: older failed, newer has no result *)
(*    RestartOk        member, two eons: older failed, newer succeeded     *)
(*    Unknown          no such config                                      *)
(*    Overflow         value above MaxInt64                                *)
(*    Wrap32           2^32 + index of the MemberOk config (the membership *)
(*                     query truncates the index to int32, the DKG result  *)
(*                     query does not)                                     *)
(* m.snd       claimed sender index: < N exists, = N first out of range,   *)
(*             > N stands for a value >= 2^63 (shares only; keys: 0)       *)
(* m.entries   sequence of [r, k]: r = rank of the identity in bytewise    *)
(*             order (1..MaxN+1 are identities of the world; others are     *)
(*             arbitrary identities), k = how the share / key was made:    *)
(*      shares: valid        sender snd's share for that identity          *)
(*              otherKeyper  another keyper's valid share for the identity *)
(*              otherId      snd's valid share for another identity        *)
(*              otherEon     snd's share under another eon key             *)
(*              swap         snd's VALID share for the identity of the     *)
(*                           partner entry: the first entry in message     *)
(*                           order that carries a different identity;      *)
(*                           without one it is an otherId share.  In a     *)
(*                           message <<[a,swap],[b,swap]>> the shares are  *)
(*                           exactly the genuine ones of a and b, attached *)
(*                           to the wrong identities: their sum equals the *)
(*                           sum of the genuine shares, no single one      *)
(*                           verifies for its identity                     *)
(*              garbage      some other point of G1                        *)
(*              badlen       bytes of the wrong length (shlib decodes them *)
(*                           silently as the point at infinity)            *)
(*              undecodable  bytes shcrypto refuses to unmarshal           *)
(*      keys:   valid        THE epoch secret key of the identity          *)
(*              storedEqual  the wrong key W(identity) that receiver       *)
(*                           states "wrong1"/"wrongAll" have stored        *)
(*              wrong        another decodable wrong key                   *)
(*              swap         THE epoch secret key of the partner entry's   *)
(*                           identity (partner as for shares; without one: *)
(*                           the key of an identity outside the message)   *)
(*              badlen, undecodable  as above                              *)
(* m.extra     "none" | "gnosis" | "service" | "optimism" (oneof extra)    *)
(*                                                                         *)
(* hist   what the SAME handler objects did before this delivery:          *)
(*        "fresh"  nothing;  "stale"  they accepted a message of the same  *)
(*        type naming the same set while that set's newest successful key  *)
(*        generation had the OPPOSITE key material (recv.eonkey): the key  *)
(*        generation of the set was restarted and succeeded again with a   *)
(*        new eon key between the two deliveries.  The validators are      *)
(*        stateless -- what they decide depends on the database at the     *)
(*        time of the call only -- so hist enters no operator below; an    *)
(*        implementation that memoises per eon field behaves differently.  *)
(*                                                                         *)
(* recv.eonkey which trusted-dealer key material the newest successful key *)
(*             generation of every set used: "main" (share kind valid /    *)
(*             key kind valid are the genuine tokens) or "other" (share    *)
(*             kind otherEon / key kind wrong are the genuine tokens, and  *)
(*             "valid" ones are tokens of a superseded eon key)            *)
(* recv.pos    where the receiver's address stands in the keypers list of  *)
(*             every tendermint_batch_config row it is a member of:        *)
(*             "first" | "middle" | "last" (not a member at all: set class *)
(*             NotMember).  GetKeyperIndex walks the whole list, so the    *)
(*             position enters no operator below.                          *)
(* recv.layout "rich": the database holds one config per set class;        *)
(*             "solo": only the config the message names                   *)
(* recv.stored keys stored under the named eon: "none", "wrong1" (W for    *)
(*             rank 1), "wrongAll" (W for every world identity),           *)
(*             "validAll" (the true key for every world identity)          *)
(* recv.shares "none" | "k2": the valid share of keyper N-1 stored for     *)
(*             every world identity                                        *)
(*                                                                         *)
(* Cryptography is abstract (tokens with a validity attribute); the link   *)
(* to real BLS objects is the concretiser harness/gossipval/world.go.      *)
(*                                                                         *)
(* SenderCheck names the two versions of checkKeyShares:                   *)
(*   "asfound"  PublicKeyShares[KeyperIndex] is indexed unchecked          *)
(*   "checked"  after fix C04-1: out-of-range index => reject              *)
(***************************************************************************)
EXTENDS Integers, Sequences, FiniteSets

CONSTANTS N, T, MaxN, SenderCheck

WorldRanks == 1..(MaxN + 1)
MsgTypes   == {"shares", "keys"}
Sets       == {"MemberOk", "NotMember", "NoResult", "Failed", "RestartNoResult", "RestartOk",
               "Unknown", "Overflow", "Wrap32"}
ShareKinds == {"valid", "otherKeyper", "otherId", "otherEon", "swap", "garbage", "badlen", "undecodable"}
KeyKinds   == {"valid", "storedEqual", "wrong", "swap", "badlen", "undecodable"}
Extras     == {"none", "gnosis", "service", "optimism"}
Layouts    == {"rich", "solo"}
Positions  == {"first", "middle", "last"}
StoredCls  == {"none", "wrong1", "wrongAll", "validAll"}
SharesCls  == {"none", "k2"}

C04Flavours == {"core", "gnosis", "service"}
OwnExtra(fl) == IF fl = "core" THEN "none" ELSE fl
(* validators the flavour's Start function registers on each of the two topics *)
ValidatorCount(fl) == IF fl = "core" THEN 1 ELSE 2

Kinds(mt) == IF mt = "shares" THEN ShareKinds ELSE KeyKinds

Out(v, why) == [v |-> v, why |-> why]
Accept == Out("accept", "")

----------------------------------------------------------------------------
(* the receiver's database *)

(* GetBatchConfig(int32(eon)) finds a row *)
ConfigExists(set) == set \notin {"Unknown", "Overflow"}
(* the receiver's address is in that row's keypers *)
IsMember(set) == set \notin {"NotMember", "Unknown", "Overflow"}
(* GetDKGResultForKeyperConfigIndex(eon): dkg_result of max(eon) of that config:
   "norows" | "failed" | "ok" *)
LatestResult(set) ==
    CASE set \in {"MemberOk", "NotMember", "RestartOk"} -> "ok"
      [] set = "Failed" -> "failed"
      [] OTHER -> "norows"

(* what decryption_key holds under the message's eon for the identity of rank r, named by the
   key kind whose bytes it equals *)
StoredKind(recv, r) ==
    IF r \notin WorldRanks THEN "none"
    ELSE CASE recv.stored = "none"     -> "none"
           [] recv.stored = "wrong1"   -> IF r = 1 THEN "storedEqual" ELSE "none"
           [] recv.stored = "wrongAll" -> "storedEqual"
           [] recv.stored = "validAll" -> "valid"

(* senders whose share decryption_key_share holds under the message's eon for rank r *)
StoredShareSenders(recv, r) == IF recv.shares = "k2" /\ r \in WorldRanks THEN {N - 1} ELSE {}

----------------------------------------------------------------------------
(* shcrypto *)
Decodes(k)       == k # "undecodable"           \* EpochSecretKey(Share).Unmarshal succeeds
(* the checks are made PER ENTRY, each token against its own identity: a token made for another
   identity of the same message ("swap") fails like any other foreign token, although the sum
   of all tokens of the message may equal the sum of the genuine ones *)
(* against the DKG result read from the database in THIS call *)
ShareVerifies(k, recv) == k = (IF recv.eonkey = "main" THEN "valid" ELSE "otherEon")   \* VerifyEpochSecretKeyShare, PublicKeyShares[snd]
KeyVerifies(k, recv)   == k = (IF recv.eonkey = "main" THEN "valid" ELSE "wrong")      \* VerifyEpochSecretKey, eon public key

Descends(q, i) == i > 1 /\ q[i].r < q[i - 1].r  \* bytes.Compare(id[i], id[i-1]) < 0

----------------------------------------------------------------------------
(* DecryptionKeyShareHandler.ValidateMessage / DecryptionKeyHandler.ValidateMessage:
   the common prologue up to the count checks; "" = passed *)
Prologue(m) ==
    IF ~m.instOk THEN "instance"
    ELSE IF m.set = "Overflow" THEN "overflow"
    ELSE IF ~ConfigExists(m.set) THEN "config"            \* GetKeyperIndex: GetBatchConfig fails
    ELSE IF ~IsMember(m.set) THEN "notkeyper"
    ELSE IF LatestResult(m.set) = "norows" THEN "noresult"
    ELSE IF LatestResult(m.set) = "failed" THEN "failed"
    ELSE IF Len(m.entries) = 0 THEN "empty"
    ELSE IF Len(m.entries) > MaxN THEN "toomany"
    ELSE ""

(* checkKeyShares *)
RECURSIVE ShareLoop(_, _, _)
ShareLoop(m, recv, i) ==
    IF i > Len(m.entries) THEN Accept
    ELSE IF ~Decodes(m.entries[i].k) THEN Out("reject", "sharedecode")
    ELSE IF SenderCheck = "asfound" /\ m.snd >= N THEN Out("panic", "index")
    ELSE IF ~ShareVerifies(m.entries[i].k, recv) THEN Out("reject", "verify")
    ELSE IF Descends(m.entries, i) THEN Out("reject", "order")
    ELSE ShareLoop(m, recv, i + 1)

CheckKeyShares(m, recv) ==
    IF SenderCheck = "checked" /\ m.snd >= N THEN Out("reject", "senderidx")
    ELSE ShareLoop(m, recv, 1)

ValidateShares(m, recv) ==
    LET p == Prologue(m) IN IF p # "" THEN Out("reject", p) ELSE CheckKeyShares(m, recv)

(* checkKeysErrors *)
RECURSIVE KeyLoop(_, _, _)
KeyLoop(m, recv, i) ==
    IF i > Len(m.entries) THEN Accept
    ELSE IF ~Decodes(m.entries[i].k) THEN Out("reject", "keydecode")
    ELSE IF Descends(m.entries, i) THEN Out("reject", "order")
    ELSE IF StoredKind(recv, m.entries[i].r) = m.entries[i].k THEN KeyLoop(m, recv, i + 1)   \* bytes.Equal(stored)
    ELSE IF ~KeyVerifies(m.entries[i].k, recv) THEN Out("reject", "keyinvalid")
    ELSE KeyLoop(m, recv, i + 1)

ValidateKeys(m, recv) ==
    LET p == Prologue(m) IN IF p # "" THEN Out("reject", p) ELSE KeyLoop(m, recv, 1)

(* the flavour's own validator in front of the core one, for a message whose flavour extra is
   genuine (see above); "" = accepts.
   gnosis.DecryptionKeySharesHandler.ValidateMessage / shutterservice...: extra type, (slot and
   tx pointer are small), keyper set of int64(eon) in keyper_set, sender index, signature.
   gnosis.DecryptionKeysHandler.ValidateMessage: ValidateDecryptionKeysBasic (extra type, at least
   one key), keyper set, signer indices and signatures (genuine).  shutterservice: extra type,
   keyper set, signatures. *)
KeyperSetKnown(set) == set \notin {"Unknown", "Overflow", "Wrap32"}      \* keyper_set row for int64(eon)
FlavourValidator(fl, m) ==
    IF m.extra # OwnExtra(fl) THEN "extra"
    ELSE IF m.mt = "keys" /\ fl = "gnosis" /\ Len(m.entries) = 0 THEN "empty"
    ELSE IF ~KeyperSetKnown(m.set) THEN "keyperset"
    ELSE IF m.mt = "shares" /\ m.snd >= N THEN "senderidx"
    ELSE ""

(* the closure built by addValidatorImpl for the handler of topic m.mt; the Validate() method of
   the unmarshalled message (of either type) fails iff one entry does not unmarshal *)
Envelope(m) ==
    IF ~m.topicOk THEN "topic"
    ELSE IF ~m.versionOk THEN "version"
    ELSE IF \E i \in DOMAIN m.entries : ~Decodes(m.entries[i].k) THEN "decode"
    ELSE IF ~m.typeOk THEN "type"
    ELSE ""
CoreValidator(m, recv) == IF m.mt = "shares" THEN ValidateShares(m, recv) ELSE ValidateKeys(m, recv)

(* GetCombinedValidator: the validators of the topic in registration order, the first reject
   decides (every one of them starts with the same envelope checks) *)
CombinedValidator(fl, m, recv) ==
    IF Envelope(m) # "" THEN Out("reject", Envelope(m))
    ELSE IF fl # "core" /\ FlavourValidator(fl, m) # "" THEN Out("reject", FlavourValidator(fl, m))
    ELSE CoreValidator(m, recv)

----------------------------------------------------------------------------
(* Handle, called only after accept.  Result: outgoing messages and the number of rows added *)
Ranks(m) == {m.entries[i].r : i \in DOMAIN m.entries}
NoDelta == [shares |-> 0, keys |-> 0, other |-> FALSE]

HandleShares(m, recv) ==
    LET newRows   == Cardinality({r \in Ranks(m) : m.snd \notin StoredShareSenders(recv, r)})
        allKeys   == \A r \in Ranks(m) : StoredKind(recv, r) # "none"
        haveKey(r) == Cardinality(StoredShareSenders(recv, r) \cup {m.snd}) >= T
    IN  IF allKeys \/ \E r \in Ranks(m) : ~haveKey(r)
        THEN [out |-> <<>>, d |-> [shares |-> newRows, keys |-> 0, other |-> FALSE]]
        ELSE [out |-> <<[mt |-> "keys", n |-> Len(m.entries), good |-> TRUE]>>,
              d   |-> [shares |-> newRows,
                       keys   |-> Cardinality({r \in Ranks(m) : StoredKind(recv, r) = "none"}),
                       other  |-> FALSE]]

HandleKeys(m, recv) ==
    [out |-> <<>>,
     d   |-> [shares |-> 0, keys |-> Cardinality({r \in Ranks(m) : StoredKind(recv, r) = "none"}), other |-> FALSE]]

(* what a node does with one delivered message: the full observable outcome.  nv = number of
   validators registered on the topic.  For the flavour assemblies the effects of Handle (flavour
   tables, middleware) are not modelled here: see Conforms. *)
Pipeline(fl, m, recv) ==
    LET v == CombinedValidator(fl, m, recv) IN
    IF v.v # "accept"
    THEN [v |-> v.v, why |-> v.why, h |-> FALSE, herr |-> "", out |-> <<>>, d |-> NoDelta, nv |-> ValidatorCount(fl)]
    ELSE LET hh == IF m.mt = "shares" THEN HandleShares(m, recv) ELSE HandleKeys(m, recv) IN
         [v |-> "accept", why |-> "", h |-> TRUE, herr |-> "", out |-> hh.out, d |-> hh.d, nv |-> ValidatorCount(fl)]

(* pass B: the observed outcome is the one computed here (core: the whole record; flavour
   assemblies: verdict, reason, handled, validator count) *)
Conforms(fl, m, recv, o) ==
    LET p == Pipeline(fl, m, recv) IN
    IF fl = "core" THEN o = p
    ELSE o.v = p.v /\ o.why = p.why /\ o.h = p.h /\ o.nv = p.nv

=============================================================================
