---------------------------- MODULE ServiceE2EMC ----------------------------
(***************************************************************************)
(* The composed system as one transition system.                           *)
(*                                                                         *)
(*   Mine     the next block of the universe's chain becomes the head      *)
(*            (only when the network is empty and every keyper that is due *)
(*            for the present head has processed it)                       *)
(*   Fork     (thorough tier) once: the head is replaced by a sibling with *)
(*            other content - a depth-1 reorg                              *)
(*   Proc(k)  keyper k processes the head: processNewBlock = registry      *)
(*            sync, multi event sync over ALL blocks since the block it    *)
(*            processed last (lag = size of the sync range), triggers,     *)
(*            shares through the middleware, published                     *)
(*   Dlv(pk)  a packet is delivered: validators, handlers, flags           *)
(*   Drop(pk) a shares packet is lost: at most MaxLoss per receiver, and   *)
(*            only of a list that all K keypers sent shares for (so the    *)
(*            receiver keeps T shares); MaxLossTotal bounds the losses of  *)
(*            one behaviour (state-space bound only)                       *)
(* Lag: u.sched[k+1] = the block numbers keyper k processes (always the    *)
(* last one): every block, every 2nd / 3rd block, the first block(s)       *)
(* skipped ...; its sync range spans all blocks since the one it processed *)
(* last.  The schedule is part of the universe (exploring every skip       *)
(* pattern inside one universe costs 3*10^6 states for four blocks).       *)
(* ProcNet bounds how many packets may be in flight when a keyper starts  *)
(* processing a block (0: the network is drained first).                   *)
(* Network order: Order = "any": the network is a bag, any packet may be   *)
(* delivered next; Order = "fifo": one queue per (sender, receiver) link,  *)
(* packets of one sender reach a receiver in the order sent, packets of    *)
(* different senders in any order.                                         *)
(*                                                                         *)
(* Universes (static scenario + chain contents + keyper schedules) are     *)
(* chosen by NUMBER by the harness: DesignedIdx picks hand-written ones,   *)
(* UniIdx are seeded numbers decoded here (UniAt, mixed radix over         *)
(* BlockOpts^NB x StaticOpts x SchedOpts^K). Inside a universe TLC explores *)
(* every interleaving of the actions above.  All bounds are functions of   *)
(* the state.  hist / obs are hidden from the VIEW; TLC prints the history *)
(* of every transition into a final state (chain complete, every keyper    *)
(* processed the head, network empty).                                     *)
(*                                                                         *)
(* Checked on every transition: E1 (on the code-shaped layer's own         *)
(* triggers), E2 against what every other keyper with the same previous    *)
(* block WOULD emit for the same head from its present tables, E3_Accepted *)
(* and E3_KeysGood; at every quiescent state E3_AllHaveKeys.  E3_Flagged   *)
(* (FlagsOK) is NOT an invariant of the code as it is: the behaviours      *)
(* that end with a flag missing are printed with the tag X_Flagged.        *)
(***************************************************************************)
EXTENDS ServiceE2EProps, Json

CONSTANTS DesignedIdx, UniIdx,     \* sequences of naturals
          NB,                      \* chain length of the seeded universes
          MaxLoss, MaxLossTotal, ProcNet, Order, AllowKnown, AllowFork, Emit, EMod, EPhase

VARIABLES ui, blk, canon, forked, ks, nd, net, lastp, cuts, dropped, obs, hist
vars == <<ui, blk, canon, forked, ks, nd, net, lastp, cuts, dropped, obs, hist>>

Nodes == G!Nodes
NoTs == [x \in 1..NI |-> 0]
B(evs, exp, ts) == [evs |-> evs, exp |-> exp, ts |-> ts]
NoB == B({}, 0, NoTs)
NoFork == [at |-> 0, b |-> NoB]

(* hand-written universes (NI = 2, NT = 1; block n has time 2n); sched[k+1] = the block numbers
   keyper k processes (the last block always)
   1 basic: identity with a timestamp between two block times, trigger registered, fired one block
     later (keyper 2 syncs registration and log in one range: D6), second identity whose timestamp
     EQUALS a block time (strictly later block needed)
   2 D6: registration in block 1, matching log in block 2 - keyper 1 syncs both in one range and
     never fires it, then processes block 3 from the same previous block as keyper 0;
     fork: block 2 without the log
   3 expiry: non-matching log inside the window, matching log one block after the expiry block;
     both identities in one block, timestamps in the opposite order of the slots; all keypers emit
     the same list (losses possible)
   4 foreign set + activation: identity 1 names a set we are not in; set 1 is active from block 3 on:
     the keyper that processes every block never triggers identity 2, the lagging ones do
   5 failed DKG of the other set; log in the registration block itself (must not fire), two later
     logs (first one wins)
   6 everything early: both identities (timestamps in the opposite order of the slots) and the
     trigger in block 1, log in block 2
   8 expiry edge: trigger with expiry block 2, the only matching log in block 3; keyper 0 syncs block
     by block (the trigger is expired at the start of its last range), keyper 1 syncs [2,3] in one
     range (active at the range start, the log must be skipped by the per-log expiry test), keyper
     2 syncs everything in one range.  Nobody may fire: no messages at all in the code as it is
   7 small: one identity, all three keypers send the same list in block 2 (the only universe small
     enough for losses at every receiver under any delivery order in the quick tier) *)
Designed == <<
  [name |-> "1-basic", chain |-> <<B({"i1"}, 0, <<3, 0>>), B({"r1"}, 4, NoTs), B({"l1"}, 0, NoTs), B({"i2"}, 0, <<0, 8>>), NoB>>,
   fork |-> [at |-> 3, b |-> B({"o"}, 0, NoTs)],
   idset |-> <<1, 1>>, trset |-> <<1>>, kind |-> <<"ok", "foreign">>, act |-> <<1, 2>>,
   sched |-> <<{1, 2, 3, 4, 5}, {2, 4, 5}, {1, 3, 5}>>],
  [name |-> "2-d6", chain |-> <<B({"r1"}, 3, NoTs), B({"l1"}, 0, NoTs), B({"i1"}, 0, <<6, 0>>), NoB>>,
   fork |-> [at |-> 2, b |-> NoB],
   idset |-> <<1, 1>>, trset |-> <<1>>, kind |-> <<"ok", "foreign">>, act |-> <<1, 2>>,
   sched |-> <<{1, 2, 3, 4}, {2, 3, 4}, {1, 3, 4}>>],
  [name |-> "3-expiry", chain |-> <<B({"r1"}, 2, NoTs), B({"o"}, 0, NoTs), B({"l1"}, 0, NoTs), B({"i1", "i2"}, 0, <<9, 8>>), NoB>>,
   fork |-> [at |-> 4, b |-> B({"i2"}, 0, <<0, 9>>)],
   idset |-> <<1, 1>>, trset |-> <<1>>, kind |-> <<"ok", "foreign">>, act |-> <<1, 2>>,
   sched |-> <<{1, 2, 3, 4, 5}, {2, 4, 5}, {1, 3, 5}>>],
  [name |-> "4-foreign-activation", chain |-> <<B({"i1", "i2"}, 0, <<3, 3>>), NoB, B({"r1"}, 5, NoTs), B({"l1"}, 0, NoTs)>>,
   fork |-> NoFork,
   idset |-> <<2, 1>>, trset |-> <<1>>, kind |-> <<"ok", "foreign">>, act |-> <<3, 1>>,
   sched |-> <<{1, 2, 3, 4}, {1, 3, 4}, {3, 4}>>],
  [name |-> "5-faileddkg-twologs", chain |-> <<B({"r1", "l1"}, 4, NoTs), B({"i1", "i2"}, 0, <<5, 5>>), B({"l1"}, 0, NoTs), B({"l1"}, 0, NoTs)>>,
   fork |-> NoFork,
   idset |-> <<1, 2>>, trset |-> <<1>>, kind |-> <<"ok", "failed">>, act |-> <<1, 2>>,
   sched |-> <<{1, 2, 3, 4}, {1, 2, 4}, {2, 4}>>],
  [name |-> "6-early", chain |-> <<B({"i1", "i2", "r1"}, 3, <<3, 2>>), B({"l1"}, 0, NoTs), NoB>>,
   fork |-> [at |-> 2, b |-> B({"o"}, 0, NoTs)],
   idset |-> <<1, 1>>, trset |-> <<1>>, kind |-> <<"ok", "foreign">>, act |-> <<1, 2>>,
   sched |-> <<{1, 2, 3}, {2, 3}, {1, 3}>>],
  [name |-> "7-one-list", chain |-> <<B({"i1"}, 0, <<2, 0>>), NoB, NoB>>,
   fork |-> NoFork,
   idset |-> <<1, 1>>, trset |-> <<1>>, kind |-> <<"ok", "foreign">>, act |-> <<1, 2>>,
   sched |-> <<{1, 2, 3}, {1, 2, 3}, {2, 3}>>],
  [name |-> "8-expiry-edge", chain |-> <<B({"r1"}, 2, NoTs), NoB, B({"l1"}, 0, NoTs)>>,
   fork |-> NoFork,
   idset |-> <<1, 1>>, trset |-> <<1>>, kind |-> <<"ok", "foreign">>, act |-> <<1, 2>>,
   sched |-> <<{1, 2, 3}, {1, 3}, {3}>>] >>

(* seeded universes: one option per block, then the static part, then one schedule per keyper *)
BlockOpts == <<
  [evs |-> {}, eo |-> 0, to |-> 0],
  [evs |-> {"i1"}, eo |-> 0, to |-> 0], [evs |-> {"i1"}, eo |-> 0, to |-> 1], [evs |-> {"i1"}, eo |-> 0, to |-> 3],
  [evs |-> {"i2"}, eo |-> 0, to |-> 0], [evs |-> {"i2"}, eo |-> 0, to |-> 1],
  [evs |-> {"r1"}, eo |-> 1, to |-> 0], [evs |-> {"r1"}, eo |-> 2, to |-> 0],
  [evs |-> {"l1"}, eo |-> 0, to |-> 0], [evs |-> {"o"}, eo |-> 0, to |-> 0],
  [evs |-> {"i1", "l1"}, eo |-> 0, to |-> 1], [evs |-> {"r1", "l1"}, eo |-> 2, to |-> 0], [evs |-> {"i2", "l1"}, eo |-> 0, to |-> 2] >>
StaticOpts == <<
  [idset |-> <<1, 1>>, kind |-> <<"ok", "foreign">>, act |-> <<1, 2>>],
  [idset |-> <<1, 1>>, kind |-> <<"ok", "foreign">>, act |-> <<2, 1>>],
  [idset |-> <<1, 2>>, kind |-> <<"ok", "foreign">>, act |-> <<1, 2>>],
  [idset |-> <<1, 2>>, kind |-> <<"ok", "failed">>, act |-> <<1, 2>>] >>
SchedOpts == <<1..NB, {n \in 1..NB : n % 2 = 1} \cup {NB}, {n \in 1..NB : n % 2 = 0} \cup {NB},
               2..NB, {1} \cup 3..NB, {n \in 1..NB : n % 3 = 0} \cup {NB}>>

Radices == [p \in 1..NB |-> Len(BlockOpts)] \o <<Len(StaticOpts)>> \o [i \in 1..K |-> Len(SchedOpts)]
RECURSIVE ProdUpTo(_)
ProdUpTo(p) == IF p = 0 THEN 1 ELSE Radices[p] * ProdUpTo(p - 1)
UniCount == ProdUpTo(Len(Radices))
Digit(k, p) == ((k % UniCount) \div ProdUpTo(p - 1)) % Radices[p]
RegToks == {"i1", "i2", "r1"}
RECURSIVE Decode(_, _, _)
Decode(k, n, used) ==      \* a registration token is used at most once (a second one is dropped)
    IF n > NB THEN <<>>
    ELSE LET o == BlockOpts[Digit(k, n) + 1]
             evs == o.evs \ (used \cap RegToks)
             b == B(evs, IF "r1" \in evs THEN n + o.eo ELSE 0,
                    [x \in 1..NI |-> IF TokI(x) \in evs THEN TimeOf(n) + o.to ELSE 0])
         IN <<b>> \o Decode(k, n + 1, used \cup evs)
UniAt(k) == LET s == StaticOpts[Digit(k, NB + 1) + 1] IN
            [name |-> "seeded", chain |-> Decode(k, 1, {}), fork |-> NoFork, idset |-> s.idset, trset |-> <<1>>, kind |-> s.kind, act |-> s.act,
             sched |-> [i \in 1..K |-> SchedOpts[Digit(k, NB + 1 + i) + 1]]]

Universes == [q \in DOMAIN DesignedIdx |-> Designed[DesignedIdx[q]]] \o [q \in DOMAIN UniIdx |-> UniAt(UniIdx[q])]
U == Universes[ui]

ASSUME NI = 2 /\ NT = 1
ASSUME PrintT(<<"UNIS", ToJson(Universes)>>)
ASSUME PrintT(<<"CONST", ToJson([ni |-> NI, nt |-> NT, k |-> K, t |-> T, lists |-> Lists, unicount |-> UniCount, ndesigned |-> Len(Designed)])>>)

----------------------------------------------------------------------------
(* the network *)
Links == {<<i, j>> : i \in Nodes, j \in Nodes} \ {<<i, i>> : i \in Nodes}
NetInit == IF Order = "fifo" THEN [l \in Links |-> <<>>] ELSE EmptyBag
NetEmpty(n) == IF Order = "fifo" THEN \A l \in Links : n[l] = <<>> ELSE n = EmptyBag
(* what can be delivered (or lost) next *)
Deliverable(n) == IF Order = "fifo" THEN {[m |-> Head(n[l]), d |-> l[2]] : l \in {q \in Links : n[q] # <<>>}}
                  ELSE BagToSet(n)
NetSize(n) == IF Order = "fifo" THEN FoldSet(LAMBDA l, acc : acc + Len(n[l]), 0, Links) ELSE BagCardinality(n)
NetRemove(n, pk) == IF Order = "fifo" THEN [n EXCEPT ![<<pk.m.from, pk.d>>] = Tail(@)]
                    ELSE n (-) SetToBag({pk})
(* the messages node i published in this step (prod, in order; own validators accepted) *)
RECURSIVE NetAdd(_, _, _, _)
NetAdd(n, i, prod, k) ==
    IF k > Len(prod) THEN n
    ELSE IF prod[k].own # "accept" THEN NetAdd(n, i, prod, k + 1)
    ELSE NetAdd(IF Order = "fifo" THEN [l \in Links |-> IF l[1] = i THEN Append(n[l], prod[k].m) ELSE n[l]]
                ELSE n (+) SetToBag({[m |-> prod[k].m, d |-> j] : j \in Nodes \ {i}}), i, prod, k + 1)

----------------------------------------------------------------------------
NoMsg == [t |-> "-", from |-> 0, r |-> 0, x |-> 0, signers |-> <<>>]
NoObs == [a |-> "-", n |-> 0, verdict |-> "-", prod |-> <<>>, e1 |-> {}, e2 |-> {}]
Act(a, n, m) == [a |-> a, n |-> n, m |-> m]

Root == [num |-> 0, par |-> -1, evs |-> {}, exp |-> 0, ts |-> NoTs]
Init ==
    /\ ui \in DOMAIN Universes
    /\ blk = <<Root>> /\ canon = 1 /\ forked = FALSE
    /\ ks = [i \in Nodes |-> KsInit] /\ nd = [i \in Nodes |-> G!NodeInit]
    /\ net = NetInit /\ lastp = [i \in Nodes |-> 1] /\ cuts = [i \in Nodes |-> {}]
    /\ dropped = [i \in Nodes |-> 0]
    /\ obs = NoObs /\ hist = <<>>

Due(k) == blk[canon].num \in U.sched[k + 1] /\ lastp[k] # canon
(* how many blocks keyper k's next sync range spans *)
Behind(k) == IF lastp[k] \in AncSelf(blk, canon) THEN blk[canon].num - blk[lastp[k]].num
             ELSE blk[canon].num - blk[lastp[k]].num + 1

Mine ==
    /\ NetEmpty(net)
    /\ blk[canon].num < Len(U.chain)
    /\ \A k \in Nodes : ~Due(k)
    /\ LET n == blk[canon].num + 1
           c == U.chain[n] IN
       blk' = Append(blk, [num |-> n, par |-> canon, evs |-> c.evs, exp |-> c.exp, ts |-> c.ts])
    /\ canon' = Len(blk) + 1
    /\ obs' = NoObs
    /\ hist' = Append(hist, Act("mine", 0, NoMsg))
    /\ UNCHANGED <<ui, forked, ks, nd, net, lastp, cuts, dropped>>

(* a depth-1 reorg: the head is replaced by a sibling; keypers that were due for the old head (and
   may or may not have processed it) are due for the new one *)
Fork ==
    /\ AllowFork /\ ~forked /\ NetEmpty(net)
    /\ U.fork.at # 0 /\ U.fork.at = blk[canon].num
    /\ blk' = Append(blk, [num |-> blk[canon].num, par |-> blk[canon].par, evs |-> U.fork.b.evs, exp |-> U.fork.b.exp, ts |-> U.fork.b.ts])
    /\ canon' = Len(blk) + 1
    /\ forked' = TRUE
    /\ obs' = NoObs
    /\ hist' = Append(hist, Act("fork", 0, NoMsg))
    /\ UNCHANGED <<ui, ks, nd, net, lastp, cuts, dropped>>

HypRec(j) ==
    LET p == ProcBlock(U, ks[j], nd[j], j, blk, canon) IN
    ProcRec(j, canon, lastp[j], p.out, DecSlots(U, p.ks), CutsFold(cuts[j], p.mseq, 1))

Proc(k) ==
    /\ Due(k)
    /\ NetSize(net) <= ProcNet          \* state-space bound only: a keyper starts on a block when at most ProcNet packets are in flight
    /\ LET p    == ProcBlock(U, ks[k], nd[k], k, blk, canon)
           pub  == G!Publish(p.nd, k, Flat(p.out, 1), 1)
           c2   == CutsFold(cuts[k], p.mseq, 1)
           rec  == ProcRec(k, canon, lastp[k], p.out, DecSlots(U, p.ks), c2)
           e2   == UNION {E2Failed(blk, rec, HypRec(j)) : j \in {q \in Nodes \ {k} : lastp[q] = lastp[k] /\ Due(q)}}
       IN /\ ks' = [ks EXCEPT ![k] = p.ks]
          /\ nd' = [nd EXCEPT ![k] = p.nd]
          /\ net' = NetAdd(net, k, pub.prod, 1)
          /\ cuts' = [cuts EXCEPT ![k] = c2]
          /\ obs' = [a |-> "proc", n |-> k, verdict |-> "-", prod |-> pub.prod,
                     e1 |-> E1Failed(U, blk, canon, ks[k], p.ks, p.out), e2 |-> e2]
          /\ hist' = Append(hist, [a |-> "proc", n |-> k, m |-> NoMsg,
                                   tg |-> [emit |-> Len(p.out), sent |-> Len(Flat(p.out, 1)), d6 |-> "E2_Known_D6" \in e2, rng |-> Behind(k),
                                           rb |-> Len(p.mseq) > 0 /\ p.mseq[1].synced.hash = Empty,
                                           x |-> SetToSeq(E1Failed(U, blk, canon, ks[k], p.ks, p.out) \cap InfoMonitors)]])
    /\ lastp' = [lastp EXCEPT ![k] = canon]
    /\ UNCHANGED <<ui, blk, canon, forked, dropped>>

Dlv(pk) ==
    /\ pk \in Deliverable(net)
    /\ LET j == pk.d
           r == SvcDeliver(U, ks[j], nd[j], j, pk.m)
           p == G!Publish(r.nd, j, r.out, 1) IN
       /\ ks' = [ks EXCEPT ![j] = r.ks]
       /\ nd' = [nd EXCEPT ![j] = r.nd]
       /\ net' = NetAdd(NetRemove(net, pk), j, p.prod, 1)
       /\ obs' = [a |-> "dlv", n |-> j, verdict |-> r.v, prod |-> p.prod, e1 |-> {}, e2 |-> {}]
    /\ hist' = Append(hist, Act("dlv", pk.d, pk.m))
    /\ UNCHANGED <<ui, blk, canon, forked, lastp, cuts, dropped>>

Drop(pk) ==
    /\ pk \in Deliverable(net) /\ pk.m.t = "shares"
    /\ dropped[pk.d] < MaxLoss
    /\ FoldSet(LAMBDA i, acc : acc + dropped[i], 0, Nodes) < MaxLossTotal      \* state-space bound only
    /\ Cardinality(Trigd(nd, pk.m.r)) = K
    /\ net' = NetRemove(net, pk)
    /\ dropped' = [dropped EXCEPT ![pk.d] = @ + 1]
    /\ obs' = [NoObs EXCEPT !.a = "drop", !.n = pk.d]
    /\ hist' = Append(hist, Act("drop", pk.d, pk.m))
    /\ UNCHANGED <<ui, blk, canon, forked, ks, nd, lastp, cuts>>

Sent == [r \in DOMAIN Lists |-> Trigd(nd, r)]
DecAll == [i \in Nodes |-> DecSlots(U, ks[i])]
RegAll == [i \in Nodes |-> {x \in TimeIds : IdRow(ks[i], x).reg} \cup {NI + j : j \in {q \in 1..NT : TrgRow(U, ks[i], q).reg}}]

Complete == /\ blk[canon].num = Len(U.chain) /\ NetEmpty(net) /\ \A k \in Nodes : lastp[k] = canon
EmitStep == (Emit /\ Complete' /\ (Len(hist') + ui) % EMod = EPhase) =>
               PrintT(<<"B", ToJson([ui |-> ui, sched |-> hist',
                                     info |-> SetToSeq(EndInfo(Sent', nd', DecAll', RegAll') \cup (IF E3_Flagged(Sent', DecAll') THEN {} ELSE {"X_Flagged"}))])>>)

Next ==
    /\ \/ Mine \/ Fork
       \/ \E k \in Nodes : Proc(k)
       \/ \E pk \in Deliverable(net) : Dlv(pk) \/ Drop(pk)
    /\ EmitStep
Spec == Init /\ [][Next]_vars

----------------------------------------------------------------------------
StepOK == [][/\ obs'.e1 \subseteq InfoMonitors
             /\ obs'.e2 \subseteq (IF AllowKnown THEN {"E2_Known_D6"} ELSE {})
             /\ StepFailed([verdict |-> obs'.verdict, prod |-> obs'.prod], nd') = {}]_vars
KeysOK == NetEmpty(net) => E3_AllHaveKeys(Sent, nd)
(* not an invariant of the code (information): see X_Flagged in ServiceE2EProps *)
FlagsOK == NetEmpty(net) => E3_Flagged(Sent, DecAll)

View == <<ui, blk, canon, forked, ks, nd, net, lastp, cuts, dropped>>
=============================================================================
