------------------------------ MODULE SigRuleMC ------------------------------
(***************************************************************************)
(* The finite case domain of C06 wrapped into a transition system so that  *)
(* TLC (i) checks the property layer against the code-shaped layer on      *)
(* every case (invariant Design) and (ii) prints every case it visits      *)
(* (invariant EmitInv): the printed cases are what harness/sig replays on  *)
(* the real code.  The Go side does not construct cases.                   *)
(*                                                                         *)
(* Domains (DESIGN.md 4/C06):                                              *)
(*  base  for n in NSet, t in 0..n+1 (restricted to TSel), signer lists    *)
(*        of length 0..n+1 over 0..n (n = out of range; repeated and       *)
(*        unordered lists are in there), signature lists of length 0..n+1  *)
(*        over the classes                                                 *)
(*          listed      valid, by the listed signer, over the message data *)
(*          member      valid, by another member of the keyper set         *)
(*          outsider    valid, by a key outside the keyper set             *)
(*          chg(f)      valid, by the listed signer, over data differing   *)
(*                      in signed field f                                  *)
(*          garbage     bytes that are not a signature                     *)
(*          tampered    a listed signature with one bit flipped            *)
(*        ("listed signer" of position i: signers[i] when it exists and    *)
(*        is in range, otherwise member (i-1) mod n)                       *)
(*  mut   second pass: a message whose signed field `mut` was changed      *)
(*        after signing.  Signer list strictly increasing, in range, of    *)
(*        length t; one signature per signer, by the listed signer, each   *)
(*        over the base tuple, over the tuple with `mut` changed (= the    *)
(*        data the message carries now) or over the tuple with another     *)
(*        field changed.                                                   *)
(*        `mut` may also be "idlen": the byte length of one identity       *)
(*        preimage of the message was changed (no signature over such a    *)
(*        list exists).                                                    *)
(*  History = TRUE multiplies every domain by the announcement histories   *)
(*        and lookup-miss states of the node's storage (Stores): the       *)
(*        classes are then relative to the LAST announced set.             *)
(*  sample  random sampling of the base domain for larger n (SampleSpec),  *)
(*        drawn by TLC itself (Randomization, seeded by -seed): shape      *)
(*        "free" draws both lists uniformly, shape "near" draws a          *)
(*        well-formed signer list and a signature list of length t-1..t+1  *)
(*        that is all `listed` except at most one place.                   *)
(***************************************************************************)
EXTENDS SigRuleProps, Json, TLC, Randomization

CONSTANTS
    Flavours,   \* subset of {"gnosis", "service"}
    NSet,       \* keyper set sizes
    TSel,       \* thresholds to include (intersected with 0..n+1)
    History,    \* TRUE: every case under every storage state of Stores; FALSE: <<"S">>, key stored, only
    Domain,     \* "base" | "mut" (Spec); the sample uses SampleSpec
    SampleNum,  \* number of draws of SampleSpec
    Emit        \* print the cases?

VARIABLES c, stage
vars == <<c, stage>>

Thresholds(n) == (0..(n + 1)) \cap TSel

Sig(k, b, o) == [k |-> k, b |-> b, o |-> o]
Class(cl, x) == [cl |-> cl, x |-> x]
Classes(f, n) ==
    {Class("listed", ""), Class("outsider", ""), Class("garbage", ""), Class("tampered", "")} \cup
    (IF n >= 2 THEN {Class("member", "")} ELSE {}) \cup
    {Class("chg", x) : x \in SignedFields(f)}

(* storage states: announcement history of the eon's keyper set (see SigRule) x eon key.
   Announced once; twice (initial sync and subscription overlap); replaced by a re-announcement,
   both ways round; LOOKUP MISS: nothing announced, only another eon's set announced; another
   eon's set before the eon's own; eon key stored after the sets; no eon key. *)
St(a, k) == [ann |-> a, key |-> k]
Stores ==
    IF History
    THEN {St(<<"S">>, "before"), St(<<"S", "S">>, "before"), St(<<"X", "S">>, "before"), St(<<"S", "X">>, "before"),
          St(<<>>, "before"), St(<<"O">>, "before"), St(<<"O", "S">>, "before"),
          St(<<"S">>, "after"), St(<<>>, "after"), St(<<"S">>, "none")}
    ELSE {St(<<"S">>, "before")}

(* the set the signature classes are relative to: the eon's set, S when it has none *)
RefSet(ann) == LET x == LastFor(ann, Len(ann)) IN IF x = "" THEN "S" ELSE x

(* the signature token of the key that holds index idx of the eon's set (the last announced):
   set S: member idx; set X = <<outsider, member 0, ..>>: index 0 is the outsider (token n) *)
HolderTok(idx, n, ann) ==
    IF RefSet(ann) = "S" THEN idx ELSE IF idx = 0 THEN n ELSE idx - 1

(* classes are relative to the holder of the listed index: *)
Listed(signers, n, i) == IF i <= Len(signers) /\ signers[i] < n THEN signers[i] ELSE (i - 1) % n

Expand(cl, signers, n, i, ann) ==
    LET idx == Listed(signers, n, i)
        me == HolderTok(idx, n, ann)
        other == HolderTok((idx + 1) % n, n, ann)
        \* a key that holds no index of the eon's set: the outsider for S, member n-1 for X
        out == IF RefSet(ann) = "S" THEN n ELSE n - 1
    IN
    CASE cl.cl = "listed"   -> Sig("ok", me, "")
      [] cl.cl = "member"   -> Sig("ok", other, "")
      [] cl.cl = "outsider" -> Sig("ok", out, "")
      [] cl.cl = "chg"      -> Sig("ok", me, cl.x)
      [] cl.cl = "garbage"  -> Sig("garbage", n, "")
      [] cl.cl = "tampered" -> Sig("tampered", me, "")

ExpandAll(q, signers, n, ann) == [i \in DOMAIN q |-> Expand(q[i], signers, n, i, ann)]

Seed(f, n, t, signers, mut, st) ==
    [f |-> f, n |-> n, t |-> t, signers |-> signers, sigs |-> <<>>, mut |-> mut, ann |-> st.ann, key |-> st.key]

(* what can change in a message after signing: a signed field, or the byte length of one
   identity preimage *)
MutKinds(f) == SignedFields(f) \cup {"idlen"}

GoodLists(n, t) == {s \in [1..t -> 0..(n - 1)] : StrictlyIncreasing(s)}

(* NOTE on TLC: UNION over many sets is quadratic in TLC (linear membership search), and zero-arity
   constant definitions are evaluated eagerly for every worker; the domains are therefore written
   as bounded quantifiers inside Init/Next instead of as named sets. *)
IsBaseSeed(s) ==
    \E n \in NSet : \E t \in Thresholds(n) : \E f \in Flavours : \E m \in 0..(n + 1) :
        \E sg \in [1..m -> 0..n] : \E a \in Stores : s = Seed(f, n, t, sg, "", a)
IsMutSeed(s) ==
    \E n \in NSet : \E t \in Thresholds(n) \cap (0..n) : \E f \in Flavours : \E mu \in MutKinds(f) :
        \E sg \in GoodLists(n, t) : \E a \in Stores : s = Seed(f, n, t, sg, mu, a)

IsBaseCompletion(s, s2) ==
    \E m \in 0..(s.n + 1) : \E q \in [1..m -> Classes(s.f, s.n)] :
        s2 = [s EXCEPT !.sigs = ExpandAll(q, s.signers, s.n, s.ann)]
IsMutCompletion(s, s2) ==
    \E o \in [1..s.t -> {""} \cup SignedFields(s.f)] :
        s2 = [s EXCEPT !.sigs = [i \in 1..s.t |-> Sig("ok", HolderTok(s.signers[i], s.n, s.ann), o[i])]]

----------------------------------------------------------------------------
(* exhaustive enumeration: one seed per (flavour, n, t, signer list[, mut]), one step to every
   completion; seeds are spread over the TLC workers *)
Init ==
    /\ stage = 0
    /\ IF Domain = "base" THEN IsBaseSeed(c) ELSE IsMutSeed(c)

Next ==
    /\ stage = 0
    /\ stage' = 1
    /\ IF c.mut = "" THEN IsBaseCompletion(c, c') ELSE IsMutCompletion(c, c')

Spec == Init /\ [][Next]_vars

----------------------------------------------------------------------------
(* random sampling of the base domain for larger n.  TLC draws the sample itself: every
   RandomSubset(1, S) below is evaluated once per bound variable, so one evaluation of the body
   is one consistent case; the generator is seeded by TLC's -seed.  Shape "near" (chosen with
   probability 1/2 when a well-formed signer list exists) concentrates on the neighbourhood of
   admissible messages, shape "free" is uniform over lengths and entries. *)
Pick(S) == RandomSubset(1, S)

NearClassSeqs(f, n, len) ==
    LET allListed == [i \in 1..len |-> Class("listed", "")] IN
    {allListed} \cup {[allListed EXCEPT ![j] = cl] : j \in 1..len, cl \in Classes(f, n)}

SampleInit ==
    /\ stage = 1
    /\ \E k \in 1..SampleNum : \E n \in Pick(NSet) : \E t \in Pick(Thresholds(n)) : \E f \in Pick(Flavours) :
       \E near \in Pick(IF GoodLists(n, t) = {} THEN {FALSE} ELSE {TRUE, FALSE}) :
       \E m \in Pick(0..(n + 1)) :
       \E sg \in Pick(IF near THEN GoodLists(n, t) ELSE [1..m -> 0..n]) :
       \E len \in Pick(IF near THEN {t - 1, t, t + 1} \cap (0..(n + 1)) ELSE 0..(n + 1)) :
       \E q \in Pick(IF near THEN NearClassSeqs(f, n, len) ELSE [1..len -> Classes(f, n)]) :
       \E a \in Pick(Stores) :
           c = [Seed(f, n, t, sg, "", a) EXCEPT !.sigs = ExpandAll(q, sg, n, a.ann)]

SampleSpec == SampleInit /\ [][Next]_vars

----------------------------------------------------------------------------
Complete == stage = 1

(* the property layer holds on every outcome the code-shaped layer allows *)
Design == Complete => DesignHolds(c)

EmitInv == (Emit /\ Complete) => PrintT(<<"CASE", ToJson(c)>>)

=============================================================================
