------------------------------ MODULE SMConst_val ------------------------------
(* validator-set universe: check-ins with two keys, the check-in update fork active from
   height 2, one configuration change; "v8" and "v9" are the genesis validators (both removed in one EndBlock when the keypers take over) *)
cAddrs == {"a1", "a2", "a3", "a4"}
cKeyOrd == <<"v1", "v2", "none", "v3", "v8", "v9">>
cGenesis == [keypers |-> <<"a1", "a2", "a3">>, thr |-> 2, eon0 |-> 0,
             vals |-> [k \in {"v1", "v2", "none", "v3", "v8", "v9"} |-> IF k \in {"v8", "v9"} THEN 10 ELSE 0],
             forkOn |-> TRUE, forkH |-> 2, dev |-> FALSE, legacy |-> FALSE]
cCands == << [keypers |-> <<"a2", "a3", "a4">>, thr |-> 1, act |-> 1, idx |-> 1] >>
cSeenBlocks == {1}
cCheckKeys == {"v1", "v3"}
cEons == {1}
=============================================================================
