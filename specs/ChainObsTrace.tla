---------------------------- MODULE ChainObsTrace ----------------------------
(***************************************************************************)
(* Trace layer of the chain observer.  A run is a sequence of ndjson lines *)
(* recorded from the REAL chainobserver.ChainObserver (built like the      *)
(* snapshot keyper builds it) over harness/fakeeth + harness/fakepg:       *)
(*   new   run, blk, canon, ob                  a fresh world              *)
(*   step  run, a, blk, canon, ret, seq, rng, ob                           *)
(*         a = [op, o, f]: op "mine" / "ext" / "switch" (the tree AFTER    *)
(*         the action is in blk / canon), "start" (ChainObserver.Start of  *)
(*         observer o; f.k = "db": GetEventSyncProgress fails), "poll"     *)
(*         (ONE eth_blockNumber call of the sync loop is let through and   *)
(*         everything that follows from it is awaited, under fault f),     *)
(*         "stop" (context cancelled);                                     *)
(*         ret  "ok" | "idle" | "dead" | "crash" | "hang" | "panic" |      *)
(*              "fail" (Start returned an error);                          *)
(*         fired  the injected fault did occur;                            *)
(*         seq  the DISTINCT committed database states observed during the *)
(*              step (before every SQL statement and at its end);          *)
(*              rng the block range the step fetched ([] none);            *)
(*         ob[o] = [up, db] after the step, db = [nb, li, ks, co] with the  *)
(*         rows as lists.                                                  *)
(* Deterministic fold.  Pass A (viol): the K monitors of ChainObsProps on  *)
(* the observed data.  Pass B (drift): the observed commit sequence,       *)
(* result class, fetched range and liveness of the service are what the    *)
(* code-shaped layer yields from the previously OBSERVED database and the  *)
(* in-memory cursor the spec derives (sp).                                 *)
(***************************************************************************)
EXTENDS ChainObsProps, Json, SequencesExt

CONSTANT TraceFile
Trace == ndJsonDeserialize(TraceFile)

VARIABLES l, prev, sp, viol, drift
tvars == <<l, prev, sp, viol, drift>>

RangeOf(s) == {s[i] : i \in DOMAIN s}
DbOf(j) == DB(j.nb, j.li, RangeOf(j.ks), RangeOf(j.co))
Dbs(line) == [o \in DOMAIN line.ob |-> DbOf(line.ob[o].db)]
Ups(line) == [o \in DOMAIN line.ob |-> line.ob[o].up]
CommitsOf(line) == [i \in DOMAIN line.seq |-> DbOf(line.seq[i])]

NoDupJ(j) == Cardinality({j.ks[i].idx : i \in DOMAIN j.ks}) = Len(j.ks) /\ Cardinality({j.co[i].act : i \in DOMAIN j.co}) = Len(j.co)

FOf(a) == [k |-> a.f.k, at |-> a.f.at, w |-> a.f.w]

(* the harness records the DISTINCT committed states it sees before every statement and at the end
   of the step: a commit that leaves the database as it was (an event handled again after a restart
   whose row and progress exist) is not visible *)
RECURSIVE DedupFrom(_, _, _)
DedupFrom(p0, seq, i) ==
    IF i > Len(seq) THEN <<>>
    ELSE IF seq[i] = p0 THEN DedupFrom(p0, seq, i + 1)
    ELSE <<seq[i]>> \o DedupFrom(seq[i], seq, i + 1)

LineViol(line, pv) ==
    LET dbs == Dbs(line)
        all == AllItems(line.blk, line.canon)
        fin == Final(line.blk, line.canon)
    IN UNION {K1_FailedA(all, dbs[o]) \cup K5_LostA(all, fin, dbs[o]) : o \in DOMAIN dbs}
       \cup (IF Len(dbs) >= 2 THEN K3_Failed(dbs[1], dbs[2]) ELSE {})
       \cup (IF \A o \in DOMAIN line.ob : NoDupJ(line.ob[o].db) THEN {} ELSE {"K2_NoDup"})
       \cup (IF line.k = "step" /\ line.a.op \in {"poll", "start"}
             THEN K4_Failed(line.ret, line.a.f.k # "none") ELSE {})
       \cup (IF line.k = "step" /\ line.a.op = "poll"
             THEN LET o == line.a.o
                      states == <<pv[o]>> \o CommitsOf(line)
                  IN K2_Seq(all, states, 1)
                     \cup (IF states[Len(states)] = dbs[o] THEN {} ELSE K2_FailedA(all, states[Len(states)], dbs[o]) \cup {"K2_Phantom"})
                     \cup (IF line.a.f.k = "none" THEN K5_Stuck(line.blk, line.canon, dbs[o], line.ret) ELSE {})
             ELSE IF line.k = "step"
             THEN (IF \A o \in DOMAIN dbs : dbs[o] = pv[o] THEN {} ELSE {"K2_Phantom"})    \* tables change only in polls
             ELSE {})

(* pass B *)
SpecStep(line, pv, s) ==
    LET dbs == Dbs(line)
        ups == Ups(line)
    IN IF line.k = "new" THEN [ok |-> \A o \in DOMAIN dbs : dbs[o] = DB0 /\ ~ups[o], sp |-> [o \in DOMAIN dbs |-> [up |-> FALSE, mem |-> NoMem]]]
       ELSE LET a == line.a
                same(o) == dbs[o] = pv[o] /\ ups[o] = s[o].up
            IN CASE a.op \in {"mine", "ext", "switch"} -> [ok |-> \A o \in DOMAIN dbs : same(o), sp |-> s]
                 [] a.op = "start" ->
                      LET o == a.o
                          good == a.f.k = "none"
                      IN [ok |-> /\ ~s[o].up /\ dbs[o] = pv[o]
                                 /\ ups[o] = good /\ line.ret = (IF good THEN "ok" ELSE "fail")
                                 /\ line.fired = ~good
                                 /\ \A x \in DOMAIN dbs : x # o => same(x),
                          sp |-> [s EXCEPT ![o] = [up |-> good, mem |-> IF good THEN StartMem(pv[o]) ELSE NoMem]]]
                 [] a.op = "stop" ->
                      [ok |-> /\ s[a.o].up /\ ~ups[a.o] /\ dbs[a.o] = pv[a.o] /\ \A x \in DOMAIN dbs : x # a.o => same(x),
                       sp |-> [s EXCEPT ![a.o] = [up |-> FALSE, mem |-> NoMem]]]
                 [] a.op = "poll" ->
                      LET o == a.o
                          r == Poll(line.blk, line.canon, pv[o], s[o].mem, FOf(a))
                          up2 == r.ret \in {"ok", "idle"}
                      IN [ok |-> /\ s[o].up
                                 /\ DedupFrom(pv[o], r.seq, 1) = CommitsOf(line) /\ r.db = dbs[o]
                                 /\ r.ret = line.ret /\ r.rng = line.rng
                                 /\ line.fired = (a.f.k # "none")
                                 /\ ups[o] = up2
                                 /\ \A x \in DOMAIN dbs : x # o => same(x),
                          sp |-> [s EXCEPT ![o] = [up |-> ups[o], mem |-> IF up2 THEN r.mem ELSE NoMem]]]
                 [] OTHER -> [ok |-> FALSE, sp |-> s]

TInit == l = 1 /\ prev = <<>> /\ sp = <<>> /\ viol = {} /\ drift = {}

TNext ==
    /\ l <= Len(Trace)
    /\ l' = l + 1
    /\ LET line == Trace[l]
           r == SpecStep(line, prev, sp)
       IN /\ viol' = viol \cup {<<l, m>> : m \in LineViol(line, prev)}
          /\ drift' = drift \cup (IF r.ok THEN {} ELSE {l})
          /\ prev' = Dbs(line)
          /\ sp' = r.sp

TSpec == TInit /\ [][TNext]_tvars

Done == l <= Len(Trace) \/
        PrintT(<<"RESULT", ToJson([lines |-> Len(Trace), viol |-> SetToSeq(viol), drift |-> SetToSeq(drift)])>>)

=============================================================================
