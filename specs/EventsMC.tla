------------------------------ MODULE EventsMC ------------------------------
(***************************************************************************)
(* The finite case domain of C14, one TLC state per case:                  *)
(*   fid  every value of every event type over the token sets of the tier  *)
(*   mut  decoder-side mutations (one, in the thorough tier also two) of   *)
(*        the encoding of base values                                      *)
(*   app  the fid cases that a block-1 scenario of the real application    *)
(*        can emit (Events!AppScenario)                                    *)
(* TLC checks the property layer against the code-shaped layer on every    *)
(* case and prints the case (CASE tag) for the replay on the real code.    *)
(***************************************************************************)
EXTENDS EventsProps, Json

CONSTANTS Tier,       \* "quick" | "thorough"
          RunTypes,   \* event types of this run (runs are split by type to use all cores)
          RunCls,     \* subset of {"fid", "mut", "app"}
          RunHs,      \* height tokens of the fid/app values of this run
          RunSenders  \* sender tokens of the fid/app values of this run

VARIABLE c

Thorough == Tier = "thorough"

Seq1(S) == {<<a>> : a \in S}
Seq2(S) == {<<a, b>> : a \in S, b \in S}
Seq3(S) == {<<a, b, d>> : a \in S, b \in S, d \in S}

HS == HeightToks \cap RunHs
Senders == AddrToks \cap RunSenders
Keys == KeyToks
AddrLists ==
    IF Thorough THEN {<<>>} \cup Seq1(AddrToks) \cup Seq2(AddrToks) \cup
                     {<<"K1", "K2", "K3">>, <<"AZ", "AF", "AZ">>, <<"K3", "K2", "AF">>}
    ELSE {<<>>, <<"K2">>, <<"AZ">>, <<"K2", "K3">>, <<"AF", "AZ">>, <<"K2", "K2">>}
BytesLists ==
    IF Thorough THEN {<<>>} \cup Seq1(BytesToks) \cup Seq2(BytesToks) \cup
                     {<<"e", "e", "e">>, <<"x", "e", "y">>, <<"z0", "c", "x">>}
    ELSE {<<>>, <<"e">>, <<"x">>, <<"e", "x">>, <<"x", "y">>, <<"z0", "e">>, <<"e", "e">>, <<"c", "z0">>}
BigLists ==
    IF Thorough THEN {<<>>} \cup Seq1(BigToks) \cup Seq2(BigToks) \cup
                     {<<"b0", "b0", "b0">>, <<"bL", "b0", "bQ">>, <<"b256", "b7", "bL">>}
    ELSE {<<>>, <<"b0">>, <<"b7">>, <<"bL">>, <<"b0", "b7">>, <<"bL", "bQ">>, <<"b0", "b0">>, <<"b256", "b0">>}
GammaLists ==      \* degree -1 (no point) .. 2
    IF Thorough THEN {<<>>} \cup Seq1(ValidPoints) \cup Seq2(ValidPoints) \cup Seq3(ValidPoints)
    ELSE {<<>>, <<"Gen">>, <<"Inf">>, <<"P1">>, <<"P1", "P2">>, <<"Inf", "Gen">>, <<"NegGen", "P1">>,
          <<"P1", "P2", "Gen">>, <<"Inf", "Inf", "Inf">>}

Values(type) ==
    CASE type = "checkin" ->
           {[Blank(type, h) EXCEPT !.s = s, !.key = k] : h \in HS, s \in Senders, k \in Keys}
      [] type = "batchconfig" ->
           {[Blank(type, h) EXCEPT !.act = a, !.thr = t, !.as = l, !.idx = i] :
                h \in HS, a \in U64, t \in U64, l \in AddrLists, i \in U64}
      [] type = "bcstarted" ->
           {[Blank(type, h) EXCEPT !.idx = i] : h \in HS, i \in U64}
      [] type = "eonstarted" ->
           {[Blank(type, h) EXCEPT !.eon = e, !.act = a, !.idx = i] : h \in HS, e \in U64, a \in U64, i \in U64}
      [] type = "polycommit" ->
           {[Blank(type, h) EXCEPT !.s = s, !.eon = e, !.items = g] : h \in HS, s \in Senders, e \in U64, g \in GammaLists}
      [] type = "polyeval" ->
           {[Blank(type, h) EXCEPT !.s = s, !.eon = e, !.as = l, !.items = b] :
                h \in HS, s \in Senders, e \in U64, l \in AddrLists, b \in BytesLists}
      [] type = "accusation" ->
           {[Blank(type, h) EXCEPT !.s = s, !.eon = e, !.as = l] : h \in HS, s \in Senders, e \in U64, l \in AddrLists}
      [] type = "apology" ->
           {[Blank(type, h) EXCEPT !.s = s, !.eon = e, !.as = l, !.items = b] :
                h \in HS, s \in Senders, e \in U64, l \in AddrLists, b \in BigLists}

(* ---- base values whose encodings are mutated ---------------------------- *)
BaseValues(type) ==
    LET B == Blank(type, "One")
        first ==
          CASE type = "checkin" -> {[B EXCEPT !.s = "K1", !.key = "E1"]}
            [] type = "batchconfig" -> {[B EXCEPT !.act = "MaxI64p1", !.thr = "One", !.as = <<"K2", "K3">>, !.idx = "MaxU64"],
                                        [B EXCEPT !.act = "Z0", !.thr = "MaxI64", !.as = <<>>, !.idx = "Z0"]}
            [] type = "bcstarted" -> {[B EXCEPT !.idx = "One"]}
            [] type = "eonstarted" -> {[B EXCEPT !.eon = "MaxU64", !.act = "One", !.idx = "MaxI64"]}
            [] type = "polycommit" -> {[B EXCEPT !.s = "K1", !.eon = "One", !.items = <<"P1", "Inf">>],
                                       [B EXCEPT !.s = "AF", !.eon = "MaxU64", !.items = <<>>]}
            [] type = "polyeval" -> {[B EXCEPT !.s = "K1", !.eon = "MaxI64", !.as = <<"K2", "AF">>, !.items = <<"x", "e">>],
                                     [B EXCEPT !.s = "AZ", !.eon = "Z0", !.as = <<>>, !.items = <<>>]}
            [] type = "accusation" -> {[B EXCEPT !.s = "K1", !.eon = "One", !.as = <<"K2">>]}
            [] type = "apology" -> {[B EXCEPT !.s = "K2", !.eon = "One", !.as = <<"K1", "K3">>, !.items = <<"bL", "b0">>],
                                    [B EXCEPT !.s = "K2", !.eon = "MaxI64p1", !.as = <<>>, !.items = <<>>]}
        more ==
          CASE type = "checkin" -> {[B EXCEPT !.s = "AF", !.key = "Ez"], [B EXCEPT !.s = "AZ", !.key = "E2", !.h = "MaxI64"]}
            [] type = "batchconfig" -> {[B EXCEPT !.act = "One", !.thr = "MaxU64", !.as = <<"AZ">>, !.idx = "MaxI64p1"],
                                        [B EXCEPT !.act = "MaxU64", !.thr = "Z0", !.as = <<"AF", "K1", "K1">>, !.idx = "One", !.h = "Z0"]}
            [] type = "bcstarted" -> {[B EXCEPT !.idx = "Z0"], [B EXCEPT !.idx = "MaxU64", !.h = "MaxI64"]}
            [] type = "eonstarted" -> {[B EXCEPT !.eon = "Z0", !.act = "Z0", !.idx = "Z0"],
                                       [B EXCEPT !.eon = "One", !.act = "MaxI64p1", !.idx = "MaxU64", !.h = "Z0"]}
            [] type = "polycommit" -> {[B EXCEPT !.s = "K2", !.eon = "Z0", !.items = <<"Gen">>],
                                       [B EXCEPT !.s = "K3", !.eon = "MaxI64", !.items = <<"NegGen", "P2", "Inf">>]}
            [] type = "polyeval" -> {[B EXCEPT !.s = "K3", !.eon = "One", !.as = <<"AZ">>, !.items = <<"z0">>],
                                     [B EXCEPT !.s = "AF", !.eon = "MaxU64", !.as = <<"K1", "K2">>, !.items = <<"c", "y", "e">>]}
            [] type = "accusation" -> {[B EXCEPT !.s = "AZ", !.eon = "Z0", !.as = <<>>],
                                       [B EXCEPT !.s = "AF", !.eon = "MaxU64", !.as = <<"AZ", "K3">>]}
            [] type = "apology" -> {[B EXCEPT !.s = "AZ", !.eon = "Z0", !.as = <<"AF">>, !.items = <<"b0">>],
                                    [B EXCEPT !.s = "K1", !.eon = "MaxU64", !.as = <<"K2", "K3">>, !.items = <<"bQ", "b256">>]}
    IN first \cup more

(* ---- mutations ------------------------------------------------------------ *)
D(kind, i, j, f) == [kind |-> kind, i |-> i, j |-> j, f |-> f]
M(d, ev) == [d |-> d, ev |-> ev]
RemoveAt(s, i) == SubSeq(s, 1, i - 1) \o SubSeq(s, i + 1, Len(s))
InsertAt(s, i, x) == SubSeq(s, 1, i - 1) \o <<x>> \o SubSeq(s, i, Len(s))     \* x becomes element i
SwapAt(s, i, j) == [s EXCEPT ![i] = s[j], ![j] = s[i]]
ExtraAttr == [key |-> Key("Extra"), val |-> Leaf("raw", "x", None)]

TypeForms == {"unknown", "empty", "upper", "noprefix", "trailspace"}
KeyForms == {"lower", "suffix", "empty"}
NumForms == {"leadzero", "plus", "space", "trailspace", "dotzero", "hexpfx", "empty", "neg", "overflow",
             "overflowbig", "nondigit", "underscore", "garbage"}
AddrForms == {"lower", "upper", "noprefix", "prefixX", "badsum", "space", "short", "long", "odd", "empty", "nonhex", "garbage"}
HexForms == {"upper", "prefixX", "noprefix", "space", "odd", "nonhex", "garbage"}          \* + "padzero" for big integers
GammaForms == {"upper", "prefix0x", "odd", "nonhex", "short", "long", "garbage"}
KeyValForms == {"trailbits", "newline", "padded", "std", "compressed", "hybrid", "badchar", "empty", "truncated",
                "long", "offcurve", "zero", "garbage"}

(* a spelling is only generated where its text differs from the canonical text *)
NoLetters == {"AZ", "e", "b0", "b7", "b256"}        \* tokens whose canonical hex has no letter (checked by the concretiser)
Applicable(k, f, t) ==
    CASE k = "num" -> TRUE
      [] k \in {"addr", "addrs"} -> f \in {"lower", "upper", "badsum"} => t \notin NoLetters
      [] k \in {"bytes", "bigs"} -> /\ f = "upper" => t \notin NoLetters
                                    /\ f = "noprefix" => t \notin {"e", "b0"}       \* would be the empty element
                                    /\ f = "padzero" => k = "bigs"
      [] k = "gammas" -> TRUE
      [] k = "key" -> TRUE
      [] OTHER -> FALSE

ValMuts(val) ==     \* set of [j, f, val]
    CASE val.k = "num"  -> {[j |-> 0, f |-> f, val |-> [val EXCEPT !.f = f]] : f \in {f \in NumForms : Applicable("num", f, val.t)}}
      [] val.k = "addr" -> {[j |-> 0, f |-> f, val |-> [val EXCEPT !.f = f]] : f \in {f \in AddrForms : Applicable("addr", f, val.t)}}
      [] val.k = "key"  -> {[j |-> 0, f |-> f, val |-> [val EXCEPT !.f = f]] : f \in KeyValForms}
      [] val.k \in {"addrs", "bytes", "bigs"} ->
            LET forms == IF val.k = "addrs" THEN AddrForms \ {"empty"} ELSE HexForms \cup {"padzero"} IN
            UNION {{[j |-> j, f |-> f, val |-> [val EXCEPT !.es[j].f = f]] :
                        f \in {f \in forms : Applicable(val.k, f, val.es[j].t)}} : j \in DOMAIN val.es}
            \cup (IF val.es = <<>> THEN {}
                  ELSE {[j |-> p, f |-> "emptyelem", val |-> [val EXCEPT !.es = InsertAt(val.es, p, EmptyEl)]] :
                           p \in 1..(Len(val.es) + 1)})
      [] val.k = "gammas" ->
            {[j |-> 0, f |-> f, val |-> [val EXCEPT !.f = f]] :
                 f \in {f \in GammaForms : f \in {"upper", "odd", "short"} => val.es # <<>>}}
            \cup {[j |-> j, f |-> b, val |-> [val EXCEPT !.es[j].t = b]] : j \in DOMAIN val.es, b \in BadPoints}
      [] OTHER -> {}

Structural(ev) ==
    {M(<<D("drop", i, 0, None)>>, [ev EXCEPT !.attrs = RemoveAt(ev.attrs, i)]) : i \in DOMAIN ev.attrs}
    \cup {M(<<D("dropall", 0, 0, None)>>, [ev EXCEPT !.attrs = <<>>])}
    \cup {M(<<D("rename", i, 0, f)>>, [ev EXCEPT !.attrs[i].key.f = f]) : i \in DOMAIN ev.attrs, f \in KeyForms}
    \cup {M(<<D("swap", p[1], p[2], None)>>, [ev EXCEPT !.attrs = SwapAt(ev.attrs, p[1], p[2])]) :
             p \in {p \in (DOMAIN ev.attrs) \X (DOMAIN ev.attrs) : p[1] < p[2]}}
    \cup {M(<<D("extra", p, 0, None)>>, [ev EXCEPT !.attrs = InsertAt(ev.attrs, p, ExtraAttr)]) :
             p \in 1..(Len(ev.attrs) + 1)}
    \cup {M(<<D("type", 0, 0, f)>>, [ev EXCEPT !.ty.f = f]) : f \in TypeForms}
    \cup {M(<<D("typeother", 0, 0, t2)>>, [ev EXCEPT !.ty.t = t2]) : t2 \in Types \ {ev.ty.t}}

ValueLevel(ev) ==
    UNION {{M(<<D("val", i, m.j, m.f)>>, [ev EXCEPT !.attrs[i].val = m.val]) : m \in ValMuts(ev.attrs[i].val)} :
              i \in DOMAIN ev.attrs}

(* two value-level mutations on different attributes; extra attribute plus one value mutation *)
Double(ev) ==
    UNION {{M(m1.d \o m2.d, m2.ev) :
               m2 \in {x \in ValueLevel(m1.ev) : x.d[1].i > m1.d[1].i}} : m1 \in ValueLevel(ev)}
    \cup UNION {{M(m1.d \o <<D("extra", Len(m1.ev.attrs) + 1, 0, None)>>,
                   [m1.ev EXCEPT !.attrs = Append(m1.ev.attrs, ExtraAttr)])} : m1 \in ValueLevel(ev)}

Muts(ev) == Structural(ev) \cup ValueLevel(ev) \cup (IF Thorough THEN Double(ev) ELSE {})

(* ---- cases ---------------------------------------------------------------- *)
FidCases(type) == {[cls |-> "fid", v |-> v, ev |-> MakeABCIEvent(v)] : v \in Values(type)}
MutCases(type) == UNION {{[cls |-> "mut", v |-> b, d |-> m.d, ev |-> m.ev] : m \in Muts(MakeABCIEvent(b))} : b \in BaseValues(type)}
AppCases(type) == {[cls |-> "app", v |-> v, scen |-> AppScenario(v)] : v \in {v \in Values(type) : AppScenario(v).ok}}

Cases == UNION {(IF "fid" \in RunCls THEN FidCases(t) ELSE {}) \cup
                (IF "mut" \in RunCls THEN MutCases(t) ELSE {}) \cup
                (IF "app" \in RunCls THEN AppCases(t) ELSE {}) : t \in RunTypes}

Init == c \in Cases
Next == UNCHANGED c
Spec == Init /\ [][Next]_c

(* ---- what TLC checks on every case ---------------------------------------- *)
(* (a) on the code-shaped layer: Decode(Encode(v)) = v *)
Fidelity == c.cls = "fid" => MakeEvent(MakeABCIEvent(c.v), c.v.h) = OkR(c.v)
(* the reference denotation agrees that encodings are canonical spellings of v *)
EncodingsCanonical == c.cls = "fid" => EvDen(c.ev, c.v.h) = [c |-> "canon", v |-> c.v]
(* (b) on the code-shaped layer: the decoder's outcome is one the property allows *)
Robust == c.cls \in {"fid", "mut"} => MakeEvent(c.ev, c.v.h) \in Allowed(EvDen(c.ev, c.v.h))
(* whatever is returned re-encodes and decodes to itself *)
Idempotent == c.cls \in {"fid", "mut"} =>
                 LET r == MakeEvent(c.ev, c.v.h) IN r.res = "ok" => MakeEvent(MakeABCIEvent(r.v), r.v.h) = r
(* the keyper's driver passes on exactly the decodable events *)
KeyperSees == c.cls \in {"fid", "mut"} =>
                 LET r == MakeEvent(c.ev, c.v.h) IN
                 makeEvents(c.v.h, <<c.ev>>) = IF r.res = "ok" THEN <<r.v>> ELSE <<>>
(* every event a scenario expects is one that round-trips in the code-shaped layer *)
AppExpectRoundTrips == c.cls = "app" =>
                 \A i \in DOMAIN c.scen.expect :
                     MakeEvent(MakeABCIEvent(c.scen.expect[i]), c.scen.expect[i].h) = OkR(c.scen.expect[i])

Checks == <<[n |-> "Fidelity", ok |-> Fidelity], [n |-> "EncodingsCanonical", ok |-> EncodingsCanonical],
            [n |-> "Robust", ok |-> Robust], [n |-> "Idempotent", ok |-> Idempotent],
            [n |-> "KeyperSees", ok |-> KeyperSees], [n |-> "AppExpectRoundTrips", ok |-> AppExpectRoundTrips]>>
SpecOK == \A i \in DOMAIN Checks : Checks[i].ok

(* Both are always true: every case is printed for the replay, and a case on which the       *)
(* code-shaped layer fails the property layer is printed as a LEAD (it is decided on the      *)
(* real code, DESIGN 2.5) instead of stopping the enumeration.                                *)
EmitInv == PrintT(<<"CASE", ToJson(c)>>)
LeadInv == SpecOK \/ PrintT(<<"LEAD", ToJson([c |-> c, failed |-> SelectSeq(Checks, LAMBDA x : ~x.ok)])>>)

=============================================================================
