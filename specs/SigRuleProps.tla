----------------------------- MODULE SigRuleProps -----------------------------
(***************************************************************************)
(* Property layer of C06, over ONE OBSERVED case: the keyper set (n, t),   *)
(* the message as it was built (signer list, for every signature who made  *)
(* it and over which data, which field of the message was changed after    *)
(* signing) and the verdict returned by the real code.  Nothing here       *)
(* refers to the code-shaped operators of SigRule.                         *)
(*                                                                         *)
(*   "A Gnosis keys message is accepted by keypers and by the access node  *)
(*    only if it names exactly threshold signers, strictly increasing and  *)
(*    inside the keyper set, with exactly one signature per signer, each a *)
(*    valid signature by that keyper over the message's instance, eon,     *)
(*    slot, transaction pointer and identity list; changing any of those   *)
(*    fields or any signature invalidates it.  The Shutter-service flavour *)
(*    applies the same rule over (instance, eon, identities), except that  *)
(*    a message carrying neither signers nor signatures is admitted."      *)
(***************************************************************************)
EXTENDS SigRule

StrictlyIncreasing(s) == \A i \in 1..(Len(s) - 1) : s[i] < s[i + 1]
InsideKeyperSet(s, n) == \A i \in DOMAIN s : s[i] < n

(* signature i is a valid signature by the keyper named at position i over exactly the data
   the message carries now *)
(* the keyper set of the eon is the last one announced for it; HolderOf: which key holds an
   index of it (member number, or -1 for the account outside the original membership) *)
RECURSIVE LastAnnouncedFrom(_, _)
LastAnnouncedFrom(ann, i) ==
    IF i = 0 THEN "" ELSE IF ann[i] # "O" THEN ann[i] ELSE LastAnnouncedFrom(ann, i - 1)
LastAnnounced(c) == LastAnnouncedFrom(c.ann, Len(c.ann))    \* "" = the eon has no keyper set
KeyperSetKnown(c) == LastAnnounced(c) # ""
HolderOf(c, idx) == IF LastAnnounced(c) = "S" THEN idx ELSE idx - 1
SignedBy(c, i) == IF c.sigs[i].b = c.n THEN 0 - 1 ELSE c.sigs[i].b
Genuine(c, i) ==
    /\ c.sigs[i].k = "ok"
    /\ SignedBy(c, i) = HolderOf(c, c.signers[i])
    /\ c.sigs[i].o = c.mut

GenuineThreshold(c) ==
    /\ KeyperSetKnown(c)          \* no keyper set of the eon: no threshold, no members
    /\ Len(c.signers) = c.t
    /\ StrictlyIncreasing(c.signers)
    /\ InsideKeyperSet(c.signers, c.n)
    /\ Len(c.sigs) = Len(c.signers)
    /\ \A i \in DOMAIN c.sigs : Genuine(c, i)

NoSignersNoSignatures(c) == c.signers = <<>> /\ c.sigs = <<>>

(* the rule of the property statement *)
Admissible(c) ==
    IF c.f = "service" /\ NoSignersNoSignatures(c) THEN TRUE ELSE GenuineThreshold(c)

(* monitors over one observed verdict o = [r, w] of target tg.  The converse direction is only
   demanded of a node that can judge the message at all: it knows the eon's keyper set and (access
   node) the eon key. *)
CanJudge(c, tg) == KeyperSetKnown(c) /\ (tg = "access" => c.key # "none")
C06_OnlyIf(c, o)    == o.r = "accept" => Admissible(c)
C06_If(c, o, tg)    == (Admissible(c) /\ CanJudge(c, tg)) => o.r = "accept"
C06_NoPanic(c, o)   == o.r \notin {"panic", "hang"}

Failed(c, o, tg) ==
    (IF C06_OnlyIf(c, o) THEN {} ELSE {"C06_OnlyIf"}) \cup
    (IF C06_If(c, o, tg) THEN {} ELSE {"C06_If"}) \cup
    (IF C06_NoPanic(c, o) THEN {} ELSE {"C06_NoPanic"})

(* design-level statement checked by TLC on the code-shaped layer: every outcome the
   code-shaped operators allow satisfies the monitors *)
DesignHolds(c) ==
    /\ \A o \in Pipeline(c) : Failed(c, o, "keyper") = {}
    /\ KeyperSetKnown(c) => \A o \in ValidateSignatures(c) : Failed(c, o, "fn") = {}
    /\ c.f = "gnosis" => \A o \in AccessValidateMessage(c) : Failed(c, o, "access") = {}
    /\ \A ord \in {"code", "rev"} : \A o \in CombinedValidator(c, ord) : Failed(c, o, "assembly") = {}

=============================================================================
