----------------------------- MODULE KeyperGovMC -----------------------------
(***************************************************************************)
(* The composed system as a transition system: Runners keypers (each with  *)
(* its own projected database) + ONE shuttermint application + a main      *)
(* chain whose block number advances and on which keyper sets appear.      *)
(* Ops:  adv            the main chain advances by one block               *)
(*       set s          keyper set s (a bare config, valid or not) appears *)
(*                      on the main chain; every keyper's chain observer   *)
(*                      has written the row when its loop next runs        *)
(*       iter a bu cr   keyper a runs one loop iteration; bu messages get  *)
(*                      into the open shuttermint block before the node    *)
(*                      times out; cr: the process dies between the first  *)
(*                      accepted broadcast and the outbox delete (the next *)
(*                      iteration is a restarted process; a restart at any *)
(*                      other moment changes nothing that is modelled:     *)
(*                      everything is in the database)                     *)
(*       end            the open shuttermint block is closed (EndBlock,    *)
(*                      Commit); when Lag = 0 only blocks in which a       *)
(*                      transaction changed the application state are      *)
(*                      closed (any other block changes nothing a keyper   *)
(*                      can see)                                           *)
(* hist is hidden by the VIEW; EmitInv prints the first history reaching   *)
(* each distinct (state, ghost, last op).  The exploration is bounded by   *)
(* guards on the STATE (MaxMC, MaxSets, MaxH), never by Len(hist).         *)
(***************************************************************************)
EXTENDS KeyperGovProps, Json

CONSTANTS
    Runners,     \* addresses that run a keyper
    SetCands,    \* sequence of keyper sets that may appear on the main chain
    Budgets,     \* send budgets of an iteration
    Crashes,     \* TRUE: include the lost-reply iteration
    MaxMC, MaxSets, MaxH,
    Live,        \* keypers that are fair in SpecLive
    Emit

VARIABLES mc, gsets, app, chainEv, openEv, dirty, kp, g, smg, ln, bad5, kn, last, hist
core  == <<mc, gsets, app, chainEv, openEv, dirty, kp>>
book  == <<g, smg, ln, bad5, kn, last, hist>>
vars  == <<mc, gsets, app, chainEv, openEv, dirty, kp, g, smg, ln, bad5, kn, last, hist>>

NoSet == NoCfg
OpRec(o, a, bu, cr, s) == [op |-> o, a |-> a, budget |-> bu, crash |-> cr, set |-> s]

AlphabetSet ==
    {OpRec("adv", NoAddr, 0, FALSE, NoSet), OpRec("end", NoAddr, 0, FALSE, NoSet)} \cup
    {OpRec("set", NoAddr, 0, FALSE, SetCands[i]) : i \in DOMAIN SetCands} \cup
    {OpRec("iter", a, bu, FALSE, NoSet) : a \in Runners, bu \in Budgets} \cup
    (IF Crashes THEN {OpRec("iter", a, 1, TRUE, NoSet) : a \in Runners} ELSE {})

Alphabet == SetToSeq(AlphabetSet)

ASSUME PrintT(<<"ALPHABET", ToJson(Alphabet)>>)
ASSUME PrintT(<<"CONST", ToJson([addrs |-> SetToSeq(Addrs), keyord |-> KeyOrd, genesis |-> Genesis,
                                  delta |-> Delta, lag |-> Lag, maxmc |-> MaxMC, runners |-> SetToSeq(Runners)])>>)

NoLine == [k |-> "none"]

(* the effect of op o: new values of the core variables + the observed line + application calls *)
Eff(o) ==
    CASE o.op = "adv" ->
           [en |-> mc < MaxMC, mc |-> mc + 1, gsets |-> gsets, app |-> app, chainEv |-> chainEv,
            openEv |-> openEv, dirty |-> dirty, kp |-> kp, ln |-> [k |-> "adv", b |-> mc + 1], steps |-> <<>>]
      [] o.op = "set" ->
           [en |-> Len(gsets) < MaxSets /\ ~HasIdx(gsets, o.set.idx), mc |-> mc, gsets |-> Append(gsets, o.set),
            app |-> app, chainEv |-> chainEv, openEv |-> openEv, dirty |-> dirty, kp |-> kp,
            ln |-> [k |-> "set", set |-> o.set], steps |-> <<>>]
      [] o.op = "iter" ->
           LET r == Iter(kp[o.a], o.a, mc, app, chainEv, gsets, o.budget, o.crash) IN
           [en |-> TRUE, mc |-> mc, gsets |-> gsets, app |-> r.app, chainEv |-> chainEv,
            openEv |-> openEv \o r.evs, dirty |-> dirty \/ r.app # app, kp |-> [kp EXCEPT ![o.a] = r.kp],
            ln |-> r.ln, steps |-> r.steps]
      [] o.op = "end" ->
           LET c == CloseBlock(app) IN
           [en |-> (dirty \/ Lag > 0) /\ Len(chainEv) < MaxH, mc |-> mc, gsets |-> gsets, app |-> c.app,
            chainEv |-> Append(chainEv, openEv), openEv |-> <<>>, dirty |-> FALSE, kp |-> kp,
            ln |-> [k |-> "end", h |-> Len(chainEv) + 1, evs |-> openEv, started |-> c.started],
            steps |-> <<c.step>>]

Init ==
    /\ mc = 0 /\ gsets = <<>>
    /\ app = InitState
    /\ chainEv = <<>>
    /\ openEv = <<Bare(GenesisCfg)>>          \* BeginBlock(1) emits the genesis BatchConfig event
    /\ dirty = TRUE
    /\ kp = [a \in Runners |-> KpInit]
    /\ g = GGhostInit /\ smg = GhostInit
    /\ ln = NoLine /\ bad5 = {} /\ kn = {}
    /\ last = 0 /\ hist = <<>>

CoreStep(e) ==
    /\ e.en
    /\ mc' = e.mc /\ gsets' = e.gsets /\ app' = e.app /\ chainEv' = e.chainEv
    /\ openEv' = e.openEv /\ dirty' = e.dirty /\ kp' = e.kp

Step(i) ==
    LET e == Eff(Alphabet[i])
        f == FoldSteps([g |-> smg, bad |-> {}], e.steps)
    IN /\ CoreStep(e)
       /\ ln' = e.ln
       /\ g' = GGhostNext(g, e.ln)
       /\ smg' = f.g
       /\ bad5' = f.bad
       /\ kn' = GObs(g, e.ln)
       /\ last' = i
       /\ hist' = Append(hist, i)

Next == \E i \in DOMAIN Alphabet : Step(i)
Spec == Init /\ [][Next]_vars

(* G1 G2 G3 on every transition of the composed model (the ghost is the one BEFORE the step) *)
StepProps == [][GFailed(g, ln') = {}]_vars
(* G5 on the composed model *)
G5_Model == bad5 = {}

EmitInv == (~Emit) \/ PrintT(<<"B", hist>>)
(* histories on which an observation (GObs) shows at the spec level; some are replayed *)
EmitKnown == (~Emit) \/ kn = {} \/ PrintT(<<"K", hist>>)
View == <<mc, gsets, app, chainEv, openEv, dirty, kp, g, smg, last>>     \* one history per (state, last op)
ViewS == <<mc, gsets, app, chainEv, openEv, dirty, kp, g, smg>>          \* one history per state

----------------------------------------------------------------------------
(* G4: liveness of the composed model.  The bookkeeping variables are frozen so that the state
   space is finite without a state constraint. *)
LStep(o) == CoreStep(Eff(o)) /\ UNCHANGED book
LNext == \E i \in DOMAIN Alphabet : LStep(Alphabet[i])
FullIter(a) == LStep(OpRec("iter", a, BudgetAll, FALSE, NoSet))
Fair == /\ WF_core(LStep(OpRec("adv", NoAddr, 0, FALSE, NoSet)))
        /\ WF_core(LStep(OpRec("end", NoAddr, 0, FALSE, NoSet)))
        /\ \A a \in Live : WF_core(FullIter(a))
SpecLive == Init /\ [][LNext]_vars /\ Fair

AcceptedSet(s) == \E i \in DOMAIN app.configs : Bare(app.configs[i]) = s
StartedSet(s)  == \E i \in DOMAIN app.configs : Bare(app.configs[i]) = s /\ app.configs[i].started
PrevOf(s) == IF ~AcceptedSet(s) THEN app.configs[1]
             ELSE LET i == CHOOSE j \in DOMAIN app.configs : Bare(app.configs[j]) = s
                  IN app.configs[IF i > 1 THEN i - 1 ELSE 1]

G4_AcceptPremise(s) ==
    /\ InSeq(gsets, s)
    /\ s.idx = LastCfg(app).idx + 1
    /\ ValidSet(Bare(LastCfg(app)), s)
    /\ LiveQuorum(LastCfg(app), Live)
    /\ s.act - Delta <= MaxMC

EnvOK == EnvMonotone(gsets)

(* as stated: under the environment assumption (once a set with a lower activation than its
   predecessor is on the chain nothing is asserted any more) *)
G4_LiveAccept == \A i \in DOMAIN SetCands : G4_AcceptPremise(SetCands[i]) ~> (AcceptedSet(SetCands[i]) \/ ~EnvOK)
G4_LiveStart  == \A i \in DOMAIN SetCands :
                    (AcceptedSet(SetCands[i]) /\ LiveQuorum(PrevOf(SetCands[i]), Live) /\ SetCands[i].act < MaxMC)
                        ~> (StartedSet(SetCands[i]) \/ ~EnvOK)

(* sharper, without the environment assumption: an accepted config stays unstarted only if the
   keypers that are NOT mute (outbox head = a vote that can never be accepted, retried for ever
   because isRetrieable is constant TRUE) are fewer than the threshold.  G4_LiveStartAny is
   expected to be VIOLATED when SetCands contains a set activating before its predecessor. *)
StuckVote(a) == StuckHead(kp[a].outbox, LastCfg(app))
Unstuck == {a \in Live : ~StuckVote(a)}
G4_LiveStartSharp ==
    \A i \in DOMAIN SetCands :
        (AcceptedSet(SetCands[i]) /\ LiveQuorum(PrevOf(SetCands[i]), Live) /\ SetCands[i].act < MaxMC)
            ~> (StartedSet(SetCands[i]) \/ ~LiveQuorum(PrevOf(SetCands[i]), Unstuck))
G4_LiveStartAny ==
    \A i \in DOMAIN SetCands :
        (AcceptedSet(SetCands[i]) /\ LiveQuorum(PrevOf(SetCands[i]), Live) /\ SetCands[i].act < MaxMC)
            ~> StartedSet(SetCands[i])

=============================================================================
