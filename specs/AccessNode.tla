----------------------------- MODULE AccessNode -----------------------------
(***************************************************************************)
(* Code-shaped specification of the Gnosis access node                     *)
(* (rolling-shutter/gnosisaccessnode: node.go, storage.go,                 *)
(* decryptionkeyshandler.go) AS FOUND, as a state machine: the Storage is   *)
(* written by the two chain-sync handlers and read by the validator of the *)
(* decryptionKeys gossip topic.  One operator per Go function, the checks  *)
(* in the order of the code; every operator returns the verdict AND the    *)
(* reason class (first failing check).                                     *)
(*                                                                         *)
(*   node.go     onNewKeyperSet  -> OnNewKeyperSet  (no check at all;      *)
(*                                  int64(eon), int64(activation block),   *)
(*                                  int32(threshold) conversions)          *)
(*               onNewEonKey     -> OnNewEonKey     (key.Unmarshal, error  *)
(*                                  => log + return nil, nothing stored)   *)
(*   storage.go  AddKeyperSet / AddEonKey -> last write wins (plain map    *)
(*                                  assignment under a mutex), Get* = map  *)
(*                                  lookup by the uint64 eon               *)
(*   decryptionkeyshandler.go ValidateMessage = validateCommonFields then  *)
(*               validateGnosisFields (gnosis.ValidateDecryptionKeysBasic, *)
(*               keyper-set lookup, gnosis.ValidateDecryptionKeysSignatures*)
(*               = count, one signature per signer, validateSignerIndices, *)
(*               GetSubset, CheckSignature per signature)                  *)
(*               HandleMessage   -> returns no message                     *)
(*   p2p/messaging.go addValidatorImpl + GetCombinedValidator: the message *)
(*               is unmarshalled and p2pmsg Validate()d first (every key   *)
(*               must unmarshal), a Reject decides; Accept = libp2p        *)
(*               forwards the message to the node's mesh peers.            *)
(*                                                                         *)
(* Values are tokens (TLC integers are 32 bit; the concretiser             *)
(* harness/accessnode/universe.go maps them to real values):               *)
(*   eons      strings of AllEons; HugeEons are > MaxInt64                 *)
(*   members   "A" "B" two disjoint lists of N addresses, "E" empty list   *)
(*   threshold "t" (= T)  "0"  "w0" (2^32: int32 gives 0)                  *)
(*             "wt" (2^32 + T: int32 gives T)  "neg" (2^31: int32 < 0)     *)
(*   activation "lo", "hi" (>= 2^63: int64 < 0)                            *)
(*   eon key bytes  "KA" "KB" two genuine keys; "empty" "short" "badenc"   *)
(*             bytes that blst refuses to uncompress; "notg2" a curve      *)
(*             point outside the subgroup                                  *)
(* shlib's EonPublicKey.Unmarshal ignores the result of Uncompress: bytes   *)
(* that cannot be uncompressed leave the receiver at its zero value, the   *)
(* POINT AT INFINITY, which passes InG2 -- no error (KeyDecode =            *)
(* "asfound").  EpochSecretKey.Unmarshal has the same shape, and the       *)
(* G1 point at infinity verifies as the decryption key of EVERY identity   *)
(* under the infinity eon key.                                             *)
(*                                                                         *)
(* Named alternatives (default = the tree as found):                       *)
(*   StoreRule    "last" | "first"     AddKeyperSet                        *)
(*   KeyStoreRule "last" | "first"     AddEonKey                           *)
(*   MissRule     "reject" | "ignore"  verdict when the eon key / keyper   *)
(*                                     set of the message's eon is unknown *)
(*   KeyDecode    "asfound" | "strict" onNewEonKey refuses bytes that are  *)
(*                                     not the canonical encoding of a G2  *)
(*                                     point other than infinity           *)
(*   IntRule      "trunc" | "clamp"    onNewKeyperSet stores MaxInt32 for  *)
(*                                     a threshold that does not fit int32 *)
(*                                     (no message can meet it)            *)
(***************************************************************************)
EXTENDS Integers, Sequences, FiniteSets, TLC

CONSTANTS
    AllEons, HugeEons,
    N, T,              \* size of the member lists "A" and "B", the threshold "t"
    MaxKeys,           \* config.MaxNumKeysPerMessage
    StoreRule, KeyStoreRule, MissRule, KeyDecode, IntRule,
    EonOf, EmptyKey    \* chain-sync client alternatives (see the last section)

GoodKeys == {"KA", "KB"}
Lists == {"A", "B"}
HugeIdx == 9           \* signer index token for a value >= 2^63 (N is "just out of range")

NoSet == [mem |-> "-", thr |-> "-", act |-> "-", idx |-> "-"]
Slot0 == [set |-> NoSet, key |-> "-"]
Storage0 == [e \in AllEons |-> Slot0]     \* NewStorage(): two empty maps

KsEv(e, mem, thr, act) == [t |-> "ks", e |-> e, mem |-> mem, thr |-> thr, act |-> act, key |-> "-"]
EkEv(e, key) == [t |-> "ek", e |-> e, mem |-> "-", thr |-> "-", act |-> "-", key |-> key]

MinOf(S) == CHOOSE x \in S : \A y \in S : x <= y
R(v, w) == [v |-> v, w |-> w]

(* ------------------------------- node.go ------------------------------- *)
Thr32(thr) == IF IntRule = "clamp" /\ thr \in {"w0", "wt", "neg"} THEN "max"
              ELSE CASE thr = "w0" -> "0" [] thr = "wt" -> "t" [] OTHER -> thr   \* int32(keyperSet.Threshold)
Act64(act) == IF act = "hi" THEN "neg" ELSE act                               \* int64(keyperSet.ActivationBlock)

(* storage.go *)
AddKeyperSet(st, e, ks) ==
    IF StoreRule = "first" /\ st[e].set # NoSet THEN st ELSE [st EXCEPT ![e].set = ks]
AddEonKey(st, e, k) ==
    IF KeyStoreRule = "first" /\ st[e].key # "-" THEN st ELSE [st EXCEPT ![e].key = k]

OnNewKeyperSet(st, ev) ==
    [st  |-> AddKeyperSet(st, ev.e, [mem |-> ev.mem, thr |-> Thr32(ev.thr), act |-> Act64(ev.act), idx |-> "eq"]),
     out |-> "stored"]

(* key.Unmarshal(eonKey.Key) *)
DecodeKey(k) ==
    CASE k \in GoodKeys -> k
      [] k = "notg2"    -> "err"                                   \* "eon public key is not on curve"
      [] OTHER          -> IF KeyDecode = "asfound" THEN "INF" ELSE "err"

OnNewEonKey(st, ev) ==
    LET d == DecodeKey(ev.key) IN
    IF d = "err" THEN [st |-> st, out |-> "invalid"]               \* log "received invalid eon key", return nil
    ELSE [st |-> AddEonKey(st, ev.e, d), out |-> "stored"]

Apply(st, ev) == IF ev.t = "ks" THEN OnNewKeyperSet(st, ev) ELSE OnNewEonKey(st, ev)

(* ---------------------- decryptionkeyshandler.go ----------------------- *)
(* message m = [e, inst, keys, ord, idl, ex, slot, txp, signers, sigs]:
     keys     sequence of key tokens: "KA" / "KB" the genuine decryption key of the identity under
              that eon key, "forged" another G1 point, "inf" the canonical encoding of the G1 point
              at infinity, "garb" bytes blst refuses (=> infinity, see above), "notg1" a curve
              point outside the subgroup (the only bytes Unmarshal refuses)
     ord      "asc" | "eq" (two equal identities) | "desc" (the last identity is below its predecessor)
     idl      "ok" | "short" (identity preimages that are not 52 bytes: no SSZ root exists)
     ex       "gnosis" | "none" | "service"
     signers  sequence of index values (0..N-1 in range, N, HugeIdx)
     sigs     sequence of [by, who, over]: made with the key of list `by` ("A", "B"; "out" an
              outsider's key, "garb" no signature at all) at the LISTED index or at an "other"
              index, over the message's own data ("msg") or over data that differs in one field *)
Miss(w) == IF MissRule = "ignore" THEN R("ignore", w) ELSE R("reject", w)

MemSize(mem) == IF mem \in Lists THEN N ELSE 0
ThrVal(thr) == CASE thr = "t" -> T [] thr = "0" -> 0 [] OTHER -> 0 - 1        \* a negative int32 equals no length

KeyVerifies(kq, stkey) ==
    \/ kq \in GoodKeys /\ kq = stkey
    \/ kq \in {"inf", "garb"} /\ stkey = "INF"

(* the loop of validateCommonFields: key i is verified, then compared with identity i-1 *)
KeysLoop(m, stkey) ==
    LET badv == {i \in 1..Len(m.keys) : ~KeyVerifies(m.keys[i], stkey)}
        bado == IF m.ord = "desc" /\ Len(m.keys) >= 2 THEN {Len(m.keys)} ELSE {} IN
    IF badv \cup bado = {} THEN "ok"
    ELSE IF MinOf(badv \cup bado) \in badv THEN "keyinvalid" ELSE "unordered"

(* gnosis.validateSignerIndices: the first failing check of the loop *)
ValidateSignerIndices(s, n) ==
    LET bad == {i \in 1..Len(s) : (i >= 2 /\ s[i] <= s[i-1]) \/ s[i] >= n} IN
    IF bad = {} THEN "ok"
    ELSE LET i == MinOf(bad) IN
         IF i >= 2 /\ s[i] = s[i-1] THEN "dup"
         ELSE IF i >= 2 /\ s[i] < s[i-1] THEN "sunordered" ELSE "range"

SigOk(sg, mem) == sg.by = mem /\ sg.who = "listed" /\ sg.over = "msg"

(* gnosis.ValidateDecryptionKeysSignatures(keys, extra, keyperSet) *)
ValidateSignatures(m, set) ==
    IF Len(m.signers) # ThrVal(set.thr) THEN R("reject", "count")
    ELSE IF Len(m.sigs) # Len(m.signers) THEN R("reject", "siglen")
    ELSE LET vi == ValidateSignerIndices(m.signers, MemSize(set.mem)) IN
         IF vi # "ok" THEN R("reject", vi)
         ELSE IF \E i \in 1..Len(m.sigs) : m.idl # "ok" \/ ~SigOk(m.sigs[i], set.mem) THEN R("reject", "sig")
         ELSE R("accept", "")

(* DecryptionKeysHandler.ValidateMessage *)
HandlerValidate(st, m) ==
    IF m.inst # "ok" THEN R("reject", "instance")
    ELSE IF m.e \in HugeEons THEN R("reject", "eonoverflow")
    ELSE IF Len(m.keys) = 0 THEN R("reject", "nokeys")
    ELSE IF Len(m.keys) > MaxKeys THEN R("reject", "toomany")
    ELSE IF st[m.e].key = "-" THEN Miss("nokey")
    ELSE LET kl == KeysLoop(m, st[m.e].key) IN
         IF kl # "ok" THEN R("reject", kl)
         ELSE IF m.ex # "gnosis" THEN R("reject", "extratype")
         ELSE IF m.slot # "ok" THEN R("reject", "slot")
         ELSE IF m.txp # "ok" THEN R("reject", "txptr")
         ELSE IF st[m.e].set = NoSet THEN Miss("noset")
         ELSE ValidateSignatures(m, st[m.e].set)

(* what libp2p is given for the topic: p2p addValidatorImpl (UnmarshalPubsubMessage runs
   DecryptionKeys.Validate: every key must unmarshal) around the handler's validator; one
   validator on the topic, so the combined verdict is its verdict *)
CombinedValidate(st, m) ==
    IF \E i \in 1..Len(m.keys) : m.keys[i] = "notg1" THEN R("reject", "envelope")
    ELSE HandlerValidate(st, m)

(* HandleMessage returns (nil, nil): the node itself publishes nothing *)
Published(st, m) == 0

(* ------------- medley/chainsync as Start composes it with the node -------------- *)
(* What the REAL chain-sync client hands to the two handlers on a LINEAR chain (no reorg, no RPC
   fault -- those are the OpSync stage's business, specs/OpSync.tla).  A chain is the sequence of
   contract events, event i in block i; block 0 holds the genesis keyper set (index 0, no members,
   threshold 0, activation 0).
     [t |-> "add", mem, thr, act, idx |-> 0, key |-> "-"]   KeyperSetManager.addKeyperSet (index = number of sets so far)
     [t |-> "bc",  mem |-> "-", thr |-> "-", act |-> 0, idx, key]   KeyBroadcastContract.broadcastEonKey
   Client.Start = KeyperSetSyncer.Start (initial poll at the start block S: the set active at S and
   every later one, each through newEvent; then the subscription) followed by EonPubKeySyncer.Start
   (getInitialPubKeys: GetEonKey for the eons IndexByBlock(S) .. numKeyperSets-1 -- an eon WITHOUT
   key yields EMPTY bytes, no error -- then the subscription).  newEvent does not use the index of
   the event: it asks getKeyperSetIndexByBlock(activationBlock) at the block it reads (EonOf =
   "recompute"; "event" = named alternative).  EmptyKey "deliver" (as found) | "skip". *)
GenesisSet == [mem |-> "E", thr |-> "0", act |-> 0]
ChAdd(mem, thr, act) == [t |-> "add", mem |-> mem, thr |-> thr, act |-> act, idx |-> 0, key |-> "-"]
ChBc(idx, key) == [t |-> "bc", mem |-> "-", thr |-> "-", act |-> 0, idx |-> idx, key |-> key]
SetOf(c) == [mem |-> c.mem, thr |-> c.thr, act |-> c.act]
RECURSIVE SetsAt(_, _)
SetsAt(ch, b) == IF b = 0 THEN <<GenesisSet>>
                 ELSE IF ch[b].t = "add" THEN Append(SetsAt(ch, b - 1), SetOf(ch[b])) ELSE SetsAt(ch, b - 1)
KeyAt(ch, b, i) == LET bs == {x \in 1..b : ch[x].t = "bc" /\ ch[x].idx = i} IN
                   IF bs = {} THEN "empty" ELSE ch[MinOf(bs)].key
(* getKeyperSetIndexByBlock(n): the LAST set whose activation block is <= n *)
IndexByBlock(sets, n) == (CHOOSE i \in 1..Len(sets) : sets[i].act <= n /\ \A j \in (i + 1)..Len(sets) : sets[j].act > n) - 1
(* what the contracts accept as event of block Len(ch) + 1 *)
ChainAccepts(ch, c) ==
    LET sets == SetsAt(ch, Len(ch)) IN
    IF c.t = "add"
    THEN /\ ~\E i \in 1..Len(sets) : sets[i].mem = c.mem
         /\ c.act >= sets[Len(sets)].act /\ c.act >= Len(ch) + 2
    ELSE c.idx < Len(sets) /\ KeyAt(ch, Len(ch), c.idx) = "empty" /\ c.key # "empty"

EonTok(i) == "e" \o ToString(i)
(* KeyperSetSyncer.newEvent reading the contracts at block b, own = the set's real index *)
KsEvent(ch, b, set, own) ==
    KsEv(EonTok(IF EonOf = "recompute" THEN IndexByBlock(SetsAt(ch, b), set.act) ELSE own), set.mem, set.thr, ToString(set.act))
InitialKs(ch, S) ==
    LET sets == SetsAt(ch, S)
        i0 == IndexByBlock(sets, S) IN
    [k \in 1..(Len(sets) - i0) |-> KsEvent(ch, S, sets[i0 + k], i0 + k - 1)]
InitialEk(ch, S) ==
    LET sets == SetsAt(ch, S)
        i0 == IndexByBlock(sets, S)
        all == [k \in 1..(Len(sets) - i0) |-> EkEv(EonTok(i0 + k - 1), KeyAt(ch, S, i0 + k - 1))] IN
    IF EmptyKey = "skip" THEN SelectSeq(all, LAMBDA e : e.key # "empty") ELSE all
LogEvent(ch, b) ==
    IF ch[b].t = "add" THEN KsEvent(ch, b, SetOf(ch[b]), Len(SetsAt(ch, b)) - 1) ELSE EkEv(EonTok(ch[b].idx), ch[b].key)
(* the handler calls of a client started at block S on a chain that then grows to its full length *)
ClientEvents(ch, S) == InitialKs(ch, S) \o InitialEk(ch, S) \o [k \in 1..(Len(ch) - S) |-> LogEvent(ch, S + k)]
=============================================================================
