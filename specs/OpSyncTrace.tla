----------------------------- MODULE OpSyncTrace -----------------------------
(***************************************************************************)
(* Trace layer of the OpSync stage: validates ndjson traces recorded by    *)
(* harness/opsync from ONE world per behaviour: per client a fake node     *)
(* (harness/fakeeth: block tree, contract calls answered from the events   *)
(* on the branch, subscriptions whose notifications the harness pushes one *)
(* by one), the REAL chainsync.Client with its four syncers, the REAL      *)
(* optimism keyper handlers (newBlock, newKeyperSet) writing to a fakepg    *)
(* database, and the REAL KeyShareHandler service consuming the keyper's   *)
(* decryption trigger channel.                                             *)
(*                                                                         *)
(*   {"k":"new"}                                  a fresh world            *)
(*   {"k":"step","a":[a,c,p,et,ex,ey,s,f],"out":[{h,a,b,c,r}],            *)
(*    "cl":{up,S,pc,polled,subs},"db":{ks,eons,sh},"panic":"","hang":"",   *)
(*    "missing":false}      missing: the real world could not take the step *)
(*   {"k":"end"}            {"k":"crash","panic":..}  the replaying process *)
(*                          died                                           *)
(* The chain and the node's queues are INPUTS (the harness mines what the  *)
(* behaviour says and computes the notifications a go-ethereum node would  *)
(* produce); they are rebuilt here from the actions.  cl / db are the      *)
(* observed client status and database projection of client c after the    *)
(* step (for environment steps: absent, c = 0).                            *)
(*                                                                         *)
(* Deterministic fold, one TLC state per line.                             *)
(*   pass A  obsv : monitors of OpSyncProps that are false on the OBSERVED *)
(*                  calls / rows (reported as OBSERVATION, never as a      *)
(*                  verdict), O4_Panic / O4_Hang from the driver           *)
(*   pass B  drift: the observed line is not what ApplyAct of the          *)
(*                  code-shaped spec yields from the previously OBSERVED   *)
(*                  state, or the action was not possible there            *)
(***************************************************************************)
EXTENDS OpSyncProps, Json, SequencesExt

CONSTANT TraceFile
Trace == ndJsonDeserialize(TraceFile)

VARIABLES l, wo, g, obsv, drift
tvars == <<l, wo, g, obsv, drift>>

ToSetT(s) == {s[i] : i \in DOMAIN s}
ActOf(e) == Act(e[1], e[2], e[3], Ev(e[4], e[5], e[6]), e[7], e[8])
ObsCl(o) == [up |-> o.up, S |-> o.S, pc |-> o.pc, polled |-> o.polled, subs |-> ToSetT(o.subs)]
ObsDb(o) == [ks |-> ToSetT(o.ks), eons |-> ToSetT(o.eons), sh |-> ToSetT(o.sh)]

TInit == l = 1 /\ wo = World0 /\ g = Ghost0 /\ obsv = {} /\ drift = {}

TNext ==
    /\ l <= Len(Trace) /\ l' = l + 1
    /\ LET line == Trace[l] IN
       CASE line.k = "new" ->
              /\ wo' = World0 /\ g' = Ghost0
              /\ UNCHANGED <<obsv, drift>>
         [] line.k = "end" ->
              /\ obsv' = obsv \cup {<<l, m>> : m \in AllEndObs(g, wo)}
              /\ UNCHANGED <<wo, g, drift>>
         [] line.k = "crash" ->          \* the process replaying the behaviour died (a panic in a goroutine of the client)
              /\ obsv' = obsv \cup {<<l, "O4_Panic">>}
              /\ UNCHANGED <<wo, g, drift>>
         [] OTHER ->
              LET a   == ActOf(line.a)
                  can == CanApply(wo, a)
                  x   == IF can THEN ApplyAct(wo, a) ELSE Res(wo, <<>>)
                  w1  == IF a.c = 0 THEN x.w
                         ELSE [x.w EXCEPT !.cl[a.c] = ObsCl(line.cl), !.db[a.c] = ObsDb(line.db),
                                          (* a client that is observed down has no subscriptions left *)
                                          !.q[a.c] = IF line.cl.up THEN x.w.q[a.c] ELSE EmptyQ]
                  sf  == IF can THEN StepFold(g, wo, a, line.out, w1) ELSE [g |-> g, obs |-> {}]   \* monitors need the notification
                  same == a.c = 0 \/ (x.out = line.out /\ x.w.cl[a.c] = w1.cl[a.c] /\ x.w.db[a.c] = w1.db[a.c])
              IN
              /\ wo' = w1
              /\ g' = sf.g
              /\ obsv' = obsv \cup {<<l, m>> : m \in sf.obs \cup
                                   (IF line.panic = "" THEN {} ELSE {"O4_Panic"}) \cup
                                   (IF line.hang = "" THEN {} ELSE {"O4_Hang"})}
              /\ drift' = drift \cup (IF can /\ same /\ ~line.missing THEN {} ELSE {l})

TSpec == TInit /\ [][TNext]_tvars

Done == l <= Len(Trace) \/
        PrintT(<<"RESULT", ToJson([lines |-> Len(Trace), obsv |-> SetToSeq(obsv), drift |-> SetToSeq(drift)])>>)
=============================================================================
