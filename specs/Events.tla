------------------------------- MODULE Events -------------------------------
(***************************************************************************)
(* Code-shaped layer for C14: shuttermint events as the application        *)
(* encodes them (keyper/shutterevents/events.go  <T>.MakeABCIEvent,        *)
(* helpers.go newXPair, marshal.go encodeX) and as the keyper decodes them  *)
(* (events.go MakeEvent, makeT, expectAttributes; marshal.go decodeX).     *)
(*                                                                         *)
(* TLC has no string operations, so an attribute string is represented by  *)
(* its ABSTRACT SYNTAX: a record saying which grammar it belongs to (k),   *)
(* in which spelling (f: "canon" is the spelling the encoder produces, the *)
(* others are the decoder-side mutation classes) and which value token it  *)
(* spells (t) / which element strings it joins with "," (es).  The Go      *)
(* concretiser (harness/events/universe.go) renders a syntax record into   *)
(* the real string and abstracts real encoder output back into a record.   *)
(* Every decode* operator below says which spellings the real library call *)
(* accepts; pass B of EventsTrace compares that with the real code.        *)
(*                                                                         *)
(* Values are tokens: uint64 boundary tokens with an explicit order (TLC   *)
(* integers are 32 bit), address / key / curve point / byte string / big   *)
(* integer tokens whose concrete values are made by the concretiser.       *)
(***************************************************************************)
EXTENDS Naturals, Sequences, FiniteSets, TLC

None == "-"

(* ---- value tokens ---------------------------------------------------- *)
U64Seq == <<"Z0", "One", "MaxI64", "MaxI64p1", "MaxU64">>      \* 0, 1, 2^63-1, 2^63, 2^64-1
U64 == {U64Seq[i] : i \in DOMAIN U64Seq}
Rank(t) == CHOOSE i \in DOMAIN U64Seq : U64Seq[i] = t
Leq(a, b) == Rank(a) <= Rank(b)
HeightToks == {t \in U64 : Leq(t, "MaxI64")}                    \* MakeEvent's height is an int64

AddrToks == {"AZ", "AF", "K1", "K2", "K3"}      \* zero address, ff..ff, three key-derived addresses
Signable == {"K1", "K2", "K3"}                  \* addresses the harness holds a private key for
KeyToks == {"E1", "E2", "Ez"}                   \* secp256k1 keys; Ez has a leading zero byte in X
ValidPoints == {"Gen", "Inf", "P1", "P2", "NegGen"}   \* G2: generator, identity, two random, -generator
BadPoints == {"NotOnCurve", "NotInG2", "InfDirty", "NoCompFlag", "XGeP"}
BytesToks == {"e", "x", "y", "z0", "c"}         \* empty, two random, leading zero byte, bytes of ",0x,"
BigToks == {"b0", "b7", "bL", "bQ", "b256"}     \* 0, 7, 2^64+12345, BLS scalar order - 1, 256

Types == {"checkin", "batchconfig", "bcstarted", "eonstarted", "polycommit", "polyeval", "accusation", "apology"}

(* ---- decoded values (the Go structs of events.go), one record shape ---- *)
(*  checkin     CheckIn{Height h, Sender s, EncryptionPublicKey key}                                   *)
(*  batchconfig BatchConfig{Height h, Keypers as, ActivationBlockNumber act, Threshold thr,            *)
(*              KeyperConfigIndex idx}; Started/ValidatorsUpdated are not part of the event: the       *)
(*              application emits it only with both false and the decoder leaves them false            *)
(*  bcstarted   BatchConfigStarted{Height h, KeyperConfigIndex idx}                                    *)
(*  eonstarted  EonStarted{Height h, Eon eon, ActivationBlockNumber act, KeyperConfigIndex idx}        *)
(*  polycommit  PolyCommitment{Height h, Eon eon, Sender s, Gammas items}                              *)
(*  polyeval    PolyEval{Height h, Sender s, Eon eon, Receivers as, EncryptedEvals items}              *)
(*  accusation  Accusation{Height h, Eon eon, Sender s, Accused as}                                    *)
(*  apology     Apology{Height h, Eon eon, Sender s, Accusers as, PolyEval items}                      *)
Blank(type, h) == [type |-> type, h |-> h, s |-> None, eon |-> None, act |-> None, thr |-> None,
                   idx |-> None, as |-> <<>>, items |-> <<>>, key |-> None]
NoV == Blank(None, None)
OkR(v) == [res |-> "ok", v |-> v]
ErrR == [res |-> "err", v |-> NoV]

(* ---- abstract syntax of an ABCI event -------------------------------- *)
Leaf(k, f, t) == [k |-> k, f |-> f, t |-> t, es |-> <<>>]
List(k, f, es) == [k |-> k, f |-> f, t |-> None, es |-> es]
El(f, t) == [f |-> f, t |-> t]
EmptyEl == El("empty", None)                    \* the empty string as a list element
Key(n) == [f |-> "canon", t |-> n]
Attr(n, val) == [key |-> Key(n), val |-> val]
Ty(t) == [f |-> "canon", t |-> t]               \* "canon" of t is the constant evtype.<T>
Event(t, attrs) == [ty |-> Ty(t), attrs |-> attrs]
MapSeq(Op(_), s) == IF s = <<>> THEN <<>> ELSE [i \in 1..Len(s) |-> Op(s[i])]
CanonEl(t) == El("canon", t)

(* ---- marshal.go: encoders -------------------------------------------- *)
encodeUint64(n) == Leaf("num", "canon", n)                       \* strconv.FormatUint(val, 10)
SprintfD(n) == Leaf("num", "canon", n)                           \* fmt.Sprintf("%d", uint64): same text
encodeAddress(a) == Leaf("addr", "canon", a)                     \* a.Hex(): 0x + EIP-55 mixed case
encodeAddresses(as) == List("addrs", "canon", MapSeq(CanonEl, as))    \* strings.Join(Hex.., ","); "" if none
encodeByteSequence(bs) == List("bytes", "canon", MapSeq(CanonEl, bs)) \* strings.Join(hexutil.Encode.., ",")
encodeBigSequence(bs) == List("bigs", "canon", MapSeq(CanonEl, bs))   \* Apology: e.Bytes() then the same
encodeGammas(g) == List("gammas", "canon", MapSeq(CanonEl, g))        \* hex.EncodeToString(Compress()..)
encodeECIESPublicKey(k) == Leaf("key", "canon", k)               \* base64.RawURLEncoding(FromECDSAPub(key))

(* ---- helpers.go ------------------------------------------------------- *)
newAddressPair(key, a) == Attr(key, encodeAddress(a))
newAddressesPair(key, as) == Attr(key, encodeAddresses(as))
newByteSequencePair(key, bs) == Attr(key, encodeByteSequence(bs))
newUintPair(key, n) == Attr(key, encodeUint64(n))
newGammas(key, g) == Attr(key, encodeGammas(g))

(* ---- events.go: <T>.MakeABCIEvent ------------------------------------- *)
MakeABCI_Accusation(v) ==
    Event("accusation", <<newAddressPair("Sender", v.s), newUintPair("Eon", v.eon),
                          newAddressesPair("Accused", v.as)>>)
MakeABCI_Apology(v) ==
    Event("apology", <<newAddressPair("Sender", v.s), newUintPair("Eon", v.eon),
                       newAddressesPair("Accusers", v.as), Attr("PolyEvals", encodeBigSequence(v.items))>>)
MakeABCI_BatchConfig(v) ==
    Event("batchconfig", <<Attr("ActivationBlockNumber", SprintfD(v.act)), Attr("Threshold", SprintfD(v.thr)),
                           Attr("Keypers", encodeAddresses(v.as)), Attr("ConfigIndex", SprintfD(v.idx))>>)
MakeABCI_BatchConfigStarted(v) ==
    Event("bcstarted", <<Attr("ConfigIndex", SprintfD(v.idx))>>)
MakeABCI_CheckIn(v) ==
    Event("checkin", <<newAddressPair("Sender", v.s), Attr("EncryptionPublicKey", encodeECIESPublicKey(v.key))>>)
MakeABCI_EonStarted(v) ==
    Event("eonstarted", <<newUintPair("Eon", v.eon), newUintPair("ActivationBlockNumber", v.act),
                          newUintPair("KeyperConfigIndex", v.idx)>>)
MakeABCI_PolyCommitment(v) ==
    Event("polycommit", <<newAddressPair("Sender", v.s), newUintPair("Eon", v.eon), newGammas("Gammas", v.items)>>)
MakeABCI_PolyEval(v) ==
    Event("polyeval", <<newAddressPair("Sender", v.s), newUintPair("Eon", v.eon),
                        newAddressesPair("Receivers", v.as), newByteSequencePair("EncryptedEvals", v.items)>>)

MakeABCIEvent(v) ==
    CASE v.type = "accusation"  -> MakeABCI_Accusation(v)
      [] v.type = "apology"     -> MakeABCI_Apology(v)
      [] v.type = "batchconfig" -> MakeABCI_BatchConfig(v)
      [] v.type = "bcstarted"   -> MakeABCI_BatchConfigStarted(v)
      [] v.type = "checkin"     -> MakeABCI_CheckIn(v)
      [] v.type = "eonstarted"  -> MakeABCI_EonStarted(v)
      [] v.type = "polycommit"  -> MakeABCI_PolyCommitment(v)
      [] v.type = "polyeval"    -> MakeABCI_PolyEval(v)

(* ---- marshal.go: decoders ---------------------------------------------- *)
(* Each returns [ok, x]; x is only meaningful when ok.  A value of another   *)
(* grammar kind never reaches a decoder in the generated cases (the          *)
(* positional key check comes first); it is treated as an error.             *)
DOk(x) == [ok |-> TRUE, x |-> x]
DErr == [ok |-> FALSE, x |-> None]

(* strconv.ParseUint(val, 10, 64): decimal digits only (leading zeros are    *)
(* fine), no sign, no space, no underscore, value <= 2^64-1                  *)
decodeUint64(val) ==
    IF val.k = "num" /\ val.f \in {"canon", "leadzero"} THEN DOk(val.t) ELSE DErr

(* a := common.HexToAddress(s); a.Hex() != s -> error: only the exact EIP-55 spelling survives *)
decodeAddress(val) ==
    IF val.k = "addr" /\ val.f = "canon" THEN DOk(val.t) ELSE DErr

(* the text of a list is "" iff it has no element or its only element is the empty string *)
TextEmpty(val) == val.es = <<>> \/ val.es = <<EmptyEl>>
Toks(es) == MapSeq(LAMBDA e : e.t, es)

(* common.IsHexAddress: optional 0x/0X, exactly 40 hex digits of any case *)
IsHexAddressForm(f) == f \in {"canon", "lower", "upper", "noprefix", "prefixX", "badsum"}
decodeAddresses(val) ==
    IF val.k # "addrs" THEN DErr
    ELSE IF TextEmpty(val) THEN DOk(<<>>)                                   \* if s == "" { return res, nil }
    ELSE IF \E i \in DOMAIN val.es : ~IsHexAddressForm(val.es[i].f) THEN DErr   \* strings.Split(s, ",") ...
    ELSE DOk(Toks(val.es))

(* hexutil.Decode: "" -> ErrEmptyString, needs 0x/0X, even number of hex digits of any case *)
HexutilOkForm(f) == f \in {"canon", "upper", "prefixX", "padzero"}
decodeByteSequence(val) ==
    IF val.k \notin {"bytes", "bigs"} THEN DErr
    ELSE IF TextEmpty(val) THEN DOk(<<>>)
    ELSE IF \E i \in DOMAIN val.es : ~HexutilOkForm(val.es[i].f) THEN DErr
    ELSE DOk(Toks(val.es))       \* "padzero" (only generated for k = "bigs") is 0x00 || canonical bytes

(* hex.DecodeString (no prefix, any case, even length), then Gammas.Unmarshal: *)
(* length multiple of 96, every chunk Uncompress != nil and InG2               *)
decodeGammas(val) ==
    IF val.k # "gammas" THEN DErr
    ELSE IF val.f \notin {"canon", "upper"} THEN DErr      \* prefix0x, odd, nonhex: hex error; short, long: length error
    ELSE IF \E i \in DOMAIN val.es : val.es[i].t \notin ValidPoints THEN DErr
    ELSE DOk(Toks(val.es))

(* base64.RawURLEncoding.DecodeString (not strict: ignores \r \n, accepts non-zero  *)
(* trailing bits; rejects '=', '+', '/'), then crypto.UnmarshalPubkey (65 bytes,    *)
(* 0x04 prefix, on the curve)                                                        *)
decodeECIESPublicKey(val) ==
    IF val.k = "key" /\ val.f \in {"canon", "trailbits", "newline"} THEN DOk(val.t) ELSE DErr

(* ---- events.go: expectAttributes and make<T> --------------------------- *)
expectAttributes(ev, names) ==
    /\ Len(ev.attrs) >= Len(names)
    /\ \A i \in DOMAIN names : ev.attrs[i].key = Key(names[i])

makeAccusation(ev, h) ==
    IF ~expectAttributes(ev, <<"Sender", "Eon", "Accused">>) THEN ErrR
    ELSE LET sender == decodeAddress(ev.attrs[1].val)
             eon == decodeUint64(ev.attrs[2].val)
             accused == decodeAddresses(ev.attrs[3].val)
         IN IF ~sender.ok \/ ~eon.ok \/ ~accused.ok THEN ErrR
            ELSE OkR([Blank("accusation", h) EXCEPT !.s = sender.x, !.eon = eon.x, !.as = accused.x])

makeApology(ev, h) ==
    IF ~expectAttributes(ev, <<"Sender", "Eon", "Accusers", "PolyEvals">>) THEN ErrR
    ELSE LET sender == decodeAddress(ev.attrs[1].val)
             eon == decodeUint64(ev.attrs[2].val)
             accusers == decodeAddresses(ev.attrs[3].val)
             polyEvalBytes == decodeByteSequence(ev.attrs[4].val)     \* then big.Int.SetBytes per element
         IN IF ~sender.ok \/ ~eon.ok \/ ~accusers.ok \/ ~polyEvalBytes.ok THEN ErrR
            ELSE OkR([Blank("apology", h) EXCEPT !.s = sender.x, !.eon = eon.x, !.as = accusers.x,
                                                 !.items = polyEvalBytes.x])

makeBatchConfig(ev, h) ==
    IF ~expectAttributes(ev, <<"ActivationBlockNumber", "Threshold", "Keypers", "ConfigIndex">>) THEN ErrR
    ELSE LET act == decodeUint64(ev.attrs[1].val)
             thr == decodeUint64(ev.attrs[2].val)
             keypers == decodeAddresses(ev.attrs[3].val)
             idx == decodeUint64(ev.attrs[4].val)
         IN IF ~act.ok \/ ~thr.ok \/ ~keypers.ok \/ ~idx.ok THEN ErrR
            ELSE OkR([Blank("batchconfig", h) EXCEPT !.act = act.x, !.thr = thr.x, !.as = keypers.x, !.idx = idx.x])

makeBatchConfigStarted(ev, h) ==
    IF ~expectAttributes(ev, <<"ConfigIndex">>) THEN ErrR
    ELSE LET idx == decodeUint64(ev.attrs[1].val)
         IN IF ~idx.ok THEN ErrR ELSE OkR([Blank("bcstarted", h) EXCEPT !.idx = idx.x])

makeCheckIn(ev, h) ==
    IF ~expectAttributes(ev, <<"Sender", "EncryptionPublicKey">>) THEN ErrR
    ELSE LET sender == decodeAddress(ev.attrs[1].val)
             publicKey == decodeECIESPublicKey(ev.attrs[2].val)
         IN IF ~sender.ok \/ ~publicKey.ok THEN ErrR
            ELSE OkR([Blank("checkin", h) EXCEPT !.s = sender.x, !.key = publicKey.x])

makeEonStarted(ev, h) ==
    IF ~expectAttributes(ev, <<"Eon", "ActivationBlockNumber", "KeyperConfigIndex">>) THEN ErrR
    ELSE LET eon == decodeUint64(ev.attrs[1].val)
             act == decodeUint64(ev.attrs[2].val)
             idx == decodeUint64(ev.attrs[3].val)
         IN IF ~eon.ok \/ ~act.ok \/ ~idx.ok THEN ErrR
            ELSE OkR([Blank("eonstarted", h) EXCEPT !.eon = eon.x, !.act = act.x, !.idx = idx.x])

makePolyCommitment(ev, h) ==
    IF ~expectAttributes(ev, <<"Sender", "Eon", "Gammas">>) THEN ErrR
    ELSE LET sender == decodeAddress(ev.attrs[1].val)
             eon == decodeUint64(ev.attrs[2].val)
             gammas == decodeGammas(ev.attrs[3].val)
         IN IF ~sender.ok \/ ~eon.ok \/ ~gammas.ok THEN ErrR
            ELSE OkR([Blank("polycommit", h) EXCEPT !.s = sender.x, !.eon = eon.x, !.items = gammas.x])

makePolyEval(ev, h) ==
    IF ~expectAttributes(ev, <<"Sender", "Eon", "Receivers", "EncryptedEvals">>) THEN ErrR
    ELSE LET sender == decodeAddress(ev.attrs[1].val)
             eon == decodeUint64(ev.attrs[2].val)
             receivers == decodeAddresses(ev.attrs[3].val)
             encryptedEvals == decodeByteSequence(ev.attrs[4].val)
         IN IF ~sender.ok \/ ~eon.ok \/ ~receivers.ok \/ ~encryptedEvals.ok THEN ErrR
            ELSE OkR([Blank("polyeval", h) EXCEPT !.s = sender.x, !.eon = eon.x, !.as = receivers.x,
                                                  !.items = encryptedEvals.x])

(* MakeEvent: switch ev.Type { ... default: error }.  A type string in any other *)
(* spelling than the evtype constant matches no case.                             *)
MakeEvent(ev, h) ==
    IF ev.ty.f # "canon" THEN ErrR
    ELSE CASE ev.ty.t = "checkin"     -> makeCheckIn(ev, h)
           [] ev.ty.t = "batchconfig" -> makeBatchConfig(ev, h)
           [] ev.ty.t = "bcstarted"   -> makeBatchConfigStarted(ev, h)
           [] ev.ty.t = "eonstarted"  -> makeEonStarted(ev, h)
           [] ev.ty.t = "polycommit"  -> makePolyCommitment(ev, h)
           [] ev.ty.t = "polyeval"    -> makePolyEval(ev, h)
           [] ev.ty.t = "accusation"  -> makeAccusation(ev, h)
           [] ev.ty.t = "apology"     -> makeApology(ev, h)
           [] OTHER -> ErrR

(* smobserver/smdriver.go makeEvents: malformed events are logged and skipped *)
makeEvents(h, evs) ==
    LET R(i) == MakeEvent(evs[i], h)
        F[i \in 0..Len(evs)] == IF i = 0 THEN <<>> ELSE IF R(i).res = "ok" THEN Append(F[i-1], R(i).v) ELSE F[i-1]
    IN F[Len(evs)]

(* ---- app/app.go: which events a short block-1 scenario emits ------------- *)
(* Used only for the cross-check that drives the real app.ShutterApp.  A      *)
(* scenario is genesis (keyper list, threshold 1, InitialEon = eon - 1) plus  *)
(* steps executed in block 1; expect is the sequence of events of all steps.  *)
BC(act, thr, as, idx) == [Blank("batchconfig", "One") EXCEPT !.act = act, !.thr = thr, !.as = as, !.idx = idx]
ES(eon, act, idx) == [Blank("eonstarted", "One") EXCEPT !.eon = eon, !.act = act, !.idx = idx]
BCS(idx) == [Blank("bcstarted", "One") EXCEPT !.idx = idx]
GenesisBC(keypers) == BC("Z0", "One", keypers, "Z0")          \* BeginBlock at height 1 emits Configs[0]
Step(op, s, v) == [op |-> op, s |-> s, v |-> v]
Begin == Step("begin", None, NoV)
End == Step("end", None, NoV)
Seen(s, b) == Step("seen", s, [Blank("seen", "One") EXCEPT !.act = b])
DkgFailed(s, e) == Step("dkgres", s, [Blank("dkgres", "One") EXCEPT !.eon = e])     \* DKGResult{Eon e, Success false}
HasPred(t) == t \in {"Z0", "One", "MaxI64p1"}                                        \* eon - 1 is a token (0 - 1 wraps)
Pred(t) == CASE t = "One" -> "Z0" [] t = "MaxI64p1" -> "MaxI64" [] t = "Z0" -> "MaxU64"
Scen(keypers, eon, steps, expect) == [ok |-> TRUE, keypers |-> keypers, eon |-> eon, steps |-> steps, expect |-> expect]
NoScen == [ok |-> FALSE, keypers |-> <<>>, eon |-> None, steps |-> <<>>, expect |-> <<>>]
Distinct(s) == \A i, j \in DOMAIN s : i # j => s[i] # s[j]
InSeq(x, s) == \E i \in DOMAIN s : s[i] = x

AppScenario(v) ==
    IF v.h # "One" THEN NoScen
    ELSE CASE v.type = "checkin" /\ v.s \in Signable ->
                Scen(<<v.s>>, "One", <<Begin, Step("checkin", v.s, v)>>, <<GenesisBC(<<v.s>>), v>>)
      [] v.type = "batchconfig" /\ v.act = "Z0" /\ v.idx = "Z0" /\ v.thr = "One" /\ Len(v.as) >= 1 ->
                Scen(v.as, "One", <<Begin>>, <<v>>)
      [] v.type = "batchconfig" /\ v.idx # "Z0" /\ v.thr = "One" /\ Len(v.as) >= 1 /\ Distinct(v.as) ->
                (* deliverBatchConfig: vote of the only genesis keyper reaches threshold 1: BatchConfig, EonStarted *)
                Scen(<<"K1">>, "One", <<Begin, Step("vote", "K1", v)>>,
                     <<GenesisBC(<<"K1">>), v, ES("One", v.act, v.idx)>>)
      [] v.type = "eonstarted" /\ v.idx # "Z0" /\ HasPred(v.eon) ->
                (* deliverDKGResult: the failure vote of the only keyper restarts the DKG: EONCounter++ *)
                LET bc == BC(v.act, "One", <<"K1">>, v.idx) IN
                Scen(<<"K1">>, Pred(v.eon), <<Begin, Step("vote", "K1", bc), DkgFailed("K1", Pred(v.eon))>>,
                     <<GenesisBC(<<"K1">>), bc, ES(Pred(v.eon), v.act, v.idx), v>>)
      [] v.type = "eonstarted" /\ v.idx # "Z0" ->
                LET bc == BC(v.act, "One", <<"K1">>, v.idx) IN
                Scen(<<"K1">>, v.eon, <<Begin, Step("vote", "K1", bc)>>, <<GenesisBC(<<"K1">>), bc, v>>)
      [] v.type = "bcstarted" /\ v.idx = "Z0" ->
                (* EndBlock: config 0 starts once its own keypers reported a block >= 0; deliverBlockSeen only records reports > 0 *)
                Scen(<<"K1">>, "One", <<Begin, Seen("K1", "One"), End>>, <<GenesisBC(<<"K1">>), v>>)
      [] v.type = "bcstarted" /\ v.idx # "Z0" ->
                LET bc == BC("Z0", "One", <<"K1">>, v.idx) IN
                Scen(<<"K1">>, "One", <<Begin, Step("vote", "K1", bc), Seen("K1", "One"), End>>,
                     <<GenesisBC(<<"K1">>), bc, ES("One", "Z0", v.idx), BCS("Z0"), v>>)
      [] /\ v.type \in {"polycommit", "polyeval", "accusation", "apology"}
         /\ v.s \in Signable /\ Distinct(v.as) /\ ~InSeq(v.s, v.as)
         /\ (v.type \in {"polyeval", "apology"} => Len(v.as) = Len(v.items)) ->
                LET bc == BC("Z0", "One", <<v.s>> \o v.as, "One") IN
                Scen(<<v.s>>, v.eon, <<Begin, Step("vote", v.s, bc), Step("msg", v.s, v)>>,
                     <<GenesisBC(<<v.s>>), bc, ES(v.eon, "Z0", "One"), v>>)
      [] OTHER -> NoScen

=============================================================================
