------------------------------- MODULE EonPubMC -------------------------------
(***************************************************************************)
(* C20, second stage -- EonPub as a transition system: hand-overs          *)
(* (Publish, by the keyper core) interleaved in every way with the steps   *)
(* of the publisher routine (start-up attempt, take, attempt start,        *)
(* attempt end ok / fail, retry).  The publisher is busy for an arbitrary  *)
(* time between two of its steps: any number of hand-overs may happen      *)
(* there.  TLC checks the property layer on every transition and prints    *)
(* one history per distinct (state, last step); the harness replays each   *)
(* history as a gated schedule on the real EonKeyPublisher and then lets   *)
(* it run freely until it rests (fairness of the publisher).               *)
(***************************************************************************)
EXTENDS EonPubProps, Json, TLC, SequencesExt

CONSTANTS MaxFails, Emit

VARIABLES p, g, line, nf, hist
vars == <<p, g, line, nf, hist>>

Line(k, key, ret, res) == [k |-> k, key |-> key, ret |-> ret, res |-> res, wf |-> TRUE, panic |-> ""]
Op(k, key, res) == [k |-> k, key |-> key, res |-> res]

Init ==
    /\ p = PInit /\ g = GhostInit /\ nf = 0 /\ hist = <<>>
    /\ line = Line("new", 0, TRUE, "")

Step(p1, ln, op, f) ==
    /\ p' = p1 /\ line' = ln /\ g' = GhostNext(g, ln)
    /\ hist' = Append(hist, op) /\ nf' = nf + f

DoPublish(k) ==
    /\ k \in NewKeys /\ ~InSeq(g.handed, k) /\ CanPublish(p)
    /\ Step(Publish(p, k), Line("publish", k, TRUE, ""), Op("publish", k, ""), 0)
DoStartOld ==
    /\ CanStartOld(p)
    /\ Step(StartOld(p), Line("astart", Head(p.old), TRUE, ""), Op("astart", Head(p.old), ""), 0)
DoTake ==
    /\ CanTake(p)
    /\ Step(Take(p), Line("takes", 0, TRUE, ""), Op("takes", 0, ""), 0)
DoStart ==
    /\ CanStart(p)
    /\ Step(Start(p), Line("astart", p.cur, TRUE, ""), Op("astart", p.cur, ""), 0)
DoEnd(res) ==
    /\ CanEnd(p)
    /\ res = "fail" => nf < MaxFails
    /\ Step(End(p, res), Line("aend", p.cur, TRUE, res), Op("aend", p.cur, res), IF res = "fail" THEN 1 ELSE 0)

Next == (\E k \in KeyIds : DoPublish(k)) \/ DoStartOld \/ DoTake \/ DoStart \/ (\E res \in {"ok", "fail"} : DoEnd(res))
Fair == WF_vars(DoStartOld \/ DoTake \/ DoStart \/ (\E res \in {"ok", "fail"} : DoEnd(res)))
Spec == Init /\ [][Next]_vars /\ Fair

\* property layer on every transition, and at rest
StepProps == [][Failed(g, line') = {}]_vars
RestInv == Quiescent(p) => Failed(g, Line("end", 0, TRUE, "")) = {}
\* under fairness of the publisher every handed-over key the keyper is responsible for is attempted
Live == \A k \in NewKeys : (InSeq(g.handed, k) /\ KeyTab[k].resp) ~> InSeq(g.started, k)

EmitInv == (~Emit) \/ PrintT(<<"B", ToJson([ops |-> hist])>>)
GenView == <<p, g, line, nf>>
=============================================================================
