--------------------------- MODULE ChainSyncProps ---------------------------
(***************************************************************************)
(* Property layer of C15, over observed data only: the block tree and the  *)
(* canonical head the (fake) node served, the first block the syncer is    *)
(* configured to sync, and the committed database states                   *)
(*   st = [synced |-> [has, num, hash], stored |-> set of [key, num, bid]] *)
(* (hash / bid = id of the tree block with that hash, 0 = empty hash,      *)
(* negative = a hash that is not in the tree).                             *)
(***************************************************************************)
EXTENDS ChainSync

(* the recorded position (number AND hash) is a block of the canonical chain *)
OnCanon(blk, canon, sy) ==
    sy.has /\ Valid(blk, sy.hash) /\ NumOf(blk, sy.hash) = sy.num /\ IsAnc(blk, sy.hash, canon)

(* the rows a key-upserting table holds for a set of events: the last event per key *)
Latest(rows) == {r \in rows : \A q \in rows : q.key = r.key => q.num <= r.num}

(* the canonical chain's admissible events from the sync start up to block number n *)
CanonEvents(blk, canon, first, n) == Latest(EventsIn(blk, canon, first, n))

(* C15, first sentence *)
C15_Exact(blk, canon, first, st) ==
    OnCanon(blk, canon, st.synced) => st.stored = CanonEvents(blk, canon, first, st.synced.num)

(* none duplicated: rows is the table as a sequence *)
C15_NoDup(rows) == \A i, j \in DOMAIN rows : rows[i].key = rows[j].key => i = j

(* C15, second sentence, for two consecutive committed states a, b:
   the position never moves without the matching events stored in the same atomic step *)
C15_Atomic(blk, first, a, b) ==
    a.synced = b.synced \/
    LET sa == a.synced
        sb == b.synced
        lo == IF sa.has THEN sa.num + 1 ELSE first
    IN \/ (* forward, to a block X: the events of X's chain in (old, new] arrive with it *)
          /\ sb.has /\ Valid(blk, sb.hash) /\ NumOf(blk, sb.hash) = sb.num
          /\ sb.num >= lo
          /\ {r \in b.stored : r.num >= lo} = Latest(EventsIn(blk, sb.hash, lo, sb.num))
          /\ {r \in b.stored : r.num < lo} \subseteq a.stored
       \/ (* backward (rollback): everything above the new position leaves with it *)
          /\ sa.has /\ sb.has /\ sb.num < sa.num /\ sb.hash = Empty
          /\ b.stored = {r \in a.stored : r.num <= sb.num}

(* monitors of one observed Sync call: states = <<pre, committed states...>> *)
C15_Failed(blk, canon, first, states) ==
    (IF \A i \in DOMAIN states : C15_Exact(blk, canon, first, states[i]) THEN {} ELSE {"C15_Exact"}) \cup
    (IF \A i \in 1..(Len(states) - 1) : C15_Atomic(blk, first, states[i], states[i + 1]) THEN {} ELSE {"C15_Atomic"})

=============================================================================
