------------------------ MODULE ServiceTriggerTrace ------------------------
(***************************************************************************)
(* Trace layer for C02: validates ndjson traces recorded by                *)
(* harness/service from the real shutterservice.Keyper,                    *)
(* epochkghandler.KeyShareHandler, service MessagingMiddleware and         *)
(* DecryptionKeysHandler over the Postgres fake.  The trace is a           *)
(* depth-first walk of the trie of TLC-generated behaviours:               *)
(*   init  new universe (static scenario u as configured AND as read back  *)
(*         from the keyper-set tables), observed initial tables            *)
(*   op    one op executed from the node on top of the stack: op, emitted  *)
(*         triggers with the share message of each, panic/error text,      *)
(*         projected tables after the op                                   *)
(*   pop   return to depth d (database snapshot restored by the driver)    *)
(* pass A  viol : <<line, monitor>> for every C02 monitor that is false on *)
(*                the OBSERVED step (pre tables, op, emitted triggers)     *)
(* pass B  drift: lines whose observed result is not the result of the     *)
(*                code-shaped operators applied to the observed pre-state  *)
(***************************************************************************)
EXTENDS ServiceTrigger, Json

CONSTANT TraceFile
Trace == ndJsonDeserialize(TraceFile)

VARIABLES l, u, stack, viol, drift
tvars == <<l, u, stack, viol, drift>>

(* tables are logged as sorted lists; the spec keeps them as sets *)
ObsSt(s) == [s EXCEPT !.eons = SeqToSet(s.eons), !.dkg = SeqToSet(s.dkg), !.shared = SeqToSet(s.shared)]
Strip(o) == [blk |-> o.blk, ids |-> o.ids, msg |-> o.msg]

(* the HTTP status the gate must answer with *)
ManualCode(op) == IF op.k # "manual" THEN 0 ELSE IF WriteEnabled(u) THEN 200 ELSE 403

StepViol(line, top) ==
    (IF line.panic # "" THEN {"C02_NoPanic"} ELSE {}) \cup
    (IF \E k \in DOMAIN line.out : ~line.out[k].sorted THEN {"C02_Sorted"} ELSE {}) \cup
    Failed(u, top.gh, top.st, line.op, [k \in DOMAIN line.out |-> Strip(line.out[k])])

SpecAllows(line, top) ==
    /\ line.panic = "" /\ line.err = ""
    /\ line.code = ManualCode(line.op)
    /\ Enabled(u, top.st, line.op)
    /\ LET r == Apply(u, top.st, line.op) IN
       /\ r.st = ObsSt(line.st)
       /\ Len(r.out) = Len(line.out)
       /\ SeqToSet(r.out) = {Strip(line.out[k]) : k \in DOMAIN line.out}

TInit == l = 1 /\ u = [member |-> <<>>] /\ stack = <<>> /\ viol = {} /\ drift = {}

TNext ==
    /\ l <= Len(Trace)
    /\ l' = l + 1
    /\ LET line == Trace[l] IN
       CASE line.k = "init" ->
              /\ u' = line.u
              /\ stack' = <<[st |-> ObsSt(line.st), gh |-> GhostInit]>>
              /\ drift' = drift \cup (IF ObsSt(line.st) = InitSt /\ line.u.wd = WriteEnabledByDefault THEN {} ELSE {l})
              (* manual_enabled_by_default: the configuration parsed through the repository's real
                 config machinery from a file with HTTPEnabled = true and no HTTPReadOnly key *)
              /\ viol' = viol \cup (IF line.u.wd THEN {<<l, "C02_ManualGated">>} ELSE {})
         [] line.k = "pop" ->
              /\ stack' = SubSeq(stack, 1, line.d + 1)
              /\ UNCHANGED <<u, viol, drift>>
         [] OTHER ->
              LET top == stack[Len(stack)] IN
              /\ viol' = viol \cup {<<l, m>> : m \in StepViol(line, top)}
              /\ drift' = drift \cup (IF SpecAllows(line, top) THEN {} ELSE {l})
              /\ stack' = Append(stack, [st |-> ObsSt(line.st), gh |-> GhostNext(top.gh, line.op)])
              /\ UNCHANGED u

TSpec == TInit /\ [][TNext]_tvars
Done == l <= Len(Trace) \/
        PrintT(<<"RESULT", ToJson([lines |-> Len(Trace), viol |-> SetToSeq(viol), drift |-> SetToSeq(drift)])>>)
=============================================================================
