------------------------------ MODULE SMConst_shrink ------------------------------
(* shrinking keyper set: genesis set {a1,a2} threshold 1, next set {a1} (a STRICT SUBSET with the same
   validator keys), fork disabled. Inside a bound of eight ops: a block report starts the genesis set, both genesis keypers check in and take
   over from the genesis validator, the smaller set is voted in, started and reaches its check-in
   quorum, so the validator-set change at that EndBlock is a PURE REMOVAL (no added or changed key). *)
cAddrs == {"a1", "a2"}
cKeyOrd == <<"v1", "none", "v3", "v9">>
cGenesis == [keypers |-> <<"a1", "a2">>, thr |-> 1, eon0 |-> 0,
             vals |-> [k \in {"v1", "none", "v3", "v9"} |-> IF k = "v9" THEN 10 ELSE 0],
             forkOn |-> FALSE, forkH |-> 0, dev |-> FALSE, legacy |-> FALSE]
cCands == << [keypers |-> <<"a1">>, thr |-> 1, act |-> 1, idx |-> 1] >>
cSeenBlocks == {1}
cCheckKeys == {"v1", "v3"}
cEons == {1}
=============================================================================
