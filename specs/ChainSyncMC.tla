----------------------------- MODULE ChainSyncMC -----------------------------
(***************************************************************************)
(* The syncer of ChainSync.tla composed with an environment that grows a   *)
(* block tree and moves the canonical head:                                *)
(*   Mine(p, ev)  a new block on top of any block p of the canonical chain *)
(*                (p = tip: extension, else a fork) becomes the head;      *)
(*                ev = at most one event: a key that does not yet occur on *)
(*                that branch (the contracts refuse re-registration; the   *)
(*                same key may well occur on the other fork), or Bad       *)
(*   Switch(b)    the head becomes an existing block (step back, flip      *)
(*                back to an abandoned fork)                               *)
(*   Sync(f)      the syncer is called with the header of the head under   *)
(*                fault f.  Heads not offered in between are gaps.         *)
(* Sync is enabled only if the head satisfies the property's precondition  *)
(* relative to the syncer's position (ghost sb = the tree block the        *)
(* position was taken from, followed through rollbacks):                   *)
(*   depth  = sb.num - lca(sb, head).num <= D  ("forks no deeper than the  *)
(*            assumed reorg depth"), and, Precond =                        *)
(*   "first": the first head offered after sb left the canonical chain     *)
(*            has num <= synced.num + 1   (the literal statement)          *)
(*   "every": every head offered while sb is off the canonical chain has   *)
(*            num <= synced.num + 1                                        *)
(*   "depth": nothing more                                                 *)
(* hist and last are hidden by the VIEW; EmitInv prints the first history  *)
(* reaching each distinct state that is first reached by a Sync.           *)
(***************************************************************************)
EXTENDS ChainSyncProps, Json, SequencesExt

CONSTANTS
    MaxBlocks, MaxNum, MaxLeaves, MaxEvents, KeySeq,
    D, MaxR, Start0, ErrMode, Reorg,
    Precond, FKinds, Emit,
    AllowBad,     \* generate inadmissible events?
    ClassToks,    \* value-classed event tokens (ChainSync.tla ClassTok) the environment may place; at
                  \* most one per branch (they all belong to one key)
    GapSet,       \* Extend(k), k \in GapSet: a run of k eventless blocks on top of the head in ONE step
                  \* (k taken from the boundaries of the code's constants: depth-1, depth, depth+1,
                  \* request range + 1); {} = no such steps
    MaxRuns,      \* at most this many runs in a tree
    MinRunBase,   \* a run starts only on a block with at least this number
    MaxFaultAt,   \* faults only in phases 0..MaxFaultAt (0: only "right after / instead of the rollback")
    LeafHeads,    \* TRUE: the head switches only to leaves (no step back on a branch)
    MinForkNum,   \* forks start and the head switches only at blocks with at least this number (0: anywhere)
    SyncFrom,     \* Sync is called only for heads with at least this number (0: any); both shape
                  \* long chains cheaply: a linear prefix, forks and syncs near the top
    SimLen        \* 0: exhaustive mode; > 0: simulation, histories of this length are printed

Keys == {KeySeq[i] : i \in DOMAIN KeySeq}
cfg == [d |-> D, maxr |-> MaxR, start0 |-> Start0, errm |-> ErrMode, reorg |-> Reorg]

VARIABLES blk, canon, st, sb, stale, ok, tag, last, hist
vars == <<blk, canon, st, sb, stale, ok, tag, last, hist>>

(* which path of the code the last Sync took (part of the VIEW, so that a history is printed for
   every reachable state AND every way the code can get there) *)
(* rel: where the stored events sit relative to the rollback target block (-1 just below, 0 exactly
   at it, 1 just above), for calls that roll back;
   bx: a range of the call holds an inadmissible event at or before an admissible one (an
   implementation that gives up on the rest of a batch shows only then);
   gap: class of the number of skipped blocks (0, 1 = some, the exact value when it is depth-1,
   depth or depth+1, 99999 when it exceeds the request range); off: the position had left the
   canonical chain before the call;
   emp: the call starts from the (number, empty hash) marker that a committed rollback left behind
   when the resync after it failed *)
NoTag == [rb |-> FALSE, gap |-> 0, off |-> FALSE, emp |-> FALSE, nr |-> 0, k |-> "none", at |-> 0, rel |-> {}, bx |-> FALSE]

(* history entries; a sync entry carries the committed database state the spec predicts after the
   call (the replay continues with a concrete fault that produces it) *)
H(op, a, ev, k, at, post) == [op |-> op, a |-> a, ev |-> ev, k |-> k, at |-> at, post |-> post, t |-> NoTag]
NoPost == [synced |-> NoRow, stored |-> <<>>]
PostOf(s) == [synced |-> s.synced, stored |-> SetToSeq(s.stored)]

Init ==
    /\ blk = << [num |-> 0, par |-> -1, evs |-> {}, len |-> 1] >>
    /\ canon = 1
    /\ st = St(NoRow, {})
    /\ sb = 0 /\ stale = FALSE /\ ok = TRUE /\ tag = NoTag
    /\ last = H("init", 0, "", "none", 0, NoPost)
    /\ hist = <<>>

Leaves(b) == {x \in DOMAIN b : \A y \in DOMAIN b : b[y].par # x}
NumEvents(b) == Cardinality({x \in DOMAIN b : b[x].evs # {}})
BranchKeys(b, p) == UNION {b[x].evs : x \in AncSelf(b, p)}

Mine(p, ev) ==
    /\ Cardinality({x \in DOMAIN blk : blk[x].len = 1}) < MaxBlocks
    /\ p \in AncSelf(blk, canon)
    /\ blk[p].num < MaxNum
    /\ p # canon => blk[p].num >= MinForkNum
    /\ ev # "" => /\ NumEvents(blk) < MaxEvents
                  /\ ((ev # Bad /\ ev \notin ClassToks) => ev \notin BranchKeys(blk, p))
                  /\ (ev \in ClassToks => BranchKeys(blk, p) \cap ClassToks = {})
                  (* keys are interchangeable: use them in order *)
                  /\ \A i \in DOMAIN KeySeq : (ev = KeySeq[i] /\ i > 1) => \E x \in DOMAIN blk : KeySeq[i - 1] \in blk[x].evs
    /\ LET nb == Append(blk, [num |-> blk[p].num + 1, par |-> p, evs |-> IF ev = "" THEN {} ELSE {ev}, len |-> 1]) IN
       /\ Cardinality(Leaves(nb)) <= MaxLeaves
       /\ blk' = nb
    /\ canon' = Len(blk) + 1
    /\ last' = H("mine", p, ev, "none", 0, NoPost)
    /\ hist' = Append(hist, last')
    /\ tag' = NoTag
    /\ UNCHANGED <<st, sb, stale, ok>>

(* a run of k eventless blocks on top of a canonical block p (the tip, or a fork), offered (or not)
   only as a whole: a large gap.  The history entry carries k in "a" and p in "at". *)
Extend(p, k) ==
    /\ Cardinality({x \in DOMAIN blk : blk[x].len > 1}) < MaxRuns
    /\ p \in AncSelf(blk, canon)
    /\ blk[p].num >= MinRunBase
    /\ p # canon => blk[p].num >= MinForkNum
    /\ LET nb == Append(blk, [num |-> blk[p].num + k, par |-> p, evs |-> {}, len |-> k]) IN
       /\ Cardinality(Leaves(nb)) <= MaxLeaves
       /\ blk' = nb
    /\ canon' = Len(blk) + 1
    /\ tag' = NoTag
    /\ last' = H("ext", k, "", "none", p, NoPost)
    /\ hist' = Append(hist, last')
    /\ UNCHANGED <<st, sb, stale, ok>>

Switch(b) ==
    /\ b \in DOMAIN blk /\ b # canon
    /\ blk[b].num >= MinForkNum
    /\ LeafHeads => b \in Leaves(blk)
    /\ canon' = b
    /\ last' = H("switch", b, "", "none", 0, NoPost)
    /\ hist' = Append(hist, last')
    /\ tag' = NoTag
    /\ UNCHANGED <<blk, st, sb, stale, ok>>

OnBranch == sb = 0 \/ IsAnc(blk, sb, canon)
DepthOK  == sb = 0 \/ NumOf(blk, sb) - NumOf(blk, LCA(blk, sb, canon)) <= D
NextOK   == blk[canon].num <= st.synced.num + 1
PreOK ==
    CASE Precond = "depth" -> DepthOK
      [] Precond = "every" -> OnBranch \/ (DepthOK /\ NextOK)
      [] Precond = "first" -> OnBranch \/ (DepthOK /\ (stale \/ NextOK))
      [] Precond = "none"  -> TRUE

(* ghost: the block the position stands for after a committed state s *)
SbAfter(prev, s) == IF s.synced.hash >= 1 THEN s.synced.hash ELSE CanonAt(blk, prev, s.synced.num)
RECURSIVE SbFold(_, _, _)
SbFold(prev, seq, i) == IF i > Len(seq) THEN prev ELSE SbFold(SbAfter(prev, seq[i]), seq, i + 1)

GapClass ==
    LET sk == blk[canon].num - st.synced.num - 1 IN
    IF ~st.synced.has \/ sk <= 0 THEN 0
    ELSE IF sk \in {D - 1, D, D + 1} THEN sk
    ELSE IF sk > MaxR THEN 99999 ELSE 1

(* rollback due?  how many ranges? *)
Info ==
    LET rb == st.synced.has /\ NumReorged(cfg, blk, CheckBlock(cfg, blk, canon, st.synced), st.synced) > 0
        r0 == Run(cfg, blk, canon, st, NoFault)
        tgt == st.synced.num - NumReorged(cfg, blk, CheckBlock(cfg, blk, canon, st.synced), st.synced)
    IN [rb |-> rb, nr |-> Len(r0.seq) - (IF rb THEN 1 ELSE 0),
        rel |-> IF rb THEN {r.num - tgt : r \in {q \in st.stored : q.num - tgt \in {-1, 0, 1}}} ELSE {},
        bx |-> \E i \in 1..Len(r0.seq) : r0.seq[i].synced.hash # Empty /\
                 LET pre == IF i = 1 THEN st ELSE r0.seq[i - 1]
                     lo  == IF pre.synced.has THEN pre.synced.num + 1 ELSE Start0
                     bs  == {c \in AncSelf(blk, canon) : blk[c].num >= lo /\ blk[c].num <= r0.seq[i].synced.num}
                 IN \E b1, b2 \in bs : (\E e \in blk[b1].evs : ~Admissible(e)) /\ blk[b1].num <= blk[b2].num /\
                                       (\E e \in blk[b2].evs : Admissible(e))]

(* the faults that make a difference: a fault in the preamble (at = 0) matters only if a rollback
   is due, otherwise nothing happens at all *)
SyncFaults(info) ==
    {NoFault} \cup {[k |-> k, at |-> at] : k \in FKinds, at \in (IF info.rb THEN 0 ELSE 1)..(IF info.nr < MaxFaultAt THEN info.nr ELSE MaxFaultAt)}

Sync(f, info) ==
    /\ LET r == Run(cfg, blk, canon, st, f)
           states == <<st>> \o r.seq
       IN /\ st' = Final(st, r)
          /\ ok' = (C15_Failed(blk, canon, Start0, states) = {})
          /\ sb' = SbFold(sb, r.seq, 1)
          /\ stale' = (sb' # 0 /\ ~IsAnc(blk, sb', canon))
          /\ tag' = [rb |-> info.rb, gap |-> GapClass, off |-> ~OnBranch, emp |-> (st.synced.has /\ st.synced.hash = Empty),
                     nr |-> info.nr, k |-> f.k, at |-> f.at, rel |-> info.rel, bx |-> info.bx]
    /\ last' = [H("sync", 0, "", f.k, f.at, PostOf(st')) EXCEPT !.t = tag']
    /\ hist' = Append(hist, last')
    /\ UNCHANGED <<blk, canon>>

Next ==
    \/ \E p \in DOMAIN blk, ev \in {""} \cup Keys \cup ClassToks \cup (IF AllowBad THEN {Bad} ELSE {}) : Mine(p, ev)
    \/ \E b \in DOMAIN blk : Switch(b)
    \/ \E p \in DOMAIN blk, k \in GapSet : Extend(p, k)
    \/ /\ PreOK = TRUE
       /\ blk[canon].num >= SyncFrom
       /\ LET info == Info IN \E f \in SyncFaults(info) : Sync(f, info)

Spec == Init /\ [][Next]_vars

(* C15 on the code-shaped spec: exactness in every state (also right after the environment moved
   the head), atomicity inside every call *)
C15_Inv == ok /\ C15_Exact(blk, canon, Start0, st)
(* a counterexample is a lead that is replayed on the real code: print its history *)
C15_InvCex == C15_Inv \/ (PrintT(<<"CEX", ToJson(hist)>>) /\ FALSE)

EmitInv == (~Emit) \/ (IF SimLen > 0 THEN Len(hist) # SimLen ELSE last.op # "sync") \/ PrintT(<<"B", ToJson(hist)>>)
View == <<blk, canon, st, sb, stale, ok, tag>>

=============================================================================
