------------------------------ MODULE HttpGateMC ------------------------------
(***************************************************************************)
(* C18 -- the pipeline operators of HttpGate wrapped into a transition     *)
(* system: one initial state per case of the request domain                *)
(*   Methods x Templates x spelling sequences (length <= MaxSpell) x       *)
(*   {write operations enabled, disabled}          (default headers)       *)
(*   Methods x Templates x header classes (Accept x Content-Type x         *)
(*   X-HTTP-Method-Override x body present) x {enabled, disabled}          *)
(*                                          (documented spelling)          *)
(* and one transition per pipeline stage (outer router, StripPrefix,       *)
(* validator, ConfigMiddleware, inner router, wrapper, handler).  TLC      *)
(* checks the property layer on every terminal state and prints every case *)
(* with the request target and the responses the code-shaped spec allows;  *)
(* the printed cases are what the harness sends to the real router.        *)
(***************************************************************************)
EXTENDS HttpGateProps, Json, SequencesExt

CONSTANT FlavourCross \* TRUE: include the supply-path cases

VARIABLES cs, stage, rq, resp
vars == <<cs, stage, rq, resp>>

SpSeqs ==
    {<<a>> : a \in Spellings} \cup
    (IF MaxSpell >= 2 THEN {<<a, b>> : a \in Spellings \ {"exact"}, b \in Spellings \ {"exact"}} ELSE {}) \cup
    (IF MaxSpell >= 3 THEN {<<a, b, d>> : a \in Spellings \ {"exact"}, b \in Spellings \ {"exact"},
                                          d \in Spellings \ {"exact"}} ELSE {})

PathOf(c) == SpellAll(BasePath(Tpl(c.t)), c.sps)

\* server modes: the deployed router with SWAGGER_UI unset / set; the harness-composed gate stack
\* has no such mode
Modes == {md \in [stack : Stacks, ui : UiModes] : md.stack = "server" \/ ~md.ui}
\* every spelling sequence with the default headers, and (HdrCross) every header class with the
\* documented spelling
Cases ==
    {c \in [m : Methods, t : TplNames, sps : SpSeqs, w : BOOLEAN, h : {DefaultHdr}, mode : Modes] :
        ApplicableAll(BasePath(Tpl(c.t)), c.sps)} \cup
    (IF HdrCross THEN [m : Methods, t : TplNames, sps : {<<"exact">>}, w : BOOLEAN, h : HdrClasses, mode : Modes] ELSE {})

\* the supply path: the deployed router obtained through every flavour's real constructor from the
\* flavour's real Config, for everything the operator can write for HTTPReadOnly; w = what the
\* operator configured (that is what the property is judged with)
FlavourSpellings == {"exact", "query", "noPrefix", "trailingSlash", "encodedLetter"}
FlavourCases ==
    IF ~FlavourCross THEN {} ELSE
    {c \in [m : Methods, t : TplNames, sps : {<<a>> : a \in Spellings \cap FlavourSpellings}, h : {DefaultHdr},
            flavour : Flavours, cfg : Sources] :
        ApplicableAll(BasePath(Tpl(c.t)), c.sps) /\ ParseOK(c.cfg)}

\* every (flavour, source): the harness runs the real command's configuration parsing for each
ConfigCases == IF FlavourCross THEN [flavour : Flavours, cfg : Sources] ELSE {}
\* (a constant-level fact; tied to one state so that TLC reports it once)
FirstCase == CHOOSE c \in Cases : TRUE
ConfigInv == (stage = "outer" /\ cs = FirstCase) => \A c \in ConfigCases :
    C18_Config(c.flavour, c.cfg, IF ParseOK(c.cfg) THEN "ok" ELSE "error", ConfiguredReadOnly(c.flavour, c.cfg))
ASSUME \A c \in ConfigCases :
    PrintT(<<"CFG", ToJson([flavour |-> c.flavour, cfg |-> c.cfg, parsed |-> (IF ParseOK(c.cfg) THEN "ok" ELSE "error"),
                           ro |-> ConfiguredReadOnly(c.flavour, c.cfg)])>>)

IsFlavour(c) == "flavour" \in DOMAIN c
JudgedW(c) == IF IsFlavour(c) THEN ConfiguredWrite(c.flavour, c.cfg) ELSE c.w
EffectiveW(c) == IF IsFlavour(c) THEN FlavourWrite(c.flavour, c.cfg) ELSE c.w
StackOf(c) == IF IsFlavour(c) THEN "server" ELSE c.mode.stack
UiOf(c) == IF IsFlavour(c) THEN FALSE ELSE c.mode.ui

Init ==
    /\ cs \in Cases \cup FlavourCases
    /\ stage = "outer"
    /\ rq = MkRq(cs.m, PathOf(cs), EffectiveW(cs), cs.h, StackOf(cs), UiOf(cs))
    /\ resp = NoResp

Next ==
    /\ stage # "done"
    /\ \E x \in Step(stage, rq) : stage' = x.next /\ rq' = x.rq /\ resp' = x.r
    /\ UNCHANGED cs

Spec == Init /\ [][Next]_vars

\* property layer on the code-shaped spec ------------------------------------------------
GateInv == stage = "done" => C18_Gate(JudgedW(cs), resp.effect)
LiveInv == stage = "done" => C18_Live(cs.m, cs.t, cs.sps, resp.effect)
\* one decision per request (findOperation ranges over a Go map)
DetInv == stage = "outer" => Cardinality(Serve(cs.m, PathOf(cs), EffectiveW(cs), cs.h, StackOf(cs), UiOf(cs))) = 1
\* the gate and the dispatcher agree: whatever reaches a handler was let through by the
\* middleware for that very operation
AgreeInv == stage = "handler" =>
    rq.op \in FindOperationResults(rq) /\ rq.op # NoOp /\ ShouldEnableEndpoint(rq.op, rq.w)

\* generation -----------------------------------------------------------------------------
EmitInv ==
    stage = "outer" =>
        PrintT(<<"CASE", ToJson([m |-> cs.m, t |-> cs.t, sps |-> cs.sps, w |-> JudgedW(cs), h |-> cs.h, stack |-> StackOf(cs), ui |-> UiOf(cs),
                                 flavour |-> (IF IsFlavour(cs) THEN cs.flavour ELSE "direct"),
                                 cfg |-> (IF IsFlavour(cs) THEN cs.cfg ELSE NoSource),
                                 target |-> Target(PathOf(cs)),
                                 raw |-> RawSegs(PathOf(cs)), dec |-> DecSegs(PathOf(cs)),
                                 exp |-> SetToSeq(Serve(cs.m, PathOf(cs), EffectiveW(cs), cs.h, StackOf(cs), UiOf(cs)))])>>)
=============================================================================
