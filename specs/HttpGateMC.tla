------------------------------ MODULE HttpGateMC ------------------------------
(***************************************************************************)
(* C18 -- the pipeline operators of HttpGate wrapped into a transition     *)
(* system: one initial state per case of the request domain                *)
(*   Methods x Templates x spelling sequences (length <= MaxSpell) x       *)
(*   {write operations enabled, disabled}          (default headers)       *)
(*   Methods x Templates x header classes (Accept x Content-Type x         *)
(*   X-HTTP-Method-Override x body present) x {enabled, disabled}          *)
(*                                          (documented spelling)          *)
(* and one transition per pipeline stage (outer router, StripPrefix,       *)
(* validator, ConfigMiddleware, inner router, wrapper, handler).  TLC      *)
(* checks the property layer on every terminal state and prints every case *)
(* with the request target and the responses the code-shaped spec allows;  *)
(* the printed cases are what the harness sends to the real router.        *)
(***************************************************************************)
EXTENDS HttpGateProps, Json, SequencesExt

VARIABLES cs, stage, rq, resp
vars == <<cs, stage, rq, resp>>

SpSeqs ==
    {<<a>> : a \in Spellings} \cup
    (IF MaxSpell >= 2 THEN {<<a, b>> : a \in Spellings \ {"exact"}, b \in Spellings \ {"exact"}} ELSE {}) \cup
    (IF MaxSpell >= 3 THEN {<<a, b, d>> : a \in Spellings \ {"exact"}, b \in Spellings \ {"exact"},
                                          d \in Spellings \ {"exact"}} ELSE {})

PathOf(c) == SpellAll(BasePath(Tpl(c.t)), c.sps)

\* server modes: the deployed router with SWAGGER_UI unset / set; the harness-composed gate stack
\* has no such mode
Modes == {md \in [stack : Stacks, ui : UiModes] : md.stack = "server" \/ ~md.ui}
\* every spelling sequence with the default headers, and (HdrCross) every header class with the
\* documented spelling
Cases ==
    {c \in [m : Methods, t : TplNames, sps : SpSeqs, w : BOOLEAN, h : {DefaultHdr}, mode : Modes] :
        ApplicableAll(BasePath(Tpl(c.t)), c.sps)} \cup
    (IF HdrCross THEN [m : Methods, t : TplNames, sps : {<<"exact">>}, w : BOOLEAN, h : HdrClasses, mode : Modes] ELSE {})

Init ==
    /\ cs \in Cases
    /\ stage = "outer"
    /\ rq = MkRq(cs.m, PathOf(cs), cs.w, cs.h, cs.mode.stack, cs.mode.ui)
    /\ resp = NoResp

Next ==
    /\ stage # "done"
    /\ \E x \in Step(stage, rq) : stage' = x.next /\ rq' = x.rq /\ resp' = x.r
    /\ UNCHANGED cs

Spec == Init /\ [][Next]_vars

\* property layer on the code-shaped spec ------------------------------------------------
GateInv == stage = "done" => C18_Gate(cs.w, resp.effect)
LiveInv == stage = "done" => C18_Live(cs.m, cs.t, cs.sps, resp.effect)
\* one decision per request (findOperation ranges over a Go map)
DetInv == stage = "outer" => Cardinality(Serve(cs.m, PathOf(cs), cs.w, cs.h, cs.mode.stack, cs.mode.ui)) = 1
\* the gate and the dispatcher agree: whatever reaches a handler was let through by the
\* middleware for that very operation
AgreeInv == stage = "handler" =>
    rq.op \in FindOperationResults(rq) /\ rq.op # NoOp /\ ShouldEnableEndpoint(rq.op, rq.w)

\* generation -----------------------------------------------------------------------------
EmitInv ==
    stage = "outer" =>
        PrintT(<<"CASE", ToJson([m |-> cs.m, t |-> cs.t, sps |-> cs.sps, w |-> cs.w, h |-> cs.h, stack |-> cs.mode.stack, ui |-> cs.mode.ui,
                                 target |-> Target(PathOf(cs)),
                                 raw |-> RawSegs(PathOf(cs)), dec |-> DecSegs(PathOf(cs)),
                                 exp |-> SetToSeq(Serve(cs.m, PathOf(cs), cs.w, cs.h, cs.mode.stack, cs.mode.ui))])>>)
=============================================================================
