----------------------------- MODULE OpSyncProps -----------------------------
(***************************************************************************)
(* Property layer of the OpSync stage: what a user of the chain-sync       *)
(* client (and the network, for the optimism keyper) may expect, stated    *)
(* over OBSERVED data only: the chain the node served (an input), the      *)
(* notifications it produced, and the calls that came out (handler calls,  *)
(* triggers, key-share releases, dropped notifications), plus the rows of  *)
(* the keyper's database.  A ghost per client folds the observed calls.    *)
(* The stage has no verdict of its own: a monitor that is false on the     *)
(* real code is reported as an OBSERVATION line.                           *)
(*                                                                         *)
(* O1  every keyper-set / eon-key event of the canonical chain reaches its *)
(*     handler exactly once per client lifetime, in chain order, with the  *)
(*     index the contract gave it, whatever lands in the fetch->subscribe  *)
(*     window; nothing of an abandoned fork survives:                      *)
(*       O1_KsWrongEon O1_KsDuplicate O1_KsFromAbandoned O1_KsOrder        *)
(*       O1_KsDropped O1_KsHandlerError O1_EkEmptyKey O1_EkDuplicate       *)
(*       O1_EkFromAbandoned           (per call)                           *)
(*       O1_KsLost O1_KsStaleRow O1_EkLost O1_EkStale O1_SsStale           *)
(*                                    (when nothing is in flight)          *)
(* O2  the block handler sees non-decreasing canonical heads, and no block *)
(*     of an abandoned fork after it saw the fork that replaced it:        *)
(*       O2_Decreasing O2_NotCanonical O2_AbandonedAfterSwitch             *)
(* O3  per delivered head N exactly one trigger, for identity N + 1, only  *)
(*     while shutter is active; a key share is released iff the keyper is  *)
(*     a member of the canonical keyper set active at the identity's       *)
(*     block, under that set's index; two keypers on one chain emit the    *)
(*     same trigger sequence whatever the delivery schedule:               *)
(*       O3_TriggerCount O3_IdentityNotNext O3_TriggerWhilePaused          *)
(*       O3_DuplicateTrigger O3_ShareNotDue O3_ShareMissing O3_WrongEon    *)
(*       O3_TwinDiffer                                                     *)
(* O4  no panic, no hang (evaluated by the trace layer from the driver's   *)
(*     panic / hang fields, and by the byte-level case table OpSyncO4).    *)
(***************************************************************************)
EXTENDS OpSync

GC0 == [life |-> 0, S |-> 0, kst |-> <<>>, ekd |-> <<>>, ss |-> -1, hds |-> <<>>, ids |-> {}, trg |-> <<>>]
Ghost0 == [c \in Clients |-> GC0]

SeqRange(s) == {s[i] : i \in DOMAIN s}

(* the ghost after one observed call *)
GhostCall(gc, k) ==
    CASE k.h = "ks"   -> [gc EXCEPT !.kst = Append(@, [eon |-> k.a, tok |-> k.b])]
      [] k.h = "ek"   -> [gc EXCEPT !.ekd = Append(@, [eon |-> k.a, key |-> k.b])]
      [] k.h = "ss"   -> [gc EXCEPT !.ss = k.a]
      [] k.h = "hd"   -> [gc EXCEPT !.hds = Append(@, k.b)]
      [] k.h = "trig" -> [gc EXCEPT !.ids = @ \cup {k.b}, !.trg = Append(@, k.b)]
      [] OTHER        -> gc

(* w: the world BEFORE the step (the chain does not change in a client step), a: the action,
   n: the notification being processed (dlv) or [b |-> 0, rm |-> FALSE] *)
CallObs(gc, w, a, n, k) ==
    LET blk  == w.blk
        head == w.head
        sets == SetsAt(blk, head)
        isDlv == a.a = "dlv" /\ n.b # 0
        offChain == isDlv /\ (n.rm \/ ~CS!IsAnc(blk, n.b, head)) IN
    CASE k.h = "ks" ->
           LET truth == IF isDlv THEN PosIn(SetsAt(blk, n.b), k.b) - 1 ELSE PosIn(sets, k.b) - 1 IN
           (IF k.a # truth THEN {"O1_KsWrongEon"} ELSE {}) \cup
           (IF \E d \in SeqRange(gc.kst) : d.tok = k.b THEN {"O1_KsDuplicate"} ELSE {}) \cup
           (IF offChain THEN {"O1_KsFromAbandoned"} ELSE {}) \cup
           (IF \E d \in SeqRange(gc.kst) : d.eon > k.a THEN {"O1_KsOrder"} ELSE {}) \cup
           (IF k.r # "ok" THEN {"O1_KsHandlerError"} ELSE {})
      [] k.h = "ek" ->
           (IF k.b = 0 THEN {"O1_EkEmptyKey"} ELSE {}) \cup
           (IF [eon |-> k.a, key |-> k.b] \in SeqRange(gc.ekd) THEN {"O1_EkDuplicate"} ELSE {}) \cup
           (IF offChain THEN {"O1_EkFromAbandoned"} ELSE {})
      [] k.h = "drop" -> {"O1_KsDropped"}
      [] k.h = "hd" ->
           (IF gc.hds # <<>> /\ k.a < blk[gc.hds[Len(gc.hds)]].num THEN {"O2_Decreasing"} ELSE {}) \cup
           (IF ~CS!IsAnc(blk, k.b, head) THEN {"O2_NotCanonical"} ELSE {}) \cup
           (IF ~CS!IsAnc(blk, k.b, head) /\ \E h \in SeqRange(gc.hds) : CS!IsAnc(blk, h, head) /\ ~CS!IsAnc(blk, h, k.b)
            THEN {"O2_AbandonedAfterSwitch"} ELSE {})
      [] k.h = "trig" ->
           (IF isDlv /\ k.b # blk[n.b].num + 1 THEN {"O3_IdentityNotNext"} ELSE {}) \cup
           (IF PausedAt(blk, head) THEN {"O3_TriggerWhilePaused"} ELSE {}) \cup
           (IF k.b \in gc.ids THEN {"O3_DuplicateTrigger"} ELSE {})
      [] k.h = "ksh" ->
           LET tIdx   == IndexByBlock(sets, k.a)
               should == tIdx >= 0 /\ KS[sets[tIdx + 1]].mem /\ ~PausedAt(blk, head)
               could  == (\E e \in w.db[a.c].eons : e.eon = tIdx) /\ [eon |-> tIdx, id |-> k.a] \notin w.db[a.c].sh IN
           (IF k.r = "sent" /\ ~should THEN {"O3_ShareNotDue"} ELSE {}) \cup
           (IF k.r # "sent" /\ should /\ could THEN {"O3_ShareMissing"} ELSE {}) \cup
           (IF k.r = "sent" /\ k.b # tIdx THEN {"O3_WrongEon"} ELSE {})
      [] OTHER -> {}

RECURSIVE FoldObs(_, _, _, _, _, _)
FoldObs(gc, w, a, n, out, i) ==
    IF i > Len(out) THEN [g |-> gc, obs |-> {}]
    ELSE LET o == CallObs(gc, w, a, n, out[i])
             r == FoldObs(GhostCall(gc, out[i]), w, a, n, out, i + 1) IN
         [g |-> r.g, obs |-> o \cup r.obs]

NoNote == [b |-> 0, rm |-> FALSE]
NoteOf(w, a) == IF a.a = "dlv" /\ w.cl[a.c].up /\ a.s \in DOMAIN w.q[a.c] /\ w.q[a.c][a.s] # <<>> THEN Head(w.q[a.c][a.s]) ELSE NoNote

(* per step: the new ghost and the observations.  w1 is the world after the step. *)
StepFold(g, w, a, out, w1) ==
    IF a.c = 0 THEN [g |-> g, obs |-> {}]
    ELSE LET c   == a.c
             gc0 == IF a.a = "new" /\ w1.cl[c].up
                    THEN [GC0 EXCEPT !.life = g[c].life + 1, !.S = w1.cl[c].S, !.trg = g[c].trg]
                    ELSE g[c]
             r   == FoldObs(gc0, w, a, NoteOf(w, a), out, 1)
             cnt == Cardinality({i \in DOMAIN out : out[i].h = "trig"})
             hdc == Cardinality({i \in DOMAIN out : out[i].h = "hd"}) IN
         [g |-> [g EXCEPT ![c] = r.g],
          obs |-> r.obs \cup (IF hdc > 0 /\ cnt # hdc THEN {"O3_TriggerCount"} ELSE {})]

(* when nothing is in flight for client c *)
LastKey(ekd, e) ==
    LET s == SelectSeq(ekd, LAMBDA d : d.eon = e) IN IF s = <<>> THEN -1 ELSE s[Len(s)].key

EndObs(g, w, c) ==
    LET blk  == w.blk
        sets == SetsAt(blk, w.head)
        gc   == g[c]
        a0   == IndexByBlock(sets, gc.S)
        idxs == IF a0 < 0 THEN {} ELSE a0..(Len(sets) - 1) IN
    (IF "ks" \in Handlers /\ \E i \in idxs : ~\E d \in SeqRange(gc.kst) : d.tok = sets[i + 1] /\ d.eon = i
     THEN {"O1_KsLost"} ELSE {}) \cup
    (IF \E r \in w.db[c].ks : r.idx >= Len(sets) \/ sets[r.idx + 1] # r.tok THEN {"O1_KsStaleRow"} ELSE {}) \cup
    (IF "ek" \in Handlers /\ \E e \in idxs : KeyAt(blk, w.head, e) # 0 /\ [eon |-> e, key |-> KeyAt(blk, w.head, e)] \notin SeqRange(gc.ekd)
     THEN {"O1_EkLost"} ELSE {}) \cup
    (IF "ek" \in Handlers /\ \E e \in idxs : LastKey(gc.ekd, e) \notin {-1, 0, KeyAt(blk, w.head, e)}
     THEN {"O1_EkStale"} ELSE {}) \cup
    (IF "ss" \in Handlers /\ gc.ss # (IF PausedAt(blk, w.head) THEN 0 ELSE 1) THEN {"O1_SsStale"} ELSE {})

(* two keypers that started before the first block and have heard everything *)
TwinObs(g, w) ==
    IF NC = 2 /\ Quiet(w, 1) /\ Quiet(w, 2) /\ g[1].life = 1 /\ g[2].life = 1 /\ g[1].S = 0 /\ g[2].S = 0 /\ g[1].trg # g[2].trg
    THEN {"O3_TwinDiffer"} ELSE {}

AllEndObs(g, w) == UNION {EndObs(g, w, c) : c \in {c \in Clients : Quiet(w, c)}} \cup TwinObs(g, w)

(* the losses bounded liveness is about *)
LossObs == {"O1_KsLost", "O1_EkLost"}

=============================================================================
