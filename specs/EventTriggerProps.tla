-------------------------- MODULE EventTriggerProps --------------------------
(***************************************************************************)
(* Property layer of C16 over observed data: the block tree, the canonical *)
(* head, the first synced block, committed database states                 *)
(*   st = [synced, regs, fired]   and                                      *)
(*   cuts = the set of positions (block numbers) the keyper committed so   *)
(*          far on its way to the current position (range ends; pruned by  *)
(*          a rollback) - needed only to recognise known finding D6.       *)
(***************************************************************************)
EXTENDS EventTrigger

POnCanon(blk, canon, sy) ==
    sy.has /\ sy.hash >= 1 /\ sy.hash <= Len(blk) /\ blk[sy.hash].num = sy.num /\ sy.hash \in AncSelf(blk, canon)

(* registration block of t on the canonical chain, first..n (0 = none) *)
RegBlock(blk, canon, first, n, t) ==
    LET c == {b \in CanonBlocks(blk, canon, first, n) : RegTok(t) \in blk[b].evs} IN
    IF c = {} THEN 0 ELSE CHOOSE b \in c : TRUE

(* numbers of the blocks whose matching log makes t fire: after the registration block, no later
   than the expiry block, synced *)
FiringLogs(blk, canon, first, n, t) ==
    LET rb == RegBlock(blk, canon, first, n, t) IN
    IF rb = 0 THEN {}
    ELSE {blk[b].num : b \in {c \in LogBlocks(blk, canon, t, first, n) : blk[c].num > blk[rb].num /\ blk[c].num <= blk[rb].exp}}

(* the ideal, batching-free fired set *)
Ideal(blk, canon, first, n) == {t \in Trigs : FiringLogs(blk, canon, first, n, t) # {}}

FiredKeys(st) == {f.key : f \in st.fired}

(* known finding D6: trigger t was not fired although it should have been, and every log that
   should have fired it lies in the same sync range as its registration (no committed position p
   with reg <= p < log) *)
KnownMiss(blk, canon, first, n, cuts, t) ==
    LET rb == RegBlock(blk, canon, first, n, t) IN
    /\ rb # 0
    /\ \A b \in FiringLogs(blk, canon, first, n, t) : ~\E p \in cuts : blk[rb].num <= p /\ p < b

(* what is wrong with the fired set of a state: "extra" = fired without reason,
   "missing" = not fired and not explained by D6, "known" = missing, explained by D6 *)
C16_Exact(blk, canon, first, st, cuts) ==
    IF ~POnCanon(blk, canon, st.synced) THEN {}
    ELSE LET n     == st.synced.num
             ideal == Ideal(blk, canon, first, n)
             got   == FiredKeys(st)
         IN (IF got \subseteq ideal THEN {} ELSE {"C16_Extra"}) \cup
            (IF \A t \in ideal \ got : KnownMiss(blk, canon, first, n, cuts, t) THEN {} ELSE {"C16_Missing"}) \cup
            (IF \E t \in ideal \ got : KnownMiss(blk, canon, first, n, cuts, t) THEN {"C16_Known_D6"} ELSE {})

(* a fired row names a log that really fires the trigger *)
C16_FiredAt(blk, canon, first, st) ==
    POnCanon(blk, canon, st.synced) =>
      \A f \in st.fired : f.num \in FiringLogs(blk, canon, first, st.synced.num, f.key) /\ f.bid = CanonAt(blk, canon, f.num)

(* at most once: moving forward never changes or removes a fired row, one row per trigger *)
C16_Once(a, b) ==
    /\ (b.synced.has /\ a.synced.has /\ b.synced.num >= a.synced.num /\ b.synced.hash # Empty) => a.fired \subseteq b.fired
    /\ \A f, g \in b.fired : f.key = g.key => f = g

(* all keypers reach the same set: same position => same fired set (modulo D6 on either side) *)
C16_Same(blk, canon, first, a, cutsA, b, cutsB) ==
    (a.synced = b.synced /\ POnCanon(blk, canon, a.synced)) =>
      \A t \in Trigs : (t \in FiredKeys(a)) # (t \in FiredKeys(b)) =>
          \/ (t \notin FiredKeys(a) /\ KnownMiss(blk, canon, first, a.synced.num, cutsA, t))
          \/ (t \notin FiredKeys(b) /\ KnownMiss(blk, canon, first, b.synced.num, cutsB, t))

(* positions committed so far, followed through one more committed state *)
CutsAfter(cuts, s) ==
    IF s.synced.hash = Empty THEN {p \in cuts : p <= s.synced.num} \cup {s.synced.num} ELSE cuts \cup {s.synced.num}
RECURSIVE CutsFold(_, _, _)
CutsFold(cuts, seq, i) == IF i > Len(seq) THEN cuts ELSE CutsFold(CutsAfter(cuts, seq[i]), seq, i + 1)

=============================================================================
