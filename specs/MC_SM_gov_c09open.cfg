CONSTANTS
  Addrs <- cAddrs
  KeyOrd <- cKeyOrd
  Genesis <- cGenesis
  TallyMode = "open"
  Cands <- cCands
  Kinds = {"vote", "dkgres"}
  SeenBlocks <- cSeenBlocks
  CheckKeys <- cCheckKeys
  Eons <- cEons
  MaxDepth = 6
  Emit = FALSE
  TagMode = "none"
SPECIFICATION Spec2
INVARIANT C09_Agree
VIEW View2
CHECK_DEADLOCK FALSE
