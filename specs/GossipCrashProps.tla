--------------------------- MODULE GossipCrashProps ---------------------------
(***************************************************************************)
(* Property layer of C05, over ONE OBSERVED delivery: what the real node   *)
(* assembly did with one byte string on one subscribed topic.              *)
(*   o.v      verdict of the real combined topic validator: "accept" |     *)
(*            "reject" | "ignore", or "panic" / "timeout" (watchdog)       *)
(*   o.h      "none" (Handle not called: not accepted) | "ok" | "error" |  *)
(*            "panic" | "timeout"                                          *)
(*   o.len    length of the delivered byte string                         *)
(*   o.allocK KiB allocated during validation + handling (0 when the       *)
(*            delivery was not part of the single-threaded allocation pass)*)
(*                                                                         *)
(*  "For every byte string delivered on any subscribed topic and every     *)
(*   local database state, message validation and message handling in each *)
(*   node flavour finish with accept, reject, ignore or an error.  They    *)
(*   never panic, never hang, and never allocate memory that is not        *)
(*   bounded by the message size."                                         *)
(* Nothing here refers to the code-shaped operators of GossipCrash.        *)
(***************************************************************************)
EXTENDS GossipCrash

CONSTANTS AllocBaseK, AllocPerByteK     \* allocation bound: AllocBaseK + AllocPerByteK * len  (KiB)

C05_NoPanic(o)  == o.v # "panic" /\ o.h # "panic"
C05_NoHang(o)   == o.v # "timeout" /\ o.h # "timeout"
C05_Finishes(o) == /\ o.v \in {"accept", "reject", "ignore", "panic", "timeout"}
                   /\ o.h \in {"none", "ok", "error", "panic", "timeout"}
                   /\ (o.h # "none") => o.v = "accept"
C05_Alloc(o)    == o.allocK <= AllocBaseK + AllocPerByteK * o.len

Failed(o) ==
    (IF C05_NoPanic(o) THEN {} ELSE {"C05_NoPanic"}) \cup
    (IF C05_NoHang(o) THEN {} ELSE {"C05_NoHang"}) \cup
    (IF C05_Finishes(o) THEN {} ELSE {"C05_Finishes"}) \cup
    (IF C05_Alloc(o) THEN {} ELSE {"C05_Alloc"})

(* design-level statement checked by TLC on the code-shaped layer (allocation is not modelled) *)
DesignHolds(c) == \A x \in Outcomes(c) : Failed([v |-> x.v, h |-> x.h, len |-> 0, allocK |-> 0]) = {}

=============================================================================
