----------------------------- MODULE EventsTrace -----------------------------
(***************************************************************************)
(* Trace layer for C14.  One ndjson line per case executed on the real     *)
(* code by harness/events (lines are independent, the fold is linear):     *)
(*   fid: v, enc = Abs(real x.MakeABCIEvent()), out = Abs(real MakeEvent), *)
(*        out2 = Abs(MakeEvent(MakeABCIEvent(decoded))), seen = what the   *)
(*        real smobserver.makeEvents passed on                             *)
(*   mut: v (base, for its height), d, ev (the syntax that was rendered    *)
(*        into the real abci event), out, out2, seen                       *)
(*   app: v, scen, panic, codes (DeliverTx codes), evs (decoded events of  *)
(*        all steps on the real app.ShutterApp)                            *)
(* pass A  viol : <<line, monitor>> for every monitor of EventsProps that  *)
(*                is false on the observed data                            *)
(* pass B  drift: lines whose observation is not what the code-shaped      *)
(*                operators of Events compute                              *)
(***************************************************************************)
EXTENDS EventsProps, Json, SequencesExt

CONSTANT TraceFile
Trace == ndJsonDeserialize(TraceFile)

VARIABLES l, viol, drift
tvars == <<l, viol, drift>>

SeenOf(r) == IF r.res = "ok" THEN r ELSE ErrR

LineViol(line) ==
    CASE line.cls = "fid" -> FidelityViol(line.v, line.out, line.out2, line.seen)
      [] line.cls = "mut" -> RobustViol(line.ev, line.v.h, line.out, line.out2, line.seen)
      [] line.cls = "app" -> AppViol(AppScenario(line.v), line.panic, line.codes, line.evs)
      [] OTHER -> {"C14_UnknownLine"}

LineConforms(line) ==
    CASE line.cls = "fid" ->
            LET ev == MakeABCIEvent(line.v)
                r == MakeEvent(ev, line.v.h)
            IN /\ line.enc = ev
               /\ line.out = r
               /\ line.out2 = (IF r.res = "ok" THEN MakeEvent(MakeABCIEvent(r.v), r.v.h) ELSE [res |-> "skip", v |-> NoV])
               /\ line.seen = SeenOf(r)
      [] line.cls = "mut" ->
            LET r == MakeEvent(line.ev, line.v.h)
            IN /\ line.out = r
               /\ line.out2 = (IF r.res = "ok" THEN MakeEvent(MakeABCIEvent(r.v), r.v.h) ELSE [res |-> "skip", v |-> NoV])
               /\ line.seen = SeenOf(r)
      [] line.cls = "app" ->
            /\ line.scen = AppScenario(line.v)
            /\ line.panic = ""
            /\ \A i \in DOMAIN line.codes : line.codes[i] = 0
            /\ line.evs = MapSeq(OkR, AppScenario(line.v).expect)
      [] OTHER -> FALSE

TInit == l = 1 /\ viol = {} /\ drift = {}
TNext ==
    /\ l <= Len(Trace)
    /\ l' = l + 1
    /\ LET line == Trace[l] IN
       /\ viol' = viol \cup {<<l, m>> : m \in LineViol(line)}
       /\ drift' = drift \cup (IF LineConforms(line) THEN {} ELSE {l})
TSpec == TInit /\ [][TNext]_tvars

Done == l <= Len(Trace) \/
        PrintT(<<"RESULT", ToJson([lines |-> Len(Trace), viol |-> SetToSeq(viol), drift |-> SetToSeq(drift)])>>)

=============================================================================
