---------------------------- MODULE PrimevFlowMC ----------------------------
(***************************************************************************)
(* Handler-level model of the PrimevFlow stage: ONE keyper (index 0) with  *)
(* its long-lived commitment handler, KeyShareHandler, databases and       *)
(* registry syncer.  A universe fixes the static scenario (keyper set 2,   *)
(* when eon 2 becomes known), 2-3 commitment messages drawn from the       *)
(* classes, the injectable SQL faults and a script of chain events; inside *)
(* a universe TLC explores EVERY order of                                  *)
(*   Cmt(k, f)  commitment k is delivered (at most MaxRep times each;      *)
(*              f = "none" or a one-shot SQL fault, at most MaxFault per   *)
(*              behaviour)                                                 *)
(*   Eon        eon 2 becomes known (universes with eon2 = "late")         *)
(*   Env        the next step of the chain script (mine / run / switch)    *)
(*   Sync(f)    processNewBlock = ProviderRegistrySyncer.Sync under fault f*)
(* All bounds are functions of the state (cnt, fu, ep, nsync).  hist and   *)
(* obs are hidden from the VIEW.  EdgeMode: the VIEW contains the PRE-     *)
(* state and the last operation, so TLC keeps one history per distinct     *)
(* TRANSITION (lesson d); refused / duplicate / faulty deliveries change   *)
(* cnt / fu and are therefore never shadowed (lessons a, e); two calls on  *)
(* the same handler with a state change in between are what every history  *)
(* of length >= 2 is (lesson b); the byte-boundary members are in the      *)
(* class lists (lesson c: upper-case / empty / odd / 0x prefixes, 64 / 66  *)
(* byte signatures, V = 27 / 29, block -1 / 0 / activation-1 / activation /*)
(* MaxInt64).                                                              *)
(* Checked on every transition: the code-shaped layer passes C05, P1       *)
(* P2_OnlyHandled, P2_Trigger; every other monitor fails only as named in  *)
(* InfoMonitors (the as-found behaviours F1-F5), and which ones fired is   *)
(* written into the history entry (x).                                     *)
(***************************************************************************)
EXTENDS PrimevFlowProps, Json

CONSTANTS DesignedIdx,   \* indices into Designed
          SeededIdx,     \* sequence of <<n1, n2, n3, ns>>: seeded universes decoded by UniAt
          MaxRep, MaxFault, MaxSync, Emit, EdgeMode

VARIABLES ui, ks, nd, cnt, fu, blk, canon, ep, nsync, g, pre, last, obs, hist
vars == <<ui, ks, nd, cnt, fu, blk, canon, ep, nsync, g, pre, last, obs, hist>>

----------------------------------------------------------------------------
(* commitments *)
C0 == [inst |-> "ok", pfx |-> <<"a">>, txs |-> <<"t1">>, blk |-> "in", bsig |-> "ok", dig |-> "ok", prov |-> "p1", cd |-> "d1", cs |-> "ok"]
Cm(pfx, txs, cd) == [C0 EXCEPT !.pfx = pfx, !.txs = txs, !.cd = cd]

M(p, ev) == [a |-> "mine", p |-> p, ev |-> ev, k |-> 0]     \* p = 0: on top of the head; else on top of tree block p
X(k) == [a |-> "ext", p |-> 0, ev |-> "", k |-> k]
S(b) == [a |-> "switch", p |-> b, ev |-> "", k |-> 0]

Uni(name, cs, kind2, eon2, faults, env, sfaults) ==
    [name |-> name, cs |-> cs, kind2 |-> kind2, eon2 |-> eon2, faults |-> faults, env |-> env, sfaults |-> sfaults]
H(name, cs) == Uni(name, cs, "absent", "known", {}, <<>>, {})

Designed == <<
  (* 1 overlapping identity lists, same (provider, digest) upsert, descending list *)
  H("1-overlap", <<C0, Cm(<<"a", "b">>, <<"t1", "t2">>, "d1"), Cm(<<"b", "a">>, <<"t2", "t1">>, "d2")>>),
  (* 2 unregistered provider, wrong instance id, two identities for one tx hash *)
  H("2-admission", <<[C0 EXCEPT !.prov = "q"], [C0 EXCEPT !.inst = "bad"], [C0 EXCEPT !.pfx = <<"a", "b">>]>>),
  (* 3 one identity for two tx hashes, wrong instance AND mismatch, garbage commitment signature *)
  H("3-admission2", <<[C0 EXCEPT !.txs = <<"t1", "t2">>], [C0 EXCEPT !.inst = "bad", !.txs = <<>>], [C0 EXCEPT !.cs = "garbage"]>>),
  (* 4 upper-case spelling of a stored prefix; a valid and an odd-length prefix in one message *)
  H("4-hex", <<C0, [C0 EXCEPT !.pfx = <<"A">>], [C0 EXCEPT !.pfx = <<"a", "odd">>, !.txs = <<"t2", "t3">>]>>),
  H("5-hex2", <<[C0 EXCEPT !.pfx = <<"zz">>], [C0 EXCEPT !.pfx = <<"0x">>], [C0 EXCEPT !.pfx = <<"e">>]>>),
  (* 6..9 bid signature / digest classes *)
  H("6-sig", <<C0, [C0 EXCEPT !.bsig = "v27"], [C0 EXCEPT !.bsig = "other"]>>),
  H("7-sig2", <<[C0 EXCEPT !.bsig = "norec"], [C0 EXCEPT !.bsig = "short"], [C0 EXCEPT !.bsig = "long"]>>),
  H("8-sig3", <<[C0 EXCEPT !.bsig = "empty"], [C0 EXCEPT !.bsig = "nonhex"], [C0 EXCEPT !.bsig = "recid"]>>),
  H("9-sig4", <<[C0 EXCEPT !.bsig = "wdig"], [C0 EXCEPT !.dig = "short"], [C0 EXCEPT !.dig = "empty"]>>),
  (* 10 same tx hash with different identities; same identity with another tx hash *)
  H("10-sametx", <<C0, Cm(<<"b">>, <<"t1">>, "d2"), Cm(<<"a">>, <<"t2">>, "d1")>>),
  (* 11..15 block numbers and eons *)
  H("11-blkpast", <<[C0 EXCEPT !.blk = "neg"], [C0 EXCEPT !.blk = "zero"], [C0 EXCEPT !.blk = "pre"]>>),
  H("12-blks", <<[C0 EXCEPT !.blk = "at"], C0, [C0 EXCEPT !.blk = "in2"]>>),
  Uni("13-eon2foreign", <<[C0 EXCEPT !.blk = "e2m"], [C0 EXCEPT !.blk = "e2"], [C0 EXCEPT !.blk = "fut"]>>, "foreign", "known", {}, <<>>, {}),
  Uni("14-eonrace", <<[C0 EXCEPT !.blk = "fut"], [C0 EXCEPT !.blk = "max"], C0>>, "failed", "late", {}, <<>>, {}),
  Uni("15-eon2nodkg", <<[C0 EXCEPT !.blk = "e2"], C0>>, "nodkg", "known", {}, <<>>, {}),
  (* 16 empty lists; the same identity twice in one message (same / different tx hash) *)
  H("16-empty", <<[C0 EXCEPT !.pfx = <<>>, !.txs = <<>>], Cm(<<"a", "a">>, <<"t1", "t1">>, "d1"), Cm(<<"a", "a">>, <<"t1", "t2">>, "d2")>>),
  (* 17 one-shot SQL faults *)
  Uni("17-faults", <<C0, Cm(<<"a", "b">>, <<"t1", "t2">>, "d2")>>, "absent", "known", {"eonq", "ins", "insc"}, <<>>, {}),
  (* 18 descending lists of two and three identities, then one of their identities alone *)
  H("18-desc", <<Cm(<<"b", "a">>, <<"t1", "t2">>, "d1"), Cm(<<"a">>, <<"t2">>, "d2"), Cm(<<"c", "a", "b">>, <<"t3", "t2", "t1">>, "d3")>>),
  (* 19 second message for a stored (provider, digest) by another bidder; the same digest by another provider *)
  H("19-upsert", <<C0, [C0 EXCEPT !.bsig = "other"], [C0 EXCEPT !.prov = "p2"]>>),
  (* 20..24 registry syncer *)
  Uni("20-reg", <<>>, "absent", "known", {}, <<M(0, "p1"), M(0, "x"), M(0, "p2"), M(0, "")>>, {}),
  Uni("21-regfaults", <<>>, "absent", "known", {}, <<M(0, "p1"), M(0, ""), M(0, "p2")>>, {"rpc", "db", "flt"}),
  (* blocks: 1 root, 2 (num 1, p1), 3 (num 2, p2), 4 (num 2, sibling of 3, p3), 5 (num 3), 6 (num 4) *)
  Uni("22-reorg", <<>>, "absent", "known", {}, <<M(0, "p1"), M(0, "p2"), M(2, "p3"), M(0, ""), M(0, "")>>, {}),
  Uni("23-stepback", <<>>, "absent", "known", {}, <<M(0, "p1"), M(0, "p2"), S(2), M(0, "p3"), M(0, "")>>, {}),
  (* 10004 blocks: the first Sync has two ranges *)
  Uni("24-long", <<>>, "absent", "known", {}, <<M(0, "p1"), X(10001), M(0, "p2")>>, {"db", "rpc"}),
  (* 25 a registered and an unregistered provider's commitment around the sync of the registration *)
  Uni("25-both", <<C0, [C0 EXCEPT !.prov = "q", !.cd = "d2", !.txs = <<"t2">>]>>, "absent", "known", {}, <<M(0, "p1")>>, {}) >>

----------------------------------------------------------------------------
(* seeded universes: three commitments decoded from three numbers (mixed radix over the class
   lists), the static part from a fourth *)
PfxOpts == << <<"a">>, <<"b">>, <<"a", "b">>, <<"b", "a">>, <<"a", "a">>, <<"A">>, <<"c">>, <<"a", "zz">>, <<"odd">>, <<"e">>, <<>>, <<"0x">>, <<"b", "c">> >>
TxOpts  == <<"fresh", "fresh", "same", "shift", "fewer">>
BlkOpts == <<"in", "in", "in", "in", "in2", "at", "pre", "fut", "e2", "neg", "max">>
SigOpts == <<"ok", "ok", "ok", "ok", "ok", "ok", "ok", "v27", "other", "wdig", "norec", "recid", "short", "long", "empty", "nonhex">>
DigOpts == <<"ok", "ok", "ok", "ok", "ok", "ok", "ok", "ok", "ok", "ok", "short", "empty">>
ProvOpts == <<"p1", "p1", "p2", "q">>
CdOpts  == <<"d1", "d1", "d2">>
InstOpts == <<"ok", "ok", "ok", "ok", "ok", "ok", "ok", "bad">>
StaticOpts == <<[kind2 |-> "absent", eon2 |-> "known", faults |-> {}],
                [kind2 |-> "absent", eon2 |-> "known", faults |-> {"insc"}],
                [kind2 |-> "foreign", eon2 |-> "known", faults |-> {}],
                [kind2 |-> "failed", eon2 |-> "late", faults |-> {}],
                [kind2 |-> "nodkg", eon2 |-> "late", faults |-> {}],
                [kind2 |-> "absent", eon2 |-> "known", faults |-> {"ins", "eonq"}]>>
TxNames == <<"t1", "t2", "t3">>
TxsOf(pfx, o) ==
    CASE o = "fresh" -> [k \in 1..Len(pfx) |-> TxNames[k]]
      [] o = "same"  -> [k \in 1..Len(pfx) |-> "t1"]
      [] o = "shift" -> [k \in 1..Len(pfx) |-> TxNames[IF k + 1 > 3 THEN 3 ELSE k + 1]]
      [] o = "fewer" -> [k \in 1..(IF Len(pfx) = 0 THEN 1 ELSE Len(pfx) - 1) |-> TxNames[k]]
Dg(n, m) == (n % m) + 1
CmAt(n) ==
    LET pfx == PfxOpts[Dg(n, Len(PfxOpts))]
        n1 == n \div Len(PfxOpts)
        tx == TxOpts[Dg(n1, Len(TxOpts))]
        n2 == n1 \div Len(TxOpts)
        n3 == n2 \div Len(BlkOpts)
        n4 == n3 \div Len(SigOpts)
        n5 == n4 \div Len(DigOpts)
        n6 == n5 \div Len(ProvOpts)
        n7 == n6 \div Len(CdOpts)
    IN [inst |-> InstOpts[Dg(n7, Len(InstOpts))], pfx |-> pfx, txs |-> TxsOf(pfx, tx), blk |-> BlkOpts[Dg(n2, Len(BlkOpts))],
        bsig |-> SigOpts[Dg(n3, Len(SigOpts))], dig |-> DigOpts[Dg(n4, Len(DigOpts))], prov |-> ProvOpts[Dg(n5, Len(ProvOpts))],
        cd |-> CdOpts[Dg(n6, Len(CdOpts))], cs |-> "ok"]
UniAt(q) ==
    LET s == StaticOpts[Dg(q[4], Len(StaticOpts))]
        cs == <<CmAt(q[1]), CmAt(q[2]), CmAt(q[3])>> IN
    Uni("seeded", cs, s.kind2, s.eon2, s.faults, <<>>, {})

Universes == [q \in DOMAIN DesignedIdx |-> Designed[DesignedIdx[q]]] \o [q \in DOMAIN SeededIdx |-> UniAt(SeededIdx[q])]
U == Universes[ui]

(* every identity list a trigger of these universes can carry *)
Triggerable(c) == Bidder(c) # 0 /\ (\A k \in DOMAIN c.pfx : PfxId(c.pfx[k]) # 0) /\ Len(c.pfx) > 0 /\ Len(c.pfx) = Len(c.txs)
ListsOf(us) == SetToSeq({TrigIds(us[q].cs[k]) : <<q, k>> \in {<<q2, k2>> \in (DOMAIN us) \X (1..3) : k2 \in DOMAIN us[q2].cs /\ Triggerable(us[q2].cs[k2])}})
cLists == ListsOf(Universes)

ASSUME PrintT(<<"UNIS", ToJson(Universes)>>)
ASSUME PrintT(<<"CONST", ToJson([k |-> K, t |-> T, lists |-> Lists, sortmode |-> SortMode, ndesigned |-> Len(Designed)])>>)

----------------------------------------------------------------------------
NoObs == [failed |-> {}]
Init ==
    /\ ui \in DOMAIN Universes
    /\ ks = KsInit(Universes[ui]) /\ nd = G!NodeInit
    /\ cnt = [k \in DOMAIN Universes[ui].cs |-> 0] /\ fu = 0
    /\ blk = <<RootBlk>> /\ canon = 1 /\ ep = 0 /\ nsync = 0
    /\ g = GhostInit /\ pre = 0 /\ last = 0
    /\ obs = NoObs /\ hist = <<>>

OwnShares(n) == {id \in G!IdSet : 0 \in n.shares[id]}
RegKeys(st) == {r.key : r \in st.stored}
PreOf == IF EdgeMode THEN <<ks, nd>> ELSE 0

Cmt(k, f) ==
    /\ cnt[k] < MaxRep
    /\ f = "none" \/ (fu < MaxFault /\ f \in U.faults)
    /\ LET c == U.cs[k]
           r == CmtDeliver(U, ks, nd, 0, c, f)
           o == [c |-> c, f |-> f, v |-> r.v, res |-> r.res, out |-> r.out, prod |-> r.pub.prod, panic |-> "", hang |-> ""]
           g2 == GhostNext(g, ks.e2, o)
           failed == C05Failed(o) \cup CmtFailed(o, g2, ks.e2, [rows |-> r.ks.rows, cms |-> r.ks.cms], OwnShares(r.nd), U.kind2)
                     \cup CmtInfo(o, RegKeys(r.ks.reg))
                     \cup P4StepFailed("-", r.pub.prod, [i \in Nodes |-> r.nd])
       IN /\ ks' = r.ks /\ nd' = r.nd /\ g' = g2
          /\ obs' = [failed |-> failed]
          /\ hist' = Append(hist, [a |-> "cmt", k |-> k, f |-> f, at |-> 0, x |-> SetToSeq(failed)])
    /\ cnt' = [cnt EXCEPT ![k] = @ + 1]
    /\ fu' = IF f = "none" THEN fu ELSE fu + 1
    /\ pre' = PreOf /\ last' = <<"cmt", k, f>>
    /\ UNCHANGED <<ui, blk, canon, ep, nsync>>

Eon ==
    /\ ~ks.e2 /\ U.kind2 # "absent" /\ U.eon2 = "late"
    /\ ks' = LearnEon(ks)
    /\ obs' = [failed |-> EonFailed(TRUE, ks)]
    /\ hist' = Append(hist, [a |-> "eon", k |-> 0, f |-> "none", at |-> 0, x |-> SetToSeq(EonFailed(TRUE, ks))])
    /\ pre' = PreOf /\ last' = <<"eon", 0, "none">>
    /\ UNCHANGED <<ui, nd, cnt, fu, blk, canon, ep, nsync, g>>

Env ==
    /\ ep < Len(U.env)
    /\ LET r == EnvApply(blk, canon, U.env[ep + 1]) IN blk' = r.blk /\ canon' = r.canon
    /\ ep' = ep + 1
    /\ obs' = NoObs
    /\ hist' = Append(hist, [a |-> "env", k |-> ep + 1, f |-> "none", at |-> 0, x |-> <<>>])
    /\ pre' = PreOf /\ last' = <<"env", ep + 1, "none">>
    /\ UNCHANGED <<ui, ks, nd, cnt, fu, nsync, g>>

SyncFaults ==
    LET nr == PNRanges(blk, canon, ks.reg) IN
    {NoFault} \cup (IF fu < MaxFault
                    THEN {[k |-> k, at |-> at] : <<k, at>> \in {<<k2, at2>> \in U.sfaults \X (0..nr) : at2 >= 1 \/ k2 = "rpc"}}
                    ELSE {})
Sync(f) ==
    /\ nsync < MaxSync /\ ep >= 1
    /\ LET r == PRun(blk, canon, ks.reg, f)
           failed == RegFailed(blk, canon, <<ks.reg>> \o r.seq) IN
       /\ ks' = [ks EXCEPT !.reg = Final(ks.reg, r)]
       /\ obs' = [failed |-> failed]
       /\ hist' = Append(hist, [a |-> "sync", k |-> 0, f |-> f.k, at |-> f.at, x |-> SetToSeq(failed)])
    /\ nsync' = nsync + 1
    /\ fu' = IF f.k = "none" THEN fu ELSE fu + 1
    /\ pre' = PreOf /\ last' = <<"sync", f.at, f.k>>
    /\ UNCHANGED <<ui, nd, cnt, blk, canon, ep, g>>

Next ==
    \/ \E k \in DOMAIN U.cs, f \in {"none"} \cup CmtFaults : Cmt(k, f)
    \/ Eon \/ Env
    \/ \E f \in SyncFaults : Sync(f)
Spec == Init /\ [][Next]_vars

(* the code-shaped layer against the property layer *)
StepOK == [][obs'.failed \subseteq InfoMonitors]_vars
(* the named alternative (PRIMEV-1.diff: identities sorted before the trigger): no keyper's own shares are refused *)
SortedOK == [][SortMode = "sorted" => "P4_Published" \notin obs'.failed]_vars

EmitInv == (~Emit) \/ PrintT(<<"B", ToJson([ui |-> ui, sched |-> hist])>>)
View == <<ui, ks, nd, cnt, fu, blk, canon, ep, nsync, g, pre, last>>
=============================================================================
