--------------------------- MODULE EpochKGPipeTrace ---------------------------
(* trie walk as in EpochKGTrace: "msg" lines push (observed tables, ghost), "pop" returns to a
   depth.  Pass A: BFailed over the observed step; pass B: Step of the code-shaped pipeline. *)
EXTENDS EpochKGPipe, Json
CONSTANT TraceFile
Trace == ndJsonDeserialize(TraceFile)
VARIABLES l, stack, viol, drift
tvars == <<l, stack, viol, drift>>

TInit == l = 1 /\ stack = <<>> /\ viol = {} /\ drift = {}
TNext ==
    /\ l <= Len(Trace) /\ l' = l + 1
    /\ LET line == Trace[l] IN
       CASE line.k = "new" ->
              /\ stack' = <<[db |-> line.st, gh |-> PGhostInit]>>
              /\ drift' = drift \cup (IF line.st = DBInit THEN {} ELSE {l})
              /\ UNCHANGED viol
         [] line.k = "pop" ->
              /\ stack' = SubSeq(stack, 1, line.d + 1) /\ UNCHANGED <<viol, drift>>
         [] OTHER ->
              LET top == stack[Len(stack)]
                  o == [verdict |-> line.verdict, out |-> line.out, err |-> line.err, post |-> line.st]
                  r == Step(top.db, line.msg) IN
              /\ viol' = viol \cup {<<l, m>> : m \in
                           (IF line.panic # "" THEN {"C01_NoPanic"} ELSE BFailed(top.gh, top.db, line.msg, o))}
              /\ drift' = drift \cup (IF r.db = line.st /\ r.verdict = line.verdict /\ r.verr = line.verr
                                         /\ r.out = line.out /\ r.err = line.err THEN {} ELSE {l})
              /\ stack' = Append(stack, [db |-> line.st, gh |-> PGhostNext(top.gh, line.msg)])
TSpec == TInit /\ [][TNext]_tvars
Done == l <= Len(Trace) \/
        PrintT(<<"RESULT", ToJson([lines |-> Len(Trace), viol |-> SetToSeq(viol), drift |-> SetToSeq(drift)])>>)
===============================================================================
