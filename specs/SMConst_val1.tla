------------------------------ MODULE SMConst_val1 ------------------------------
(* one keyper, fork active: the whole life of a validator set (report, check-in, take-over, key
   change, REFUSED check-ins) is inside a bound of seven ops *)
cAddrs == {"a1", "a2"}
cKeyOrd == <<"v1", "none", "v3", "v9">>
cGenesis == [keypers |-> <<"a1">>, thr |-> 1, eon0 |-> 0,
             vals |-> [k \in {"v1", "none", "v3", "v9"} |-> IF k = "v9" THEN 10 ELSE 0],
             forkOn |-> TRUE, forkH |-> 1, dev |-> FALSE, legacy |-> FALSE]
cCands == << [keypers |-> <<"a1", "a2">>, thr |-> 1, act |-> 1, idx |-> 1] >>
cSeenBlocks == {1}
cCheckKeys == {"v1", "v3"}
cEons == {1}
=============================================================================
