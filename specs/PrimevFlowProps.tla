--------------------------- MODULE PrimevFlowProps ---------------------------
(***************************************************************************)
(* Property layer of the PrimevFlow stage, over OBSERVED data only: the    *)
(* call (commitment record, fault), the responses (validator verdict,      *)
(* handler result, the triggers taken from the trigger channel with the    *)
(* KeyShareHandler's result, the messages published with the publisher's   *)
(* own verdict), the tables read from the databases, and a ghost folded    *)
(* from calls and responses (never from the keyper's own tables).          *)
(*                                                                         *)
(* C05 (host property; a failure on the real code is a VIOLATION of C05):  *)
(*   C05_NoPanic, C05_NoHang, C05_Finishes                                 *)
(* P1..P5, R (new; a failure is an OBSERVATION, never a violation):        *)
(*   P1_Admission        the verdict is the documented admission rule      *)
(*   P1_Unhandleable     (inf) accepted, but refused by the handler for a  *)
(*                       reason that is visible in the message itself      *)
(*   P1_Unregistered     (inf) handled although the provider has no row in *)
(*                       provider_registry_events (intended rule, F1)      *)
(*   P2_OnlyHandled      a trigger only for an accepted and handled message*)
(*   P2_Trigger          an accepted and handled message yields one trigger*)
(*                       with its block and exactly its identities         *)
(*   P2_Once             no (block, identity) is triggered twice           *)
(*   P2_MemberShares     at a member of the active set the trigger leaves  *)
(*                       the keyper's own share of every identity stored   *)
(*   P2_Stored           (with P5) rows of identities that were never      *)
(*                       triggered: a lost trigger (F3)                    *)
(*   P3_OrderFree        the set of triggered (block, identity) pairs is a *)
(*                       function of the SET of cleanly delivered messages *)
(*   P3_EonStable        every row carries the eon its block maps to NOW   *)
(*   P4_Published        every message an honest keyper makes passes its   *)
(*                       own validators; P4_KeysGood; P4_AllHaveKeys       *)
(*   P5_Fold             the tables are the fold of the handled messages   *)
(*   R_Exact / R_Atomic  the registry table equals the canonical chain's   *)
(*                       admissible events up to the recorded position;    *)
(*                       position and events move together                 *)
(***************************************************************************)
EXTENDS PrimevFlow

(* the documented admission rule (handler.go ValidateMessage; F1) *)
Rule(c) == IF Len(c.pfx) = Len(c.txs) /\ c.inst = "ok" THEN "accept" ELSE "reject"

(* intrinsic to the message: would be refused by every keyper at any time *)
Intrinsic(c) == Bidder(c) = 0 \/ (\E k \in DOMAIN c.pfx : PfxId(c.pfx[k]) = 0) \/ Len(c.pfx) = 0

ToSetOf(q) == {q[k] : k \in DOMAIN q}
PairsOf(blk, ids) == {<<blk, ids[k]>> : k \in DOMAIN ids}

----------------------------------------------------------------------------
(* ghost of one keyper:
     del   the commitments delivered without an injected fault whose verdict was accept
     ok    the handled ones in order: <<[c, eon]>> (eon: read off the rows the call added, see OkEon)
     t1,t2 (block, identity) pairs seen in at least one / at least two triggers
     rows, cms  the fold of the handled messages (P5) *)
GhostInit == [del |-> {}, t1 |-> {}, t2 |-> {}, rows |-> {}, cms |-> {}]

(* P5: what the tables must be after a handled message (stated independently of InsRows: the new
   rows are the FIRST occurrence of every key of the message that the table does not hold) *)
NewRowAt(rows, c, eon, k) ==
    LET key(j) == <<eon, IdOf(c, j), c.txs[j], c.blk>> IN
    /\ \A q \in rows : <<q.eon, q.id, q.tx, q.blk>> # key(k)
    /\ \A j \in 1..(k - 1) : key(j) # key(k)
FoldRows(rows, c, eon) ==
    rows \cup {[eon |-> eon, id |-> IdOf(c, k), tx |-> c.txs[k], blk |-> c.blk, cd |-> c.cd, prov |-> c.prov, pfx |-> c.pfx[k]] :
                  k \in {j \in DOMAIN c.pfx : NewRowAt(rows, c, eon, j)}}
NewTxs(rows, c, eon) == SelectSeq([k \in DOMAIN c.pfx |-> IF NewRowAt(rows, c, eon, k) THEN c.txs[k] ELSE "-"], LAMBDA x : x # "-")
FoldCms(cms, rows, c, eon) ==
    LET hit == {m \in cms : m.cd = c.cd /\ m.prov = c.prov} IN
    IF hit = {} THEN cms \cup {[cd |-> c.cd, prov |-> c.prov, txs |-> NewTxs(rows, c, eon), blk |-> c.blk, cs |-> c.cs, bs |-> c.bsig, bidder |-> Bidder(c)]}
    ELSE (cms \ hit) \cup {[m EXCEPT !.txs = @ \o NewTxs(rows, c, eon), !.bs = c.bsig, !.bidder = Bidder(c)] : m \in hit}

(* the ghost after an observed commitment delivery (e2: the keyper's eon table at the call, a fact
   of the harness; obs = [c, f, v, res, out]) *)
GhostNext(g, e2, o) ==
    LET handled == o.v = "accept" /\ o.res = "ok"
        eon == EonFor(e2, o.c.blk)
        tp  == UNION {PairsOf(o.out[k].blk, o.out[k].ids) : k \in DOMAIN o.out}
        (* pairs that occur twice inside this step's triggers (the same identity twice in one list) do not
           count as a second trigger: one trigger names it *)
    IN [del  |-> IF o.f = "none" /\ o.v = "accept" THEN g.del \cup {o.c} ELSE g.del,
        t1   |-> g.t1 \cup tp,
        t2   |-> g.t2 \cup (g.t1 \cap tp),
        rows |-> IF handled THEN FoldRows(g.rows, o.c, eon) ELSE g.rows,
        cms  |-> IF handled THEN FoldCms(g.cms, g.rows, o.c, eon) ELSE g.cms]

(* would be handled by a keyper with eon table e2, whatever it holds already *)
Handleable(c, e2) == Rule(c) = "accept" /\ ~Intrinsic(c) /\ EonFor(e2, c.blk) # 0
ExpectedTrig(del, e2) == UNION {PairsOf(c.blk, IdSeq(c)) : c \in {d \in del : Handleable(d, e2)}}

----------------------------------------------------------------------------
(* monitors of one observed commitment delivery at keyper n
   o    = [c, f, v, res, out, prod, panic, hang]
   gpre / g  ghost before / after;  e2 eon table at the call;  member1: n is a member of set 1
   ksobs = [rows, cms] observed after the call;  shares = observed own-share identities of n
   regkeys = providers in the observed provider_registry_events *)
C05Failed(o) ==
    (IF o.panic = "" THEN {} ELSE {"C05_NoPanic"}) \cup
    (IF o.hang = "" THEN {} ELSE {"C05_NoHang"}) \cup
    (IF /\ o.v \in {"accept", "reject", "ignore"}
        /\ (o.v # "accept" => o.res = "-" /\ o.out = <<>>)
        /\ (o.v = "accept" => o.res \in {"ok", "err_sig", "err_hex", "err_eon", "err_notnull", "err_db", "err_other"})
     THEN {} ELSE {"C05_Finishes"})

CmtFailed(o, g, e2, ksobs, shares, kind2) ==
    LET handled == o.v = "accept" /\ o.res = "ok" IN
    (IF o.v = Rule(o.c) THEN {} ELSE {"P1_Admission"}) \cup
    (IF o.out # <<>> => handled THEN {} ELSE {"P2_OnlyHandled"}) \cup
    (IF handled => /\ Len(o.out) = 1 /\ o.out[1].blk = o.c.blk
                   /\ ToSetOf(o.out[1].ids) = ToSetOf(IdSeq(o.c)) /\ Len(o.out[1].ids) = Len(o.c.pfx)
     THEN {} ELSE {"P2_Trigger"}) \cup
    (IF g.t2 = {} THEN {} ELSE {"P2_Once"}) \cup
    (IF \A k \in DOMAIN o.out :
          (EonFor(e2, o.out[k].blk) = 1 /\ o.out[k].ksh \notin {"err_db"}) => ToSetOf(o.out[k].ids) \subseteq shares
     THEN {} ELSE {"P2_MemberShares"}) \cup
    (IF g.t1 = ExpectedTrig(g.del, e2) THEN {} ELSE {"P3_OrderFree"}) \cup
    (IF \A r \in ksobs.rows : r.eon = EonFor(e2, r.blk) THEN {} ELSE {"P3_EonStable"}) \cup
    (IF ksobs.rows = g.rows /\ ksobs.cms = g.cms THEN {} ELSE {"P5_Fold"}) \cup
    (IF \A r \in ksobs.rows : <<r.blk, r.id>> \in g.t1 THEN {} ELSE {"P2_Stored"})

CmtInfo(o, regkeys) ==
    (IF o.v = "accept" /\ o.res # "ok" /\ Intrinsic(o.c) THEN {"P1_Unhandleable"} ELSE {}) \cup
    (IF o.v = "accept" /\ o.res = "ok" /\ o.c.prov \notin regkeys THEN {"P1_Unregistered"} ELSE {})

(* the eon table changed: rows bound to the old mapping *)
EonFailed(e2, ksobs) == IF \A r \in ksobs.rows : r.eon = EonFor(e2, r.blk) THEN {} ELSE {"P3_EonStable"}

----------------------------------------------------------------------------
(* monitors of the gossip part (P4): a step's publications, the key tables, the end of a run *)
P4StepFailed(verdict, prod, tabs) ==
    (IF verdict \in {"-", "accept"} /\ \A k \in DOMAIN prod : prod[k].own = "accept" THEN {} ELSE {"P4_Published"}) \cup
    (IF G!P_KeysGood(tabs) THEN {} ELSE {"P4_KeysGood"})

(* the identities that at least T keypers hold their OWN share of (= were triggered at >= T members) *)
TrigAtT(tabs) == {id \in G!IdSet : Cardinality({i \in Nodes : i \in tabs[i].shares[id]}) >= T}
P4EndFailed(tabs) ==
    IF \A id \in TrigAtT(tabs) : \A i \in Nodes : tabs[i].keys[id] = "good" THEN {} ELSE {"P4_AllHaveKeys"}

----------------------------------------------------------------------------
(* registry monitors over the committed states of one Sync call: states = <<pre, committed...>> *)
R_Exact(blk, canon, st) ==
    OnCanon(blk, canon, st.synced) => st.stored = EventsIn(blk, canon, PCfg.start0, st.synced.num)
R_Atomic(blk, a, b) ==
    a.synced = b.synced \/
    LET sa == a.synced
        sb == b.synced
        lo == IF sa.has THEN sa.num + 1 ELSE PCfg.start0
    IN \/ /\ sb.has /\ Valid(blk, sb.hash) /\ NumOf(blk, sb.hash) = sb.num /\ sb.num >= lo
          /\ {r \in b.stored : r.num >= lo} = EventsIn(blk, sb.hash, lo, sb.num)
          /\ {r \in b.stored : r.num < lo} \subseteq a.stored
       \/ /\ sa.has /\ sb.has /\ sb.num < sa.num /\ sb.hash = Empty
          /\ b.stored = {r \in a.stored : r.num <= sb.num}
RegFailed(blk, canon, states) ==
    (IF R_Exact(blk, canon, states[Len(states)]) THEN {} ELSE {"R_Exact"}) \cup
    (IF \A i \in 1..(Len(states) - 1) : R_Atomic(blk, states[i], states[i + 1]) THEN {} ELSE {"R_Atomic"})

(* the monitors the code as found is KNOWN not to satisfy (the behaviours are printed with them as
   tags and replayed; on the real code they are reported as OBSERVATION lines) *)
InfoMonitors == {"P1_Unhandleable", "P1_Unregistered", "P2_Once", "P2_Stored", "P2_MemberShares", "P3_OrderFree", "P3_EonStable",
                 "P4_Published", "P4_AllHaveKeys", "P5_Fold", "R_Exact", "R_Atomic"}
=============================================================================
