CONSTANTS
  Addrs <- cAddrs
  KeyOrd <- cKeyOrd
  Genesis <- cGenesis
  TallyMode = "closed"
  Cands <- cCands
  Kinds = {"vote","seen","dkgres","bad","replay"}
  SeenBlocks <- cSeenBlocks
  CheckKeys <- cCheckKeys
  Eons <- cEons
  MaxDepth = 5
  Emit = FALSE
  TagMode = "none"
SPECIFICATION SpecNI
INVARIANT C10_NI
VIEW ViewNI
CHECK_DEADLOCK FALSE
