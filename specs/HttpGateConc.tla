----------------------------- MODULE HttpGateConc -----------------------------
(***************************************************************************)
(* C18 -- two requests IN FLIGHT at the same time on one server instance.  *)
(* pa, pb = [stage, rq, resp]: each request walks the pipeline stages of   *)
(* HttpGate with its own locals; TLC interleaves the stages of the two in  *)
(* every order.  Code-shaped layer: no stage reads or writes anything      *)
(* outside its rq (MwShare = "local": `spec`, `operation` are locals of    *)
(* the handler func of ConfigMiddlewareWithSpec), so the product is two    *)
(* independent runs and every response is the one the request gets alone.  *)
(* Named alternative (NOT the code) MwShare = "shared": `operation` is a   *)
(* variable of the enclosing closure, written by the lookup and read by    *)
(* the access check as two steps -- TLC then finds CGateInv violated: a    *)
(* write request judged with the read-only operation another request       *)
(* looked up in between.                                                   *)
(* Pairs: every (not read-only operation, read-only operation) of the      *)
(* embedded document in documented spelling (ConcAll: every ordered pair   *)
(* of operations).  The harness binds each printed pair by stress: the     *)
(* interleavings of goroutines are sampled, not enumerated.                *)
(***************************************************************************)
EXTENDS HttpGateProps, Json, SequencesExt

CONSTANTS ConcW, ConcAll, MwShare

VARIABLES cw, cstack, ra, rb, pa, pb, shared
cvars == <<cw, cstack, ra, rb, pa, pb, shared>>

OpReq(o) == [m |-> o.method, t |-> o.path, sps |-> <<"exact">>, h |-> DefaultHdr]
WriteReqs == {OpReq(o) : o \in {x \in Range(EmbOps) : ~IsReadOnlyEndpoint(x)}}
ReadReqs == {OpReq(o) : o \in {x \in Range(EmbOps) : IsReadOnlyEndpoint(x)}}
AllReqs == WriteReqs \cup ReadReqs
ConcPairs == (WriteReqs \X ReadReqs) \cup (IF ConcAll THEN AllReqs \X AllReqs ELSE {})

Proc(r, w, stk) == [stage |-> "outer", rq |-> MkRq(r.m, SpellAll(BasePath(Tpl(r.t)), r.sps), w, r.h, stk, FALSE), resp |-> NoResp]

CInit ==
    /\ cw \in ConcW
    /\ cstack \in Stacks
    /\ \E pr \in ConcPairs : ra = pr[1] /\ rb = pr[2]
    /\ pa = Proc(ra, cw, cstack)
    /\ pb = Proc(rb, cw, cstack)
    /\ shared = NoOp

\* one stage of one request; sh = the closure variable of the named alternative
StepP(p, sh) ==
    IF MwShare = "shared" /\ p.stage = "mw"
    THEN {[p |-> [p EXCEPT !.stage = "mw2"], sh |-> o] : o \in FindOperationResults(p.rq)}
    ELSE IF MwShare = "shared" /\ p.stage = "mw2"
    THEN LET x == MwDecide(p.rq, sh) IN {[p |-> [stage |-> x.next, rq |-> x.rq, resp |-> x.r], sh |-> sh]}
    ELSE {[p |-> [stage |-> x.next, rq |-> x.rq, resp |-> x.r], sh |-> sh] : x \in Step(p.stage, p.rq)}

CNext ==
    /\ \/ /\ pa.stage # "done"
          /\ \E y \in StepP(pa, shared) : pa' = y.p /\ shared' = y.sh
          /\ UNCHANGED pb
       \/ /\ pb.stage # "done"
          /\ \E y \in StepP(pb, shared) : pb' = y.p /\ shared' = y.sh
          /\ UNCHANGED pa
    /\ UNCHANGED <<cw, cstack, ra, rb>>

CSpec == CInit /\ [][CNext]_cvars

CGateInv ==
    /\ pa.stage = "done" => C18_Gate(cw, pa.resp.effect)
    /\ pb.stage = "done" => C18_Gate(cw, pb.resp.effect)
CLiveInv ==
    /\ pa.stage = "done" => C18_Live(ra.m, ra.t, ra.sps, pa.resp.effect)
    /\ pb.stage = "done" => C18_Live(rb.m, rb.t, rb.sps, pb.resp.effect)
\* what a request gets does not depend on what else is in flight
CIndepInv ==
    /\ pa.stage = "done" => ServeReq(ra, cw, cstack, FALSE) = {pa.resp}
    /\ pb.stage = "done" => ServeReq(rb, cw, cstack, FALSE) = {pb.resp}

WithTarget(r) == [m |-> r.m, t |-> r.t, sps |-> r.sps, h |-> r.h, target |-> Target(SpellAll(BasePath(Tpl(r.t)), r.sps))]
CEmitInv ==
    (pa.stage = "outer" /\ pb.stage = "outer") =>
        PrintT(<<"CONC", ToJson([w |-> cw, stack |-> cstack, reqs |-> <<WithTarget(ra), WithTarget(rb)>>])>>)
=============================================================================
