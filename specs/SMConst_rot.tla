------------------------------ MODULE SMConst_rot ------------------------------
(* rotation universe (C11): the genesis set {a1,a2} (threshold 2) is replaced by {a2,a3}
   (threshold 1), which REMOVES a1 and LOWERS the threshold; a further candidate {a1,a3} can
   then be proposed.  Within six ops: a removed keyper votes; a configuration with a lower
   threshold than its predecessor waits for block reports of the predecessor's keypers. *)
cAddrs == {"a1", "a2", "a3"}
cKeyOrd == <<"v1", "none", "v9">>
cGenesis == [keypers |-> <<"a1", "a2">>, thr |-> 2, eon0 |-> 0,
             vals |-> [k \in {"v1", "none", "v9"} |-> IF k = "v9" THEN 10 ELSE 0],
             forkOn |-> FALSE, forkH |-> 0, dev |-> FALSE, legacy |-> FALSE]
cCands == << [keypers |-> <<"a2", "a3">>, thr |-> 1, act |-> 1, idx |-> 1],
             [keypers |-> <<"a1", "a3">>, thr |-> 1, act |-> 1, idx |-> 2] >>
cSeenBlocks == {1}
cCheckKeys == {"v1"}
cEons == {1, 2}
=============================================================================
