----------------------------- MODULE KeyperCrash -----------------------------
(***************************************************************************)
(* Code-shaped specification of ONE keyper following shuttermint through a *)
(* key generation while its process may die at any instant:                *)
(*   keyper/smobserver/smdriver.go  sync / fetchEvents2 / handleBlock      *)
(*                                  -> TxBody, TxCommit                    *)
(*   keyper/smobserver/smstate.go   Load / loadDKG, Save, shiftPhase,      *)
(*                                  startPhase*, finalizeDKG, handle*      *)
(*   keyper/fx/send.go              SendShutterMessages -> SendHead,       *)
(*                                  DeleteHead                             *)
(*   keyper/fx/messagesender.go     RPCMessageSender.SendMessage           *)
(*   keyper/database/extend.go      ScheduleShutterMessage (outbox insert) *)
(*   keyper.sql                     tendermint_sync_meta, puredkg,         *)
(*                                  tendermint_outgoing_messages,          *)
(*                                  dkg_result, outgoing_eon_keys          *)
(*   keyper/keyper.go               operateShuttermint: sync, then send    *)
(*                                                                         *)
(* The other keypers and shuttermint are a fixed environment: all other    *)
(* dealers publish commitment and evaluations in block DealBlock, and (if  *)
(* AccBlock >= 0) somebody falsely accuses this keyper in block AccBlock,  *)
(* so that it has to apologise.  Heights are relative to the EonStarted    *)
(* block (block 0).  The keyper's own messages land in the block that is   *)
(* open when it sends them.                                                *)
(*                                                                         *)
(* The secret polynomial is a token: every execution of                    *)
(* startPhase1Dealing draws a token that is not visible anywhere yet, so   *)
(* "two different commitments" / "an evaluation of another polynomial      *)
(* than the stored one" are visible.                                       *)
(*                                                                         *)
(* LoadMode names what shdb.DecodePureDKG yields for entries of            *)
(* PureDKG.Commitments / Evals that were nil when the object was saved:    *)
(*   "nilsafe" nil again (the repaired behaviour)                          *)
(*   "gobzero" the behaviour before the repair: gob decodes them as empty  *)
(*             Gammas / 0, puredkg then refuses the real commitment or     *)
(*             evaluation as a duplicate, so a keyper reloaded during the  *)
(*             dealing phase never completes the key generation correctly. *)
(***************************************************************************)
EXTENDS Integers, Sequences, FiniteSets, TLC

CONSTANTS
    Others,      \* number of other dealers
    PhaseLen,    \* blocks per phase
    DealBlock,   \* block carrying the commitments and evaluations of the other dealers
    AccBlock,    \* block carrying a (false) accusation against this keyper, -1 = none
    LateCheckin, \* block carrying the CheckIn event of one other keyper whose encryption key is unknown
                 \*   when the eon starts (0 = all keys known): its evaluation waits in poly_evals and
                 \*   is sent in a second poly-eval message ("eval2")
    Overlap,     \* TRUE: the previous (failing) eon of the keyper set is still active when this one
                 \*   starts; shiftPhases of block 1 finalises it and queues its failure vote ("old")
    Gov,         \* TRUE: governance prefix. The run starts BEFORE the keyper set of the eon is registered:
                 \*   the keyper's own handleOnChainKeyperSetChanges queues its BatchConfig vote (and
                 \*   sendNewBlockSeen a BlockSeen report), the other keypers' votes register the config
                 \*   in block 0 (BatchConfig + EonStarted events) and their BlockSeen reports start it
                 \*   at the end of block 1; handleBatchConfig queues the check-in and purges the
                 \*   keyper's own vote with DeleteShutterMessageByDesc
    DownUntil,   \* Gov: >0: the keyper process dies right after the transaction that queued the vote
                 \*   and is started again when block DownUntil is open (0: it stays up)
    PurgeMode,   \* "match": the description handleBatchConfig rebuilds is the one the vote was queued
                 \*   with; "mismatch": named alternative, the purge deletes nothing
    SyncEvery,   \* catch-up: the keyper calls SyncAppWithDB only after the blocks h with
    SyncOff,     \*   h % SyncEvery = SyncOff (and after the last block); one call then handles
                 \*   several blocks, each in its own transaction (fetchEvents2)
    LoadMode,    \* "nilsafe" | "gobzero"
    MaxCrashes   \* bound on the number of crashes in one behaviour (guard of Crash, no state constraint)

Off == 0   Dealing == 1   Accusing == 2   Apologizing == 3   Finalized == 4
LastBlock == 3 * PhaseLen + 1

CodeOk == 0   CodeError == 1   CodeSeen == 2

SyncNow(h) == h % SyncEvery = SyncOff \/ h = LastBlock

PhaseAt(h) ==
    IF h < 0 THEN Off
    ELSE IF h < PhaseLen THEN Dealing
    ELSE IF h < 2 * PhaseLen THEN Accusing
    ELSE IF h < 3 * PhaseLen THEN Apologizing
    ELSE Finalized

(* an outbox / broadcast message: kind and the polynomial token it was made from (0 = none) *)
M(k, p) == [k |-> k, p |-> p]

----------------------------------------------------------------------------
(* the puredkg object of this keyper, abstracted *)
NoRec == [phase |-> Off, poly |-> 0,
          own  |-> FALSE,      \* my own commitment came back from the chain and is stored
          recv |-> 0,          \* other dealers whose commitment and evaluation are stored
          accd |-> FALSE,      \* an accusation against me is stored
          apst |-> FALSE]      \* my apology came back from the chain and is stored

DbInit ==
    [sync   |-> -1,            \* tendermint_sync_meta: last block applied
     rows   |-> <<>>,          \* tendermint_sync_meta rows (current_block) in insertion order
     pure   |-> FALSE,         \* a puredkg row exists
     rec    |-> NoRec,         \* its content
     cfgseen |-> ~Gov,         \* tendermint_batch_config has the row of the eon's keyper config
     evp    |-> 0,             \* poly_evals: polynomial token of the evaluation waiting for a key (0 = none)
     loadable |-> TRUE,        \* every stored puredkg row can be decoded by shdb.DecodePureDKG
     outbox |-> <<>>,          \* tendermint_outgoing_messages in id order
     res    |-> "none",        \* dkg_result: "none" | "full" (the crash-free outcome) | "other"
     eonkeys |-> 0]            \* outgoing_eon_keys rows

(* ShuttermintState: synchronized flag + cache of the puredkg object; blocked = the decoded
   object refuses commitments/evaluations it has not stored yet (LoadMode "gobzero") *)
MemDead  == [alive |-> FALSE, synced |-> FALSE, has |-> FALSE, rec |-> NoRec, blocked |-> FALSE]
MemFresh == [MemDead EXCEPT !.alive = TRUE]

AppInit == [commit |-> FALSE, eval |-> FALSE, eval2 |-> FALSE, acc |-> FALSE, apol |-> FALSE, vote |-> FALSE]

Init0 ==
    [db |-> DbInit, mem |-> MemFresh, app |-> AppInit,
     sent     |-> <<>>,        \* every broadcast shuttermint executed: [k, p, code]
     queued   |-> <<>>,        \* every message whose outbox row was ever committed: [k, p], id order
     open     |-> <<>>,        \* my accepted messages in the open block
     blocks   |-> <<>>,        \* blocks[h+1] = my accepted messages in closed block h
     head     |-> 0,           \* last closed block (block 0 = votes, BatchConfig + EonStarted events)
     pc       |-> "sync",      \* "sync": apply the closed blocks; "post": send the outbox; "done"
     tx       |-> [on |-> FALSE, db |-> DbInit, nq |-> <<>>],
     stuck    |-> FALSE,       \* SendShutterMessages returned because shuttermint refused the head (Error)
     inflight |-> FALSE,       \* the head of the outbox was broadcast and accepted, not yet deleted
     crashes  |-> 0]

----------------------------------------------------------------------------
(* polynomial tokens *)
MaxOf(S) == IF S = {} THEN 0 ELSE CHOOSE x \in S : \A y \in S : y <= x
Visible(s) == {s.db.rec.poly} \cup {s.db.outbox[i].p : i \in DOMAIN s.db.outbox} \cup {s.sent[i].p : i \in DOMAIN s.sent}
FreshPoly(s) == MaxOf(Visible(s)) + 1

----------------------------------------------------------------------------
(* smstate.Load / loadDKG *)
Missing(rec) == ~rec.own \/ rec.recv < Others
Load(mem, db) ==
    IF mem.synced THEN mem
    ELSE [mem EXCEPT !.synced = TRUE, !.has = db.pure, !.rec = IF db.pure THEN db.rec ELSE NoRec,
                     !.blocked = db.pure /\ LoadMode = "gobzero" /\ db.rec.phase <= Dealing /\ Missing(db.rec)]

(* working record of one handleBlock: [has, rec, blocked, dirty, db]; dirty = ActiveDKG.dirty:
   Save writes the puredkg row only for objects marked dirty, so every handler that changes the
   object has to mark it (a change that is not marked lives in memory only and is lost with it) *)
Queue(w, m) == [w EXCEPT !.db.outbox = Append(@, m), !.nq = Append(@, m)]
Dirty(w) == [w EXCEPT !.dirty = TRUE]

(* smstate.shiftPhase, one transition *)
ShiftOnce(w, target) ==
    IF ~w.has \/ w.rec.phase >= target THEN w
    ELSE CASE w.rec.phase = Dealing ->
                LET w1 == Dirty([w EXCEPT !.rec.phase = Accusing]) IN
                IF w.rec.recv < Others THEN Queue(w1, M("acc", 0)) ELSE w1
           [] w.rec.phase = Accusing ->
                LET w1 == Dirty([w EXCEPT !.rec.phase = Apologizing]) IN
                IF w.rec.accd THEN Queue(w1, M("apol", w.rec.poly)) ELSE w1
           [] w.rec.phase = Apologizing ->
                (* finalizeDKG: puredkg row deleted, result + vote + eon key queued *)
                LET full == w.rec.own /\ w.rec.recv = Others /\ (w.rec.accd => w.rec.apst) IN
                Queue([w EXCEPT !.has = FALSE, !.rec = NoRec, !.db.pure = FALSE, !.db.rec = NoRec, !.db.evp = 0,
                                !.db.res = IF full THEN "full" ELSE "other",
                                !.db.eonkeys = IF full THEN @ + 1 ELSE @],
                      M("result", 0))
           [] OTHER -> w
Shift(w, h) == LET t == PhaseAt(h) IN ShiftOnce(ShiftOnce(ShiftOnce(w, t), t), t)

(* the events of block h in the order handleBlock applies them *)
HandleOwn(w, m) ==
    IF ~w.has THEN w
    ELSE CASE m.k = "commit" -> IF w.rec.phase <= Dealing /\ ~w.rec.own /\ ~w.blocked THEN Dirty([w EXCEPT !.rec.own = TRUE]) ELSE w
           [] m.k = "apol"   -> IF w.rec.phase = Apologizing THEN Dirty([w EXCEPT !.rec.apst = TRUE]) ELSE w
           [] OTHER -> w      \* own evaluations are skipped, own accusations do not concern me

RECURSIVE HandleOwns(_, _)
HandleOwns(w, ms) == IF ms = <<>> THEN w ELSE HandleOwns(HandleOwn(w, Head(ms)), Tail(ms))

HandleFixed(w, h) ==
    LET w1 == IF w.has /\ h = DealBlock /\ w.rec.phase <= Dealing /\ ~w.blocked THEN Dirty([w EXCEPT !.rec.recv = Others]) ELSE w
    IN IF w1.has /\ h = AccBlock /\ w1.rec.phase = Accusing THEN Dirty([w1 EXCEPT !.rec.accd = TRUE]) ELSE w1

(* block 0 (the eon of an already registered keyper set is restarted): handleEonStarted creates
   the object (dirty) and shifts it to Dealing: startPhase1Dealing draws the polynomial and queues
   the commitment; the BeforeSaveHook (sendPolyEvals) queues the evaluations in the same
   transaction *)
(* handleBatchConfig (governance prefix): check-in queued, config row inserted, the keyper's own
   unsent vote purged by description *)
HandleBatchConfig(w) ==
    LET w1 == Queue([w EXCEPT !.db.cfgseen = TRUE], M("checkin", 0)) IN
    IF PurgeMode = "match"
    THEN [w1 EXCEPT !.db.outbox = SelectSeq(@, LAMBDA m : m.k # "vote"), !.nq = SelectSeq(@, LAMBDA m : m.k # "vote")]
    ELSE w1

HandleBlock0(w0, fresh) ==
    LET w == IF Gov THEN HandleBatchConfig(w0) ELSE w0
        w2 == Dirty([w EXCEPT !.has = TRUE, !.rec = [NoRec EXCEPT !.phase = Dealing, !.poly = fresh],
                              !.db.evp = IF LateCheckin > 0 THEN fresh ELSE 0])
    IN Queue(Queue(w2, M("commit", fresh)), M("eval", fresh))

(* handleCheckIn stores the key; sendPolyEvals (BeforeSaveHook of every block) then finds the waiting
   evaluation and queues a second poly-eval message with the same description *)
HandleLateCheckin(w, h) ==
    IF h = LateCheckin /\ w.db.evp # 0 THEN Queue([w EXCEPT !.db.evp = 0], M("eval2", w.db.evp)) ELSE w

(* overlapping eons: shiftPhases of block 1 finalises the previous eon (failed) and queues its vote *)
HandleOverlap(w, h) == IF Overlap /\ h = 1 THEN Queue(w, M("old", 0)) ELSE w

(* smdriver.handleBlock for block h = db.sync + 1, inside one database transaction:
   [mem, db] = memory afterwards and staged database *)
TxBody(s, h) ==
    LET m1 == Load(s.mem, s.db)
        w0 == [has |-> m1.has, rec |-> m1.rec, blocked |-> m1.blocked, dirty |-> FALSE, nq |-> <<>>,
               db |-> [s.db EXCEPT !.sync = h, !.rows = Append(@, h)]]
        w1 == HandleOverlap(Shift(w0, h), h)
        w2 == IF h = 0 THEN HandleBlock0(w1, FreshPoly(s))
              ELSE HandleLateCheckin(HandleFixed(HandleOwns(w1, s.blocks[h + 1]), h), h)
        (* Save: the object, if there is one and it is dirty, is written back *)
        w3 == IF w2.has /\ w2.dirty THEN [w2 EXCEPT !.db.pure = TRUE, !.db.rec = w2.rec] ELSE w2
    IN [mem |-> [m1 EXCEPT !.has = w3.has, !.rec = w3.rec], db |-> w3.db, nq |-> w3.nq]

(* shuttermint's answer to a broadcast of this keyper *)
Seen(app, m) ==
    CASE m.k = "checkin" -> TRUE           \* already checked in before the eon
      [] m.k = "commit"  -> app.commit
      [] m.k = "eval"    -> app.eval
      [] m.k = "eval2"   -> app.eval2
      [] m.k = "old"     -> TRUE           \* the harness cast this keyper's failure vote when it restarted the eon
      [] m.k = "acc"     -> app.acc
      [] m.k = "apol"    -> app.apol
      [] m.k = "result"  -> app.vote
      [] m.k = "bseen"   -> FALSE          \* BlockSeen reports are always accepted
      [] m.k = "vote"    -> TRUE           \* the config is registered by the other keypers' votes first
Mark(app, m) ==
    CASE m.k = "commit"  -> [app EXCEPT !.commit = TRUE]
      [] m.k = "eval"    -> [app EXCEPT !.eval = TRUE]
      [] m.k = "eval2"   -> [app EXCEPT !.eval2 = TRUE]
      [] m.k = "acc"     -> [app EXCEPT !.acc = TRUE]
      [] m.k = "apol"    -> [app EXCEPT !.apol = TRUE]
      [] m.k = "result"  -> [app EXCEPT !.vote = TRUE]
      [] OTHER -> app
MakesEvent(m) == m.k \in {"commit", "eval", "eval2", "acc", "apol"}

----------------------------------------------------------------------------
(* actions, as operators state -> state (guards separate) *)

CanTxBody(s)   == s.mem.alive /\ s.pc = "sync" /\ ~s.tx.on /\ s.db.sync < s.head
DoTxBody(s)    == LET x == TxBody(s, s.db.sync + 1) IN [s EXCEPT !.mem = x.mem, !.tx = [on |-> TRUE, db |-> x.db, nq |-> x.nq]]

CanTxCommit(s) == s.mem.alive /\ s.tx.on
DoTxCommit(s)  == [s EXCEPT !.db = s.tx.db, !.tx.on = FALSE,
                             !.queued = @ \o s.tx.nq]

(* sync() / fetchEvents2 applies the closed blocks one transaction after the other and returns when
   every closed block is applied; then the outbox is sent *)
CanSyncDone(s) == s.pc = "sync" /\ ~s.tx.on /\ s.db.sync = s.head /\ s.mem.alive
DoSyncDone(s)  == [s EXCEPT !.pc = IF s.head = LastBlock THEN "done" ELSE "post"]

(* deliverBatchConfig for a vote that arrives after the config was STARTED (block 1 closed):
   "checkConfig: config index of next config not greater than current one" -> Error; SendMessage
   returns a RemoteError, SendShutterMessages keeps the row and returns: the head blocks the outbox *)
Refused(s, m) == m.k = "vote" /\ s.head >= 1

CanSendHead(s) == s.mem.alive /\ s.pc = "post" /\ ~s.inflight /\ ~s.stuck /\ s.db.outbox # <<>>
DoSendHead(s)  ==
    LET m == Head(s.db.outbox)
        seen == Seen(s.app, m)
    IN IF Refused(s, m)
       THEN [s EXCEPT !.sent = Append(@, [k |-> m.k, p |-> m.p, code |-> CodeError]), !.stuck = TRUE]
       ELSE
       [s EXCEPT !.sent = Append(@, [k |-> m.k, p |-> m.p, code |-> IF seen THEN CodeSeen ELSE CodeOk]),
                 !.app = IF seen THEN @ ELSE Mark(@, m),
                 !.open = IF ~seen /\ MakesEvent(m) THEN Append(@, m) ELSE @,
                 !.inflight = TRUE]

CanDeleteHead(s) == s.mem.alive /\ s.inflight
DoDeleteHead(s)  == [s EXCEPT !.db.outbox = Tail(@), !.inflight = FALSE]

(* the harness closes the block when the keyper has nothing left to send *)
CanClose(s) == s.mem.alive /\ s.pc = "post" /\ ~s.inflight /\ (s.db.outbox = <<>> \/ s.stuck) /\ s.head < LastBlock
DoClose(s)  == [s EXCEPT !.head = @ + 1, !.blocks = Append(@, s.open), !.open = <<>>, !.stuck = FALSE,
                          !.pc = IF SyncNow(s.head + 1) THEN "sync" ELSE "post"]

(* the process dies: memory, open transaction and in-flight knowledge are gone *)
CanCrash(s) == s.mem.alive /\ s.pc # "done" /\ s.crashes < MaxCrashes
DoCrash(s)  == [s EXCEPT !.mem = MemDead, !.tx.on = FALSE, !.inflight = FALSE, !.stuck = FALSE, !.crashes = @ + 1]

CanRestart(s) == ~s.mem.alive /\ s.pc # "down"
DoRestart(s)  == [s EXCEPT !.mem = MemFresh]

(* governance prefix: handleOnChainChanges in one transaction (atomic here: a crash inside it leaves
   nothing behind): the vote and a BlockSeen report are queued; with DownUntil > 0 the process dies
   right after the commit *)
CanGovTx(s) == s.mem.alive /\ s.pc = "gov"
DoGovTx(s)  ==
    LET s1 == [s EXCEPT !.db.outbox = @ \o <<M("vote", 0), M("bseen", 0)>>,
                        !.queued = @ \o <<M("vote", 0), M("bseen", 0)>>] IN
    IF DownUntil > 0 THEN [s1 EXCEPT !.pc = "down", !.mem = MemDead] ELSE [s1 EXCEPT !.pc = "post"]

(* the chain goes on while the keyper is down; it comes back when block DownUntil is open and first
   catches up (SyncAppWithDB over every closed block), then sends *)
CanCloseDown(s) == s.pc = "down" /\ s.head + 1 < DownUntil
DoCloseDown(s)  == [s EXCEPT !.head = @ + 1, !.blocks = Append(@, <<>>)]
CanUp(s) == s.pc = "down" /\ s.head + 1 = DownUntil
DoUp(s)  == [s EXCEPT !.mem = MemFresh, !.pc = "sync"]

(* the state the harness starts from: block 0 is closed, not yet applied; governance prefix: nothing
   is closed yet, block 0 is open *)
InitState == IF Gov THEN [Init0 EXCEPT !.head = -1, !.pc = "gov"]
             ELSE [Init0 EXCEPT !.blocks = <<<<>>>>, !.pc = IF SyncNow(0) THEN "sync" ELSE "post"]

=============================================================================
