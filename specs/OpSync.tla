------------------------------- MODULE OpSync -------------------------------
(***************************************************************************)
(* Code-shaped layer of the generic chain-sync client and its main user,   *)
(* the OPTIMISM keyper (growth stage of C15, the syncer family):           *)
(*   medley/chainsync/client.go, options.go        Client, NewClient       *)
(*   medley/chainsync/syncer/keyperset.go          KeyperSetSyncer         *)
(*   medley/chainsync/syncer/eonpubkey.go          EonPubKeySyncer         *)
(*   medley/chainsync/syncer/shutterstate.go       ShutterStateSyncer      *)
(*   medley/chainsync/syncer/unsafehead.go         UnsafeHeadSyncer        *)
(*   keyperimpl/optimism/keyper.go                 newBlock, newKeyperSet  *)
(*   keyper/epochkghandler/service.go, sendkeyshare.go   the consumer of   *)
(*       the decryption trigger channel (KeyShareHandler.handleEvent)      *)
(*   chainobserver/db/keyper InsertKeyperSet (ON CONFLICT DO NOTHING),     *)
(*   keyper/database GetEonForBlockNumber                                  *)
(* and of the contracts they read (shop-contracts KeyperSetManager,        *)
(* KeyBroadcastContract, KeyperSet; RestrictedPausable).                   *)
(*                                                                         *)
(* THE CHAIN is the block tree of ChainSync.tla (INSTANCE CS: AncSelf,     *)
(* IsAnc, CanonAt, NumOf, LCA); a block carries at most one contract       *)
(* event  ev = [t, x, y]:                                                  *)
(*   "ks"      KeyperSetAdded of keyper-set token x (KS[x] = [act, mem]:   *)
(*             activation block, is THIS keyper a member); the index (eon) *)
(*             the contract gives it is its position on the branch         *)
(*   "ek"      EonKeyBroadcast(eon x, key token y)                         *)
(*   "pause" / "unpause"   Paused / Unpaused of the KeyperSetManager       *)
(* The contract state AT a block is the fold of the events on its branch   *)
(* (SetsAt, KeyAt, PausedAt); KS[1] is the keyper set the manager holds at *)
(* the root (index 0, activation block 0).                                 *)
(*                                                                         *)
(* THE NODE behaves like go-ethereum (eth/filters): a log subscription     *)
(* hears only about logs of blocks that become canonical AFTER it was made *)
(* (fromBlock is a lower bound, nothing is replayed; NodeSub = "new"), on  *)
(* a reorg first the logs of the abandoned blocks again with removed =     *)
(* TRUE, then the logs of the new blocks, in ascending block order; a head *)
(* subscription hears every block that becomes canonical.  NodeSub =       *)
(* "from" is the node the authors seem to have had in mind (the comment in *)
(* KeyperSetSyncer.Start): a subscription first replays the canonical logs *)
(* from fromBlock on.  What the node has produced and the client has not   *)
(* yet processed is the per-subscription queue q[c][s]; WHEN an entry is   *)
(* processed is up to the environment (late), heads may be dropped or      *)
(* swapped by it.                                                          *)
(*                                                                         *)
(* THE CLIENT c is  cl[c] = [up, S, pc, polled, subs]:  S the sync start   *)
(* block NewClient fixes (options.apply: BlockNumber() when the start is   *)
(* "latest"), pc the next start-up phase of Client.Start (the services run *)
(* their Start one after the other, options.apply order):                  *)
(*   ksF  KeyperSetSyncer: getInitialKeyperSets at block S + handler calls *)
(*   ksS  WatchKeyperSetAdded(Start = S)                                   *)
(*   ekF  EonPubKeySyncer: getInitialPubKeys at block S + handler calls    *)
(*   ekS  WatchEonKeyBroadcast(Start = S)                                  *)
(*   ssS  ShutterStateSyncer: WatchPaused + WatchUnpaused(Start = S)       *)
(*   uhS  UnsafeHeadSyncer: SubscribeNewHead                               *)
(* and, in its own goroutine once ssS is done,  poll: Paused() at "latest" *)
(* + handler call.  The window between a fetch phase and its subscribe     *)
(* phase is two separate actions, so the environment can put blocks into   *)
(* it.  A failing phase ends Client.Start with an error: the errgroup      *)
(* cancels everything (the client is down).                                *)
(*                                                                         *)
(* DEFECT CLASSES are named alternatives, default = the tree as found:     *)
(*   RemovedLogs "forward": a log with removed = TRUE is processed like a  *)
(*               new one (no syncer looks at Raw.Removed) | "skip"         *)
(*   EonOf       "recompute": KeyperSetSyncer.newEvent ignores the event's *)
(*               eon and asks GetKeyperSetIndexByBlock(activationBlock) at *)
(*               the block NUMBER of the log (the canonical block with     *)
(*               that number when the notification is processed); members  *)
(*               and threshold are re-read there too | "event"             *)
(*   Window      "open": nothing fetches the blocks between S and the      *)
(*               moment the subscription is made | "closed": the subscribe *)
(*               phase also handles the canonical events of (S, head]      *)
(*   EmptyKey    "deliver": getInitialPubKeys hands an eon without a       *)
(*               broadcast key to the handler with an EMPTY key (GetEonKey *)
(*               of an unset mapping entry is no error) | "skip"           *)
(*   OnConflict  "nothing": InsertKeyperSet .. ON CONFLICT DO NOTHING: the *)
(*               first row written for an index stays | "update"           *)
(*   TrigOffset  0: newBlock(N) triggers identity N with BlockNumber N     *)
(*               (the eon is looked up for block N) | 1: for block N + 1   *)
(***************************************************************************)
EXTENDS Integers, Sequences, FiniteSets, TLC

CONSTANTS
    KS,          \* keyper-set tokens: sequence of [act, mem]
    NC,          \* number of clients (keypers) observing the one chain
    Handlers,    \* registered handlers, subset of {"ks", "ek", "ss", "uh"} (op keyper: {"ks", "uh"})
    NodeSub,     \* "new" | "from"
    RemovedLogs, EonOf, Window, EmptyKey, OnConflict, TrigOffset

CS == INSTANCE ChainSync

Huge == 1000000        \* stands for an activation block >= 2^63 (Uint64ToInt64Safe fails)
Clients == 1..NC

Ev(t, x, y) == [t |-> t, x |-> x, y |-> y]
NoEv == Ev("none", 0, 0)
Blk(n, p, e) == [num |-> n, par |-> p, ev |-> e]
Root == Blk(0, -1, NoEv)

MaxOf(S) == CHOOSE x \in S : \A y \in S : y <= x

----------------------------------------------------------------------------
(* contract state at block b *)
RECURSIVE PathTo(_, _)
PathTo(blk, b) == IF b < 1 THEN <<>> ELSE Append(PathTo(blk, blk[b].par), b)

(* KeyperSetManager.keyperSets on the branch of b: tokens in the order they were added *)
SetsAt(blk, b) ==
    LET s == SelectSeq(PathTo(blk, b), LAMBDA i : blk[i].ev.t = "ks") IN
    <<1>> \o [j \in DOMAIN s |-> blk[s[j]].ev.x]

(* KeyBroadcastContract.keys[e] (0: unset, getEonKey returns empty bytes) *)
KeyAt(blk, b, e) ==
    LET s == SelectSeq(PathTo(blk, b), LAMBDA i : blk[i].ev.t = "ek" /\ blk[i].ev.x = e) IN
    IF s = <<>> THEN 0 ELSE blk[s[1]].ev.y

PausedAt(blk, b) ==
    LET s == SelectSeq(PathTo(blk, b), LAMBDA i : blk[i].ev.t \in {"pause", "unpause"}) IN
    s # <<>> /\ blk[s[Len(s)]].ev.t = "pause"

(* getKeyperSetIndexByBlock(n): the LAST set whose activation block is <= n (-1: revert) *)
IndexByBlock(sets, n) ==
    LET c == {i \in 1..Len(sets) : KS[sets[i]].act <= n} IN
    IF c = {} THEN -1 ELSE MaxOf(c) - 1

PosIn(seq, x) == IF \E i \in DOMAIN seq : seq[i] = x THEN CHOOSE i \in DOMAIN seq : seq[i] = x ELSE 0

(* would the contracts emit ev in a child of p?  addKeyperSet: activationBlock >=
   max(last.activationBlock, block.number + 1); broadcastEonKey: the eon exists and has no key;
   pause / unpause: RestrictedPausable *)
Accepts(blk, p, ev) ==
    LET sets == SetsAt(blk, p)
        n    == blk[p].num + 1 IN
    CASE ev.t = "none"    -> TRUE
      [] ev.t = "ks"      -> /\ PosIn(sets, ev.x) = 0
                             /\ KS[ev.x].act >= KS[sets[Len(sets)]].act
                             /\ KS[ev.x].act >= n + 1
      [] ev.t = "ek"      -> ev.x < Len(sets) /\ KeyAt(blk, p, ev.x) = 0 /\ ev.y # 0
      [] ev.t = "pause"   -> ~PausedAt(blk, p)
      [] ev.t = "unpause" -> PausedAt(blk, p)

----------------------------------------------------------------------------
(* the node: what the subscriptions of a client hear when the head moves from o to n *)
SubOf(t) == CASE t = "ks" -> "ks" [] t = "ek" -> "ek" [] t = "pause" -> "pa" [] t = "unpause" -> "un" [] OTHER -> "-"
SubKinds == {"ks", "ek", "pa", "un", "hd"}
EmptyQ == [s \in SubKinds |-> <<>>]
Note(b, rm) == [b |-> b, rm |-> rm]

(* blocks of the branch of x that are not on the branch of a, ascending *)
Above(blk, x, a) == SelectSeq(PathTo(blk, x), LAMBDA i : ~CS!IsAnc(blk, i, a))

LogNotes(blk, path, s, from, rm) ==
    LET m == SelectSeq(path, LAMBDA i : SubOf(blk[i].ev.t) = s /\ blk[i].num >= from) IN
    [j \in DOMAIN m |-> Note(m[j], rm)]

HeadMoved(blk, o, n, c, qc) ==
    LET old == Above(blk, o, n)
        new == Above(blk, n, o) IN
    [s \in SubKinds |->
        IF s \notin c.subs THEN qc[s]
        ELSE IF s = "hd" THEN qc[s] \o [j \in DOMAIN new |-> Note(new[j], FALSE)]
        ELSE qc[s] \o LogNotes(blk, old, s, c.S, TRUE) \o LogNotes(blk, new, s, c.S, FALSE)]

(* a subscription is made: NodeSub = "from" replays the canonical logs from block S on *)
Subscribed(blk, head, c, qc, s) ==
    IF NodeSub = "from" /\ s # "hd"
    THEN [qc EXCEPT ![s] = LogNotes(blk, PathTo(blk, head), s, c.S, FALSE)]
    ELSE [qc EXCEPT ![s] = <<>>]

----------------------------------------------------------------------------
(* observed calls: handler calls, triggers, what a syncer dropped, a failed start *)
Call(h, a, b, c, r) == [h |-> h, a |-> a, b |-> b, c |-> c, r |-> r]

(* the optimism keyper's database: keyper_set rows (chainobserver schema), eons rows with the
   membership of the batch config they point to, decryption_key_share rows of this keyper *)
KsRow(idx, tok, act) == [idx |-> idx, tok |-> tok, act |-> act]
EmptyDB == [ks |-> {}, eons |-> {}, sh |-> {}]

InsertKs(rows, r) ==
    IF \E o \in rows : o.idx = r.idx
    THEN IF OnConflict = "update" THEN {o \in rows : o.idx # r.idx} \cup {r} ELSE rows
    ELSE rows \cup {r}

(* keyperimpl/optimism newKeyperSet: Uint64ToInt64Safe of eon, activation block, threshold, then
   InsertKeyperSet in a transaction *)
NewKeyperSet(dbc, eon, tok, act) ==
    IF act >= Huge THEN [db |-> dbc, r |-> "err"]
    ELSE [db |-> [dbc EXCEPT !.ks = InsertKs(@, KsRow(eon, tok, act))], r |-> "ok"]

(* KeyShareHandler.handleEvent for a trigger (blockNumber, one identity):
   GetEonForBlockNumber (ORDER BY activation_block_number DESC, height DESC), GetKeyperIndex of the
   eon's batch config, ExistsDecryptionKeyShare, InsertDecryptionKeySharesMsg, SendMessage.
   The result classes "notkeyper" and "already" are meant to be ignored requests, but
   errors.Wrap(ErrNotAKeyper, ErrIgnoreDecryptionRequest.Error()) wraps the specific error with the
   TEXT of the ignore error, so errors.Is(err, ErrIgnoreDecryptionRequest) is never true: as found,
   both end in ev.SetResult(err) and an error-level log line, like "noeon". *)
HandleTrigger(dbc, bn, id) ==
    LET rows == {e \in dbc.eons : e.act <= bn} IN
    IF rows = {} THEN [db |-> dbc, eon |-> -1, r |-> "noeon"]
    ELSE LET e == CHOOSE e \in rows : \A o \in rows : o.act < e.act \/ (o.act = e.act /\ o.eon <= e.eon) IN
         IF ~e.mem THEN [db |-> dbc, eon |-> e.eon, r |-> "notkeyper"]
         ELSE IF [eon |-> e.eon, id |-> id] \in dbc.sh THEN [db |-> dbc, eon |-> e.eon, r |-> "already"]
         ELSE [db |-> [dbc EXCEPT !.sh = @ \cup {[eon |-> e.eon, id |-> id]}], eon |-> e.eon, r |-> "sent"]

(* UnsafeHeadSyncer -> optimism newBlock -> trigger channel -> KeyShareHandler *)
NewBlock(dbc, num, bid) ==
    LET bn == num + TrigOffset
        k  == HandleTrigger(dbc, bn, bn) IN
    [db |-> k.db, out |-> <<Call("hd", num, bid, 0, "ok"), Call("trig", bn, bn, 0, "ok"), Call("ksh", bn, k.eon, 0, k.r)>>]

(* fold a sequence of keyper-set events <<[eon, tok, act]>> through the handler *)
RECURSIVE HandleKs(_, _, _)
HandleKs(dbc, evs, i) ==
    IF i > Len(evs) THEN [db |-> dbc, out |-> <<>>]
    ELSE LET h == NewKeyperSet(dbc, evs[i].eon, evs[i].tok, evs[i].act)
             rest == HandleKs(h.db, evs, i + 1) IN
         [db |-> rest.db, out |-> <<Call("ks", evs[i].eon, evs[i].tok, evs[i].act, h.r)>> \o rest.out]

KsEv(eon, tok) == [eon |-> eon, tok |-> tok, act |-> KS[tok].act]

(* KeyperSetSyncer.newEvent for token tok with the contract state sets: the eon *)
EonFor(sets, tok, own) == IF EonOf = "recompute" THEN IndexByBlock(sets, KS[tok].act) ELSE own

(* getInitialKeyperSets at block c0: the set active at block S, then GetKeyperSetByIndex for
   i = (its eon) + 1 .. numKS - 1 *)
RECURSIVE ByIndexFrom(_, _)
ByIndexFrom(sets, i) ==
    IF i > Len(sets) - 1 THEN <<>>
    ELSE <<KsEv(EonFor(sets, sets[i + 1], i), sets[i + 1])>> \o ByIndexFrom(sets, i + 1)
InitialKs(sets, S) ==
    LET idx   == IndexByBlock(sets, S)
        first == KsEv(EonFor(sets, sets[idx + 1], idx), sets[idx + 1]) IN
    <<first>> \o ByIndexFrom(sets, first.eon + 1)

(* getInitialPubKeys at block c0: eons  IndexByBlock(S) .. numKS - 1 *)
RECURSIVE InitialEk(_, _, _, _, _)
InitialEk(blk, c0, i, n, S) ==
    IF i > n - 1 THEN <<>>
    ELSE LET k == KeyAt(blk, c0, i) IN
         (IF k = 0 /\ EmptyKey = "skip" THEN <<>> ELSE <<Call("ek", i, k, S, "ok")>>) \o InitialEk(blk, c0, i + 1, n, S)

(* the canonical events of kind s in the blocks (lo, head]: what Window = "closed" adds *)
WindowNotes(blk, head, s, lo) == LogNotes(blk, PathTo(blk, head), s, lo + 1, FALSE)

----------------------------------------------------------------------------
(* the client *)
AllPhases == <<"ksF", "ksS", "ekF", "ekS", "ssS", "uhS">>
SyncerOf(p) == CASE p \in {"ksF", "ksS"} -> "ks" [] p \in {"ekF", "ekS"} -> "ek" [] p = "ssS" -> "ss" [] OTHER -> "uh"
Phases == SelectSeq(AllPhases, LAMBDA p : SyncerOf(p) \in Handlers)
Running(c) == c.up /\ c.pc > Len(Phases)
Down == [up |-> FALSE, S |-> 0, pc |-> 0, polled |-> FALSE, subs |-> {}]

World(blk, head, cl, q, db) == [blk |-> blk, head |-> head, cl |-> cl, q |-> q, db |-> db]
World0 == World(<<Root>>, 1, [c \in Clients |-> Down], [c \in Clients |-> EmptyQ], [c \in Clients |-> EmptyDB])

Res(w, out) == [w |-> w, out |-> out]
Died(w, c, what) ==
    Res([w EXCEPT !.cl[c] = Down, !.q[c] = EmptyQ], <<Call("fail", 0, 0, 0, what)>>)

(* processing ONE notification of subscription s (the body of the watch loops) *)
ProcessNote(w, c, s, n, f) ==
    LET blk == w.blk
        b   == n.b
        num == blk[b].num IN
    CASE s = "hd" ->
           LET x == NewBlock(w.db[c], num, b) IN Res([w EXCEPT !.db[c] = x.db], x.out)
      [] s = "ks" ->
           IF n.rm /\ RemovedLogs = "skip" THEN Res(w, <<>>)
           ELSE LET c0  == CS!CanonAt(blk, w.head, num)         \* logToCallOpts: BY NUMBER, at processing time
                    tok == blk[b].ev.x
                    own == PosIn(SetsAt(blk, b), tok) - 1 IN
                IF EonOf = "recompute" /\ f = "rpc" THEN Res(w, <<Call("drop", num, tok, 0, "rpc")>>)
                ELSE IF EonOf = "recompute" /\ c0 = 0 THEN Res(w, <<Call("drop", num, tok, 0, "nohdr")>>)
                ELSE LET eon == EonFor(SetsAt(blk, c0), tok, own)
                         h   == HandleKs(w.db[c], <<KsEv(eon, tok)>>, 1) IN
                     Res([w EXCEPT !.db[c] = h.db], h.out)
      [] s = "ek" ->
           IF n.rm /\ RemovedLogs = "skip" THEN Res(w, <<>>)
           ELSE Res(w, <<Call("ek", blk[b].ev.x, blk[b].ev.y, num, "ok")>>)
      [] s = "pa" -> Res(w, <<Call("ss", 0, 0, 0, "ok")>>)
      [] s = "un" -> Res(w, <<Call("ss", 1, 0, 0, "ok")>>)

RECURSIVE ProcessAll(_, _, _, _, _)
ProcessAll(w, c, s, notes, i) ==
    IF i > Len(notes) THEN Res(w, <<>>)
    ELSE LET x == ProcessNote(w, c, s, notes[i], "none")
             r == ProcessAll(x.w, c, s, notes, i + 1) IN
         Res(r.w, x.out \o r.out)

(* one start-up phase of client c under fault f *)
StartPhase(w, c, f) ==
    LET me  == w.cl[c]
        p   == Phases[me.pc]
        c0  == CS!CanonAt(w.blk, w.head, me.S)
        nxt == [me EXCEPT !.pc = @ + 1]
        sub(ss) == LET m2 == [nxt EXCEPT !.subs = @ \cup ss] IN
                   [w EXCEPT !.cl[c] = m2,
                             !.q[c] = [s \in SubKinds |-> IF s \in ss THEN Subscribed(w.blk, w.head, m2, w.q[c], s)[s] ELSE w.q[c][s]]]
    IN
    IF f = "rpc" THEN Died(w, c, p)
    ELSE CASE p = "ksF" ->
                IF c0 = 0 THEN Died(w, c, p)                    \* eth_call at a block number above the head
                ELSE LET h == HandleKs(w.db[c], InitialKs(SetsAt(w.blk, c0), me.S), 1) IN
                     Res([w EXCEPT !.cl[c] = nxt, !.db[c] = h.db], h.out)
           [] p = "ksS" ->
                LET w1 == sub({"ks"}) IN
                IF Window = "closed" THEN ProcessAll(w1, c, "ks", WindowNotes(w.blk, w.head, "ks", me.S), 1) ELSE Res(w1, <<>>)
           [] p = "ekF" ->
                IF c0 = 0 THEN Died(w, c, p)
                ELSE LET sets == SetsAt(w.blk, c0) IN
                     Res([w EXCEPT !.cl[c] = nxt], InitialEk(w.blk, c0, IndexByBlock(sets, me.S), Len(sets), me.S))
           [] p = "ekS" ->
                LET w1 == sub({"ek"}) IN
                IF Window = "closed" THEN ProcessAll(w1, c, "ek", WindowNotes(w.blk, w.head, "ek", me.S), 1) ELSE Res(w1, <<>>)
           [] p = "ssS" -> Res(sub({"pa", "un"}), <<>>)
           [] p = "uhS" -> Res(sub({"hd"}), <<>>)

(* actions.  a = [a, c, p, e, s, f]:  a name, c client (0: environment), p block / index,
   e event, s subscription, f fault ("none" | "rpc") *)
Act(a, c, p, e, s, f) == [a |-> a, c |-> c, p |-> p, e |-> e, s |-> s, f |-> f]

NewHead(w, n) ==
    [w EXCEPT !.head = n,
              !.q = [c \in Clients |-> HeadMoved(w.blk, w.head, n, w.cl[c], w.q[c])]]

ApplyAct(w, a) ==
    LET c == a.c IN
    CASE a.a = "mine" ->     \* a block on top of canonical block p becomes the head
           LET b1 == Append(w.blk, Blk(w.blk[a.p].num + 1, a.p, a.e))
               w1 == [w EXCEPT !.blk = b1] IN
           Res(NewHead(w1, Len(b1)), <<>>)
      [] a.a = "switch" -> Res(NewHead(w, a.p), <<>>)
      [] a.a = "new" ->      \* chainsync.NewClient: options.apply fixes the sync start
           IF a.f = "rpc" THEN Res(w, <<Call("fail", 0, 0, 0, "new")>>)
           ELSE Res([w EXCEPT !.cl[c] = [up |-> TRUE, S |-> w.blk[w.head].num, pc |-> 1, polled |-> FALSE, subs |-> {}],
                              !.q[c] = EmptyQ], <<>>)
      [] a.a = "start" -> StartPhase(w, c, a.f)
      [] a.a = "poll" ->     \* watchPaused: pollIsActive at "latest", then the handler
           IF a.f = "rpc" THEN Died(w, c, "poll")
           ELSE Res([w EXCEPT !.cl[c].polled = TRUE],
                    <<Call("ss", IF PausedAt(w.blk, w.head) THEN 0 ELSE 1, 0, 0, "ok")>>)
      [] a.a = "dlv" ->
           LET n == Head(w.q[c][a.s])
               w1 == [w EXCEPT !.q[c][a.s] = Tail(@)] IN
           ProcessNote(w1, c, a.s, n, a.f)
      [] a.a = "skip" -> Res([w EXCEPT !.q[c].hd = Tail(@)], <<>>)
      [] a.a = "swap" -> Res([w EXCEPT !.q[c].hd = <<@[2], @[1]>> \o SubSeq(@, 3, Len(@))], <<>>)
      [] a.a = "stop" -> Res([w EXCEPT !.cl[c] = Down, !.q[c] = EmptyQ], <<>>)
      [] a.a = "dkg" ->      \* shuttermint + DKG turn the keyper_set row with index p into an eon
           LET r == CHOOSE r \in w.db[c].ks : r.idx = a.p IN
           Res([w EXCEPT !.db[c].eons = @ \cup {[eon |-> r.idx, act |-> r.act, mem |-> KS[r.tok].mem]}], <<>>)

(* is the action possible at all (its parameters fit the world)? *)
CanApply(w, a) ==
    LET c == a.c IN
    CASE a.a = "mine"   -> a.p \in DOMAIN w.blk /\ CS!IsAnc(w.blk, a.p, w.head) /\ Accepts(w.blk, a.p, a.e)
      [] a.a = "switch" -> a.p \in DOMAIN w.blk /\ a.p # w.head
      [] a.a = "new"    -> ~w.cl[c].up
      [] a.a = "start"  -> w.cl[c].up /\ w.cl[c].pc <= Len(Phases)
      [] a.a = "poll"   -> w.cl[c].up /\ "pa" \in w.cl[c].subs /\ ~w.cl[c].polled
      [] a.a = "dlv"    -> w.cl[c].up /\ a.s \in w.cl[c].subs /\ w.q[c][a.s] # <<>>
                           /\ (a.s \in {"pa", "un"} => w.cl[c].polled)     \* the watch loop starts after the poll
      [] a.a = "skip"   -> w.cl[c].up /\ Len(w.q[c].hd) >= 1
      [] a.a = "swap"   -> w.cl[c].up /\ Len(w.q[c].hd) >= 2
      [] a.a = "stop"   -> w.cl[c].up
      [] a.a = "dkg"    -> (\E r \in w.db[c].ks : r.idx = a.p) /\ ~(\E e \in w.db[c].eons : e.eon = a.p)
      [] OTHER -> FALSE

(* nothing in flight for client c *)
Quiet(w, c) ==
    /\ Running(w.cl[c])
    /\ ("ss" \in Handlers => w.cl[c].polled)
    /\ \A s \in SubKinds : w.q[c][s] = <<>>

=============================================================================
